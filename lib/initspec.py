# The text layer of --symbol-base (property C16): case encoding for the
# extracted model (group "initspec", coq/Exec/CodecInitSpec.v), an oracle for
# the property written from the Rust sources alone (input_parse.rs +
# rust_decimal 1.35 str.rs, independent of the Rocq model), generators.
import re

U64_MAX = 2 ** 64 - 1
WILL_OVERFLOW_U64 = U64_MAX // 10 - 255
OVERFLOW_U96 = 1 << 96

# char::is_whitespace (Unicode White_Space)
RUST_WS = set([9, 10, 11, 12, 13, 32, 0x85, 0xA0, 0x1680, 0x2028, 0x2029, 0x202F, 0x205F, 0x3000] + list(range(0x2000, 0x200B)))

CODES = {160: "parts", 161: "symbol-empty", 162: "shares-format", 163: "shares-negative",
         164: "acb-format", 165: "acb-negative", 99: "outside-model(underscore)"}


# ---------------------------------------------------------------- rust_decimal Decimal::from_str
def _invalid(b):
    if b == 46:
        return ("err", "Invalid decimal: two decimal points")
    if b == 95:
        return ("err", "Invalid decimal: must start lead with a number")
    return ("err", "Invalid decimal: unknown character")


def _handle_data(neg, has, data, scale):
    if not has:
        return ("err", "Invalid decimal: no digits found")
    # Decimal::from_parts: sign of zero cleared, scale % 29
    return ("ok", bool(neg and data != 0), data, scale % 29)


def _maybe_round(data, nb, scale, point, neg):
    if 48 <= nb <= 57:
        digit = nb - 48
    elif nb == 95:
        digit = 0
    elif nb == 46 and not point:
        digit = 0
    else:
        return _invalid(nb)
    if digit >= 5:
        data += 1
        if data >= OVERFLOW_U96:
            if scale == 0:
                return ("err", "Invalid decimal: overflow from mantissa after rounding")
            data += 4
            data //= 10
            scale -= 1
    return _handle_data(neg, True, data, scale)


def _full128(data, bs, i, scale, b, point, neg):
    while True:
        if 48 <= b <= 57:
            nxt = data * 10 + (b - 48)
            if nxt >= OVERFLOW_U96:
                if not point:
                    return ("err", "Invalid decimal: overflow from too many digits")
                return _maybe_round(data, b, scale, point, neg)
            data = nxt
            scale += 1 if point else 0
            if i >= len(bs):
                return _handle_data(neg, True, data, scale)
            n2 = bs[i]
            i += 1
            if point and scale >= 28:
                if n2 == 95:
                    if i >= len(bs):
                        return _handle_data(neg, True, data, scale)
                    b = bs[i]
                    i += 1
                    continue
                return _maybe_round(data, n2, scale, point, neg)
            b = n2
        elif (b == 46 and not point) or b == 95:
            if b == 46:
                point = True
            if i >= len(bs):
                return _handle_data(neg, True, data, scale)
            b = bs[i]
            i += 1
        else:
            return _invalid(b)


def rd_from_str(bs):
    """Decimal::from_str on the bytes bs: ("ok", negative, mantissa, scale) or ("err", message)"""
    bs = bytes(bs)
    if len(bs) == 0:
        return ("err", "Invalid decimal: empty")
    big = len(bs) >= 18
    point = neg = has = False
    first = True
    data = 0
    scale = 0
    b = bs[0]
    i = 1
    while True:
        if 48 <= b <= 57:
            data = data * 10 + (b - 48)
            assert data <= U64_MAX
            scale = scale + 1 if point else 0
            if i >= len(bs):
                return _handle_data(neg, True, data, scale)
            nb = bs[i]
            i += 1
            if point and big and scale >= 28:
                return _maybe_round(data, nb, scale, point, neg)
            if big and data >= WILL_OVERFLOW_U64:
                return _full128(data, bs, i, scale, nb, point, neg)
            has = True
            first = False
            b = nb
            continue
        if b == 46 and not point:
            point = True
        elif b == 45 and first and not has:
            neg = True
        elif b == 43 and first and not has:
            pass
        elif b == 95 and has:
            pass
        else:
            return _invalid(b)
        if i >= len(bs):
            return _handle_data(neg, has, data, scale)
        b = bs[i]
        i += 1
        first = False


def dec_display(neg, mant, scale):
    """Display of a Decimal"""
    ds = str(mant)
    if scale > 0:
        ds = ds.rjust(scale + 1, "0")
        ds = ds[:-scale] + "." + ds[-scale:]
    return ("-" if neg else "") + ds


def parse_display(s):
    """the decimal printed by Decimal::to_string -> (neg, mantissa, scale)"""
    neg = s.startswith("-")
    if neg:
        s = s[1:]
    if "." in s:
        w, f = s.split(".")
        return (neg, int(w + f), len(f))
    return (neg, int(s), 0)


# ---------------------------------------------------------------- the oracle for parse_initial_status
def rust_trim(s):
    a, b = 0, len(s)
    while a < b and ord(s[a]) in RUST_WS:
        a += 1
    while b > a and ord(s[b - 1]) in RUST_WS:
        b -= 1
    return s[a:b]


def oracle_spec(s):
    """one specification (a str): ("ok", symbol, shares, acb) with decimals as (neg, mant, scale),
    or ("err", code, message)"""
    parts = s.split(":")
    if len(parts) != 3:
        return ("err", 160, "Invalid ACB format '%s'" % s)
    sym = rust_trim(parts[0])
    if sym == "":
        return ("err", 161, "Symbol was empty")
    r = rd_from_str(parts[1].encode("utf-8"))
    if r[0] == "err":
        return ("err", 162, "Invalid shares format '%s'. %s" % (parts[1], r[1]))
    if r[1]:
        return ("err", 163, "Shares %s was negative" % dec_display(*r[1:]))
    sh = r[1:]
    r = rd_from_str(parts[2].encode("utf-8"))
    if r[0] == "err":
        return ("err", 164, "Invalid ACB format '%s'. %s" % (parts[2], r[1]))
    if r[1]:
        return ("err", 165, "ACB %s was negative" % dec_display(*r[1:]))
    return ("ok", sym, sh, r[1:])


def oracle(specs):
    """("ok", {symbol bytes: (shares, acb)}) or ("err", code, message): the first malformed
    specification decides, a later specification of a symbol replaces the earlier one"""
    m = {}
    for s in specs:
        r = oracle_spec(s)
        if r[0] == "err":
            return r
        m[tuple(r[1].encode("utf-8"))] = (r[2], r[3])
    return ("ok", m)


# ---------------------------------------------------------------- model / harness encodings
def enc_model(specs):
    l = [0, len(specs)]
    for s in specs:
        b = s.encode("utf-8")
        l.append(len(b))
        l.extend(b)
    return l


def parse_model(ints):
    """output of CodecInitSpec.dispatch -> ("ok", {symbol bytes: (shares, acb)}) | ("err", code) | ("bad", ints)"""
    if len(ints) < 2 or ints[0] != 1:
        return ("bad", ints)
    if ints[1] == 1:
        return ("err", ints[2])
    if ints[1] != 0:
        return ("bad", ints)
    n = ints[2]
    i = 3
    m = {}
    for _ in range(n):
        ln = ints[i]
        sym = tuple(ints[i + 1:i + 1 + ln])
        i += 1 + ln
        sh = (bool(ints[i]), ints[i + 1], ints[i + 2])
        ac = (bool(ints[i + 3]), ints[i + 4], ints[i + 5])
        i += 6
        if sym in m:
            return ("bad", ints)          # keys are unique (C16_last_spec_wins)
        m[sym] = (sh, ac)
    if i != len(ints):
        return ("bad", ints)
    return ("ok", m)


def enc_harness(specs):
    return {"specs": [list(s.encode("utf-8")) for s in specs]}


def parse_harness(o):
    """output of harness mode initspec -> ("ok", map, remarks) | ("err", message) | ("panic", text)"""
    if o.get("status") == "ok":
        m = {}
        remarks = []
        for e in o["entries"]:
            k = tuple(e["key"])
            sh = parse_display(e["sh"])
            if tuple(e["security"]) != k:
                remarks.append("entry %r carries security name %r" % (bytes(k), bytes(e["security"])))
            if e["all"] != e["sh"]:
                remarks.append("entry %r: all-affiliate balance %s, share balance %s" % (bytes(k), e["all"], e["sh"]))
            if e["acb"] is None:
                remarks.append("entry %r has no total cost" % (bytes(k),))
                ac = None
            else:
                ac = parse_display(e["acb"])
            m[k] = (sh, ac)
        return ("ok", m, remarks)
    if o.get("status") == "err":
        return ("err", o["err"])
    return ("panic", o.get("panic") or str(o))


def show_map(m):
    return {bytes(k).decode("utf-8", "replace"): [dec_display(*v[0]), dec_display(*v[1]) if v[1] is not None else None]
            for k, v in sorted(m.items())}


# ---------------------------------------------------------------- corpus and generators
WS = [" ", "\t", "\u00a0", "\n", "\x0b", "\x0c", "\r", "\x85", "\u1680", "\u2000", "\u2003", "\u200a", "\u2028",
      "\u2029", "\u202f", "\u205f", "\u3000"]
NOT_WS = ["\u200b", "\ufeff", "\x1c", "\x1f", "\u180e", "\x00", "\x7f", "\u2060"]     # look like blanks, are not White_Space
SYMBOLS = ["FOO", "foo", "Foo", "Brk.b", "BRK.B", "brk.b", "X", "a b", "\u00c9\u00e0", "\u00e9\u00c0", "\u65e5\u672c", "F-1", "F_1", "1", "-1",
           "FOO\u00a0BAR", "\u00df", "SS", "\u0131", "I", "i"]
AMOUNTS = ["0", "1", "10", "1.5", "0.005", "100.125", "1000.00", "0.00", "+1", "-1", "-0", "-0.0", "+0", "1.", ".5", ".", "", " ", "1 ",
           " 1", "\t1", "1\u00a0", "1e3", "1E3", "1e-3", "1_000", "1_0.0_1", "_1", "1_", "1__0", "._5", "1._5", "+_1", "1,000", "1.2.3", "--1", "+-1",
           "1-", "0x10", "NaN", "inf", "Infinity", "\u0663", "\uff11", "\u00bd", "1/2", "$1", "1$", "1.50 CAD",
           "79228162514264337593543950335", "79228162514264337593543950336", "7922816251426433759354395033.5",
           "7922816251426433759354395033.55", "79228162514264337593543950335.5", "123456789012345678901234567890",
           "0.0000000000000000000000000001", "0.00000000000000000000000000001", "0.00000000000000000000000000005",
           "0.00000000000000000000000000015", "0.00000000000000000000000000015xyz", "0.0000000000000000000000000001_5",
           "1.0000000000000000000000000000", "1.00000000000000000000000000000", "12345678901234567.8", "123456789012345678",
           "1844674407370955161", "18446744073709551615", "18446744073709551616", "1844674407370955135.5", "0000000000000000000000000000001",
           "000000000000000000.000000000000000000000000000001", "9.9999999999999999999999999999", "9.99999999999999999999999999995",
           "79228162514264337593543950335.", "7.9228162514264337593543950335", "7.92281625142643375935439503355",
           "1_000_000.000_1", "184467440737095516_15", "1844674407370955161_5.5", "0.000000000000000000000000000_1", "0.0000000000000000000000000001_"]

# the examples named in the task and the repository's own unit test
CORPUS = [
    ["FOO:0:0"], [" FOO :1.5:0.005"], ["Brk.b:1:1"], ["FOO:+1:1"], ["FOO:1e3:1"], ["FOO:20:1000.0", "BAR:0:0"],
    ["FOO:20:"], ["FOO:20"], [":20:1234"], [""], ["FOO:asd:100"], ["FOO:20:sdf"], ["FOO:20:-19"], ["FOO:-20:10"],
    [":"], ["::"], [":::"], ["a::b"], ["a:b:c:d"], ["FOO:1:2:"], [":FOO:1:2"], ["FOO::"], ["FOO:1:"], ["FOO::1"], [" :1:2"], ["\u00a0:1:2"],
    ["\u200b:1:2"], ["FOO:1_000:1"], ["FOO:1:1_000"], ["FOO:1_000:x"], ["FOO:-1_0:1"], ["FOO:123456789012345678901234567890:1"],
    ["FOO:1:123456789012345678901234567890"], ["FOO:1:1", "FOO:2:2"], ["FOO:1:1", "foo:2:2"], ["FOO:1:1", " FOO:2:2"], ["FOO:1:1", "FOO :3:3", "Foo:2:2", "FOO:4:4.444"],
    ["FOO:1:1", "BAR", "FOO:x:1"], ["FOO:1:1", "FOO:x:1", "BAR"], ["BAR:-1:1", "FOO:1:-1"], ["FOO:1:-1", "BAR:-1:1"], [],
    ["Brk.b:1:1", "BRK.B:2:2", "brk.b:3:3"], ["\u00e9:1:1", "\u00c9:2:2"], ["\u00df:1:1", "SS:2:2"], ["i:1:1", "I:2:2", "\u0131:3:3", "\u0130:4:4"],
    ["FOO:10:100.005"], ["FOO:10:100.004999"], ["FOO:10:0.001"], ["FOO:0.0001:0.00000001"], ["FOO BAR:1:1"], [" FOO BAR :1:1"],
    ["FOO:1:0.00000000000000000000000000015xyz"], ["FOO: 1:1"], ["FOO:1 :1"], ["FOO:1: 1"], ["FOO:1:1 "], ["FOO:1:1\n"], ["FOO\n:1:1"],
    ["-1:1:1"], ["--x:1:1"], ["FOO:-0:-0.00"], ["FOO:+0:+0"], ["FOO:1.:.5"], ["FOO:.:1"], ["FOO:+:1"], ["FOO:-:1"],
]


def pad(rng):
    k = rng.random()
    if k < 0.55:
        return ""
    if k < 0.9:
        return "".join(rng.choice(WS) for _ in range(rng.choice([1, 1, 2, 3])))
    return rng.choice(NOT_WS)


def gen_amount(rng):
    k = rng.random()
    if k < 0.2:
        return rng.choice(AMOUNTS)
    if k < 0.55:
        sc = rng.choice([0, 0, 1, 2, 2, 3, 4, 8])
        m = rng.randint(0, 10 ** rng.choice([1, 3, 6, 9]))
        return dec_display(False, m, sc)
    if k < 0.75:
        # long mantissas and scales around the 96-bit / 28-digit limits
        nd = rng.choice([17, 18, 19, 20, 27, 28, 29, 30, 31])
        digits = "".join(rng.choice("0123456789") for _ in range(nd))
        if rng.random() < 0.3:
            digits = rng.choice(["7922816251426433759354395033", "79228162514264337593543950335", "1844674407370955161"]) + digits[:rng.choice([0, 1, 2])]
        cut = rng.randint(0, len(digits))
        t = digits[:cut] + ("." if rng.random() < 0.8 else "") + digits[cut:]
        return rng.choice(["", "", "+", "-"]) + t
    if k < 0.95:
        t = dec_display(False, rng.randint(0, 10 ** 6), rng.choice([0, 1, 2, 3]))
        return rng.choice(["+", "-", " ", "", "", "0", "00"]) + t + rng.choice(["", "", "", "", " ", "0", "e2", "_0", ".", "%"])
    # underscores inside
    t = list(dec_display(False, rng.randint(0, 10 ** rng.choice([4, 19, 24])), rng.choice([0, 2, 5])))
    for _ in range(rng.choice([1, 2])):
        t.insert(rng.randint(0, len(t)), "_")
    return "".join(t)


def gen_spec(rng):
    sym = rng.choice(SYMBOLS) if rng.random() < 0.9 else rng.choice(["", " ", "\u00a0", "\u200b"])
    parts = [pad(rng) + sym + pad(rng), gen_amount(rng), gen_amount(rng)]
    k = rng.random()
    if k < 0.06:
        parts = parts[:rng.choice([0, 1, 2])]
    elif k < 0.12:
        parts.insert(rng.randint(0, 3), rng.choice(["", "1", "x"]))
    return ":".join(parts)


MUT_ALPHABET = ": .-+e019\t\u00a0:5x,_: .-0"


def mutate(rng, s):
    """one or two character-level edits (the text stays a valid String)"""
    t = list(s)
    for _ in range(rng.choice([1, 1, 2])):
        k = rng.random()
        c = rng.choice(MUT_ALPHABET) if rng.random() < 0.8 else chr(rng.choice([0, 1, 31, 127, 128, 255, 0x2003, 0x1F600, rng.randint(32, 126)]))
        if k < 0.4 and t:
            t[rng.randrange(len(t))] = c
        elif k < 0.7:
            t.insert(rng.randint(0, len(t)), c)
        elif t:
            del t[rng.randrange(len(t))]
    return "".join(t)


def gen_list(rng):
    k = rng.random()
    n = 1 if k < 0.6 else rng.choice([2, 2, 3, 4])
    specs = []
    for _ in range(n):
        if specs and rng.random() < 0.3:
            # another position for a symbol already named, possibly in another case / with blanks
            prev = specs[rng.randrange(len(specs))].split(":")[0]
            var = rng.choice([prev, prev.upper(), prev.lower(), prev.swapcase(), " " + prev, prev.strip()])
            s = ":".join([var, gen_amount(rng), gen_amount(rng)])
        else:
            s = gen_spec(rng)
        if rng.random() < 0.25:
            s = mutate(rng, s)
        specs.append(s)
    return specs


def well_formed_symbol(rng):
    return rng.choice([s for s in SYMBOLS if ":" not in s])


_MSG_PARTS = re.compile(r"^Invalid ACB format '.*'$", re.S)


def classify_message(msg):
    """message kind of an Err of parse_initial_status (for the evidence counters)"""
    if msg == "Symbol was empty":
        return 161
    if msg.startswith("Invalid shares format '"):
        return 162
    if msg.startswith("Shares ") and msg.endswith(" was negative"):
        return 163
    if msg.startswith("ACB ") and msg.endswith(" was negative"):
        return 165
    if msg.startswith("Invalid ACB format '") and "'. Invalid decimal" in msg:
        return 164
    if _MSG_PARTS.match(msg):
        return 160
    return None
