# Re-validation of the assumed oracle "rust_decimal arithmetic = fit":
# seeded operand pairs through the real crate (harness mode arith) and through
# the extracted Base/Fit.v.
from fractions import Fraction

from common import run_harness, run_model, qenc, Reader
from core import D

OPS = ["add", "sub", "mul", "div", "round2"]
MAXM = 2 ** 96 - 1


def gen_operand(rng):
    k = rng.random()
    if k < 0.25:
        m = rng.randint(0, 10 ** rng.randint(1, 6))
        s = rng.randint(0, 4)
    elif k < 0.5:
        m = rng.randint(0, 10 ** rng.randint(1, 18))
        s = rng.randint(0, 12)
    elif k < 0.75:
        m = rng.randint(0, MAXM)
        s = rng.randint(0, 28)
    elif k < 0.85:
        m = MAXM - rng.randint(0, 3)
        s = rng.randint(0, 28)
    elif k < 0.95:
        # ties: ...5 with many digits
        m = rng.randint(1, 10 ** 27) * 10 + 5
        s = rng.randint(20, 28)
    else:
        m = rng.choice([0, 1, 3, 7, 9])
        s = rng.choice([0, 1, 27, 28])
    if rng.random() < 0.3:
        m = -m
    return D(m, s)


def validate(exe, rng, n):
    cases = []
    for _ in range(n):
        op = rng.choice(OPS)
        a = gen_operand(rng)
        b = gen_operand(rng)
        cases.append((op, a, b))
    impl = run_harness(exe, "arith", [{"op": op, "a": a[0], "b": b[0]} for op, a, b in cases])
    mod = run_model([[1, OPS.index(op)] + qenc(a[1]) + qenc(b[1]) for op, a, b in cases])
    mismatches = []
    for (op, a, b), io, mo in zip(cases, impl, mod):
        rd = Reader(mo)
        assert rd.z() == 1
        ok = rd.z()
        mv = rd.q() if ok else None
        iv = Fraction(io["r"]) if io.get("r") is not None else None
        if io.get("status") == "panic":
            iv = None
        if mv != iv:
            mismatches.append({"op": op, "a": a[0], "b": b[0], "impl": str(iv), "model": str(mv)})
    return {"pairs": n, "mismatches": len(mismatches), "examples": mismatches[:3]}
