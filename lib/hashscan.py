# Site scanner for C09: lists every iteration over a hash container
# (std::collections::HashMap / HashSet) in the Rust sources of the repository.
#
# It is regenerated from $ACB_REPO/src on every run of the C09 check and
# compared with the committed, classified inventory lib/hash_sites.json.
# Sites are keyed by (file, enclosing fn, iterated identifier), never by line
# number, so unrelated edits do not disturb the comparison.
#
# What is recognised (a lexical scan, no type inference):
#  * hash-typed names:
#      - struct fields / fn parameters / let bindings whose type annotation
#        mentions HashMap or HashSet (also wrapped: &, Rc<RefCell<..>>, ...);
#      - let bindings (also destructuring `let (a, b) =` is NOT followed)
#        whose initialiser mentions `HashMap::` / `HashSet::` or calls a
#        function / method whose declared return type mentions HashMap/HashSet
#        (possibly inside Result<..> / Option<..>);
#      - `let x = <hash-typed name>[.clone()|.borrow()...]`.
#    Field names are crate-global (any `.field` access), parameters and let
#    bindings are local to their fn.
#  * iterations:
#      - `for PAT in EXPR {` where EXPR mentions a hash-typed name or a
#        hash-returning call, the name not being followed by a lookup method
#        (get, contains*, len, is_empty, insert, remove, entry);
#      - method calls .iter() .iter_mut() .keys() .values() .values_mut()
#        .into_iter() .into_keys() .into_values() .drain() whose receiver chain
#        ends in a hash-typed name or a hash-returning call (intermediate
#        .borrow() / .borrow_mut() / .clone() / .as_ref() / .unwrap() skipped).
#  * code inside `#[cfg(test)]` items is ignored (it cannot reach the output of
#    the shipped binaries).
import json
import os
import re
import sys

ITER_METHODS = {"iter", "iter_mut", "keys", "values", "values_mut", "into_iter",
                "into_keys", "into_values", "drain"}
SKIP_METHODS = {"borrow", "borrow_mut", "clone", "as_ref", "as_mut", "unwrap", "lock", "await"}
LOOKUP_METHODS = {"get", "get_mut", "contains", "contains_key", "len", "is_empty", "insert",
                  "remove", "entry", "get_or_insert_with"}
HASH_RE = re.compile(r"\bHash(Map|Set)\b")


def strip_code(src):
    """blank out comments, string and char literals (keeping length and newlines)"""
    out = list(src)
    i, n = 0, len(src)

    def blank(a, b):
        for k in range(a, b):
            if out[k] != "\n":
                out[k] = " "

    while i < n:
        c = src[i]
        if src.startswith("//", i):
            j = src.find("\n", i)
            j = n if j < 0 else j
            blank(i, j)
            i = j
        elif src.startswith("/*", i):
            depth, j = 1, i + 2
            while j < n and depth:
                if src.startswith("/*", j):
                    depth += 1
                    j += 2
                elif src.startswith("*/", j):
                    depth -= 1
                    j += 2
                else:
                    j += 1
            blank(i, j)
            i = j
        elif c == '"' or (c == "r" and re.match(r'r#*"', src[i:i + 8]) and (i == 0 or not (src[i - 1].isalnum() or src[i - 1] == "_"))):
            if c == "r":
                m = re.match(r'r(#*)"', src[i:])
                close = '"' + m.group(1)
                j = src.find(close, i + len(m.group(0)))
                j = n if j < 0 else j + len(close)
            else:
                j = i + 1
                while j < n and src[j] != '"':
                    j += 2 if src[j] == "\\" else 1
                j += 1
            blank(i + 1, j - 1)
            i = j
        elif c == "'":
            # char literal or lifetime
            m = re.match(r"'(\\.[^']*|[^'\\])'", src[i:])
            if m:
                blank(i + 1, i + len(m.group(0)) - 1)
                i += len(m.group(0))
            else:
                i += 1
        else:
            i += 1
    return "".join(out)


def match_brace(s, i, open_c="{", close_c="}"):
    """index just after the bracket matching s[i]"""
    depth = 0
    n = len(s)
    while i < n:
        if s[i] == open_c:
            depth += 1
        elif s[i] == close_c:
            depth -= 1
            if depth == 0:
                return i + 1
        i += 1
    return n


def remove_cfg_test(s):
    """blank out items annotated #[cfg(test)] (modules, fns, impls)"""
    out = s
    for m in list(re.finditer(r"#\[cfg\(test\)\]", s)):
        j = m.end()
        # the annotated item ends at the matching brace of its first `{`, or at `;`
        k = j
        while k < len(s) and s[k] not in "{;":
            k += 1
        if k < len(s) and s[k] == "{":
            e = match_brace(s, k)
        else:
            e = k + 1
        out = out[:m.start()] + re.sub(r"[^\n]", " ", out[m.start():e]) + out[e:]
    return out


FN_RE = re.compile(r"\bfn\s+([A-Za-z_]\w*)")


def functions(s):
    """[(name, sig_start, body_start, body_end, return_type_text)] incl. nested"""
    res = []
    for m in FN_RE.finditer(s):
        i = m.end()
        # skip generics
        while i < len(s) and s[i].isspace():
            i += 1
        if i < len(s) and s[i] == "<":
            depth = 0
            while i < len(s):
                if s[i] == "<":
                    depth += 1
                elif s[i] == ">" and s[i - 1] != "-":
                    depth -= 1
                    if depth == 0:
                        i += 1
                        break
                i += 1
        while i < len(s) and s[i].isspace():
            i += 1
        if i >= len(s) or s[i] != "(":
            continue
        pe = match_brace(s, i, "(", ")")
        params = s[i + 1:pe - 1]
        k = pe
        while k < len(s) and s[k] not in "{;":
            k += 1
        ret = s[pe:k]
        if k < len(s) and s[k] == "{":
            be = match_brace(s, k)
            res.append((m.group(1), m.start(), k, be, ret, params, i + 1))
        else:
            res.append((m.group(1), m.start(), k, k, ret, params, i + 1))
    return res


def split_top(text, sep=","):
    parts, depth, cur = [], 0, []
    prev = ""
    for ch in text:
        if ch in "<([{":
            depth += 1
        elif ch in ")]}":
            depth -= 1
        elif ch == ">" and prev != "-":
            depth -= 1
        if ch == sep and depth == 0:
            parts.append("".join(cur))
            cur = []
        else:
            cur.append(ch)
        prev = ch
    parts.append("".join(cur))
    return parts


def struct_fields(s):
    """names of struct fields whose type mentions a hash container"""
    names = set()
    for m in re.finditer(r"\bstruct\s+\w+[^;{(]*\{", s):
        b = m.end() - 1
        e = match_brace(s, b)
        for part in split_top(s[b + 1:e - 1]):
            fm = re.match(r"\s*(?:#\[[^\]]*\]\s*)*(?:pub(?:\([^)]*\))?\s+)?([A-Za-z_]\w*)\s*:(.*)$", part, re.S)
            if fm and HASH_RE.search(fm.group(2)):
                names.add(fm.group(1))
    return names


class Scan:
    def __init__(self, root):
        self.root = root
        self.files = {}
        for d, _, fs in sorted(os.walk(root)):
            for f in sorted(fs):
                if f.endswith(".rs"):
                    p = os.path.join(d, f)
                    s = remove_cfg_test(strip_code(open(p, encoding="utf-8").read()))
                    self.files[os.path.relpath(p, os.path.dirname(root))] = s
        self.fields = set()
        self.hash_fns = set()
        for s in self.files.values():
            self.fields |= struct_fields(s)
            for name, _, _, _, ret, _, _ in functions(s):
                if HASH_RE.search(ret):
                    self.hash_fns.add(name)

    # -- hash-typed local names of a function
    def locals_of(self, s, fn):
        name, start, b, e, ret, params, pstart = fn
        names = set()
        for part in split_top(params):
            pm = re.match(r"\s*(?:mut\s+)?([A-Za-z_]\w*)\s*:(.*)$", part, re.S)
            if pm and HASH_RE.search(pm.group(2)):
                names.add(pm.group(1))
        body = s[b:e]
        changed = True
        lets = []
        for m in re.finditer(r"\blet\s+(?:mut\s+)?([A-Za-z_]\w*)\s*(:[^=;]*)?=", body):
            # initialiser up to the terminating `;` at depth 0
            i = m.end()
            depth = 0
            j = i
            while j < len(body):
                ch = body[j]
                if ch in "([{":
                    depth += 1
                elif ch in ")]}":
                    depth -= 1
                    if depth < 0:
                        break
                elif ch == ";" and depth == 0:
                    break
                j += 1
            lets.append((m.group(1), m.group(2) or "", body[i:j]))
        while changed:
            changed = False
            for var, ty, init in lets:
                if var in names:
                    continue
                hit = False
                if ty.strip(": \n"):
                    hit = bool(HASH_RE.search(ty))
                else:
                    if re.search(r"\bHash(Map|Set)\s*::", init):
                        # constructed here (HashMap::new(), ::from, ::<..>::new, ::from_iter)
                        hit = not re.search(r"\.\s*(get|len|contains\w*|is_empty)\s*\(", init.split("Hash")[0])
                    else:
                        # value of a hash-returning call, or alias of a hash name,
                        # unless an element is being looked up / iterated away
                        toks = self.chain_roots(init, names)
                        hit = toks
                if hit:
                    names.add(var)
                    changed = True
        return names

    def chain_roots(self, init, names):
        """True when the initialiser evaluates to the container itself: a
        chain  a.b.c(..)?.d  in which some segment is a hash-typed name (a
        local, a field, or a call of a hash-returning function) and every
        later segment is one of clone/borrow/unwrap/await/lock/as_ref ..."""
        t = init.strip()
        t = re.sub(r"^\(?\s*&?\s*(mut\s+)?", "", t)
        segs = [x.strip() for x in split_top(t, ".")]
        found = False
        for k, seg in enumerate(segs):
            m = re.match(r"((?:[A-Za-z_]\w*\s*::\s*)*)([A-Za-z_]\w*)\s*(?:::<[^()]*>)?\s*(\(.*\))?\s*\??\s*$", seg, re.S)
            if not m:
                return False
            name, is_call = m.group(2), m.group(3) is not None
            if found:
                if not (name in SKIP_METHODS and (is_call or name == "await")):
                    return False
                continue
            if is_call:
                if name in self.hash_fns:
                    found = True
            elif k == 0:
                if name in names:
                    found = True
            elif name in self.fields:
                found = True
        return found

    def receiver(self, s, dot):
        """walk back from the `.` of an iterating method call to the name the
        chain ends in; returns (name, is_call)"""
        i = dot - 1
        while True:
            while i >= 0 and s[i].isspace():
                i -= 1
            if i >= 0 and s[i] == "?":
                i -= 1
                continue
            if i >= 0 and s[i] == ")":
                # find matching "("
                depth = 0
                while i >= 0:
                    if s[i] == ")":
                        depth += 1
                    elif s[i] == "(":
                        depth -= 1
                        if depth == 0:
                            break
                    i -= 1
                j = i - 1
                while j >= 0 and s[j].isspace():
                    j -= 1
                # turbofish ::<..> before the paren is not handled (not used here)
                k = j
                while k >= 0 and (s[k].isalnum() or s[k] == "_"):
                    k -= 1
                name = s[k + 1:j + 1]
                if not name:
                    # parenthesised expression: (expr).iter()
                    inner = s[i + 1:match_brace(s, i, "(", ")") - 1]
                    return ("(" + inner.strip() + ")", False, i)
                # method call in a chain?
                p = k
                while p >= 0 and s[p].isspace():
                    p -= 1
                if p >= 0 and s[p] == "." and name in SKIP_METHODS:
                    i = p - 1
                    continue
                return (name, True, k + 1)
            k = i
            while k >= 0 and (s[k].isalnum() or s[k] == "_"):
                k -= 1
            name = s[k + 1:i + 1]
            if name in ("await",):
                p = k
                while p >= 0 and s[p].isspace():
                    p -= 1
                if p >= 0 and s[p] == ".":
                    i = p - 1
                    continue
            return (name, False, k + 1)

    def is_field_access(self, s, pos):
        p = pos - 1
        while p >= 0 and s[p].isspace():
            p -= 1
        return p >= 0 and s[p] == "."

    def sites(self):
        out = {}

        def add(file, fn, ident, kind):
            key = (file, fn, ident)
            e = out.setdefault(key, {})
            e[kind] = e.get(kind, 0) + 1

        for file, s in self.files.items():
            fns = functions(s)
            fns_by_size = sorted(fns, key=lambda f: f[3] - f[2])
            local_cache = {}

            def enclosing(pos):
                for f in fns_by_size:
                    if f[2] <= pos < f[3]:
                        return f
                return None

            def hashy(name, pos, is_call, fn):
                if is_call:
                    return name in self.hash_fns
                if fn is not None:
                    if id(fn) not in local_cache:
                        local_cache[id(fn)] = self.locals_of(s, fn)
                    if name in local_cache[id(fn)] and not self.is_field_access(s, pos):
                        return True
                    # closures / nested fns see the outer fn's locals
                    for g in fns:
                        if g is not fn and g[2] <= fn[1] and fn[3] <= g[3]:
                            if id(g) not in local_cache:
                                local_cache[id(g)] = self.locals_of(s, g)
                            if name in local_cache[id(g)] and not self.is_field_access(s, pos):
                                return True
                return name in self.fields and self.is_field_access(s, pos)

            covered = set()
            # method-call iterations
            for m in re.finditer(r"\.\s*([A-Za-z_]\w*)\s*(?:::<[^>]*>)?\s*\(", s):
                if m.group(1) not in ITER_METHODS:
                    continue
                name, is_call, pos = self.receiver(s, m.start())
                fn = enclosing(m.start())
                if name and not name.startswith("(") and hashy(name, pos, is_call, fn):
                    add(file, fn[0] if fn else "<top>", name + ("()" if is_call else ""), "." + m.group(1) + "()")
                    covered.add(pos)
            # for loops
            for m in re.finditer(r"\bfor\s", s):
                # find ` in ` at depth 0 then the body `{`
                i = m.end()
                depth = 0
                j = i
                while j < len(s):
                    ch = s[j]
                    if ch in "([":
                        depth += 1
                    elif ch in ")]":
                        depth -= 1
                    elif depth == 0 and re.match(r"\bin\b", s[j:j + 3]) and not (s[j - 1].isalnum() or s[j - 1] == "_") and (j + 2 >= len(s) or not (s[j + 2].isalnum() or s[j + 2] == "_")):
                        break
                    elif ch in "{;":
                        j = -1
                        break
                    j += 1
                if j < 0 or j >= len(s):
                    continue   # `for<'a>` bound or `impl X for Y`
                k = j + 2
                depth = 0
                e = k
                while e < len(s):
                    ch = s[e]
                    if ch in "([":
                        depth += 1
                    elif ch in ")]":
                        depth -= 1
                    elif ch == "{" and depth == 0:
                        break
                    e += 1
                expr = s[k:e]
                fn = enclosing(m.start())
                # the iterated expression: its trailing chain end
                t = expr.rstrip()
                # receiver of the last segment
                name, is_call, pos = self.receiver(s, k + len(t))
                if is_call and name in ITER_METHODS | {"enumerate", "rev", "cloned", "copied"}:
                    continue   # handled as a method-call site (or an adaptor over one)
                if name and not name.startswith("(") and pos not in covered and hashy(name, pos, is_call, fn):
                    add(file, fn[0] if fn else "<top>", name + ("()" if is_call else ""), "for-in")
        res = []
        for (file, fn, ident), kinds in sorted(out.items()):
            res.append({"file": file, "fn": fn, "ident": ident,
                        "how": ", ".join("%s x%d" % (k, v) for k, v in sorted(kinds.items()))})
        return res


def scan(repo):
    return Scan(os.path.join(repo, "src")).sites()


def key(site):
    return "%s :: %s :: %s" % (site["file"], site["fn"], site["ident"])


def compare(found, inventory):
    """-> (new, vanished, changed) lists of keys"""
    f = {key(s): s for s in found}
    inv = {key(s): s for s in inventory}
    new = sorted(k for k in f if k not in inv)
    gone = sorted(k for k in inv if k not in f)
    changed = sorted(k for k in f if k in inv and f[k]["how"] != inv[k].get("how"))
    return new, gone, changed


if __name__ == "__main__":
    repo = sys.argv[1] if len(sys.argv) > 1 else os.environ.get("ACB_REPO", "/repo")
    for s in scan(repo):
        print(json.dumps(s))
