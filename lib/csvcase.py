# csv group (C11, C10): abstract transactions with exact decimals
# (sign, mantissa, scale), their encodings for the harness (JSON) and for the
# extracted model (integer lists), decoders of both outputs, RFC-4180 writer,
# and an independent statement of "the same transaction after a round trip".
import re
from fractions import Fraction

MAX_MANT = 2 ** 96 - 1
PRE = ["", "(R)"]          # spellings interned by the harness at start-up
ACTS = ["Buy", "Sell", "RoC", "SfLA", "Split"]


def b(s):
    return list(s.encode("utf-8"))


def unb(l):
    return bytes(l).decode("utf-8")


# ---------------------------------------------------------------- encoders
def e_bytes(s):
    x = b(s)
    return [len(x)] + x


def e_dec(d):
    return [int(d[0]), d[1], d[2]]


def e_car(c):
    return e_bytes(c["cur"]) + e_dec(c["rate"])


def e_opt(f, v):
    return [0] if v is None else [1] + f(v)


def e_tx(t):
    out = e_bytes(t["sec"]) + list(t["td"]) + list(t["sd"]) + e_bytes(t["memo"]) + e_bytes(t["af"]) + [t["ri"]]
    a = t["act"]
    if a == "Buy":
        out += [0] + e_dec(t["sh"]) + e_dec(t["aps"]) + e_dec(t["com"]) + e_car(t["cr"]) + e_opt(e_car, t["ccr"])
    elif a == "Sell":
        out += [1] + e_dec(t["sh"]) + e_dec(t["aps"]) + e_dec(t["com"]) + e_car(t["cr"]) + e_opt(e_car, t["ccr"])
        out += e_opt(lambda s: e_dec(s[0]) + [int(s[1])], t["sfl"])
    elif a == "RoC":
        out += [2] + e_dec(t["aps"]) + e_car(t["cr"])
    elif a == "SfLA":
        out += [3] + e_dec(t["sh"]) + e_dec(t["aps"])
    else:
        r = t["ratio"]
        out += [4] + e_dec(r[0]) + e_dec(r[1]) + [int(r[2])]
    return out


def e_strs(l):
    out = [len(l)]
    for s in l:
        out += e_bytes(s)
    return out


def roundtrip_ints(txs):
    out = [13] + e_strs(PRE) + [len(txs)]
    for t in txs:
        out += e_tx(t)
    return out


def j_dec(d):
    return [bool(d[0]), str(d[1]), d[2]]


def j_car(c):
    return None if c is None else {"cur": c["cur"], "rate": j_dec(c["rate"])}


def j_tx(t):
    o = {"sec": t["sec"], "td": list(t["td"]), "sd": list(t["sd"]), "memo": t["memo"], "af": t["af"],
         "ri": t["ri"], "act": t["act"]}
    for k in ("sh", "aps", "com"):
        if k in t:
            o[k] = j_dec(t[k])
    if "cr" in t:
        o["cr"] = j_car(t["cr"])
    if t["act"] in ("Buy", "Sell"):
        o["ccr"] = j_car(t.get("ccr"))
    if t["act"] == "Sell":
        o["sfl"] = None if t.get("sfl") is None else [j_dec(t["sfl"][0]), bool(t["sfl"][1])]
    if t["act"] == "Split":
        r = t["ratio"]
        o["ratio"] = [j_dec(r[0]), j_dec(r[1]), bool(r[2])]
    return o


# ---------------------------------------------------------------- decoders
class Rd:
    def __init__(self, l):
        self.l = l
        self.i = 0

    def z(self):
        v = self.l[self.i]
        self.i += 1
        return v

    def bytes(self):
        n = self.z()
        v = self.l[self.i:self.i + n]
        self.i += n
        return bytes(v).decode("utf-8", errors="surrogateescape")

    def dec(self):
        return (bool(self.z()), self.z(), self.z())

    def date(self):
        return (self.z(), self.z(), self.z())

    def opt(self, f):
        return f() if self.z() else None

    def car(self):
        return {"cur": self.bytes(), "rate": self.dec()}

    def aff(self):
        return (self.bytes(), self.bytes(), bool(self.z()))

    def tx(self):
        t = {"sec": self.bytes(), "td": self.date(), "sd": self.date(), "memo": self.bytes(),
             "af": self.aff(), "ri": self.z()}
        tag = self.z()
        t["act"] = ACTS[tag]
        if tag in (0, 1):
            t["sh"], t["aps"], t["com"] = self.dec(), self.dec(), self.dec()
            t["cr"] = self.car()
            t["ccr"] = self.opt(self.car)
            if tag == 1:
                t["sfl"] = self.opt(lambda: (self.dec(), bool(self.z())))
        elif tag == 2:
            t["aps"] = self.dec()
            t["cr"] = self.car()
        elif tag == 3:
            t["sh"], t["aps"] = self.dec(), self.dec()
        else:
            t["ratio"] = (self.dec(), self.dec(), bool(self.z()))
        return t

    def table(self):
        nh = self.z()
        h = [self.bytes() for _ in range(nh)]
        nr = self.z()
        rows = [[self.bytes() for _ in range(nh)] for _ in range(nr)]
        return h, rows

    def rej(self):
        return (self.z(), self.z())

    def done(self):
        return self.i == len(self.l)


def parse_roundtrip_model(ints, n):
    rd = Rd(ints)
    if rd.z() != 1:
        return {"status": "model-error", "code": ints[0]}
    o = {"status": "ok", "valid": bool(rd.z())}
    o["afs"] = [rd.aff() for _ in range(n)]
    o["header"], o["rows"] = rd.table()
    st = rd.z()
    if st == 0:
        m = rd.z()
        o["read"] = {"ok": True, "txs": [rd.tx() for _ in range(m)]}
        o["same"] = bool(rd.z())
        o["header2"], o["rows2"] = rd.table()
    elif st == 1:
        o["read"] = {"ok": False, "rej": rd.rej()}
    else:
        o["read"] = {"ok": False, "rej": ("panic", 0)}
    assert rd.done()
    return o


def jd(v):
    return (bool(v[0]), int(v[1]), int(v[2]))


def jcar(v):
    return None if v is None else {"cur": v["cur"], "rate": jd(v["rate"])}


def impl_tx(o):
    t = {"sec": o["sec"], "td": tuple(o["td"]), "sd": tuple(o["sd"]), "memo": o["memo"],
         "af": (o["af"][0], o["af"][1], bool(o["af"][2])), "ri": o["ri"], "act": o["act"]}
    for k in ("sh", "aps", "com"):
        if k in o:
            t[k] = jd(o[k])
    if "cr" in o:
        t["cr"] = jcar(o["cr"])
    if o["act"] in ("Buy", "Sell"):
        t["ccr"] = jcar(o.get("ccr"))
    if o["act"] == "Sell":
        t["sfl"] = None if o.get("sfl") is None else (jd(o["sfl"][0]), bool(o["sfl"][1]))
    if o["act"] == "Split":
        r = o["ratio"]
        t["ratio"] = (jd(r[0]), jd(r[1]), bool(r[2]))
    return t


# ---------------------------------------------------------------- RFC 4180
def csv_quote(s):
    if s == "" or not any(ch in s for ch in ',"\n\r'):
        return s
    return '"' + s.replace('"', '""') + '"'


def csv_text(header, rows):
    out = [",".join(csv_quote(c) for c in header)]
    for r in rows:
        out.append(",".join(csv_quote(c) for c in r))
    return "\n".join(out) + "\n"


# ---------------------------------------------------------------- the property, stated independently
WS = "\t\n\x0b\x0c\r \x85\xa0\u1680" + "".join(chr(c) for c in range(0x2000, 0x200b)) + "\u2028\u2029\u202f\u205f\u3000"


def rtrim(s):
    return s.strip(WS)


def dval(d):
    return Fraction(-d[1] if d[0] else d[1], 10 ** d[2])


def deq(a, b):
    """same number, same sign flag"""
    return a[0] == b[0] and dval(a) == dval(b)


def careq(a, b):
    if a is None or b is None:
        return a is None and b is None
    return a["cur"] == b["cur"] and deq(a["rate"], b["rate"])


def af_id_of(spelling):
    import core
    return core.af_id(spelling)[0]


def tx_same(t, t2, pos, named_other):
    """t written and read back as t2 at position pos; t["af"] is a spelling.
    returns None or the name of the differing part"""
    if t2["sec"] != t["sec"]:
        return "security"
    if tuple(t2["td"]) != tuple(t["td"]) or tuple(t2["sd"]) != tuple(t["sd"]):
        return "date"
    if t2["act"] != t["act"]:
        return "action"
    for k in ("sh", "aps", "com"):
        if (k in t) != (k in t2) or (k in t and not deq(t[k], t2[k])):
            return k
    if ("cr" in t) != ("cr" in t2) or ("cr" in t and not careq(t["cr"], t2["cr"])):
        return "currency/rate"
    if t["act"] in ("Buy", "Sell") and not careq(t.get("ccr"), t2.get("ccr")):
        return "commission currency/rate"
    if t["act"] == "Sell":
        a, c = t.get("sfl"), t2.get("sfl")
        if (a is None) != (c is None) or (a is not None and (not deq(a[0], c[0]) or bool(a[1]) != bool(c[1]))):
            return "superficial loss"
    if t["act"] == "Split":
        a, c = t["ratio"], t2["ratio"]
        if not deq(a[0], c[0]) or not deq(a[1], c[1]) or bool(a[2]) != bool(c[2]):
            return "split ratio"
    if t2["memo"] != rtrim(t["memo"]):
        return "memo"
    if t2["ri"] != pos:
        return "read index"
    want = af_id_of(t["af"])
    if t2["af"][0] != want:
        if not (t["act"] == "Split" and want == "default" and not named_other and t2["af"][0] == "__global__"):
            return "affiliate"
    return None


def tx_from_json(o):
    """inverse of j_tx (input side: the affiliate is a spelling)"""
    t = {"sec": o["sec"], "td": tuple(o["td"]), "sd": tuple(o["sd"]), "memo": o["memo"], "af": o["af"],
         "ri": o["ri"], "act": o["act"]}
    for k in ("sh", "aps", "com"):
        if k in o:
            t[k] = jd(o[k])
    if "cr" in o:
        t["cr"] = jcar(o["cr"])
    if o["act"] in ("Buy", "Sell"):
        t["ccr"] = jcar(o.get("ccr"))
    if o["act"] == "Sell":
        t["sfl"] = None if o.get("sfl") is None else (jd(o["sfl"][0]), bool(o["sfl"][1]))
    if o["act"] == "Split":
        r = o["ratio"]
        t["ratio"] = (jd(r[0]), jd(r[1]), bool(r[2]))
    return t
