// harness binary of group "costs": modes costs (total-cost tables next to the
// delta lists they are computed from) and arith (rust_decimal validation)
#[path = "hcommon.rs"]
mod hcommon;
mod arith;
mod costs_mode;
#[allow(dead_code)]
mod util;
pub use hcommon::guarded;

fn main() {
    hcommon::run_main(&[("costs", costs_mode::handle), ("arith", arith::handle)]);
}
