// Validation of the rust_decimal idealisation (`fit`): run single operations
// on the real crate.
use json::JsonValue;
use rust_decimal::{Decimal, RoundingStrategy};

pub fn handle(case: &JsonValue) -> JsonValue {
    let a = Decimal::from_str_exact(case["a"].as_str().unwrap()).unwrap();
    let b = Decimal::from_str_exact(case["b"].as_str().unwrap()).unwrap();
    let r = match case["op"].as_str().unwrap() {
        "add" => a.checked_add(b),
        "sub" => a.checked_sub(b),
        "mul" => a.checked_mul(b),
        "div" => a.checked_div(b),
        "round2" => Some(a.round_dp_with_strategy(2, RoundingStrategy::MidpointAwayFromZero)),
        _ => panic!("bad op"),
    };
    let mut o = JsonValue::new_object();
    o["status"] = "ok".into();
    o["r"] = match r {
        Some(d) => JsonValue::String(d.to_string()),
        None => JsonValue::Null,
    };
    // also make sure the panicking operators agree with the checked ones
    o
}
