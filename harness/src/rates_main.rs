// harness binary of group "rates": exchange-rate look-up (C12), rate cache
// state machine (C13), crash-safety of the CSV rate cache (C14)
#[path = "hcommon.rs"]
mod hcommon;
mod rates_mode;
#[allow(dead_code)]
mod util;
pub use hcommon::guarded;

fn main() {
    // the crash child never returns through run_main's normal loop output:
    // it is aborted by the hook in the cache write path
    hcommon::run_main(&[
        ("hist", rates_mode::hist),
        ("rows", rates_mode::rows),
        ("dates", rates_mode::dates),
        ("parsecsv", rates_mode::parsecsv),
        ("crash", rates_mode::crash),
        ("crashchild", rates_mode::crashchild),
        ("arith", rates_mode::arith),
        ("histf", rates_mode::histf),
        ("doc", rates_mode::doc),
        ("jsonnum", rates_mode::jsonnum),
    ]);
}
