// harness binary of group "core": modes core (bookkeeping / render model) and arith
#[path = "hcommon.rs"]
mod hcommon;
mod arith;
mod core_mode;
mod initspec_mode;
mod util;
pub use hcommon::guarded;

fn main() {
    hcommon::run_main(&[
        ("core", core_mode::handle),
        ("arith", arith::handle),
        ("initspec", initspec_mode::handle),
    ]);
}
