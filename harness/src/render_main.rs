// harness binary of group "render": the report renderer driven directly
// (render_tx_table_model / render_aggregate_capital_gains on given deltas and
// gains) and the cent formatter (dollar_precision_str)
#[path = "hcommon.rs"]
mod hcommon;
#[path = "core_mode.rs"]
mod core_mode;
mod render_mode;
mod util;
pub use hcommon::guarded;

fn main() {
    hcommon::run_main(&[("table", render_mode::handle_table), ("dollar", render_mode::handle_dollar)]);
}
