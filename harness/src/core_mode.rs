// mode "core": CSV text(s) + opening positions -> per-security delta lists
// (run_acb_app_to_delta_models) and, on request, the render model.
use std::collections::HashMap;

use acb::app::{run_acb_app_to_delta_models, run_acb_app_to_render_model};
use acb::portfolio::bookkeeping::DeltaListResult;
use acb::portfolio::io::tx_csv::TxCsvParseOptions;
use acb::portfolio::render::RenderTable;
use acb::portfolio::{PortfolioSecurityStatus, Security, TxActionSpecifics, TxDelta};
use acb::util::rw::{DescribedReader, WriteHandle};
use async_std::task::block_on;
use json::JsonValue;

use crate::util::{dec, offline_rate_loader, opt_dec, strs};

fn readers(case: &JsonValue) -> Vec<DescribedReader> {
    case["files"]
        .members()
        .enumerate()
        .map(|(i, f)| {
            DescribedReader::from_string(format!("f{}.csv", i), f.as_str().unwrap().to_string())
        })
        .collect()
}

pub fn init_status(case: &JsonValue) -> Result<HashMap<Security, PortfolioSecurityStatus>, String> {
    let specs: Vec<String> =
        case["init"].members().map(|s| s.as_str().unwrap().to_string()).collect();
    acb::app::input_parse::parse_initial_status(&specs)
}

fn status_json(s: &PortfolioSecurityStatus) -> JsonValue {
    let mut a = JsonValue::new_array();
    a.push(dec(&s.share_balance)).unwrap();
    a.push(dec(&s.all_affiliate_share_balance)).unwrap();
    a.push(opt_dec(s.total_acb.map(|d| *d))).unwrap();
    a
}

pub fn delta_json(d: &TxDelta) -> JsonValue {
    let mut o = JsonValue::new_object();
    o["act"] = d.tx.action().pretty_str().into();
    o["af"] = d.tx.affiliate.id().into();
    o["afname"] = d.tx.affiliate.name().into();
    o["reg"] = d.tx.affiliate.registered().into();
    o["td"] = d.tx.trade_date.to_string().into();
    o["sd"] = d.tx.settlement_date.to_string().into();
    o["ri"] = d.tx.read_index.into();
    o["pre"] = status_json(&d.pre_status);
    o["post"] = status_json(&d.post_status);
    o["gain"] = opt_dec(d.capital_gain);
    o["sfl"] = match &d.sfl {
        Some(s) => {
            let mut a = JsonValue::new_array();
            a.push(dec(&s.superficial_loss)).unwrap();
            a.push(dec(&s.ratio.numerator)).unwrap();
            a.push(dec(&s.ratio.denominator)).unwrap();
            a.push(s.potentially_over_applied).unwrap();
            a
        }
        None => JsonValue::Null,
    };
    match &d.tx.action_specifics {
        TxActionSpecifics::Sfla(s) => {
            o["sfla"] = JsonValue::Array(vec![dec(&s.shares_affected), dec(&s.amount_per_share)]);
        }
        TxActionSpecifics::Buy(s) => {
            o["q"] = JsonValue::Array(vec![
                dec(&s.shares),
                dec(&s.amount_per_share),
                dec(&s.commission),
                dec(&s.tx_currency_and_rate.exchange_rate),
                dec(&s.commission_currency_and_rate().exchange_rate),
            ]);
        }
        TxActionSpecifics::Sell(s) => {
            o["q"] = JsonValue::Array(vec![
                dec(&s.shares),
                dec(&s.amount_per_share),
                dec(&s.commission),
                dec(&s.tx_currency_and_rate.exchange_rate),
                dec(&s.commission_currency_and_rate().exchange_rate),
            ]);
        }
        TxActionSpecifics::Roc(s) => {
            o["q"] = JsonValue::Array(vec![
                dec(&s.amount_per_held_share),
                dec(&s.tx_currency_and_rate.exchange_rate),
            ]);
        }
        TxActionSpecifics::Split(s) => {
            o["q"] = JsonValue::Array(vec![
                dec(&s.ratio.post_split),
                dec(&s.ratio.pre_split),
                s.ratio.reverse_integer_only.into(),
            ]);
        }
    }
    o
}

fn deltas_json(res: &HashMap<Security, DeltaListResult>) -> JsonValue {
    let mut secs = JsonValue::new_object();
    for (sec, r) in res {
        let mut o = JsonValue::new_object();
        o["err"] = match &r.0 {
            Ok(_) => JsonValue::Null,
            Err(e) => e.err_msg.clone().into(),
        };
        o["deltas"] =
            JsonValue::Array(r.deltas_or_partial_deltas().iter().map(delta_json).collect());
        secs[sec.as_str()] = o;
    }
    secs
}

pub fn table_json(t: &RenderTable) -> JsonValue {
    let mut o = JsonValue::new_object();
    o["header"] = strs(&t.header);
    o["rows"] = JsonValue::Array(t.rows.iter().map(strs).collect());
    o["footer"] = strs(&t.footer);
    o["notes"] = strs(&t.notes);
    o["errors"] = strs(&t.errors);
    o
}

fn render_json(case: &JsonValue, full: bool, costs: bool) -> JsonValue {
    let init = init_status(case).unwrap();
    let res = block_on(run_acb_app_to_render_model(
        readers(case),
        init,
        &TxCsvParseOptions::default(),
        full,
        costs,
        offline_rate_loader(),
        WriteHandle::empty_write_handle(),
    ));
    let mut o = JsonValue::new_object();
    match res {
        Err(e) => {
            o["err"] = e.into();
        }
        Ok(r) => {
            let mut secs = JsonValue::new_object();
            for (s, t) in &r.security_tables {
                secs[s.as_str()] = table_json(t);
            }
            o["secs"] = secs;
            o["agg"] = table_json(&r.aggregate_gains_table);
            if let Some(c) = &r.costs_tables {
                o["costs_total"] = table_json(&c.total);
                o["costs_yearly"] = table_json(&c.yearly);
            }
        }
    }
    o
}

pub fn handle(case: &JsonValue) -> JsonValue {
    let mut o = JsonValue::new_object();
    let init = match init_status(case) {
        Ok(i) => i,
        Err(e) => {
            o["status"] = "initerr".into();
            o["err"] = e.into();
            return o;
        }
    };
    let (eh, ebuf) = WriteHandle::string_buff_write_handle();
    let res = block_on(run_acb_app_to_delta_models(
        readers(case),
        init,
        &TxCsvParseOptions::default(),
        offline_rate_loader(),
        eh,
    ));
    o["warn"] = ebuf.borrow().as_str().into();
    match res {
        Err(e) => {
            o["status"] = "err".into();
            o["err"] = e.into();
        }
        Ok(r) => {
            o["status"] = "ok".into();
            o["secs"] = deltas_json(&r);
        }
    }
    if case["render"].as_bool().unwrap_or(false) {
        let costs = case["costs"].as_bool().unwrap_or(false);
        o["render_full"] = crate::hcommon::guarded(|| render_json(case, true, costs));
        o["render_cents"] = crate::hcommon::guarded(|| render_json(case, false, costs));
    }
    o
}
