// harness binary of group "questrade": C18 (qt_*) and C20 (fmv_*, pages, iter)
#[path = "hcommon.rs"]
mod hcommon;
mod fmv_mode;
mod qt_mode;
#[allow(dead_code)]
mod util;
pub use hcommon::guarded;

fn main() {
    hcommon::run_main(&[
        ("qt_sheet", qt_mode::handle_sheet),
        ("qt_file", qt_mode::handle_file),
        ("qt_csv", qt_mode::handle_csv),
        ("fmv_re", fmv_mode::handle_re),
        ("fmv_page", fmv_mode::handle_page),
        ("fmv_stmt", fmv_mode::handle_stmt),
        ("pages", fmv_mode::handle_pages),
        ("iter", fmv_mode::handle_iter),
        ("stmt_iter", fmv_mode::handle_stmt_iter),
    ]);
}
