// mode "summary" (C10): the real round trip of acb's summary mode.
//   1. run_acb_app_summary_to_model(date, [history.csv]) -> summary Txs (public entry point)
//   2. write_txs_to_csv(summary)                          -> summary.csv (what `acb --summarize-before` prints)
//   3. run_acb_app_to_delta_models([summary.csv, later.csv]) -> deltas of the re-run
//   4. run_acb_app_to_delta_models([history.csv])            -> deltas of the full history
use std::collections::HashMap;

use acb::app::{run_acb_app_summary_to_model, run_acb_app_to_delta_models, Options};
use acb::portfolio::bookkeeping::DeltaListResult;
use acb::portfolio::io::tx_csv::{write_txs_to_csv, TxCsvParseOptions};
use acb::portfolio::{CsvTx, Security, Tx, TxActionSpecifics};
use acb::util::rw::{DescribedReader, WriteHandle};
use async_std::task::block_on;
use json::JsonValue;
use time::{Date, Month};

use crate::core_mode::delta_json;
use crate::util::{dec, offline_rate_loader};

fn reader(name: &str, text: &str) -> DescribedReader {
    DescribedReader::from_string(name.to_string(), text.to_string())
}

fn deltas_json(res: &HashMap<Security, DeltaListResult>) -> JsonValue {
    let mut secs = JsonValue::new_object();
    for (sec, r) in res {
        let mut o = JsonValue::new_object();
        o["err"] = match &r.0 {
            Ok(_) => JsonValue::Null,
            Err(e) => e.err_msg.clone().into(),
        };
        o["deltas"] = JsonValue::Array(r.deltas_or_partial_deltas().iter().map(delta_json).collect());
        secs[sec.as_str()] = o;
    }
    secs
}

fn run(files: Vec<DescribedReader>) -> JsonValue {
    let mut o = JsonValue::new_object();
    match block_on(run_acb_app_to_delta_models(
        files,
        HashMap::new(),
        &TxCsvParseOptions::default(),
        offline_rate_loader(),
        WriteHandle::empty_write_handle(),
    )) {
        Err(e) => {
            o["status"] = "err".into();
            o["err"] = e.into();
        }
        Ok(r) => {
            o["status"] = "ok".into();
            o["secs"] = deltas_json(&r);
        }
    }
    o
}

fn tx_json(t: &Tx) -> JsonValue {
    let mut o = JsonValue::new_object();
    o["sec"] = t.security.as_str().into();
    o["td"] = t.trade_date.to_string().into();
    o["sd"] = t.settlement_date.to_string().into();
    o["af"] = t.affiliate.id().into();
    o["reg"] = t.affiliate.registered().into();
    o["ri"] = t.read_index.into();
    o["memo"] = t.memo.as_str().into();
    o["act"] = t.action().pretty_str().into();
    match &t.action_specifics {
        TxActionSpecifics::Buy(s) => {
            o["q"] = JsonValue::Array(vec![
                dec(&s.shares),
                dec(&s.amount_per_share),
                dec(&s.commission),
                dec(&s.tx_currency_and_rate.exchange_rate),
                dec(&s.commission_currency_and_rate().exchange_rate),
            ]);
        }
        TxActionSpecifics::Sell(s) => {
            o["q"] = JsonValue::Array(vec![
                dec(&s.shares),
                dec(&s.amount_per_share),
                dec(&s.commission),
                dec(&s.tx_currency_and_rate.exchange_rate),
                dec(&s.commission_currency_and_rate().exchange_rate),
            ]);
            o["sfl"] = match &s.specified_superficial_loss {
                Some(f) => JsonValue::Array(vec![dec(&f.superficial_loss), f.force.into()]),
                None => JsonValue::Null,
            };
        }
        TxActionSpecifics::Roc(s) => {
            o["q"] = JsonValue::Array(vec![dec(&s.amount_per_held_share), dec(&s.tx_currency_and_rate.exchange_rate)]);
        }
        TxActionSpecifics::Sfla(s) => {
            o["q"] = JsonValue::Array(vec![dec(&s.shares_affected), dec(&s.amount_per_share)]);
        }
        TxActionSpecifics::Split(s) => {
            o["q"] = JsonValue::Array(vec![
                dec(&s.ratio.post_split),
                dec(&s.ratio.pre_split),
                s.ratio.reverse_integer_only.into(),
            ]);
        }
    }
    o
}

pub fn handle(case: &JsonValue) -> JsonValue {
    let hist = case["history"].as_str().unwrap();
    let later = case["later"].as_str().unwrap();
    let d: Vec<i32> = case["date"].members().map(|x| x.as_i32().unwrap()).collect();
    let date = Date::from_calendar_date(d[0], Month::try_from(d[1] as u8).unwrap(), d[2] as u8).unwrap();
    // the summary warns when "today" is within 60 days of the cut; pin today far in the future
    acb::util::date::set_todays_date_for_test(Date::from_calendar_date(3000, Month::January, 1).unwrap());
    let mut o = JsonValue::new_object();
    o["full"] = crate::hcommon::guarded(|| run(vec![reader("history.csv", hist)]));
    let mut options = Options::default();
    options.summary_mode_latest_date = Some(date);
    options.split_annual_summary_gains = case["annual"].as_bool().unwrap();
    let res = block_on(run_acb_app_summary_to_model(
        date,
        vec![reader("history.csv", hist)],
        HashMap::new(),
        options,
        offline_rate_loader(),
        WriteHandle::empty_write_handle(),
    ));
    match res {
        Err(e) => {
            o["status"] = "err".into();
            o["err"] = match e.general_error {
                Some(g) => g,
                None => {
                    let mut v: Vec<String> = e.sec_errors.iter().map(|(s, m)| format!("{}: {}", s, m)).collect();
                    v.sort();
                    v.join("; ")
                }
            }
            .into();
        }
        Ok(data) => {
            o["status"] = "ok".into();
            o["summary"] = JsonValue::Array(data.txs.iter().map(tx_json).collect());
            let mut w: Vec<String> = data.warnings.keys().cloned().collect();
            w.sort();
            o["warnings"] = JsonValue::Array(w.into_iter().map(|s| s.into()).collect());
            let csvtxs: Vec<CsvTx> = data.txs.into_iter().map(CsvTx::from).collect();
            let mut files = Vec::new();
            if !csvtxs.is_empty() {
                // acb prints nothing at all when the summary is empty
                let mut buf = Vec::<u8>::new();
                write_txs_to_csv(&csvtxs, &mut buf).unwrap();
                let text = String::from_utf8(buf).unwrap();
                o["summary_csv"] = text.as_str().into();
                files.push(reader("summary.csv", &text));
            } else {
                o["summary_csv"] = "".into();
            }
            files.push(reader("later.csv", later));
            o["rerun"] = crate::hcommon::guarded(|| run(files));
        }
    }
    o
}
