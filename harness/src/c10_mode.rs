// mode "summary" (C10): placeholder, filled in below
use json::JsonValue;
pub fn handle(_case: &JsonValue) -> JsonValue {
    JsonValue::new_object()
}
