// C11: field codecs and the write -> read -> write round trip of acb's
// transaction CSV, through the public API only:
//   Tx (public fields) -> Tx::to_csvtx -> txs_to_csv_table / write_txs_to_csv
//   -> parse_tx_csv -> Tx::try_from -> write_txs_to_csv
use std::str::FromStr;

use acb::portfolio::io::tx_csv::{parse_tx_csv, txs_to_csv_table, write_txs_to_csv, TxCsvParseOptions};
use acb::portfolio::{
    Affiliate, AffiliateDedupTable, BuyTxSpecifics, CsvTx, Currency, CurrencyAndExchangeRate,
    RocTxSpecifics, SFLInput, SellTxSpecifics, SflaTxSpecifics, SplitRatio, SplitTxSpecifics, Tx,
    TxActionSpecifics,
};
use acb::util::decimal::{
    to_string_min_precision, GreaterEqualZeroDecimal, LessEqualZeroDecimal, PosDecimal,
};
use acb::util::rw::{DescribedReader, WriteHandle};
use json::JsonValue;
use rust_decimal::Decimal;
use time::{Date, Month};

fn jarr(v: Vec<JsonValue>) -> JsonValue {
    JsonValue::Array(v)
}

/// [neg, "mantissa", scale]
fn dec_in(v: &JsonValue) -> Decimal {
    let mant: i128 = v[1].as_str().unwrap().parse().unwrap();
    let mut d = Decimal::from_i128_with_scale(mant, v[2].as_u32().unwrap());
    d.set_sign_negative(v[0].as_bool().unwrap());
    d
}

fn dec_out(d: &Decimal) -> JsonValue {
    jarr(vec![
        d.is_sign_negative().into(),
        d.mantissa().abs().to_string().into(),
        d.scale().into(),
    ])
}

fn date_in(v: &JsonValue) -> Date {
    Date::from_calendar_date(
        v[0].as_i32().unwrap(),
        Month::try_from(v[1].as_u8().unwrap()).unwrap(),
        v[2].as_u8().unwrap(),
    )
    .unwrap()
}

fn date_out(d: &Date) -> JsonValue {
    jarr(vec![d.year().into(), (u8::from(d.month())).into(), d.day().into()])
}

fn car_in(v: &JsonValue) -> CurrencyAndExchangeRate {
    CurrencyAndExchangeRate {
        currency: Currency::new(v["cur"].as_str().unwrap()),
        exchange_rate: PosDecimal::try_from(dec_in(&v["rate"])).unwrap(),
    }
}

fn car_out(c: &CurrencyAndExchangeRate) -> JsonValue {
    let mut o = JsonValue::new_object();
    o["cur"] = c.currency.as_str().into();
    o["rate"] = dec_out(&c.exchange_rate);
    o
}

fn ocar_in(v: &JsonValue) -> Option<CurrencyAndExchangeRate> {
    if v.is_null() {
        None
    } else {
        Some(car_in(v))
    }
}

fn af_out(a: &Affiliate) -> JsonValue {
    jarr(vec![a.id().into(), a.name().into(), a.registered().into()])
}

fn pin_defaults() {
    // txs_to_csv_table itself interns Affiliate::default(); doing it (and the
    // registered default) first makes the display names of the two default
    // affiliates independent of the order of the cases in this process
    let _ = Affiliate::default();
    let _ = Affiliate::default_registered();
}

fn tx_in(v: &JsonValue) -> Tx {
    let gez = |x: &JsonValue| GreaterEqualZeroDecimal::try_from(dec_in(x)).unwrap();
    let pos = |x: &JsonValue| PosDecimal::try_from(dec_in(x)).unwrap();
    let specs = match v["act"].as_str().unwrap() {
        "Buy" => TxActionSpecifics::Buy(BuyTxSpecifics {
            shares: pos(&v["sh"]),
            amount_per_share: gez(&v["aps"]),
            commission: gez(&v["com"]),
            tx_currency_and_rate: car_in(&v["cr"]),
            separate_commission_currency: ocar_in(&v["ccr"]),
        }),
        "Sell" => TxActionSpecifics::Sell(SellTxSpecifics {
            shares: pos(&v["sh"]),
            amount_per_share: gez(&v["aps"]),
            commission: gez(&v["com"]),
            tx_currency_and_rate: car_in(&v["cr"]),
            separate_commission_currency: ocar_in(&v["ccr"]),
            specified_superficial_loss: if v["sfl"].is_null() {
                None
            } else {
                Some(SFLInput {
                    superficial_loss: LessEqualZeroDecimal::try_from(dec_in(&v["sfl"][0])).unwrap(),
                    force: v["sfl"][1].as_bool().unwrap(),
                })
            },
        }),
        "RoC" => TxActionSpecifics::Roc(RocTxSpecifics {
            amount_per_held_share: gez(&v["aps"]),
            tx_currency_and_rate: car_in(&v["cr"]),
        }),
        "SfLA" => TxActionSpecifics::Sfla(SflaTxSpecifics {
            shares_affected: pos(&v["sh"]),
            amount_per_share: pos(&v["aps"]),
        }),
        "Split" => TxActionSpecifics::Split(SplitTxSpecifics {
            ratio: SplitRatio {
                post_split: pos(&v["ratio"][0]),
                pre_split: pos(&v["ratio"][1]),
                reverse_integer_only: v["ratio"][2].as_bool().unwrap(),
            },
        }),
        a => panic!("harness: bad action {}", a),
    };
    Tx {
        security: v["sec"].as_str().unwrap().to_string(),
        trade_date: date_in(&v["td"]),
        settlement_date: date_in(&v["sd"]),
        action_specifics: specs,
        memo: v["memo"].as_str().unwrap().to_string(),
        affiliate: Affiliate::from_strep(v["af"].as_str().unwrap()),
        read_index: v["ri"].as_u32().unwrap(),
    }
}

fn tx_out(t: &Tx) -> JsonValue {
    let mut o = JsonValue::new_object();
    o["sec"] = t.security.as_str().into();
    o["td"] = date_out(&t.trade_date);
    o["sd"] = date_out(&t.settlement_date);
    o["memo"] = t.memo.as_str().into();
    o["af"] = af_out(&t.affiliate);
    o["ri"] = t.read_index.into();
    o["act"] = t.action().pretty_str().into();
    match &t.action_specifics {
        TxActionSpecifics::Buy(s) => {
            o["sh"] = dec_out(&s.shares);
            o["aps"] = dec_out(&s.amount_per_share);
            o["com"] = dec_out(&s.commission);
            o["cr"] = car_out(&s.tx_currency_and_rate);
            o["ccr"] = s.separate_commission_currency.as_ref().map(car_out).unwrap_or(JsonValue::Null);
        }
        TxActionSpecifics::Sell(s) => {
            o["sh"] = dec_out(&s.shares);
            o["aps"] = dec_out(&s.amount_per_share);
            o["com"] = dec_out(&s.commission);
            o["cr"] = car_out(&s.tx_currency_and_rate);
            o["ccr"] = s.separate_commission_currency.as_ref().map(car_out).unwrap_or(JsonValue::Null);
            o["sfl"] = match &s.specified_superficial_loss {
                Some(f) => jarr(vec![dec_out(&f.superficial_loss), f.force.into()]),
                None => JsonValue::Null,
            };
        }
        TxActionSpecifics::Roc(s) => {
            o["aps"] = dec_out(&s.amount_per_held_share);
            o["cr"] = car_out(&s.tx_currency_and_rate);
        }
        TxActionSpecifics::Sfla(s) => {
            o["sh"] = dec_out(&s.shares_affected);
            o["aps"] = dec_out(&s.amount_per_share);
        }
        TxActionSpecifics::Split(s) => {
            o["ratio"] = jarr(vec![
                dec_out(&s.ratio.post_split),
                dec_out(&s.ratio.pre_split),
                s.ratio.reverse_integer_only.into(),
            ]);
        }
    }
    o
}

fn write_csv(txs: &Vec<Tx>) -> String {
    let csvtxs: Vec<CsvTx> = txs.iter().map(|t| t.to_csvtx()).collect();
    let mut buf = Vec::<u8>::new();
    write_txs_to_csv(&csvtxs, &mut buf).unwrap();
    String::from_utf8(buf).unwrap()
}

/// parse_tx_csv + Tx::try_from on every row
fn read_txs(text: &str) -> Result<Vec<Tx>, (String, String)> {
    let mut rd = DescribedReader::from_string("t.csv".to_string(), text.to_string());
    let csvtxs = parse_tx_csv(&mut rd, 0, &TxCsvParseOptions::default(), &mut WriteHandle::empty_write_handle())
        .map_err(|e| ("parse".to_string(), e))?;
    let mut out = Vec::new();
    for c in csvtxs {
        out.push(Tx::try_from(c).map_err(|e| ("try_from".to_string(), e))?);
    }
    Ok(out)
}

fn read_json(r: &Result<Vec<Tx>, (String, String)>) -> JsonValue {
    let mut o = JsonValue::new_object();
    match r {
        Ok(txs) => {
            o["ok"] = true.into();
            o["txs"] = jarr(txs.iter().map(tx_out).collect());
        }
        Err((stage, e)) => {
            o["ok"] = false.into();
            o["stage"] = stage.as_str().into();
            o["err"] = e.as_str().into();
        }
    }
    o
}

pub fn roundtrip(case: &JsonValue) -> JsonValue {
    pin_defaults();
    let txs: Vec<Tx> = case["txs"].members().map(tx_in).collect();
    let mut o = JsonValue::new_object();
    o["afs"] = jarr(txs.iter().map(|t| af_out(&t.affiliate)).collect());
    let csvtxs: Vec<CsvTx> = txs.iter().map(|t| t.to_csvtx()).collect();
    let table = txs_to_csv_table(&csvtxs);
    o["header"] = jarr(table.header.iter().map(|h| (*h).into()).collect());
    o["rows"] = jarr(
        table.rows.iter().map(|r| jarr(r.iter().map(|c| c.as_str().into()).collect())).collect(),
    );
    let csv1 = write_csv(&txs);
    o["csv"] = csv1.as_str().into();
    let rd = read_txs(&csv1);
    o["read"] = read_json(&rd);
    if let Ok(txs2) = &rd {
        o["csv2"] = write_csv(txs2).into();
    }
    o
}

pub fn read_csv(case: &JsonValue) -> JsonValue {
    pin_defaults();
    read_json(&read_txs(case["csv"].as_str().unwrap()))
}

pub fn dec_show(case: &JsonValue) -> JsonValue {
    let d = dec_in(&case["d"]);
    let p = case["p"].as_i32().unwrap();
    let mut o = JsonValue::new_object();
    o["fmt"] = if p < 0 { d.to_string() } else { format!("{:.1$}", d, p as usize) }.into();
    o["tsmp"] = to_string_min_precision(&d, case["k"].as_usize().unwrap()).into();
    o
}

pub fn field_parse(case: &JsonValue) -> JsonValue {
    let s = case["s"].as_str().unwrap();
    let mut o = JsonValue::new_object();
    match case["kind"].as_u32().unwrap() {
        0 | 1 => {
            let r = if case["kind"] == 0 { Decimal::from_str(s) } else { Decimal::from_str_exact(s) };
            match r {
                Ok(d) => {
                    o["ok"] = true.into();
                    o["v"] = dec_out(&d);
                }
                Err(e) => {
                    o["ok"] = false.into();
                    o["err"] = e.to_string().into();
                }
            }
        }
        2 => match acb::util::date::parse_date(s, &None) {
            Ok(d) => {
                o["ok"] = true.into();
                o["v"] = date_out(&d);
            }
            Err(e) => {
                o["ok"] = false.into();
                o["err"] = e.to_string().into();
            }
        },
        5 => match SplitRatio::parse(s) {
            Ok(r) => {
                o["ok"] = true.into();
                o["v"] = jarr(vec![dec_out(&r.post_split), dec_out(&r.pre_split), r.reverse_integer_only.into()]);
            }
            Err(e) => {
                o["ok"] = false.into();
                o["err"] = e.into();
            }
        },
        6 => {
            o["ok"] = true.into();
            o["v"] = Currency::new(s).as_str().into();
        }
        _ => {
            o["ok"] = true.into();
            o["v"] = s.trim().into();
        }
    }
    o
}

/// a fresh AffiliateDedupTable, deduped_affiliate on each spelling in turn
pub fn aff_seq(case: &JsonValue) -> JsonValue {
    let mut t = AffiliateDedupTable::new();
    jarr(case["names"].members().map(|n| af_out(&t.deduped_affiliate(n.as_str().unwrap()))).collect())
}
