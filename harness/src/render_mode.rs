// mode "table": hand-made / replayed TxDelta values + a CumulativeCapitalGains
// -> render_tx_table_model and render_aggregate_capital_gains in both
// precision modes.  mode "dollar": decimal text -> dollar_precision_str.
use std::collections::HashMap;
use std::rc::Rc;
use std::str::FromStr;

use acb::portfolio::render::{render_aggregate_capital_gains, render_tx_table_model};
use acb::portfolio::{
    Affiliate, BuyTxSpecifics, CumulativeCapitalGains, Currency, CurrencyAndExchangeRate,
    DeltaSflInfo, PortfolioSecurityStatus, RocTxSpecifics, SFLInput, SellTxSpecifics,
    SflaTxSpecifics, SplitRatio, SplitTxSpecifics, Tx, TxActionSpecifics, TxDelta,
};
use acb::util::decimal::{
    dollar_precision_str, GreaterEqualZeroDecimal, LessEqualZeroDecimal, NegDecimal, PosDecimal,
};
use acb::util::math::PosDecimalRatio;
use json::JsonValue;
use rust_decimal::Decimal;

use crate::core_mode::table_json;

fn d(v: &JsonValue) -> Decimal {
    Decimal::from_str(v.as_str().unwrap()).unwrap()
}
fn pos(v: &JsonValue) -> PosDecimal {
    PosDecimal::try_from(d(v)).unwrap()
}
fn gez(v: &JsonValue) -> GreaterEqualZeroDecimal {
    GreaterEqualZeroDecimal::try_from(d(v)).unwrap()
}
fn date(v: &JsonValue) -> time::Date {
    acb::util::date::parse_standard_date(v.as_str().unwrap()).unwrap()
}
fn cur_rate(c: &JsonValue, r: &JsonValue) -> CurrencyAndExchangeRate {
    CurrencyAndExchangeRate { currency: Currency::new(c.as_str().unwrap_or("")), exchange_rate: pos(r) }
}
fn status(sec: &str, v: &JsonValue) -> Rc<PortfolioSecurityStatus> {
    Rc::new(PortfolioSecurityStatus {
        security: sec.to_string(),
        share_balance: gez(&v[0]),
        all_affiliate_share_balance: gez(&v[1]),
        total_acb: if v[2].is_null() { None } else { Some(gez(&v[2])) },
    })
}

fn delta(o: &JsonValue) -> TxDelta {
    let sec = o["sec"].as_str().unwrap();
    let common = || BuyTxSpecifics {
        shares: pos(&o["sh"]),
        amount_per_share: gez(&o["aps"]),
        commission: gez(&o["com"]),
        tx_currency_and_rate: cur_rate(&o["cur"], &o["rate"]),
        separate_commission_currency: if o["ccur"].is_null() {
            None
        } else {
            Some(cur_rate(&o["ccur"], &o["crate"]))
        },
    };
    let specs = match o["act"].as_str().unwrap() {
        "Buy" => TxActionSpecifics::Buy(common()),
        "Sell" => TxActionSpecifics::Sell(SellTxSpecifics::from_common_buy_sell_attrs(
            &common(),
            if o["spec"].is_null() {
                None
            } else {
                Some(SFLInput {
                    superficial_loss: LessEqualZeroDecimal::try_from(d(&o["spec"][0])).unwrap(),
                    force: o["spec"][1].as_bool().unwrap(),
                })
            },
        )),
        "RoC" => TxActionSpecifics::Roc(RocTxSpecifics {
            amount_per_held_share: gez(&o["aps"]),
            tx_currency_and_rate: cur_rate(&o["cur"], &o["rate"]),
        }),
        "SfLA" => TxActionSpecifics::Sfla(SflaTxSpecifics {
            shares_affected: pos(&o["sh"]),
            amount_per_share: pos(&o["aps"]),
        }),
        "Split" => TxActionSpecifics::Split(SplitTxSpecifics {
            ratio: SplitRatio {
                pre_split: pos(&o["pre_split"]),
                post_split: pos(&o["post_split"]),
                reverse_integer_only: o["int_only"].as_bool().unwrap_or(false),
            },
        }),
        other => panic!("harness: unknown action {}", other),
    };
    TxDelta {
        tx: Tx {
            security: sec.to_string(),
            trade_date: date(&o["td"]),
            settlement_date: date(&o["sd"]),
            action_specifics: specs,
            memo: o["memo"].as_str().unwrap_or("").to_string(),
            affiliate: Affiliate::from_strep(o["af"].as_str().unwrap_or("")),
            read_index: o["ri"].as_u32().unwrap_or(0),
        },
        pre_status: status(sec, &o["pre"]),
        post_status: status(sec, &o["post"]),
        capital_gain: if o["gain"].is_null() { None } else { Some(d(&o["gain"])) },
        sfl: if o["sfl"].is_null() {
            None
        } else {
            Some(DeltaSflInfo {
                superficial_loss: NegDecimal::try_from(d(&o["sfl"][0])).unwrap(),
                ratio: PosDecimalRatio { numerator: pos(&o["sfl"][1]), denominator: pos(&o["sfl"][2]) },
                potentially_over_applied: o["sfl"][3].as_bool().unwrap(),
            })
        },
    }
}

pub fn handle_table(case: &JsonValue) -> JsonValue {
    let deltas: Vec<TxDelta> = case["deltas"].members().map(delta).collect();
    let mut years = HashMap::<i32, Decimal>::new();
    for y in case["gains"]["years"].members() {
        years.insert(y[0].as_i32().unwrap(), d(&y[1]));
    }
    let gains = CumulativeCapitalGains {
        capital_gains_total: d(&case["gains"]["total"]),
        capital_gains_years_totals: years,
    };
    let mut o = JsonValue::new_object();
    o["status"] = "ok".into();
    o["full"] = crate::guarded(|| table_json(&render_tx_table_model(&deltas, &gains, true)));
    o["cents"] = crate::guarded(|| table_json(&render_tx_table_model(&deltas, &gains, false)));
    o["agg_full"] = crate::guarded(|| table_json(&render_aggregate_capital_gains(&gains, true)));
    o["agg_cents"] = crate::guarded(|| table_json(&render_aggregate_capital_gains(&gains, false)));
    o
}

pub fn handle_dollar(case: &JsonValue) -> JsonValue {
    let v = d(&case["v"]);
    let mut o = JsonValue::new_object();
    o["text"] = dollar_precision_str(&v).into();
    o["full"] = v.to_string().into();
    o
}
