// Modes of group "etrade" (C19).
//   extract  : {"files": [paths of .txt confirmations, in argument order]}
//              -> run_with_args (the body of etrade-plan-pdf-tx-extract) with
//                 buffer write handles: {"rc": 0|1, "out": csv text, "err": stderr text}
//   acbparse : {"csv": text} -> the real acb reader on the emitted CSV:
//              parse_tx_csv, then for every row the USD rate that load_tx_rates
//              would supply (a fixed positive rate), then Tx::try_from.
//              {"status": "ok"|"err", "error": .., "rows": [{"ok":bool, "err":.., fields..}]}
use std::path::PathBuf;

use acb::peripheral::etrade_plan_pdf_tx_extract_impl::{run_with_args, Args};
use acb::portfolio::io::tx_csv::{parse_tx_csv, TxCsvParseOptions};
use acb::portfolio::{Currency, Tx};
use acb::util::rw::{DescribedReader, WriteHandle};
use json::JsonValue;
use rust_decimal_macros::dec;

use crate::util::opt_dec;

pub fn handle_extract(case: &JsonValue) -> JsonValue {
    let files: Vec<PathBuf> =
        case["files"].members().map(|f| PathBuf::from(f.as_str().unwrap())).collect();
    let args = Args {
        files,
        pretty: false,
        extract_only: false,
        debug: false,
    };
    let (out_w, out_b) = WriteHandle::string_buff_write_handle();
    let (err_w, err_b) = WriteHandle::string_buff_write_handle();
    let res = run_with_args(args, out_w, err_w);
    let mut o = JsonValue::new_object();
    o["status"] = "done".into();
    o["rc"] = (if res.is_ok() { 0 } else { 1 }).into();
    o["out"] = out_b.borrow_mut().export_string().into();
    o["err"] = err_b.borrow_mut().export_string().into();
    o
}

pub fn handle_acbparse(case: &JsonValue) -> JsonValue {
    let text = case["csv"].as_str().unwrap().to_string();
    let mut rd = DescribedReader::from_string("emitted.csv".to_string(), text);
    let mut err_w = WriteHandle::empty_write_handle();
    let mut o = JsonValue::new_object();
    let csv_txs = match parse_tx_csv(&mut rd, 0, &TxCsvParseOptions::default(), &mut err_w) {
        Ok(t) => t,
        Err(e) => {
            o["status"] = "err".into();
            o["error"] = e.into();
            return o;
        }
    };
    o["status"] = "ok".into();
    let mut rows = JsonValue::new_array();
    for mut ct in csv_txs {
        let mut r = JsonValue::new_object();
        r["sec"] = ct.security.clone().unwrap_or_default().into();
        r["td"] = ct.trade_date.map(|d| d.to_string()).unwrap_or_default().into();
        r["sd"] = ct.settlement_date.map(|d| d.to_string()).unwrap_or_default().into();
        r["act"] = ct.action.map(|a| a.to_string()).unwrap_or_default().into();
        r["shares"] = opt_dec(ct.shares);
        r["price"] = opt_dec(ct.amount_per_share);
        r["comm"] = opt_dec(ct.commission);
        r["curr"] = ct.tx_currency.clone().map(|c| c.to_string()).unwrap_or_default().into();
        r["memo"] = ct.memo.clone().unwrap_or_default().into();
        // what load_tx_rates does for a USD row without a rate
        if ct.tx_curr_to_local_exchange_rate.is_none() && ct.tx_currency == Some(Currency::usd()) {
            ct.tx_curr_to_local_exchange_rate = Some(dec!(1.25));
        }
        match Tx::try_from(ct) {
            Ok(_) => {
                r["ok"] = true.into();
            }
            Err(e) => {
                r["ok"] = false.into();
                r["err"] = e.into();
            }
        }
        rows.push(r).unwrap();
    }
    o["rows"] = rows;
    o
}
