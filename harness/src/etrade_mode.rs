// Modes of group "etrade" (C19).
//   extract  : {"files": [paths of .txt confirmations, in argument order]}
//              -> run_with_args (the body of etrade-plan-pdf-tx-extract) with
//                 buffer write handles: {"rc": 0|1, "out": csv text, "err": stderr text}
//   acbparse : {"csv": text} -> the real acb reader on the emitted CSV:
//              parse_tx_csv, then for every row the USD rate that load_tx_rates
//              would supply (a fixed positive rate), then Tx::try_from.
//              {"status": "ok"|"err", "error": .., "rows": [{"ok":bool, "err":.., fields..}]}
use std::path::PathBuf;

use acb::peripheral::etrade_plan_pdf_tx_extract_impl::{run_with_args, Args};
use acb::portfolio::io::tx_csv::{parse_tx_csv, TxCsvParseOptions};
use acb::portfolio::{Currency, Tx};
use acb::util::rw::{DescribedReader, WriteHandle};
use json::JsonValue;
use rust_decimal_macros::dec;

use crate::util::opt_dec;

pub fn handle_extract(case: &JsonValue) -> JsonValue {
    let files: Vec<PathBuf> =
        case["files"].members().map(|f| PathBuf::from(f.as_str().unwrap())).collect();
    let args = Args {
        files,
        pretty: false,
        extract_only: false,
        debug: false,
    };
    let (out_w, out_b) = WriteHandle::string_buff_write_handle();
    let (err_w, err_b) = WriteHandle::string_buff_write_handle();
    let res = run_with_args(args, out_w, err_w);
    let mut o = JsonValue::new_object();
    o["status"] = "done".into();
    o["rc"] = (if res.is_ok() { 0 } else { 1 }).into();
    o["out"] = out_b.borrow_mut().export_string().into();
    o["err"] = err_b.borrow_mut().export_string().into();
    o
}

pub fn handle_acbparse(case: &JsonValue) -> JsonValue {
    let text = case["csv"].as_str().unwrap().to_string();
    let mut rd = DescribedReader::from_string("emitted.csv".to_string(), text);
    let mut err_w = WriteHandle::empty_write_handle();
    let mut o = JsonValue::new_object();
    let csv_txs = match parse_tx_csv(&mut rd, 0, &TxCsvParseOptions::default(), &mut err_w) {
        Ok(t) => t,
        Err(e) => {
            o["status"] = "err".into();
            o["error"] = e.into();
            return o;
        }
    };
    o["status"] = "ok".into();
    let mut rows = JsonValue::new_array();
    for mut ct in csv_txs {
        let mut r = JsonValue::new_object();
        r["sec"] = ct.security.clone().unwrap_or_default().into();
        r["td"] = ct.trade_date.map(|d| d.to_string()).unwrap_or_default().into();
        r["sd"] = ct.settlement_date.map(|d| d.to_string()).unwrap_or_default().into();
        r["act"] = ct.action.map(|a| a.to_string()).unwrap_or_default().into();
        r["shares"] = opt_dec(ct.shares);
        r["price"] = opt_dec(ct.amount_per_share);
        r["comm"] = opt_dec(ct.commission);
        r["curr"] = ct.tx_currency.clone().map(|c| c.to_string()).unwrap_or_default().into();
        r["memo"] = ct.memo.clone().unwrap_or_default().into();
        // what load_tx_rates does for a USD row without a rate
        if ct.tx_curr_to_local_exchange_rate.is_none() && ct.tx_currency == Some(Currency::usd()) {
            ct.tx_curr_to_local_exchange_rate = Some(dec!(1.25));
        }
        match Tx::try_from(ct) {
            Ok(_) => {
                r["ok"] = true.into();
            }
            Err(e) => {
                r["ok"] = false.into();
                r["err"] = e.into();
            }
        }
        rows.push(r).unwrap();
    }
    o["rows"] = rows;
    o
}

// ---- text layer (C19 text extension) ----
//   parsetext : {"text": document text, "path": file path}
//              -> acb::peripheral::broker::etrade::parse_pdf_text (public) on the text:
//                 {"status":"ok","kind":"benefits","recs":[..]} | {"status":"ok","kind":"trades","recs":[..]}
//                 | {"status":"err","error":msg}   (a panic is reported by the main loop)
//              dates as Julian day numbers, decimals as their exact decimal expansion
use acb::peripheral::broker::etrade::{parse_pdf_text, EtradePdfContent};

fn jd(d: time::Date) -> JsonValue {
    d.to_julian_day().into()
}
fn opt_jd(d: Option<time::Date>) -> JsonValue {
    match d {
        Some(d) => jd(d),
        None => JsonValue::Null,
    }
}

pub fn handle_parsetext(case: &JsonValue) -> JsonValue {
    let text = case["text"].as_str().unwrap();
    let path = PathBuf::from(case["path"].as_str().unwrap_or("doc.txt"));
    let mut o = JsonValue::new_object();
    match parse_pdf_text(text, &path) {
        Err(e) => {
            o["status"] = "err".into();
            o["error"] = e.into();
        }
        Ok(EtradePdfContent::BenefitConfirmation(bs)) => {
            o["status"] = "ok".into();
            o["kind"] = "benefits".into();
            let mut recs = JsonValue::new_array();
            for b in bs {
                let mut r = JsonValue::new_object();
                r["sec"] = b.security.clone().into();
                r["date"] = jd(b.acquire_tx_date);
                r["settle"] = jd(b.acquire_settle_date);
                r["price"] = crate::util::dec(&b.acquire_share_price);
                r["shares"] = crate::util::dec(&b.acquire_shares);
                r["stc_td"] = opt_jd(b.sell_to_cover_tx_date);
                r["stc_sd"] = opt_jd(b.sell_to_cover_settle_date);
                r["stc_price"] = opt_dec(b.sell_to_cover_price);
                r["stc_shares"] = opt_dec(b.sell_to_cover_shares);
                r["stc_fee"] = opt_dec(b.sell_to_cover_fee);
                r["note"] = b.plan_note.clone().into();
                r["sell_note"] = match &b.sell_note {
                    Some(s) => s.clone().into(),
                    None => JsonValue::Null,
                };
                r["file"] = b.filename.clone().into();
                recs.push(r).unwrap();
            }
            o["recs"] = recs;
        }
        Ok(EtradePdfContent::TradeConfirmation(ts)) => {
            o["status"] = "ok".into();
            o["kind"] = "trades".into();
            let mut recs = JsonValue::new_array();
            for t in ts {
                let mut r = JsonValue::new_object();
                r["sec"] = t.security.clone().into();
                r["td"] = jd(t.trade_date);
                r["sd"] = jd(t.settlement_date);
                r["td_text"] = t.trade_date_and_time.clone().into();
                r["sd_text"] = t.settlement_date_and_time.clone().into();
                r["act"] = t.action.to_string().into();
                r["price"] = crate::util::dec(&t.amount_per_share);
                r["shares"] = crate::util::dec(&t.num_shares);
                r["comm"] = crate::util::dec(&t.commission);
                r["currency"] = t.currency.to_string().into();
                r["memo"] = t.memo.clone().into();
                r["has_rate"] = t.exchange_rate.is_some().into();
                r["affiliate"] = t.affiliate.name().to_string().into();
                r["row"] = t.row_num.into();
                r["acct"] = t.account.account_num.clone().into();
                r["acct_type"] = t.account.account_type.clone().into();
                r["broker"] = t.account.broker_name.into();
                r["tiebreak"] = t.sort_tiebreak.is_some().into();
                r["file"] = match &t.filename {
                    Some(s) => s.clone().into(),
                    None => JsonValue::Null,
                };
                recs.push(r).unwrap();
            }
            o["recs"] = recs;
        }
    }
    o
}
