// Modes of the "rates" harness.  Everything goes through the public API of
// the repository: RateLoader::new, InMemoryRatesCache / CsvRatesCache,
// JsonRemoteRateLoader over our own HttpRequester (serving generated Bank of
// Canada JSON and recording every request), set_todays_date_for_test,
// run_acb_app_to_delta_models.
//
// Dates travel as day numbers (days since 1970-01-01).
use std::cell::RefCell;
use std::collections::HashMap;
use std::path::{Path, PathBuf};
use std::rc::Rc;

use acb::app::run_acb_app_to_delta_models;
use acb::fx::io::{CsvRatesCache, InMemoryRatesCache, JsonRemoteRateLoader, RateLoader, RatesCache};
use acb::fx::DailyRate;
use acb::portfolio::io::tx_csv::TxCsvParseOptions;
use acb::portfolio::TxActionSpecifics;
use acb::util::basic::SError;
use acb::util::http::HttpRequester;
use acb::util::rw::{DescribedReader, WriteHandle};
use async_std::task::block_on;
use json::JsonValue;
use rust_decimal::Decimal;
use time::Date;

const EPOCH_JULIAN: i64 = 2440588; // 1970-01-01

pub fn date_of(day: i64) -> Date {
    Date::from_julian_day((day + EPOCH_JULIAN) as i32).unwrap()
}

pub fn day_of(d: &Date) -> i64 {
    d.to_julian_day() as i64 - EPOCH_JULIAN
}

// ---------------------------------------------------------------- remote
/// One published observation: the day it belongs to (used to decide which
/// request it is served for and whether it is already published) and the
/// JSON text of the observation object.
#[derive(Clone)]
struct Obs {
    day: i64,
    json: String,
}

fn truth_of(case: &JsonValue) -> Rc<Vec<Obs>> {
    Rc::new(
        case["truth"]
            .members()
            .map(|o| Obs { day: o["day"].as_i64().unwrap(), json: o["json"].as_str().unwrap().to_string() })
            .collect(),
    )
}

type ReqLog = Rc<RefCell<Vec<(i64, String)>>>;

struct ServingRequester {
    truth: Rc<Vec<Obs>>,
    avail: i64, // observations of days < avail are published
    log: ReqLog,
}

/// "https://www.bankofcanada.ca/valet/observations/{series}/json?start_date={y}-01-01&end_date={y}-12-31"
fn parse_url(url: &str) -> Option<(String, i64, i64)> {
    let rest = url.strip_prefix("https://www.bankofcanada.ca/valet/observations/")?;
    let (series, rest) = rest.split_once("/json?start_date=")?;
    let (start, end) = rest.split_once("&end_date=")?;
    let s = acb::util::date::parse_standard_date(start).ok()?;
    let e = acb::util::date::parse_standard_date(end).ok()?;
    Some((series.to_string(), day_of(&s), day_of(&e)))
}

#[async_trait::async_trait(?Send)]
impl HttpRequester for ServingRequester {
    async fn get(&self, url: &str) -> Result<String, SError> {
        let (series, start, end) = match parse_url(url) {
            Some(x) => x,
            None => {
                self.log.borrow_mut().push((-1, url.to_string()));
                return Err(format!("harness: unexpected url {}", url));
            }
        };
        let year = date_of(start).year() as i64;
        // the request must span exactly one calendar year
        let whole_year = date_of(start).ordinal() == 1
            && date_of(end).year() as i64 == year
            && date_of(end + 1).year() as i64 == year + 1;
        self.log.borrow_mut().push((year, if whole_year { series } else { format!("{}?partial", series) }));
        let mut body = String::from("{\"observations\":[");
        let mut first = true;
        for o in self.truth.iter() {
            if o.day >= start && o.day <= end && o.day < self.avail {
                if !first {
                    body.push(',');
                }
                first = false;
                body.push_str(&o.json);
            }
        }
        body.push_str("]}");
        Ok(body)
    }
}

// ---------------------------------------------------------------- answers
fn answer_json(r: Result<DailyRate, SError>) -> JsonValue {
    match r {
        Ok(dr) => JsonValue::Array(vec![
            "ok".into(),
            day_of(&dr.date).into(),
            JsonValue::String(dr.foreign_to_local_rate.to_string()),
        ]),
        Err(e) => JsonValue::Array(vec!["err".into(), e.into()]),
    }
}

fn rates_json(rates: &Vec<DailyRate>) -> JsonValue {
    JsonValue::Array(
        rates
            .iter()
            .map(|r| {
                JsonValue::Array(vec![
                    day_of(&r.date).into(),
                    JsonValue::String(r.foreign_to_local_rate.to_string()),
                ])
            })
            .collect(),
    )
}

fn requests_json(log: &ReqLog) -> JsonValue {
    JsonValue::Array(
        log.borrow()
            .iter()
            .map(|(y, s)| JsonValue::Array(vec![(*y).into(), s.clone().into()]))
            .collect(),
    )
}

// ---------------------------------------------------------------- scratch
static SCRATCH_N: std::sync::atomic::AtomicUsize = std::sync::atomic::AtomicUsize::new(0);

fn scratch_dir() -> PathBuf {
    let base = std::env::var("ACBH_SCRATCH").unwrap_or_else(|_| "/verif/build/run".to_string());
    let n = SCRATCH_N.fetch_add(1, std::sync::atomic::Ordering::SeqCst);
    let p = Path::new(&base).join(format!("rates-{}-{}", std::process::id(), n));
    let _ = std::fs::remove_dir_all(&p);
    std::fs::create_dir_all(&p).unwrap();
    p
}

enum CacheKind {
    Mem(acb::util::rc::RcRefCell<HashMap<u32, Vec<DailyRate>>>),
    Csv(PathBuf),
}

impl CacheKind {
    fn make(&self) -> Box<dyn RatesCache> {
        match self {
            CacheKind::Mem(m) => Box::new(InMemoryRatesCache { rates_by_year: m.clone() }),
            CacheKind::Csv(p) => Box::new(CsvRatesCache::new(p.clone(), WriteHandle::empty_write_handle())),
        }
    }
}

fn dump_cache(kind: &CacheKind, years: &JsonValue) -> JsonValue {
    let mut o = JsonValue::new_object();
    let mut c = kind.make();
    for y in years.members() {
        let y = y.as_i64().unwrap();
        o[y.to_string()] = match c.get_usd_cad_rates(y as u32) {
            Ok(Some(r)) => rates_json(&r),
            Ok(None) => JsonValue::Null,
            Err(e) => JsonValue::String(e),
        };
    }
    o
}

/// for a CSV cache: the text of each year's file as it lies on disk (null when absent)
fn dump_cache_files(kind: &CacheKind, years: &JsonValue) -> JsonValue {
    let mut o = JsonValue::new_object();
    if let CacheKind::Csv(dir) = kind {
        for y in years.members() {
            let y = y.as_i64().unwrap();
            o[y.to_string()] = match std::fs::read_to_string(dir.join(format!("rates-{}.csv", y))) {
                Ok(t) => t.into(),
                Err(_) => JsonValue::Null,
            };
        }
    }
    o
}

fn seed_cache(kind: &CacheKind, seed: &JsonValue) {
    // initial cache content: {"2022": [[day, "rate"], ...]} written through the cache's own writer
    let mut c = kind.make();
    for (y, rows) in seed.entries() {
        let rates: Vec<DailyRate> = rows
            .members()
            .map(|r| DailyRate::new(date_of(r[0].as_i64().unwrap()), Decimal::from_str_exact(r[1].as_str().unwrap()).unwrap()))
            .collect();
        c.write_rates(y.parse::<u32>().unwrap(), &rates).unwrap();
    }
}

// ---------------------------------------------------------------- mode hist
/// {"truth":[{"day":..,"json":".."}], "cache":"mem"|"csv", "seed_cache":{..}?, "years":[..],
///  "runs":[{"today":d,"avail":d,"force":bool,"lookups":[d..]}]}
pub fn hist(case: &JsonValue) -> JsonValue {
    let truth = truth_of(case);
    let ckind = case["cache"].as_str().unwrap_or("mem").to_string();
    let dir = if ckind == "csv" || ckind == "csv-broken" { Some(scratch_dir()) } else { None };
    let kind = match &dir {
        // "csv-broken": a cache directory that can not be created or written (it lies below a
        // regular file): every cache write fails, every read finds nothing
        Some(d) if ckind == "csv-broken" => {
            std::fs::write(d.join("blocker"), b"x").unwrap();
            CacheKind::Csv(d.join("blocker").join("cache"))
        }
        Some(d) => CacheKind::Csv(d.clone()),
        None => CacheKind::Mem(acb::util::rc::RcRefCellT::new(HashMap::new())),
    };
    if case.has_key("seed_cache") {
        seed_cache(&kind, &case["seed_cache"]);
    }
    let mut runs = JsonValue::new_array();
    for run in case["runs"].members() {
        let today = run["today"].as_i64().unwrap();
        acb::util::date::set_todays_date_for_test(date_of(today));
        let log: ReqLog = Rc::new(RefCell::new(Vec::new()));
        let req = ServingRequester { truth: truth.clone(), avail: run["avail"].as_i64().unwrap(), log: log.clone() };
        let mut loader = RateLoader::new(
            run["force"].as_bool().unwrap(),
            kind.make(),
            JsonRemoteRateLoader::new_boxed(Box::new(req)),
            WriteHandle::empty_write_handle(),
        );
        let mut answers = JsonValue::new_array();
        let mut marks = JsonValue::new_array();
        for d in run["lookups"].members() {
            let r = loader.blocking_get_effective_usd_cad_rate(date_of(d.as_i64().unwrap()));
            answers.push(answer_json(r)).unwrap();
            marks.push(log.borrow().len()).unwrap();
        }
        let mut o = JsonValue::new_object();
        o["answers"] = answers;
        o["requests"] = requests_json(&log);
        o["req_marks"] = marks; // number of requests made after each look-up
        o["cache_after"] = dump_cache(&kind, &case["years"]);
        o["cache_files"] = dump_cache_files(&kind, &case["years"]);
        runs.push(o).unwrap();
    }
    let mut out = JsonValue::new_object();
    out["status"] = "ok".into();
    out["runs"] = runs;
    out["cache"] = dump_cache(&kind, &case["years"]);
    if let Some(d) = dir {
        let _ = std::fs::remove_dir_all(d);
    }
    out
}

// ---------------------------------------------------------------- mode rows
/// {"truth":[..], "today":d, "avail":d, "csv":"..."}: the application path
/// (parse CSV -> load_tx_rates -> Tx::try_from -> delta lists); one Buy row
/// per security, so every row's effective rates are visible on its delta.
pub fn rows(case: &JsonValue) -> JsonValue {
    let truth = truth_of(case);
    acb::util::date::set_todays_date_for_test(date_of(case["today"].as_i64().unwrap()));
    let log: ReqLog = Rc::new(RefCell::new(Vec::new()));
    let req = ServingRequester { truth, avail: case["avail"].as_i64().unwrap(), log: log.clone() };
    let loader = RateLoader::new(
        false,
        Box::new(InMemoryRatesCache::new()),
        JsonRemoteRateLoader::new_boxed(Box::new(req)),
        WriteHandle::empty_write_handle(),
    );
    let readers =
        vec![DescribedReader::from_string("rows.csv".to_string(), case["csv"].as_str().unwrap().to_string())];
    let res = block_on(run_acb_app_to_delta_models(
        readers,
        HashMap::new(),
        &TxCsvParseOptions::default(),
        loader,
        WriteHandle::empty_write_handle(),
    ));
    let mut out = JsonValue::new_object();
    out["status"] = "ok".into();
    out["requests"] = requests_json(&log);
    match res {
        Err(e) => {
            out["err"] = e.into();
        }
        Ok(m) => {
            let mut secs = JsonValue::new_object();
            for (sec, r) in &m {
                let mut o = JsonValue::new_object();
                o["err"] = match &r.0 {
                    Ok(_) => JsonValue::Null,
                    Err(e) => e.err_msg.clone().into(),
                };
                let mut rows = JsonValue::new_array();
                // the Amount / Amt/Share / Commission cells of the rendered table (full values)
                let all_deltas: Vec<_> = r.deltas_or_partial_deltas().clone();
                let gains = acb::portfolio::calc_security_cumulative_capital_gains(&all_deltas);
                let table = crate::guarded(|| {
                    let t = acb::portfolio::render::render_tx_table_model(&all_deltas, &gains, true);
                    let mut a = JsonValue::new_array();
                    for row in &t.rows {
                        a.push(JsonValue::Array(vec![row[4].clone().into(), row[6].clone().into(), row[8].clone().into()]))
                            .unwrap();
                    }
                    a
                });
                o["cells"] = table;
                for d in r.deltas_or_partial_deltas() {
                    let (tx_rate, c_rate) = match &d.tx.action_specifics {
                        TxActionSpecifics::Buy(s) => (
                            Some(*s.tx_currency_and_rate.exchange_rate),
                            Some(*s.commission_currency_and_rate().exchange_rate),
                        ),
                        TxActionSpecifics::Sell(s) => (
                            Some(*s.tx_currency_and_rate.exchange_rate),
                            Some(*s.commission_currency_and_rate().exchange_rate),
                        ),
                        TxActionSpecifics::Roc(s) => (Some(*s.tx_currency_and_rate.exchange_rate), None),
                        _ => (None, None),
                    };
                    let mut row = JsonValue::new_object();
                    row["td"] = day_of(&d.tx.trade_date).into();
                    row["rate"] = crate::util::opt_dec(tx_rate);
                    row["crate"] = crate::util::opt_dec(c_rate);
                    row["acb"] = crate::util::opt_dec(d.post_status.total_acb.map(|x| *x));
                    rows.push(row).unwrap();
                }
                o["rows"] = rows;
                secs[sec.as_str()] = o;
            }
            out["secs"] = secs;
        }
    }
    out
}

// ---------------------------------------------------------------- mode dates
/// {"days":[..]} -> [[year, "YYYY-MM-DD"], ..] as the `time` crate sees them
pub fn dates(case: &JsonValue) -> JsonValue {
    let mut a = JsonValue::new_array();
    for d in case["days"].members() {
        let dt = date_of(d.as_i64().unwrap());
        a.push(JsonValue::Array(vec![(dt.year() as i64).into(), dt.to_string().into()])).unwrap();
    }
    let mut out = JsonValue::new_object();
    out["status"] = "ok".into();
    out["dates"] = a;
    out
}

// ---------------------------------------------------------------- mode parsecsv
fn read_year(dir: &Path, year: u32) -> JsonValue {
    let mut c = CsvRatesCache::new(dir.to_path_buf(), WriteHandle::empty_write_handle());
    match c.get_usd_cad_rates(year) {
        Ok(Some(r)) => rates_json(&r),
        Ok(None) => JsonValue::Null,
        Err(e) => JsonValue::String(e),
    }
}

/// {"content":[byte..]} -> rows the cache reader accepts from a file with that content
pub fn parsecsv(case: &JsonValue) -> JsonValue {
    let dir = scratch_dir();
    let bytes: Vec<u8> = case["content"].members().map(|b| b.as_u8().unwrap()).collect();
    std::fs::write(dir.join("rates-2022.csv"), &bytes).unwrap();
    let mut out = JsonValue::new_object();
    out["status"] = "ok".into();
    out["rows"] = read_year(&dir, 2022);
    let _ = std::fs::remove_dir_all(dir);
    out
}

// ---------------------------------------------------------------- mode crash
fn rows_of(v: &JsonValue) -> Vec<DailyRate> {
    v.members()
        .map(|r| DailyRate::new(date_of(r[0].as_i64().unwrap()), Decimal::from_str_exact(r[1].as_str().unwrap()).unwrap()))
        .collect()
}

/// child process: {"dir":"..","year":y,"rows":[[day,"rate"]..]} -> writes the
/// year through CsvRatesCache::write_rates; ACB_VERIF_CRASH (set by the parent)
/// makes the hook in the write path abort the process.
pub fn crashchild(case: &JsonValue) -> JsonValue {
    let mut c = CsvRatesCache::new(PathBuf::from(case["dir"].as_str().unwrap()), WriteHandle::empty_write_handle());
    let r = c.write_rates(case["year"].as_u32().unwrap(), &rows_of(&case["rows"]));
    let mut out = JsonValue::new_object();
    out["status"] = "ok".into();
    out["write"] = match r {
        Ok(()) => JsonValue::Null,
        Err(e) => e.into(),
    };
    out
}

fn dir_listing(dir: &Path) -> JsonValue {
    let mut o = JsonValue::new_object();
    let mut names: Vec<_> = std::fs::read_dir(dir).unwrap().map(|e| e.unwrap().file_name().into_string().unwrap()).collect();
    names.sort();
    for n in names {
        let bytes = std::fs::read(dir.join(&n)).unwrap();
        o[n] = JsonValue::Array(bytes.iter().map(|b| (*b).into()).collect());
    }
    o
}

/// {"truth":[..], "year":y, "old":[[day,"rate"]..]|null, "new":[[day,"rate"]..],
///  "crash":"bytes:N"|"<step>"|"", "today":d, "avail":d, "lookups":[d..]}
/// 1. the cache directory holds the old year (written normally),
/// 2. a child process rewrites the year and is killed at the crash point,
/// 3. the directory is listed and a fresh loader answers the look-ups.
pub fn crash(case: &JsonValue) -> JsonValue {
    let dir = scratch_dir();
    let year = case["year"].as_u32().unwrap();
    if !case["old"].is_null() {
        let mut c = CsvRatesCache::new(dir.clone(), WriteHandle::empty_write_handle());
        c.write_rates(year, &rows_of(&case["old"])).unwrap();
    }
    // a temporary file left behind by an earlier interrupted write
    if let Some(st) = case["stale_tmp"].as_str() {
        std::fs::create_dir_all(&dir).unwrap();
        std::fs::write(dir.join(format!("rates-{}.csv.tmp", year)), st.as_bytes()).unwrap();
    }
    let live_path = dir.join(format!("rates-{}.csv", year));
    // the live name is a symbolic link to the year's file kept elsewhere (a user who relocated the cache file)
    let link_target = dir.with_extension("linktarget");
    let _ = std::fs::remove_file(&link_target);
    if case["live_symlink"].as_bool().unwrap_or(false) && live_path.exists() {
        std::fs::rename(&live_path, &link_target).unwrap();
        std::os::unix::fs::symlink(&link_target, &live_path).unwrap();
    }
    // ... or has a second hard link (a user's backup made with `ln`)
    if case["live_hardlink"].as_bool().unwrap_or(false) && live_path.exists() {
        std::fs::hard_link(&live_path, &link_target).unwrap();
    }
    let inode_of = |p: &Path| -> JsonValue {
        use std::os::unix::fs::MetadataExt;
        match std::fs::metadata(p) {
            Ok(m) => JsonValue::String(format!("{}", m.ino())),
            Err(_) => JsonValue::Null,
        }
    };
    let mut job = JsonValue::new_object();
    job["dir"] = dir.to_str().unwrap().into();
    job["year"] = year.into();
    job["rows"] = case["new"].clone();
    let exe = std::env::current_exe().unwrap();
    // an EARLIER run of the same write, killed at the step boundary "first_crash"
    if let Some(fc) = case["first_crash"].as_str() {
        let mut c0 = std::process::Command::new(&exe);
        c0.arg("crashchild").stdin(std::process::Stdio::piped()).stdout(std::process::Stdio::null()).stderr(std::process::Stdio::null());
        c0.env("ACB_VERIF_CRASH", fc).env_remove("ACB_VERIF_TRACE");
        let mut ch = c0.spawn().unwrap();
        {
            use std::io::Write;
            let mut si = ch.stdin.take().unwrap();
            si.write_all(job.dump().as_bytes()).unwrap();
            si.write_all(b"\n").unwrap();
        }
        let _ = ch.wait();
    }
    let inode_before = inode_of(&live_path);
    let mut cmd = std::process::Command::new(exe);
    cmd.arg("crashchild").stdin(std::process::Stdio::piped()).stdout(std::process::Stdio::piped()).stderr(std::process::Stdio::null());
    let spec = case["crash"].as_str().unwrap_or("");
    if spec.is_empty() {
        cmd.env_remove("ACB_VERIF_CRASH");
    } else {
        cmd.env("ACB_VERIF_CRASH", spec);
    }
    // the write path reports its steps here (hook ACB_VERIF_TRACE)
    let trace_path = dir.with_extension("trace");
    let _ = std::fs::remove_file(&trace_path);
    cmd.env("ACB_VERIF_TRACE", &trace_path);
    let mut child = cmd.spawn().unwrap();
    {
        use std::io::Write;
        let mut si = child.stdin.take().unwrap();
        si.write_all(job.dump().as_bytes()).unwrap();
        si.write_all(b"\n").unwrap();
    }
    let outp = child.wait_with_output().unwrap();
    let mut out = JsonValue::new_object();
    out["status"] = "ok".into();
    out["child_exit"] = match outp.status.code() {
        Some(c) => c.into(),
        None => JsonValue::Null, // killed by a signal (abort)
    };
    out["child_out"] = String::from_utf8_lossy(&outp.stdout).to_string().into();
    out["dir"] = dir_listing(&dir);
    out["live_inode_before"] = inode_before;
    out["live_inode_after"] = inode_of(&live_path);
    out["parsed"] = read_year(&dir, year);
    out["trace"] = JsonValue::Array(
        std::fs::read_to_string(&trace_path)
            .unwrap_or_default()
            .lines()
            .map(|l| JsonValue::String(l.to_string()))
            .collect(),
    );
    let _ = std::fs::remove_file(&trace_path);

    // fresh loader over the post-crash directory
    let truth = truth_of(case);
    acb::util::date::set_todays_date_for_test(date_of(case["today"].as_i64().unwrap()));
    let mut answers = JsonValue::new_array();
    let mut reqs = JsonValue::new_array();
    for d in case["lookups"].members() {
        // every look-up by its own fresh process-like loader; the directory is
        // restored between look-ups so that each sees the post-crash state
        let snap = dir_snapshot(&dir);
        let log: ReqLog = Rc::new(RefCell::new(Vec::new()));
        let req = ServingRequester { truth: truth.clone(), avail: case["avail"].as_i64().unwrap(), log: log.clone() };
        let mut loader = RateLoader::new(
            false,
            Box::new(CsvRatesCache::new(dir.clone(), WriteHandle::empty_write_handle())),
            JsonRemoteRateLoader::new_boxed(Box::new(req)),
            WriteHandle::empty_write_handle(),
        );
        let r = loader.blocking_get_effective_usd_cad_rate(date_of(d.as_i64().unwrap()));
        answers.push(answer_json(r)).unwrap();
        reqs.push(requests_json(&log)).unwrap();
        dir_restore(&dir, &snap);
    }
    out["answers"] = answers;
    out["requests"] = reqs;
    let _ = std::fs::remove_dir_all(dir);
    let _ = std::fs::remove_file(&link_target);
    out
}

fn dir_snapshot(dir: &Path) -> Vec<(String, Vec<u8>)> {
    let mut v = Vec::new();
    for e in std::fs::read_dir(dir).unwrap() {
        let e = e.unwrap();
        v.push((e.file_name().into_string().unwrap(), std::fs::read(e.path()).unwrap()));
    }
    v
}

fn dir_restore(dir: &Path, snap: &Vec<(String, Vec<u8>)>) {
    for e in std::fs::read_dir(dir).unwrap() {
        let _ = std::fs::remove_file(e.unwrap().path());
    }
    for (n, b) in snap {
        std::fs::write(dir.join(n), b).unwrap();
    }
}

// ---------------------------------------------------------------- mode arith
/// {"a":"..","b":".."} -> a / b on the real rust_decimal (None on overflow)
pub fn arith(case: &JsonValue) -> JsonValue {
    let a = Decimal::from_str_exact(case["a"].as_str().unwrap()).unwrap();
    let b = Decimal::from_str_exact(case["b"].as_str().unwrap()).unwrap();
    let mut o = JsonValue::new_object();
    o["status"] = "ok".into();
    o["r"] = match a.checked_div(b) {
        Some(d) => JsonValue::String(d.to_string()),
        None => JsonValue::Null,
    };
    o
}

// ================================================================ failure paths (mode histf)
// A RatesCache and an HttpRequester of our own whose n-th read / write /
// request (counted per run) fails as scripted; everything else goes to the
// real cache (in-memory or CSV) and to the serving requester above.
#[derive(Clone)]
enum RdEv {
    Clean,
    Err,
    Missing,
    Keep(Vec<bool>), // true: the row at that position is dropped
}

struct ScriptedCache {
    inner: Box<dyn RatesCache>,
    rd: Vec<RdEv>,
    wr: Vec<bool>,
    nrd: Rc<RefCell<usize>>,
    nwr: Rc<RefCell<usize>>,
}

impl RatesCache for ScriptedCache {
    fn write_rates(&mut self, year: u32, rates: &Vec<DailyRate>) -> Result<(), SError> {
        let n = *self.nwr.borrow();
        *self.nwr.borrow_mut() = n + 1;
        if self.wr.get(n).copied().unwrap_or(false) {
            return Err("harness: scripted cache write failure".to_string());
        }
        self.inner.write_rates(year, rates)
    }

    fn get_usd_cad_rates(&mut self, year: u32) -> Result<Option<Vec<DailyRate>>, SError> {
        let n = *self.nrd.borrow();
        *self.nrd.borrow_mut() = n + 1;
        match self.rd.get(n).cloned().unwrap_or(RdEv::Clean) {
            RdEv::Clean => self.inner.get_usd_cad_rates(year),
            RdEv::Err => Err("harness: scripted cache read failure".to_string()),
            RdEv::Missing => Ok(None),
            RdEv::Keep(mask) => Ok(self.inner.get_usd_cad_rates(year)?.map(|rows| {
                rows.into_iter()
                    .enumerate()
                    .filter(|(i, _)| !mask.get(*i).copied().unwrap_or(false))
                    .map(|(_, r)| r)
                    .collect()
            })),
        }
    }
}

struct ScriptedRequester {
    inner: ServingRequester,
    rq: Vec<i64>, // 0 ok, 1 requester error, 2 a body that is no rates document
    n: RefCell<usize>,
}

const BAD_BODIES: [&str; 4] =
    ["<html>service unavailable</html>", "[{\"observations\":[]}]", "{\"XXXX_observations\":[]}", "{\"observations\":[}"];

#[async_trait::async_trait(?Send)]
impl HttpRequester for ScriptedRequester {
    async fn get(&self, url: &str) -> Result<String, SError> {
        let n = *self.n.borrow();
        *self.n.borrow_mut() = n + 1;
        let ev = self.rq.get(n).copied().unwrap_or(0);
        if ev == 0 {
            return self.inner.get(url).await;
        }
        let (series, start, _) = match parse_url(url) {
            Some(x) => x,
            None => return self.inner.get(url).await,
        };
        let year = date_of(start).year() as i64;
        self.inner.log.borrow_mut().push((year, format!("{}!{}", series, if ev == 1 { "http" } else { "doc" })));
        if ev == 1 {
            Err("harness: scripted request failure".to_string())
        } else {
            Ok(BAD_BODIES[n % BAD_BODIES.len()].to_string())
        }
    }
}

fn rd_script(v: &JsonValue) -> Vec<RdEv> {
    v.members()
        .map(|e| {
            if e.is_array() {
                RdEv::Keep(e.members().map(|b| b.as_i64().unwrap_or(0) != 0).collect())
            } else {
                match e.as_i64().unwrap_or(0) {
                    1 => RdEv::Err,
                    2 => RdEv::Missing,
                    _ => RdEv::Clean,
                }
            }
        })
        .collect()
}

/// the cache file of a year with some of its lines replaced: [[line index, "text"], ..]
fn damage_file(dir: &Path, year: i64, edits: &JsonValue) -> JsonValue {
    let path = dir.join(format!("rates-{}.csv", year));
    let bytes = match std::fs::read(&path) {
        Ok(b) => b,
        Err(_) => return JsonValue::Null,
    };
    let text = String::from_utf8_lossy(&bytes).to_string();
    let mut lines: Vec<String> = text.split('\n').map(|s| s.to_string()).collect();
    if lines.last().map(|s| s.is_empty()).unwrap_or(false) {
        lines.pop();
    }
    for e in edits.members() {
        let i = e[0].as_usize().unwrap();
        if i < lines.len() {
            lines[i] = e[1].as_str().unwrap().to_string();
        }
    }
    let mut out = lines.join("\n");
    out.push('\n');
    std::fs::write(&path, out.as_bytes()).unwrap();
    let mut o = JsonValue::new_object();
    o["bytes"] = JsonValue::Array(out.as_bytes().iter().map(|b| (*b).into()).collect());
    o["rows"] = read_year(dir, year as u32);
    o
}

/// as `hist`, each run with "rd": [0|1|2|[mask]..], "wr": [0|1..], "rq": [0|1|2..] and (CSV cache)
/// "damage": [{"year": y, "edits": [[line, "text"]..]}] applied to the cache files before the run
pub fn histf(case: &JsonValue) -> JsonValue {
    let truth = truth_of(case);
    let ckind = case["cache"].as_str().unwrap_or("mem").to_string();
    let dir = if ckind == "csv" { Some(scratch_dir()) } else { None };
    let kind = match &dir {
        Some(d) => CacheKind::Csv(d.clone()),
        None => CacheKind::Mem(acb::util::rc::RcRefCellT::new(HashMap::new())),
    };
    let mut runs = JsonValue::new_array();
    for run in case["runs"].members() {
        let mut o = JsonValue::new_object();
        if let Some(d) = &dir {
            let mut dm = JsonValue::new_array();
            for e in run["damage"].members() {
                let y = e["year"].as_i64().unwrap();
                let mut r = damage_file(d, y, &e["edits"]);
                if !r.is_null() {
                    r["year"] = y.into();
                    dm.push(r).unwrap();
                }
            }
            o["damaged"] = dm;
        }
        let today = run["today"].as_i64().unwrap();
        acb::util::date::set_todays_date_for_test(date_of(today));
        let log: ReqLog = Rc::new(RefCell::new(Vec::new()));
        let req = ScriptedRequester {
            inner: ServingRequester { truth: truth.clone(), avail: run["avail"].as_i64().unwrap(), log: log.clone() },
            rq: run["rq"].members().map(|x| x.as_i64().unwrap_or(0)).collect(),
            n: RefCell::new(0),
        };
        let nrd = Rc::new(RefCell::new(0usize));
        let nwr = Rc::new(RefCell::new(0usize));
        let cache = ScriptedCache {
            inner: kind.make(),
            rd: rd_script(&run["rd"]),
            wr: run["wr"].members().map(|x| x.as_i64().unwrap_or(0) != 0).collect(),
            nrd: nrd.clone(),
            nwr: nwr.clone(),
        };
        let mut loader = RateLoader::new(
            run["force"].as_bool().unwrap(),
            Box::new(cache),
            JsonRemoteRateLoader::new_boxed(Box::new(req)),
            WriteHandle::empty_write_handle(),
        );
        let mut answers = JsonValue::new_array();
        let mut marks = JsonValue::new_array();
        for d in run["lookups"].members() {
            let r = loader.blocking_get_effective_usd_cad_rate(date_of(d.as_i64().unwrap()));
            answers.push(answer_json(r)).unwrap();
            marks.push(log.borrow().len()).unwrap();
        }
        o["answers"] = answers;
        o["requests"] = requests_json(&log);
        o["req_marks"] = marks;
        o["nrd"] = (*nrd.borrow()).into();
        o["nwr"] = (*nwr.borrow()).into();
        o["cache_after"] = dump_cache(&kind, &case["years"]);
        runs.push(o).unwrap();
    }
    let mut out = JsonValue::new_object();
    out["status"] = "ok".into();
    out["runs"] = runs;
    out["cache"] = dump_cache(&kind, &case["years"]);
    if let Some(d) = dir {
        let _ = std::fs::remove_dir_all(d);
    }
    out
}

// ================================================================ the remote document layer
struct TextRequester {
    body: String,
}

#[async_trait::async_trait(?Send)]
impl HttpRequester for TextRequester {
    async fn get(&self, _url: &str) -> Result<String, SError> {
        Ok(self.body.clone())
    }
}

/// {"text": "<document>", "year": y}: the real parse_rates_json through JsonRemoteRateLoader
pub fn doc(case: &JsonValue) -> JsonValue {
    use acb::fx::io::RemoteRateLoader;
    let loader = JsonRemoteRateLoader::new(Box::new(TextRequester { body: case["text"].as_str().unwrap().to_string() }));
    let r = block_on(loader.get_remote_usd_cad_rates(case["year"].as_u32().unwrap_or(2022)));
    let mut out = JsonValue::new_object();
    out["status"] = "ok".into();
    match r {
        Ok(res) => {
            out["rates"] = rates_json(&res.rates);
            out["nfe"] = res.non_fatal_errors.len().into();
        }
        Err(e) => {
            out["err"] = e.into();
        }
    }
    out
}

/// {"text": "<number token>"}: how the json crate holds the number, its Display, and Decimal::from_str of that
pub fn jsonnum(case: &JsonValue) -> JsonValue {
    use std::str::FromStr;
    let mut out = JsonValue::new_object();
    out["status"] = "ok".into();
    match json::parse(case["text"].as_str().unwrap()) {
        Ok(JsonValue::Number(n)) => {
            let (pos, m, e) = n.as_parts();
            out["parts"] = JsonValue::Array(vec![pos.into(), m.to_string().into(), (e as i64).into()]);
            let s = n.to_string();
            out["dec"] = match Decimal::from_str(&s) {
                Ok(d) => JsonValue::String(d.to_string()),
                Err(_) => JsonValue::Null,
            };
            out["display"] = s.into();
        }
        Ok(_) => {
            out["other"] = true.into();
        }
        Err(e) => {
            out["err"] = e.to_string().into();
        }
    }
    out
}
