// Correspondence harness: drives the public entry points of tsiemens/acb on
// cases read as JSON lines from stdin and prints the observables as JSON lines.
// One process handles many cases; every case is wrapped in catch_unwind and a
// panic is reported with the source location it was raised at.
use std::collections::HashMap;
use std::io::{BufRead, Write};
use std::panic::{catch_unwind, AssertUnwindSafe};
use std::sync::Mutex;

use json::JsonValue;

static LAST_PANIC: Mutex<String> = Mutex::new(String::new());

fn install_panic_hook() {
    std::panic::set_hook(Box::new(|info| {
        let loc = match info.location() {
            Some(l) => format!("{}:{}", l.file(), l.line()),
            None => "?".to_string(),
        };
        let msg = if let Some(s) = info.payload().downcast_ref::<&str>() {
            s.to_string()
        } else if let Some(s) = info.payload().downcast_ref::<String>() {
            s.clone()
        } else {
            String::new()
        };
        *LAST_PANIC.lock().unwrap() = format!("{} {}", loc, msg);
    }));
}

/// location and message of the last panic caught in this process
pub fn last_panic() -> String {
    LAST_PANIC.lock().unwrap().clone()
}

pub fn guarded<F: FnOnce() -> JsonValue>(f: F) -> JsonValue {
    match catch_unwind(AssertUnwindSafe(f)) {
        Ok(v) => v,
        Err(_) => {
            let mut o = JsonValue::new_object();
            o["status"] = "panic".into();
            o["panic"] = LAST_PANIC.lock().unwrap().clone().into();
            o
        }
    }
}

pub type Handler = fn(&JsonValue) -> JsonValue;

/// Main loop shared by the per-group harness binaries.
pub fn run_main(modes: &[(&'static str, Handler)]) {
    install_panic_hook();
    let args: Vec<String> = std::env::args().collect();
    if args.len() < 2 {
        eprintln!("usage: acbh_<group> <mode>");
        std::process::exit(2);
    }
    let mut handlers: HashMap<&str, Handler> = HashMap::new();
    for (n, h) in modes {
        handlers.insert(n, *h);
    }
    let h = match handlers.get(args[1].as_str()) {
        Some(h) => *h,
        None => {
            eprintln!("unknown mode {}", args[1]);
            std::process::exit(2);
        }
    };
    let stdin = std::io::stdin();
    let stdout = std::io::stdout();
    let mut out = std::io::BufWriter::new(stdout.lock());
    for line in stdin.lock().lines() {
        let line = line.unwrap();
        if line.trim().is_empty() {
            continue;
        }
        let case = json::parse(&line).expect("bad json case");
        let res = guarded(|| h(&case));
        writeln!(out, "{}", res.dump()).unwrap();
    }
    out.flush().unwrap();
}
