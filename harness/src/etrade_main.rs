// harness binary of group "etrade": modes extract (run_with_args over .txt
// confirmations) and acbparse (the emitted CSV through the real acb reader)
#[path = "hcommon.rs"]
mod hcommon;
mod etrade_mode;
#[allow(dead_code)]
mod util;
pub use hcommon::guarded;

fn main() {
    hcommon::run_main(&[
        ("extract", etrade_mode::handle_extract),
        ("acbparse", etrade_mode::handle_acbparse),
        ("parsetext", etrade_mode::handle_parsetext),
    ]);
}
