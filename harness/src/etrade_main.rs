// harness binary of group "etrade" (stub: replaced by the group's modes)
#[path = "hcommon.rs"]
mod hcommon;
#[allow(dead_code)]
mod util;
pub use hcommon::guarded;

fn main() {
    hcommon::run_main(&[]);
}
