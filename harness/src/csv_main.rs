// harness binary of group "csv": C11 (CSV field codecs, write/read round trip)
// and C10 (summary round trip)
#[path = "hcommon.rs"]
mod hcommon;
mod c10_mode;
mod c11_mode;
#[allow(dead_code)]
mod core_mode;
#[allow(dead_code)]
mod util;
pub use hcommon::guarded;

fn main() {
    hcommon::run_main(&[
        ("dec_show", c11_mode::dec_show),
        ("field_parse", c11_mode::field_parse),
        ("aff_seq", c11_mode::aff_seq),
        ("roundtrip", c11_mode::roundtrip),
        ("read_csv", c11_mode::read_csv),
        ("summary", c10_mode::handle),
    ]);
}
