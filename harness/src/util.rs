use acb::fx::io::{InMemoryRatesCache, JsonRemoteRateLoader, RateLoader};
use acb::util::basic::SError;
use acb::util::http::HttpRequester;
use acb::util::rw::WriteHandle;
use json::JsonValue;
use rust_decimal::Decimal;

/// Requester that refuses every request: core cases never need remote rates.
pub struct RefusingRequester;

#[async_trait::async_trait(?Send)]
impl HttpRequester for RefusingRequester {
    async fn get(&self, url: &str) -> Result<String, SError> {
        Err(format!("harness: no network ({})", url))
    }
}

pub fn offline_rate_loader() -> RateLoader {
    RateLoader::new(
        false,
        Box::new(InMemoryRatesCache::new()),
        JsonRemoteRateLoader::new_boxed(Box::new(RefusingRequester)),
        WriteHandle::empty_write_handle(),
    )
}

pub fn dec(d: &Decimal) -> JsonValue {
    // to_string is the exact decimal expansion (scale digits).
    JsonValue::String(d.to_string())
}

pub fn opt_dec(d: Option<Decimal>) -> JsonValue {
    match d {
        Some(d) => dec(&d),
        None => JsonValue::Null,
    }
}

pub fn strs(v: &Vec<String>) -> JsonValue {
    JsonValue::Array(v.iter().map(|s| JsonValue::String(s.clone())).collect())
}
