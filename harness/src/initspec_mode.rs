// mode "initspec": the text layer of --symbol-base.
// case {"specs": [[byte, ...], ...]} -> acb::app::input_parse::parse_initial_status
// on the strings; answer: {"status":"ok","entries":[{"key":[bytes],"security":[bytes],
// "sh":"..","all":"..","acb":".."|null}, ...]} sorted by key (Decimal::to_string is the
// exact decimal expansion, scale included), {"status":"err","err":text} or
// {"status":"badutf8"} when a byte list is no UTF-8 (no String exists then).
use json::JsonValue;

use crate::util::{dec, opt_dec};

fn bytes_json(s: &str) -> JsonValue {
    JsonValue::Array(s.as_bytes().iter().map(|b| JsonValue::from(*b as u32)).collect())
}

pub fn handle(case: &JsonValue) -> JsonValue {
    let mut o = JsonValue::new_object();
    let mut specs: Vec<String> = Vec::new();
    for s in case["specs"].members() {
        let bytes: Vec<u8> = s.members().map(|b| b.as_u8().unwrap()).collect();
        match String::from_utf8(bytes) {
            Ok(t) => specs.push(t),
            Err(_) => {
                o["status"] = "badutf8".into();
                return o;
            }
        }
    }
    match acb::app::input_parse::parse_initial_status(&specs) {
        Err(e) => {
            o["status"] = "err".into();
            o["err"] = e.into();
        }
        Ok(m) => {
            o["status"] = "ok".into();
            let mut keys: Vec<&String> = m.keys().collect();
            keys.sort_by(|a, b| a.as_bytes().cmp(b.as_bytes()));
            let mut entries = JsonValue::new_array();
            for k in keys {
                let st = &m[k];
                let mut e = JsonValue::new_object();
                e["key"] = bytes_json(k);
                e["security"] = bytes_json(&st.security);
                e["sh"] = dec(&st.share_balance);
                e["all"] = dec(&st.all_affiliate_share_balance);
                e["acb"] = opt_dec(st.total_acb.map(|d| *d));
                entries.push(e).unwrap();
            }
            o["entries"] = entries;
        }
    }
    o
}
