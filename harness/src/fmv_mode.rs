// C20: Questrade statement FMV extraction and page-order hints.
//   "fmv_re":   one of the three line regexes on a text (hook accessor)
//   "fmv_page": the allocation-table parser on one page (hook accessor)
//   "fmv_stmt": parse_statement_text on a list of pages (public API)
//   "pages":    safe_page_chunks_with_remainder_pn (public API)
//   "iter":     OptimizedPageIter over a page-text provider (hook constructor)
//   "stmt_iter": chunks -> iterator -> parse_statement_text, as parse_statement does
use std::cell::RefCell;
use std::panic::{catch_unwind, AssertUnwindSafe};
use std::rc::Rc;

use acb::peripheral::pdf::LazyPageTextVec;
use acb::peripheral::questrade_statement_fmv_impl::{
    parse_statement_text, verif_line_regex_captures, verif_parse_fmvs_from_page, Fmv,
};
use json::JsonValue;

use crate::util::dec;

pub fn handle_re(case: &JsonValue) -> JsonValue {
    let which = case["which"].as_u8().unwrap();
    let s = case["s"].as_str().unwrap();
    let mut o = JsonValue::new_object();
    o["caps"] = match verif_line_regex_captures(which, s) {
        Some(v) => JsonValue::Array(v.into_iter().map(|x| x.into()).collect()),
        None => JsonValue::Null,
    };
    o
}

fn fmvs_json(fmvs: &Vec<Fmv>) -> JsonValue {
    JsonValue::Array(
        fmvs.iter()
            .map(|f| {
                let mut o = JsonValue::new_object();
                o["desc"] = f.security_desc.as_str().into();
                o["alloc"] = dec(&f.allocation);
                o["fmv"] = dec(&f.fmv);
                o
            })
            .collect(),
    )
}

pub fn handle_page(case: &JsonValue) -> JsonValue {
    let mut o = JsonValue::new_object();
    match verif_parse_fmvs_from_page(case["page"].as_str().unwrap()) {
        Ok((fmvs, total)) => {
            o["fmvs"] = fmvs_json(&fmvs);
            o["total"] = dec(&total);
        }
        Err(e) => {
            o["err"] = e.into();
        }
    }
    o
}

fn stmt_json(r: Result<acb::peripheral::questrade_statement_fmv_impl::StatementFmvs, String>) -> JsonValue {
    let mut o = JsonValue::new_object();
    match r {
        Ok(s) => {
            o["month"] = s.month_date.to_string().into();
            o["fmvs"] = fmvs_json(&s.fmvs);
            o["total"] = dec(&s.total);
        }
        Err(e) => {
            o["err"] = e.into();
        }
    }
    o
}

pub fn handle_stmt(case: &JsonValue) -> JsonValue {
    let pages: Vec<String> =
        case["pages"].members().map(|p| p.as_str().unwrap().to_string()).collect();
    stmt_json(parse_statement_text(pages.iter()))
}

fn groups_of(v: &JsonValue) -> Vec<Vec<u32>> {
    v.members().map(|g| g.members().map(|p| p.as_u32().unwrap()).collect()).collect()
}

fn groups_json(g: &Vec<Vec<u32>>) -> JsonValue {
    JsonValue::Array(
        g.iter()
            .map(|c| JsonValue::Array(c.iter().map(|p| (*p).into()).collect()))
            .collect(),
    )
}

pub fn handle_pages(case: &JsonValue) -> JsonValue {
    let n = case["n"].as_u32().unwrap();
    let hints = groups_of(&case["hints"]);
    let mut o = JsonValue::new_object();
    o["groups"] = groups_json(&LazyPageTextVec::safe_page_chunks_with_remainder_pn(n, &hints));
    o
}

/// Provider for a document of `n` pages: page p has text texts[p-1] (or
/// "page-p"); a page outside 1..n, or one listed in `fail`, is an error.
/// Every request is logged.
fn provider(
    n: u32,
    texts: Option<Vec<String>>,
    fail: Vec<u32>,
    log: Rc<RefCell<Vec<Vec<u32>>>>,
) -> Box<dyn FnMut(&[u32]) -> Result<Vec<String>, String>> {
    Box::new(move |pns: &[u32]| {
        log.borrow_mut().push(pns.to_vec());
        let mut out = Vec::new();
        for p in pns {
            if *p < 1 || *p > n {
                return Err(format!("page {} does not exist", p));
            }
            if fail.contains(p) {
                return Err(format!("page {} unreadable", p));
            }
            out.push(match &texts {
                Some(t) => t[(*p - 1) as usize].clone(),
                None => format!("page-{}", p),
            });
        }
        Ok(out)
    })
}

pub fn handle_iter(case: &JsonValue) -> JsonValue {
    let n = case["n"].as_u32().unwrap();
    let groups = if case["safe"].as_bool().unwrap_or(false) {
        LazyPageTextVec::safe_page_chunks_with_remainder_pn(n, &groups_of(&case["groups"]))
    } else {
        groups_of(&case["groups"])
    };
    let fail: Vec<u32> = case["fail"].members().map(|p| p.as_u32().unwrap()).collect();
    let log = Rc::new(RefCell::new(Vec::new()));
    let yielded = Rc::new(RefCell::new(Vec::<(u32, String)>::new()));
    let mut o = JsonValue::new_object();
    o["groups"] = groups_json(&groups);
    let y2 = yielded.clone();
    let l2 = log.clone();
    let res = catch_unwind(AssertUnwindSafe(move || {
        let mut lazy = LazyPageTextVec::verif_new_with_provider(provider(n, None, fail, l2));
        for (pn, txt) in lazy.optimized_iter(groups) {
            y2.borrow_mut().push((pn, txt.as_ref().clone()));
        }
        lazy.last_error.clone()
    }));
    match res {
        Ok(last_error) => {
            o["status"] = "ok".into();
            o["last_error"] = match last_error {
                Some(e) => e.into(),
                None => JsonValue::Null,
            };
        }
        Err(_) => {
            o["status"] = "panic".into();
        }
    }
    o["yielded"] = JsonValue::Array(yielded.borrow().iter().map(|(p, _)| (*p).into()).collect());
    o["texts_ok"] = yielded.borrow().iter().all(|(p, t)| *t == format!("page-{}", p)).into();
    o["requests"] = groups_json(&log.borrow());
    o
}

pub fn handle_stmt_iter(case: &JsonValue) -> JsonValue {
    let pages: Vec<String> =
        case["pages"].members().map(|p| p.as_str().unwrap().to_string()).collect();
    let n = pages.len() as u32;
    let groups = LazyPageTextVec::safe_page_chunks_with_remainder_pn(n, &groups_of(&case["hints"]));
    let log = Rc::new(RefCell::new(Vec::new()));
    let l2 = log.clone();
    let res = catch_unwind(AssertUnwindSafe(move || {
        let mut lazy =
            LazyPageTextVec::verif_new_with_provider(provider(n, Some(pages), vec![], l2));
        let it = lazy.optimized_iter(groups);
        parse_statement_text(it.map(|(_, txt)| txt))
    }));
    let mut o = match res {
        Ok(r) => stmt_json(r),
        Err(_) => {
            let mut o = JsonValue::new_object();
            o["panic"] = true.into();
            o
        }
    };
    o["requests"] = groups_json(&log.borrow());
    o
}
