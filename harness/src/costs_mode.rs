// mode "costs": CSV text(s) + opening positions ->
//   * the per-security delta lists of run_acb_app_to_delta_models reduced to
//     what the total-cost computation reads (security, settlement date,
//     affiliate id / name / registered / is_default(), ACB before and after);
//   * the Total Costs / Yearly Max Costs tables of
//     run_acb_app_to_render_model(.., render_total_costs = true), with full
//     values and rounded to cents.
// Both come from the same input; each call builds its own hash maps.
use std::collections::HashMap;

use acb::app::{run_acb_app_to_delta_models, run_acb_app_to_render_model};
use acb::portfolio::io::tx_csv::TxCsvParseOptions;
use acb::portfolio::render::RenderTable;
use acb::portfolio::{PortfolioSecurityStatus, Security};
use acb::util::rw::{DescribedReader, WriteHandle};
use async_std::task::block_on;
use json::JsonValue;

use crate::util::{offline_rate_loader, strs};

fn readers(case: &JsonValue) -> Vec<DescribedReader> {
    case["files"]
        .members()
        .enumerate()
        .map(|(i, f)| {
            DescribedReader::from_string(format!("f{}.csv", i), f.as_str().unwrap().to_string())
        })
        .collect()
}

fn init_status(case: &JsonValue) -> Result<HashMap<Security, PortfolioSecurityStatus>, String> {
    let specs: Vec<String> =
        case["init"].members().map(|s| s.as_str().unwrap().to_string()).collect();
    acb::app::input_parse::parse_initial_status(&specs)
}

fn table_json(t: &RenderTable) -> JsonValue {
    let mut o = JsonValue::new_object();
    o["header"] = strs(&t.header);
    o["rows"] = JsonValue::Array(t.rows.iter().map(strs).collect());
    o["notes"] = strs(&t.notes);
    o["errors"] = strs(&t.errors);
    o
}

fn costs_json(case: &JsonValue, full: bool) -> JsonValue {
    let mut o = JsonValue::new_object();
    let init = match init_status(case) {
        Ok(i) => i,
        Err(e) => {
            o["err"] = e.into();
            return o;
        }
    };
    let res = block_on(run_acb_app_to_render_model(
        readers(case),
        init,
        &TxCsvParseOptions::default(),
        full,
        true,
        offline_rate_loader(),
        WriteHandle::empty_write_handle(),
    ));
    match res {
        Err(e) => {
            o["err"] = e.into();
        }
        Ok(r) => {
            let mut errs = JsonValue::new_object();
            for (s, t) in &r.security_tables {
                if !t.errors.is_empty() {
                    errs[s.as_str()] = strs(&t.errors);
                }
            }
            o["sec_errors"] = errs;
            o["agg"] = table_json(&r.aggregate_gains_table);
            match &r.costs_tables {
                Some(c) => {
                    o["total"] = table_json(&c.total);
                    o["yearly"] = table_json(&c.yearly);
                }
                None => {
                    o["err"] = "no costs tables".into();
                }
            }
        }
    }
    o
}

pub fn handle(case: &JsonValue) -> JsonValue {
    let mut o = JsonValue::new_object();
    let init = match init_status(case) {
        Ok(i) => i,
        Err(e) => {
            o["status"] = "initerr".into();
            o["err"] = e.into();
            return o;
        }
    };
    let res = block_on(run_acb_app_to_delta_models(
        readers(case),
        init,
        &TxCsvParseOptions::default(),
        offline_rate_loader(),
        WriteHandle::empty_write_handle(),
    ));
    match res {
        Err(e) => {
            o["status"] = "err".into();
            o["err"] = e.into();
            return o;
        }
        Ok(r) => {
            o["status"] = "ok".into();
            let mut secs = JsonValue::new_object();
            for (sec, dr) in &r {
                let mut a = JsonValue::new_array();
                for d in dr.deltas_or_partial_deltas() {
                    let mut e = JsonValue::new_object();
                    e["sec"] = d.post_status.security.as_str().into();
                    e["sd"] = d.tx.settlement_date.to_string().into();
                    e["year"] = d.tx.settlement_date.year().into();
                    e["af"] = d.tx.affiliate.id().into();
                    e["afname"] = d.tx.affiliate.name().into();
                    e["reg"] = d.tx.affiliate.registered().into();
                    e["isdef"] = d.tx.affiliate.is_default().into();
                    e["act"] = d.tx.action().pretty_str().into();
                    e["pre"] = match d.pre_status.total_acb {
                        Some(v) => JsonValue::String((*v).to_string()),
                        None => JsonValue::Null,
                    };
                    e["gain"] = match d.capital_gain {
                        Some(v) => JsonValue::String(v.to_string()),
                        None => JsonValue::Null,
                    };
                    e["post"] = match d.post_status.total_acb {
                        Some(v) => JsonValue::String((*v).to_string()),
                        None => JsonValue::Null,
                    };
                    a.push(e).unwrap();
                }
                let mut so = JsonValue::new_object();
                so["deltas"] = a;
                so["err"] = match &dr.0 {
                    Ok(_) => JsonValue::Null,
                    Err(e) => e.err_msg.clone().into(),
                };
                secs[sec.as_str()] = so;
            }
            o["secs"] = secs;
        }
    }
    o["full"] = crate::hcommon::guarded(|| costs_json(case, true));
    o["cents"] = crate::hcommon::guarded(|| costs_json(case, false));
    o
}
