// C18: Questrade export conversion.
//   mode "qt_sheet": abstract sheet -> office::Range built in memory ->
//                    questrade::sheet_to_txs (+ optional BrokerTx sort)
//   mode "qt_file":  abstract sheet -> real .xlsx (rust_xlsxwriter) ->
//                    tx_export_convert_impl::run_with_args with options ->
//                    CSV text, re-read with the real acb CSV parser and
//                    Tx::try_from (row validity)
//   mode "qt_csv":   CSV text -> the real acb CSV parser + Tx::try_from
// Cells: null | {"s": text} | {"i": int} | {"f": "decimal text"} | {"b": bool}
use std::path::PathBuf;

use acb::peripheral::broker::questrade::sheet_to_txs;
use acb::peripheral::broker::BrokerTx;
use acb::peripheral::tx_export_convert_impl::{run_with_args, Args, BrokerArg};
use acb::portfolio::io::tx_csv::{parse_tx_csv, TxCsvParseOptions};
use acb::portfolio::{CsvTx, Currency, Tx, TxAction};
use acb::util::rw::{DescribedReader, WriteHandle};
use json::JsonValue;
use office::{DataType, Range};
use rust_decimal::prelude::FromPrimitive;
use rust_decimal::Decimal;

use crate::util::dec;

fn cell_of(v: &JsonValue) -> DataType {
    if v.is_null() {
        DataType::Empty
    } else if v.has_key("s") {
        DataType::String(v["s"].as_str().unwrap().to_string())
    } else if v.has_key("i") {
        DataType::Int(v["i"].as_i64().unwrap())
    } else if v.has_key("f") {
        DataType::Float(v["f"].as_str().unwrap().parse::<f64>().unwrap())
    } else if v.has_key("b") {
        DataType::Bool(v["b"].as_bool().unwrap())
    } else {
        panic!("harness: bad cell {}", v.dump());
    }
}

fn range_of(cells: &JsonValue) -> Range {
    let nrows = cells.len();
    if nrows == 0 {
        return Range::default();
    }
    let ncols = cells.members().map(|r| r.len()).max().unwrap();
    let mut rg = Range::new((0, 0), (nrows, ncols));
    for (i, row) in cells.members().enumerate() {
        for (j, c) in row.members().enumerate() {
            rg.set_value((i as u32, j as u32), cell_of(c));
        }
    }
    rg
}

/// the sheet as the converter sees it: this is the input of the model
/// (xlsx decoding and f64 -> Decimal are not modelled)
fn dump_range(rg: &Range) -> JsonValue {
    let mut rows = JsonValue::new_array();
    if rg.get_size().1 == 0 {
        return rows; // a range without cells: Range::rows cannot chunk by a width of zero
    }
    for row in rg.rows() {
        let mut r = JsonValue::new_array();
        for c in row {
            let v = match c {
                DataType::Empty => JsonValue::Null,
                DataType::String(s) => {
                    let mut o = JsonValue::new_object();
                    o["s"] = s.as_str().into();
                    o
                }
                DataType::Int(i) => {
                    let mut o = JsonValue::new_object();
                    o["i"] = (*i).into();
                    o
                }
                DataType::Float(f) => {
                    let mut o = JsonValue::new_object();
                    o["f"] = f.to_string().into();
                    o["d"] = match Decimal::from_f64(*f) {
                        Some(d) => dec(&d),
                        None => JsonValue::Null,
                    };
                    o
                }
                DataType::Bool(b) => {
                    let mut o = JsonValue::new_object();
                    o["b"] = (*b).into();
                    o
                }
                DataType::Error(e) => {
                    let mut o = JsonValue::new_object();
                    o["e"] = format!("{e:?}").into();
                    o
                }
            };
            r.push(v).unwrap();
        }
        rows.push(r).unwrap();
    }
    rows
}

fn act_str(a: TxAction) -> &'static str {
    match a {
        TxAction::Buy => "Buy",
        TxAction::Sell => "Sell",
        TxAction::Roc => "RoC",
        TxAction::Sfla => "SfLA",
        TxAction::Split => "Split",
    }
}

fn btx_json(t: &BrokerTx) -> JsonValue {
    let mut o = JsonValue::new_object();
    o["sec"] = t.security.as_str().into();
    o["td"] = t.trade_date.to_string().into();
    o["sd"] = t.settlement_date.to_string().into();
    o["tdt"] = t.trade_date_and_time.as_str().into();
    o["sdt"] = t.settlement_date_and_time.as_str().into();
    o["act"] = act_str(t.action).into();
    o["price"] = dec(&t.amount_per_share);
    o["shares"] = dec(&t.num_shares);
    o["comm"] = dec(&t.commission);
    o["cur"] = t.currency.as_str().into();
    o["rate"] = match &t.exchange_rate {
        Some(r) => dec(r),
        None => JsonValue::Null,
    };
    o["reg"] = t.affiliate.registered().into();
    o["afname"] = t.affiliate.name().into();
    o["row"] = t.row_num.into();
    o["acct"] = JsonValue::Array(vec![
        t.account.account_type.as_str().into(),
        t.account.account_num.as_str().into(),
    ]);
    o["tb"] = match t.sort_tiebreak {
        Some(x) => x.into(),
        None => JsonValue::Null,
    };
    o["memo"] = t.memo.as_str().into();
    // would acb accept the row?  (Into<CsvTx>, a day rate for USD rows
    // without one as load_tx_rates would supply, Tx::try_from)
    let mut c: CsvTx = t.clone().into();
    o["accepted"] = accepted(&mut c);
    o
}

fn accepted(t: &mut CsvTx) -> JsonValue {
    if t.tx_curr_to_local_exchange_rate.is_none() {
        if let Some(c) = &t.tx_currency {
            if !c.is_default() {
                if *c == Currency::usd() {
                    t.tx_curr_to_local_exchange_rate = Some(Decimal::new(13, 1));
                } else {
                    return format!(
                        "Currency {} does not support automatically loaded day rates",
                        c
                    )
                    .into();
                }
            }
        }
    }
    match Tx::try_from(t.clone()) {
        Ok(_) => JsonValue::Boolean(true),
        Err(e) => e.into(),
    }
}

pub fn handle_sheet(case: &JsonValue) -> JsonValue {
    let rg = range_of(&case["cells"]);
    let mut o = JsonValue::new_object();
    o["sheet"] = dump_range(&rg);
    let sort = case["sort"].as_bool().unwrap_or(false);
    // the conversion may panic: keep the decoded sheet in the answer
    let r = std::panic::catch_unwind(std::panic::AssertUnwindSafe(|| {
        let (mut txs, errs, fatal) = match sheet_to_txs(&rg, None) {
            Ok(t) => (t, vec![], false),
            Err(e) => match e.txs {
                Some(t) => (t, e.errors, false),
                None => (vec![], e.errors, true),
            },
        };
        if sort {
            txs.sort();
        }
        (txs, errs, fatal)
    }));
    match r {
        Ok((txs, errs, fatal)) => {
            o["status"] = if fatal { "fatal".into() } else { "ok".into() };
            o["txs"] = JsonValue::Array(txs.iter().map(btx_json).collect());
            o["errors"] =
                JsonValue::Array(errs.iter().map(|e| e.to_string().into()).collect());
        }
        Err(_) => {
            o["status"] = "panic".into();
            o["panic"] = crate::hcommon::last_panic().into();
        }
    }
    o
}

fn csvtx_json(t: &CsvTx) -> JsonValue {
    let mut o = JsonValue::new_object();
    o["sec"] = match &t.security {
        Some(s) => s.as_str().into(),
        None => JsonValue::Null,
    };
    o["td"] = match &t.trade_date {
        Some(d) => d.to_string().into(),
        None => JsonValue::Null,
    };
    o["sd"] = match &t.settlement_date {
        Some(d) => d.to_string().into(),
        None => JsonValue::Null,
    };
    o["act"] = match t.action {
        Some(a) => act_str(a).into(),
        None => JsonValue::Null,
    };
    let od = |d: &Option<Decimal>| match d {
        Some(d) => dec(d),
        None => JsonValue::Null,
    };
    o["shares"] = od(&t.shares);
    o["price"] = od(&t.amount_per_share);
    o["comm"] = od(&t.commission);
    o["cur"] = match &t.tx_currency {
        Some(c) => c.as_str().into(),
        None => JsonValue::Null,
    };
    o["rate"] = od(&t.tx_curr_to_local_exchange_rate);
    o["reg"] = match &t.affiliate {
        Some(a) => a.registered().into(),
        None => JsonValue::Null,
    };
    o["afname"] = match &t.affiliate {
        Some(a) => a.name().into(),
        None => JsonValue::Null,
    };
    o["memo"] = match &t.memo {
        Some(m) => m.as_str().into(),
        None => JsonValue::Null,
    };
    o
}

/// The acb side: read the CSV with acb's own parser; then, like
/// load_tx_rates, give USD rows without a rate a (positive) day rate, and
/// convert every row with Tx::try_from.
fn acb_reads(csv_text: &str) -> JsonValue {
    let mut o = JsonValue::new_object();
    let mut rd = DescribedReader::from_string("converted.csv".to_string(), csv_text.to_string());
    let mut errw = WriteHandle::empty_write_handle();
    match parse_tx_csv(&mut rd, 0, &TxCsvParseOptions::default(), &mut errw) {
        Err(e) => {
            o["parse_err"] = e.into();
        }
        Ok(csvtxs) => {
            let mut rows = JsonValue::new_array();
            for mut t in csvtxs {
                let mut r = csvtx_json(&t);
                r["accepted"] = accepted(&mut t);
                rows.push(r).unwrap();
            }
            o["rows"] = rows;
        }
    }
    o
}

pub fn handle_csv(case: &JsonValue) -> JsonValue {
    acb_reads(case["csv"].as_str().unwrap())
}

fn write_xlsx(cells: &JsonValue, path: &PathBuf) {
    let mut wb = rust_xlsxwriter::Workbook::new();
    let ws = wb.add_worksheet();
    for (i, row) in cells.members().enumerate() {
        for (j, c) in row.members().enumerate() {
            let (r, col) = (i as u32, j as u16);
            if c.is_null() {
                continue;
            } else if c.has_key("s") {
                ws.write_string(r, col, c["s"].as_str().unwrap()).unwrap();
            } else if c.has_key("i") {
                ws.write_number(r, col, c["i"].as_i64().unwrap() as f64).unwrap();
            } else if c.has_key("f") {
                ws.write_number(r, col, c["f"].as_str().unwrap().parse::<f64>().unwrap())
                    .unwrap();
            } else if c.has_key("b") {
                ws.write_boolean(r, col, c["b"].as_bool().unwrap()).unwrap();
            }
        }
    }
    wb.save(path).unwrap();
}

pub fn handle_file(case: &JsonValue) -> JsonValue {
    let path = PathBuf::from(case["path"].as_str().unwrap());
    if let Some(d) = path.parent() {
        std::fs::create_dir_all(d).unwrap();
    }
    if !case["keep"].as_bool().unwrap_or(false) || !path.exists() {
        write_xlsx(&case["cells"], &path);
    }
    let mut o = JsonValue::new_object();
    // the sheet as office decodes it
    {
        let mut wb = office::Excel::open(&path).unwrap();
        let names = wb.sheet_names().unwrap();
        let rg = wb.worksheet_range(&names[0]).unwrap();
        o["sheet"] = dump_range(&rg);
    }
    let opts = &case["opts"];
    let re = |k: &str| -> Option<regex::Regex> {
        opts[k].as_str().map(|s| regex::Regex::new(s).unwrap())
    };
    let args = Args {
        export_file: path.clone(),
        no_sort: opts["no_sort"].as_bool().unwrap_or(false),
        broker: BrokerArg::Questrade,
        usd_exchange_rate: opts["usd_exchange_rate"]
            .as_str()
            .map(|s| s.parse::<Decimal>().unwrap()),
        account: re("account"),
        security: re("security"),
        no_fx: opts["no_fx"].as_bool().unwrap_or(false),
        pretty: false,
        sheet: None,
    };
    let (out_w, out_b) = WriteHandle::string_buff_write_handle();
    let (err_w, err_b) = WriteHandle::string_buff_write_handle();
    let res = std::panic::catch_unwind(std::panic::AssertUnwindSafe(|| {
        run_with_args(args, out_w, err_w)
    }));
    match res {
        Ok(res) => {
            let out = out_b.borrow_mut().export_string();
            let err = err_b.borrow_mut().export_string();
            o["ok"] = res.is_ok().into();
            o["acb"] = acb_reads(&out);
            o["out"] = out.into();
            o["err"] = err.into();
        }
        Err(_) => {
            o["status"] = "panic".into();
        }
    }
    if !case["keep"].as_bool().unwrap_or(false) {
        let _ = std::fs::remove_file(&path);
    }
    o
}
