(* Line driver for the extracted model: each input line is one case, a
   space-separated list of decimal integers (arbitrary size); the output line
   is the list of integers returned by Codec.dispatch.  zarith is used only to
   convert between decimal text and the extracted inductive Z. *)
module BZ = Z
open Model

let rec pos_of_z (z : BZ.t) : positive =
  if BZ.equal z BZ.one then XH
  else
    let q = BZ.shift_right z 1 in
    if BZ.is_even z then XO (pos_of_z q) else XI (pos_of_z q)

let coqz_of_z (z : BZ.t) : Model.z =
  let s = BZ.sign z in
  if s = 0 then Z0 else if s > 0 then Zpos (pos_of_z z) else Zneg (pos_of_z (BZ.neg z))

let rec z_of_pos (p : positive) : BZ.t =
  match p with
  | XH -> BZ.one
  | XO q -> BZ.shift_left (z_of_pos q) 1
  | XI q -> BZ.succ (BZ.shift_left (z_of_pos q) 1)

let z_of_coqz (z : Model.z) : BZ.t =
  match z with Z0 -> BZ.zero | Zpos p -> z_of_pos p | Zneg p -> BZ.neg (z_of_pos p)

let () =
  let buf = Buffer.create 65536 in
  (try
     while true do
       let line = input_line stdin in
       let toks = List.filter (fun s -> s <> "") (String.split_on_char ' ' line) in
       let zs = List.map (fun s -> coqz_of_z (BZ.of_string s)) toks in
       let out = dispatch zs in
       Buffer.clear buf;
       List.iteri
         (fun i z ->
           if i > 0 then Buffer.add_char buf ' ';
           Buffer.add_string buf (BZ.to_string (z_of_coqz z)))
         out;
       print_endline (Buffer.contents buf)
     done
   with End_of_file -> ());
  flush stdout
