(* Failure paths of RateLoader (src/fx/io/rate_loader.rs): the look-up state
   machine of Model/RatesCache.v with an environment that may make every
   cache read, every cache write and every remote request fail.
   Definitions only.

   What the code does (rate_loader.rs, fetch_usd_cad_rates_for_date_year and
   get_remote_usd_cad_rates):
   - `cache.get_usd_cad_rates(year)` returns Err: when the year was already
     downloaded by this process the error is returned; otherwise it is printed
     ("Could not load cached exchange rates: ..") and the remote is asked;
   - the remote returns Err (HttpRequester error -> "Error getting CAD USD
     rates: ..", or a document parse_rates_json rejects -> "Error parsing CAD
     USD rates: .."): `?` leaves get_remote_usd_cad_rates BEFORE the year is
     put into fresh_loaded_years and before the cache is written; nothing is
     inserted into year_rates either, so the loader state is what it was;
   - `cache.write_rates` returns Err: printed ("Failed to update exchange rate
     cache: .."), the downloaded rates are used all the same; the year was
     put into fresh_loaded_years BEFORE the write was attempted.

   The environment of a run scripts the outcome of the n-th cache read, the
   n-th cache write and the n-th remote request of that run (n counted per
   run, from 0).  A cache read may also return fewer rows than were written
   (the CSV reader skips rows it can not parse, C13_corrupt_cache_rows) or
   find nothing. *)
From Coq Require Import List NArith ZArith QArith Qcanon Bool.
From ACB Require Import Base.Outcome Base.QcExtra Base.Fit Base.Arith
     Model.Rates Model.RatesCache Model.CrashFs.
Import ListNotations.
Local Open Scope Z_scope.

(* ---- environment events ---- *)
Inductive rd_ev : Type :=
| RdErr                       (* get_usd_cad_rates returns Err (unreadable file) *)
| RdNone                      (* Ok(None): nothing found *)
| RdKeep (mask : list bool).  (* Ok(Some rows) with the rows whose mask bit is true dropped;
                                 RdKeep [] is the undisturbed read *)
Inductive rq_ev : Type :=
| RqOk
| RqHttp                      (* the HttpRequester returns Err *)
| RqDoc.                      (* a body parse_rates_json rejects as a whole *)

(* rows a reader returns that skips the masked rows *)
Fixpoint keep_rows (mask : list bool) (l : list drate) : list drate :=
  match l, mask with
  | [], _ => []
  | _, [] => l
  | x :: t, b :: m => if b then keep_rows m t else x :: keep_rows m t
  end.

Record fenv : Type := {
  fe_env : env;               (* today, force flag, what the remote publishes *)
  fe_rd : nat -> rd_ev;       (* outcome of the n-th cache read of the run *)
  fe_wr : nat -> bool;        (* true: the n-th cache write of the run fails (cache unchanged) *)
  fe_rq : nat -> rq_ev        (* outcome of the n-th remote request of the run *)
}.

Record fstate : Type := {
  f_s : st;                   (* loader state and cache; s_dl = years downloaded successfully *)
  f_nrd : nat; f_nwr : nat; f_nrq : nat;   (* cache reads / writes / requests so far in this run *)
  f_log : list (Z * bool)     (* every remote request of the run, newest first: year, succeeded *)
}.

Definition fstate_of (s : st) : fstate :=
  {| f_s := s; f_nrd := 0; f_nwr := 0; f_nrq := 0; f_log := [] |}.
Definition new_runF (s : fstate) : fstate := fstate_of (new_run (f_s s)).

Inductive ferr : Type :=
| FNotYet | FCacheMissing | FNone7       (* as LNotYet, LCacheMissing, LNone7 *)
| FHttp                                  (* "Error getting CAD USD rates: .." *)
| FDoc                                   (* "Error parsing CAD USD rates: .." *)
| FCacheRead                             (* the cache's own error text, passed through *)
| FLookback (e : ferr).

Fixpoint lift_err (e : lerr) : ferr :=
  match e with
  | LNotYet => FNotYet | LCacheMissing => FCacheMissing | LNone7 => FNone7
  | LLookback x => FLookback (lift_err x)
  end.
Definition lift_ans {A} (a : sum lerr A) : sum ferr A :=
  match a with inl e => inl (lift_err e) | inr x => inr x end.

(* the error of a failed request *)
Definition rq_err (ev : rq_ev) : ferr := match ev with RqDoc => FDoc | _ => FHttp end.

(* get_remote_usd_cad_rates *)
Definition downloadF (e : fenv) (s : fstate) (y : Z) : res (fstate * sum ferr (list drate)) :=
  let ev := fe_rq e (f_nrq s) in
  match ev with
  | RqOk =>
      rs <- parse_all (e_remote (fe_env e) y) ;;
      let rates := fill rs y (e_today (fe_env e)) in
      let s0 := f_s s in
      let wfail := fe_wr e (f_nwr s) in
      Ok ({| f_s := {| s_years := s_years s0;
                       s_fresh := y :: s_fresh s0;
                       s_cache := if wfail then s_cache s0 else (y, rates) :: s_cache s0;
                       s_dl := y :: s_dl s0 |};
             f_nrd := f_nrd s; f_nwr := S (f_nwr s); f_nrq := S (f_nrq s);
             f_log := (y, true) :: f_log s |}, inr rates)
  | _ =>
      Ok ({| f_s := f_s s; f_nrd := f_nrd s; f_nwr := f_nwr s; f_nrq := S (f_nrq s);
             f_log := (y, false) :: f_log s |}, inl (rq_err ev))
  end.

(* what the n-th read makes of the cache *)
Definition read_cache_ev (ev : rd_ev) (y : Z) (cache : list (Z * list drate))
  : option (option (list drate)) :=     (* None: Err *)
  match ev with
  | RdErr => None
  | RdNone => Some None
  | RdKeep mask => Some (option_map (keep_rows mask) (aget y cache))
  end.

Definition bump_rd (s : fstate) : fstate :=
  {| f_s := f_s s; f_nrd := S (f_nrd s); f_nwr := f_nwr s; f_nrq := f_nrq s; f_log := f_log s |}.

(* fetch_usd_cad_rates_for_date_year *)
Definition fetchF (e : fenv) (s : fstate) (d : Z) : res (fstate * sum ferr (list drate)) :=
  let y := year_of d in
  if e_force (fe_env e) then downloadF e s y else
  let fresh := zmem y (s_fresh (f_s s)) in
  let s1 := bump_rd s in
  match read_cache_ev (fe_rd e (f_nrd s)) y (s_cache (f_s s)) with
  | None => if fresh then Ok (s1, inl FCacheRead) else downloadF e s1 y
  | Some (Some rates) =>
      if fresh then Ok (s1, inr rates)
      else if mhas d rates then Ok (s1, inr rates)
      else downloadF e s1 y
  | Some None => if fresh then Ok (s1, inl FCacheMissing) else downloadF e s1 y
  end.

Definition set_years (s : fstate) (ys : list (Z * list drate)) : fstate :=
  {| f_s := {| s_years := ys; s_fresh := s_fresh (f_s s); s_cache := s_cache (f_s s); s_dl := s_dl (f_s s) |};
     f_nrd := f_nrd s; f_nwr := f_nwr s; f_nrq := f_nrq s; f_log := f_log s |}.

(* get_exact_usd_cad_rate (the code after fix 636426a: reval = true) *)
Definition exactF (e : fenv) (s : fstate) (d : Z) : res (fstate * sum ferr (option drate)) :=
  let y := year_of d in
  let load :=
    '(s1, r) <- fetchF e s d ;;
    match r with
    | inl err => Ok (s1, inl err)
    | inr rates => Ok (set_years s1 ((y, rates) :: s_years (f_s s1)), inr rates)
    end in
  '(s1, r) <- match aget y (s_years (f_s s)) with
              | None => load
              | Some m =>
                  if negb (zmem y (s_fresh (f_s s))) && negb (mhas d m) then load
                  else Ok (s, inr m)
              end ;;
  match r with
  | inl err => Ok (s1, inl err)
  | inr m =>
      match mget d m with
      | Some r => if Qceqb r 0%Qc then Ok (s1, inr None) else Ok (s1, inr (Some (d, r)))
      | None => if e_today (fe_env e) <=? d then Ok (s1, inl FNotYet) else Ok (s1, inr None)
      end
  end.

Fixpoint lookbackF (n : nat) (e : fenv) (s : fstate) (d : Z) : res (fstate * sum ferr drate) :=
  match n with
  | O => Ok (s, inl FNone7)
  | S k =>
      '(s1, r) <- exactF e s (d - 1) ;;
      match r with
      | inl err => Ok (s1, inl (FLookback err))
      | inr (Some x) => Ok (s1, inr x)
      | inr None => lookbackF k e s1 (d - 1)
      end
  end.

Definition effectiveF (e : fenv) (s : fstate) (d : Z) : res (fstate * sum ferr drate) :=
  '(s1, r) <- exactF e s d ;;
  match r with
  | inl err => Ok (s1, inl err)
  | inr (Some x) => Ok (s1, inr x)
  | inr None => lookbackF 7 e s1 d
  end.

(* per look-up: the answer and the requests made during it (newest first) *)
Definition new_log (before after : list (Z * bool)) : list (Z * bool) :=
  firstn (length after - length before) after.

Fixpoint lookupsF (e : fenv) (s : fstate) (ds : list Z)
  : res (fstate * list (sum ferr drate * list (Z * bool))) :=
  match ds with
  | [] => Ok (s, [])
  | d :: t =>
      '(s1, a) <- effectiveF e s d ;;
      '(s2, r) <- lookupsF e s1 t ;;
      Ok (s2, (a, new_log (f_log s) (f_log s1)) :: r)
  end.

(* damage done to cache files between two runs: rows of a year dropped *)
Fixpoint damage_cache (dm : list (Z * list bool)) (c : list (Z * list drate)) : list (Z * list drate) :=
  match dm with
  | [] => c
  | (y, mask) :: t =>
      let c1 := damage_cache t c in
      match aget y c1 with
      | Some rows => (y, keep_rows mask rows) :: c1
      | None => c1
      end
  end.
Definition damage_state (dm : list (Z * list bool)) (s : fstate) : fstate :=
  let s0 := f_s s in
  {| f_s := {| s_years := s_years s0; s_fresh := s_fresh s0;
               s_cache := damage_cache dm (s_cache s0); s_dl := s_dl s0 |};
     f_nrd := f_nrd s; f_nwr := f_nwr s; f_nrq := f_nrq s; f_log := f_log s |}.

(* a run: the damage found at its start, its environment, its look-ups *)
Record frun : Type := { fr_damage : list (Z * list bool); fr_env : fenv; fr_lookups : list Z }.
(* per run: answers with the requests of each look-up, all requests of the
   run (newest first: year, succeeded), the numbers of cache reads and writes *)
Record frun_out : Type := {
  fo_answers : list (sum ferr drate * list (Z * bool));
  fo_log : list (Z * bool);
  fo_nrd : nat; fo_nwr : nat
}.

Fixpoint historyF (s : fstate) (runs : list frun) : res (fstate * list frun_out) :=
  match runs with
  | [] => Ok (s, [])
  | r :: t =>
      '(s1, a) <- lookupsF (fr_env r) (damage_state (fr_damage r) (new_runF s)) (fr_lookups r) ;;
      '(s2, outs) <- historyF s1 t ;;
      Ok (s2, {| fo_answers := a; fo_log := f_log s1; fo_nrd := f_nrd s1; fo_nwr := f_nwr s1 |} :: outs)
  end.

(* the environment in which nothing fails *)
Definition no_fail (e : env) : fenv :=
  {| fe_env := e; fe_rd := fun _ => RdKeep []; fe_wr := fun _ => false; fe_rq := fun _ => RqOk |}.

(* ---- damaged cache files (text level, Model/CrashFs.v) ---- *)
(* a line the reader rejects whatever the expected field count is, and that
   does not run into the next line *)
Definition junk_line (j : bytes) : bool :=
  negb (existsb (N.eqb LF) j) &&
  match parse_record (length (split_on COMMA j)) (split_on COMMA j) with [] => true | _ => false end.

(* a cache file some of whose rows were replaced by junk lines *)
Definition render_damaged (l : list (row_t * option bytes)) : bytes :=
  flat_map (fun x => match snd x with None => render_row (fst x) | Some j => j ++ [LF] end) l.
