(* C19 (text layer): src/peripheral/broker/etrade.rs -- parse_pdf_text and the
   five per-document parsers -- as hand-written matchers, one per regex of the
   code (the Rust pattern is written next to each).

   Text is a list of Unicode scalar values (for ASCII documents: the bytes).
   Regex semantics modelled: unanchored leftmost search ([find]); at one start
   position the preference order of the backtracking engine the regex crate
   guarantees (leftmost-first: greedy repetitions longest first, optional
   groups tried before being skipped); `\s` = Unicode White_Space ([is_space],
   exact; it crosses line ends); `\S` its complement; `.` = any character but
   '\n' (with the s flag: any character); `^`/`$` of the one anchored pattern
   are text start / end (no m flag); everything is case sensitive except
   TxAction::try_from.  Where a greedy repetition is followed by something its
   own class excludes, only the maximal run can match and the matcher takes
   it without backtracking (argued next to each pattern).
   NOT modelled: the non-ASCII members of `\d` (Unicode Nd) and of `\w`
   beyond Latin-1 (word boundary of TxAction::try_from), Unicode simple case
   folding of (?i) (U+017F, U+212A), invalid UTF-8 (read_to_string fails before
   the parser runs), the u32 conversion of row_num (2^32 rows).

   Outcomes: every `?` / Err of the code is a [Rej], every operation that can
   panic on SOME text is a [Panic]: the only one is the Decimal addition of
   the per-grant fees in parse_eso_entries (rust_decimal `+` panics on
   overflow); the commission + fee addition of the trade parsers goes through
   the same [a_add dec].  captures[..]/unwrap on groups that are present
   whenever the pattern matched (mandatory groups) are not panic sites.

   Definitions only; proofs are in Proofs/EtradeTextProps.v. *)
From Coq Require Import String Ascii.
From Coq Require Import List NArith ZArith QArith Qcanon Bool.
From ACB Require Import Base.Outcome Base.QcExtra Base.Fit Base.Arith Model.QText Model.Etrade.
Import ListNotations.
Local Open Scope N_scope.

Definition txt (s : string) : text := map N_of_ascii (list_ascii_of_string s).

(* ---- option monad ---- *)
Definition obind {A B} (m : option A) (f : A -> option B) : option B :=
  match m with Some a => f a | None => None end.
Notation "x <~~ m ;; k" := (obind m (fun x => k))
  (at level 100, m at next level, right associativity).
Notation "' p <~~ m ;; k" := (obind m (fun x => match x with p => k end))
  (at level 100, p pattern, m at next level, right associativity).

(* ---- regex building blocks ---- *)
(* unanchored leftmost search: the first suffix at which [m] matches *)
Fixpoint find {A} (m : text -> option A) (s : text) : option A :=
  match m s with
  | Some r => Some r
  | None => match s with [] => None | _ :: t => find m t end
  end.

(* the LAST suffix at which [m] matches (a greedy `.*` / `[\s\S]*` in front) *)
Fixpoint find_last {A} (m : text -> option A) (s : text) : option A :=
  match s with
  | [] => m []
  | _ :: t => match find_last m t with Some r => Some r | None => m s end
  end.

Fixpoint first_some {A B} (f : A -> option B) (l : list A) : option B :=
  match l with
  | [] => None
  | x :: r => match f x with Some y => Some y | None => first_some f r end
  end.

Fixpoint span (p : N -> bool) (s : text) : text * text :=
  match s with
  | c :: r => if p c then let '(t, rest) := span p r in (c :: t, rest) else ([], s)
  | [] => ([], [])
  end.

Definition nonspace (c : N) : bool := negb (is_space c).
Definition not_nl (c : N) : bool := negb (c =? 10).
Definition is_dc (c : N) : bool := is_digit c || is_comma c.             (* [\d,] *)
Definition is_dcd (c : N) : bool := is_digit c || is_comma c || is_dot c. (* [\d,\.] *)
Definition is_symc (c : N) : bool :=                                       (* [A-Za-z\.] *)
  ((65 <=? c) && (c <=? 90)) || ((97 <=? c) && (c <=? 122)) || is_dot c.
Definition not_rparen (c : N) : bool := negb (c =? 41).

Definition lit (k s : text) : option text := strip_prefix k s.
Definition chr (c : N) (s : text) : option text :=
  match s with x :: r => if x =? c then Some r else None | [] => None end.
(* \s+  (the maximal run: what follows never starts with white space) *)
Definition sp1 (s : text) : option text :=
  match s with c :: r => if is_space c then Some (skip_spaces r) else None | [] => None end.
(* one \s *)
Definition one_sp (s : text) : option text :=
  match s with c :: r => if is_space c then Some r else None | [] => None end.
(* C+ for a class C, maximal run *)
Definition run1 (p : N -> bool) (s : text) : option (text * text) :=
  match span p s with
  | ([], _) => None
  | (t, r) => Some (t, r)
  end.
(* [^\n]*\n *)
Definition to_nl (s : text) : option text :=
  match snd (span not_nl s) with _ :: r => Some r | [] => None end.

(* \d+\.\d+ : both runs maximal ('.' is not a digit; every continuation used
   in the code either is the end of the pattern or excludes digits or is
   `[^\n]*` which would absorb what a shorter run leaves) *)
Definition dd (s : text) : option (text * text) :=
  '(a, r) <~~ run1 is_digit s ;; r1 <~~ chr 46 r ;; '(b, r2) <~~ run1 is_digit r1 ;;
  Some (a ++ 46 :: b, r2).
(* [\d,]+\.\d+ *)
Definition cdd (s : text) : option (text * text) :=
  '(a, r) <~~ run1 is_dc s ;; r1 <~~ chr 46 r ;; '(b, r2) <~~ run1 is_digit r1 ;;
  Some (a ++ 46 :: b, r2).
(* \d+ SEP \d+ SEP \d+ *)
Definition date3 (sep : N) (s : text) : option ((text * text * text) * text) :=
  '(a, r) <~~ run1 is_digit s ;; r <~~ chr sep r ;;
  '(b, r) <~~ run1 is_digit r ;; r <~~ chr sep r ;;
  '(c, r) <~~ run1 is_digit r ;; Some ((a, b, c), r).
Definition date_text (sep : N) (d : text * text * text) : text :=
  let '(a, b, c) := d in a ++ sep :: b ++ sep :: c.

(* lit1 \s+ lit2 \s+ ... : every literal followed by \s+ *)
Fixpoint lits_sp1 (ks : list text) (s : text) : option text :=
  match ks with
  | [] => Some s
  | k :: r => s1 <~~ lit k s ;; s2 <~~ sp1 s1 ;; lits_sp1 r s2
  end.

(* successive non-overlapping matches (captures_iter / find_iter); every
   pattern iterated in the code consumes at least one character *)
Fixpoint all_matches_fuel {A} (fuel : nat) (m : text -> option (A * text)) (s : text) : list A :=
  match fuel with
  | O => []
  | S f =>
      match find m s with
      | None => []
      | Some (v, rest) => v :: all_matches_fuel f m rest
      end
  end.
Definition all_matches {A} (m : text -> option (A * text)) (s : text) : list A :=
  all_matches_fuel (S (length s)) m s.

(* split at the last occurrence of a (non-empty) key: (before, from the key on) *)
Fixpoint split_last (key s : text) : option (text * text) :=
  match s with
  | [] => None
  | c :: t =>
      match split_last key t with
      | Some (a, b) => Some (c :: a, b)
      | None => if starts_with key s then Some ([], s) else None
      end
  end.

(* ---- error codes (Rej (RejOther n)) ---- *)
Module TErr.
  Definition no_layout : N := 1910.     (* "Cannot categorize layout of PDF" *)
  Definition not_found : N := 1911.     (* Searcher::get_from: "Could not find <re>" *)
  Definition bad_decimal : N := 1912.   (* parse_large_decimal failed *)
  Definition bad_date : N := 1913.      (* Date::parse failed *)
  Definition eso_body : N := 1914.      (* "Unable to parse exercise details" *)
  Definition eso_rows : N := 1915.      (* search_for_rows: "Could not find ..." *)
  Definition eso_no_grants : N := 1916. (* "No exercised grants found" *)
  Definition eso_prices : N := 1917.    (* "Non-equal ESO sale prices" *)
  Definition bad_action : N := 1918.    (* TxAction::try_from *)
  Definition post_no_tx : N := 1919.    (* "No transaction found in Morgan Stanley/Etrade ..." *)
  Definition eso_incomplete : N := 1920. (* "Exercise details are incomplete: n grants, but ... rows" *)
End TErr.
Definition rejn {A} (n : N) : res A := Rej (RejOther n).

Definition get1 {A} (m : text -> option A) (s : text) : res A :=
  match find m s with Some r => Ok r | None => rejn TErr.not_found end.

(* parse_large_decimal: remove ',' then Decimal::from_str_exact *)
Definition parse_large (t : text) : res Qc :=
  let s := strip_commas t in
  if plain_num_ok s then Ok (plain_num_value s) else rejn TErr.bad_decimal.

Definition get1_dec (m : text -> option (text * text)) (s : text) : res Qc :=
  '(t, _) <- get1 m s ;; parse_large t.
Definition get1_opt_dec (m : text -> option (text * text)) (s : text) : res (option Qc) :=
  match find m s with
  | Some (t, _) => v <- parse_large t ;; Ok (Some v)
  | None => Ok None
  end.

(* ---- dates ---- *)
Definition is_leap (y : N) : bool :=
  ((y mod 4 =? 0) && negb (y mod 100 =? 0)) || (y mod 400 =? 0).
Definition days_in_month (y m : N) : N :=
  match m with
  | 2 => if is_leap y then 29 else 28
  | 4 | 6 | 9 | 11 => 30
  | _ => 31
  end.
Definition days_before_month (y m : N) : N :=
  (match m with
   | 1 => 0 | 2 => 31 | 3 => 59 | 4 => 90 | 5 => 120 | 6 => 151 | 7 => 181
   | 8 => 212 | 9 => 243 | 10 => 273 | 11 => 304 | _ => 334
   end) + (if is_leap y && (3 <=? m) then 1 else 0).
(* proleptic Gregorian ordinal, 0001-01-01 = 1 *)
Definition ordinal (y m d : N) : Z :=
  let y1 := (Z.of_N y - 1)%Z in
  (365 * y1 + y1 / 4 - y1 / 100 + y1 / 400 + Z.of_N (days_before_month y m) + Z.of_N d)%Z.

(* Date::parse(s, "[month] SEP [day] SEP [year]") on a string that matched
   \d+ SEP \d+ SEP \d+: month and day exactly two digits, year exactly four
   (time 0.3 without large-dates), nothing left over, a valid calendar date *)
Definition parse_mdy (d : text * text * text) : res Z :=
  let '(mt, dt, yt) := d in
  if (Nat.eqb (length mt) 2 && Nat.eqb (length dt) 2 && Nat.eqb (length yt) 4)%bool then
    let m := digits_value mt in
    let dd := digits_value dt in
    let y := digits_value yt in
    if (1 <=? m) && (m <=? 12) && (1 <=? dd) && (dd <=? days_in_month y m)
    then Ok (ordinal y m dd) else rejn TErr.bad_date
  else rejn TErr.bad_date.
(* parse_short_year_date: (\d+/\d+)/(\d+) -> "<1>/20<2>" *)
Definition parse_short_mdy (d : text * text * text) : res Z :=
  let '(mt, dt, yt) := d in parse_mdy (mt, dt, 50 :: 48 :: yt).

(* ---- records ---- *)
Record tbenefit : Type := {
  tb_sec : text; tb_date : Z; tb_settle : Z; tb_price : Qc; tb_shares : Qc;
  tb_stc_td : option Z; tb_stc_sd : option Z;
  tb_stc_price : option Qc; tb_stc_shares : option Qc; tb_stc_fee : option Qc;
  tb_note : text; tb_sell_note : option text
}.
Inductive action5 : Type := XBuy | XSell | XRoc | XSfla | XSplit.
Record ttrade : Type := {
  tt_sec : text; tt_td : Z; tt_sd : Z;
  tt_td_text : text; tt_sd_text : text;        (* trade_date_and_time, settlement_date_and_time *)
  tt_act : action5; tt_price : Qc; tt_shares : Qc; tt_comm : Qc;
  tt_row : nat; tt_acct : text
}.

(* ======================================================================
   parse_benefit_common_data                                              *)
Definition k_employee_id := Eval vm_compute in txt "Employee ID:".
Definition k_account_ := Eval vm_compute in txt "Account ".
Definition k_Number := Eval vm_compute in txt "Number".
Definition k_stock_plan_lp := Eval vm_compute in txt "Stock Plan (".
Definition k_sp_dash := Eval vm_compute in txt " -".
Definition k_company_name := Eval vm_compute in txt "Company Name".
Definition k_lp_symbol := Eval vm_compute in txt "(Symbol".

(* Employee ID:\s*(\d+) *)
Definition m_employee (s : text) : option (text * text) :=
  r <~~ lit k_employee_id s ;; run1 is_digit (skip_spaces r).

(* Account (?:Number|Stock Plan \(\S+\) -)\s*(\d+)
   second alternative: `\S+\)` then " -": the white-space delimited token
   after "(" must end in ")" and have something before it; the token is
   followed by the space of " -" *)
Definition m_account (s : text) : option (text * text) :=
  r <~~ lit k_account_ s ;;
  match lit k_Number r with
  | Some r1 => run1 is_digit (skip_spaces r1)
  | None =>
      r1 <~~ lit k_stock_plan_lp r ;;
      let '(tok, r2) := span nonspace r1 in
      match rev tok with
      | 41 :: _ :: _ => r3 <~~ lit k_sp_dash r2 ;; run1 is_digit (skip_spaces r3)
      | _ => None
      end
  end.

(* \(([A-Za-z\.]+)\) at the head of s *)
Definition sym_group_at (s : text) : option text :=
  match s with
  | 40 :: r =>
      match span is_symc r with
      | ((_ :: _) as g, 41 :: _) => Some g
      | _ => None
      end
  | _ => None
  end.

(* (?s) Company Name\s*\(Symbol\)*.*\(([A-Za-z\.]+)\)
   `\)*.*` greedy over the rest of the text: the LAST "(letters)" group after
   "(Symbol".  A later "Company Name" sees a suffix of the same text, so the
   leftmost occurrence decides. *)
Definition m_symbol (s : text) : option text :=
  r <~~ lit k_company_name s ;; r1 <~~ lit k_lp_symbol (skip_spaces r) ;;
  find_last sym_group_at r1.

Definition parse_common (s : text) : res text :=
  _ <- get1 m_employee s ;; _ <- get1 m_account s ;; get1 m_symbol s.

(* key \s* then a continuation *)
Definition key_sp0 {A} (k : text) (cont : text -> option A) (s : text) : option A :=
  r <~~ lit k s ;; cont (skip_spaces r).
(* \$ then a numeral *)
Definition dollar {A} (cont : text -> option A) (s : text) : option A :=
  r <~~ chr 36 s ;; cont r.
(* \( ... (the closing parenthesis is matched only where the pattern has one) *)
Definition paren_dd_close (s : text) : option (text * text) :=
  r <~~ chr 40 s ;; '(v, r1) <~~ dd r ;; r2 <~~ chr 41 r1 ;; Some (v, r2).
Definition paren_dollar_dd (s : text) : option (text * text) :=
  r <~~ chr 40 s ;; r1 <~~ chr 36 r ;; dd r1.
Definition paren_dollar_cdd_close (s : text) : option (text * text) :=
  r <~~ chr 40 s ;; r1 <~~ chr 36 r ;; '(v, r2) <~~ cdd r1 ;; r3 <~~ chr 41 r2 ;; Some (v, r3).
Definition date_m (sep : N) (s : text) := date3 sep s.

(* ======================================================================
   parse_rsu_data / parse_rsu_entry                                       *)
Definition k_release_date := Eval vm_compute in txt "Release Date".
Definition k_award_number := Eval vm_compute in txt "Award Number".
Definition k_shares_released := Eval vm_compute in txt "Shares Released".
Definition k_shares_sold := Eval vm_compute in txt "Shares Sold".
Definition k_shares_issued := Eval vm_compute in txt "Shares Issued".
Definition k_mv_per_share := Eval vm_compute in txt "Market Value Per Share".
Definition k_sale_price_per_share := Eval vm_compute in txt "Sale Price Per Share".
Definition k_market_value := Eval vm_compute in txt "Market Value".
Definition k_total_sale_price := Eval vm_compute in txt "Total Sale Price".
Definition k_total_tax := Eval vm_compute in txt "Total Tax".
Definition k_fee := Eval vm_compute in txt "Fee".
Definition k_total_due := Eval vm_compute in txt "Total Due Participant".
Definition k_RSU_ := Eval vm_compute in txt "RSU ".

(* Release Date\s*(\d+-\d+-\d+) *)
Definition m_release_date := key_sp0 k_release_date (date3 45).
(* Award Number\s*(R\d+) *)
Definition m_award (s : text) : option (text * text) :=
  key_sp0 k_award_number (fun r => r1 <~~ chr 82 r ;; '(d, r2) <~~ run1 is_digit r1 ;; Some (82 :: d, r2)) s.
(* Shares Released\s*(\d+\.\d+) *)
Definition m_shares_released := key_sp0 k_shares_released dd.
(* Shares Sold\s*\((\d+\.\d+)\) *)
Definition m_rsu_shares_sold := key_sp0 k_shares_sold paren_dd_close.
(* Shares Issued\s*(\d+\.\d+) *)
Definition m_shares_issued := key_sp0 k_shares_issued dd.
(* Market Value Per Share\s*\$(\d+\.\d+) *)
Definition m_mv_per_share := key_sp0 k_mv_per_share (dollar dd).
(* Sale Price Per Share\s*\$(\d+\.\d+) *)
Definition m_sale_price_per_share := key_sp0 k_sale_price_per_share (dollar dd).
(* Market Value\s*\$([\d,]+\.\d+) *)
Definition m_market_value := key_sp0 k_market_value (dollar cdd).
(* Total Sale Price\s*\$([\d,]+\.\d+) *)
Definition m_total_sale_price := key_sp0 k_total_sale_price (dollar cdd).
(* Total Tax\s*\$([\d,]+\.\d+) *)
Definition m_total_tax := key_sp0 k_total_tax (dollar cdd).
(* Fee\s*\(\$(\d+\.\d+) *)
Definition m_fee := key_sp0 k_fee paren_dollar_dd.
(* Total Due Participant\s*\$([\d,]+\.\d+) *)
Definition m_total_due := key_sp0 k_total_due (dollar cdd).

Definition parse_rsu (s : text) : res tbenefit :=
  sym <- parse_common s ;;
  '(d, _) <- get1 m_release_date s ;;
  date <- parse_mdy d ;;
  '(award, _) <- get1 m_award s ;;
  released <- get1_dec m_shares_released s ;;
  sold <- get1_dec m_rsu_shares_sold s ;;
  _ <- get1_dec m_shares_issued s ;;
  fmv <- get1_dec m_mv_per_share s ;;
  sale <- get1_dec m_sale_price_per_share s ;;
  _ <- get1_dec m_market_value s ;;
  _ <- get1_dec m_total_sale_price s ;;
  _ <- get1_dec m_total_tax s ;;
  fee <- get1_dec m_fee s ;;
  _ <- get1_dec m_total_due s ;;
  Ok {| tb_sec := sym; tb_date := date; tb_settle := date; tb_price := fmv; tb_shares := released;
        tb_stc_td := None; tb_stc_sd := None; tb_stc_price := Some sale; tb_stc_shares := Some sold;
        tb_stc_fee := Some fee; tb_note := k_RSU_ ++ award; tb_sell_note := None |}.

(* ======================================================================
   parse_espp_data / parse_espp_entry                                     *)
Definition k_purchase_date := Eval vm_compute in txt "Purchase Date".
Definition k_shares_purchased := Eval vm_compute in txt "Shares Purchased".
Definition k_pv_per_share := Eval vm_compute in txt "Purchase Value per Share".
Definition k_pp_per_share := Eval vm_compute in txt "Purchase Price per Share".
Definition k_total_price := Eval vm_compute in txt "Total Price".
Definition k_total_value := Eval vm_compute in txt "Total Value".
Definition k_taxable_gain := Eval vm_compute in txt "Taxable Gain".
Definition k_total_taxes_collected := Eval vm_compute in txt "Total Taxes Collected at purchase".
Definition k_sold_to_cover := Eval vm_compute in txt "Shares Sold to Cover Taxes".
Definition k_sale_price_stc := Eval vm_compute in txt "Sale Price for Shares Sold to Cover Taxes".
Definition k_value_sold := Eval vm_compute in txt "Value Of Shares Sold".
Definition k_fees := Eval vm_compute in txt "Fees".
Definition k_excess := Eval vm_compute in txt "Amount in Excess of Tax Due".
Definition k_ESPP := Eval vm_compute in txt "ESPP".

(* Purchase Date\s*(\d+-\d+-\d+) *)
Definition m_purchase_date := key_sp0 k_purchase_date (date3 45).
(* Shares Purchased\s*(\d+\.\d+) *)
Definition m_shares_purchased := key_sp0 k_shares_purchased dd.
(* Purchase Value per Share\s*\$(\d+\.\d+) *)
Definition m_pv_per_share := key_sp0 k_pv_per_share (dollar dd).
(* (?s) Purchase Price per Share\s*\([^\)]*\)\s*\$(\d+\.\d+) *)
Definition m_pp_per_share (s : text) : option (text * text) :=
  key_sp0 k_pp_per_share
    (fun r => r1 <~~ chr 40 r ;; r2 <~~ chr 41 (snd (span not_rparen r1)) ;;
              dollar dd (skip_spaces r2)) s.
(* Total Price\s*\(\$([\d,]+\.\d+)\) *)
Definition m_total_price := key_sp0 k_total_price paren_dollar_cdd_close.
(* Total Value\s*\$([\d,]+\.\d+) *)
Definition m_total_value := key_sp0 k_total_value (dollar cdd).
(* Taxable Gain\s*\$([\d,]+\.\d+) *)
Definition m_taxable_gain := key_sp0 k_taxable_gain (dollar cdd).
(* Total Taxes Collected at purchase\s\(\$([\d,]+\.\d+)\) *)
Definition m_total_taxes (s : text) : option (text * text) :=
  r <~~ lit k_total_taxes_collected s ;; r1 <~~ one_sp r ;; paren_dollar_cdd_close r1.
(* Shares Sold to Cover Taxes\s*(\d+\.\d+) *)
Definition m_sold_to_cover := key_sp0 k_sold_to_cover dd.
(* Sale Price for Shares Sold to Cover Taxes\s*\$(\d+\.\d+) *)
Definition m_sale_price_stc := key_sp0 k_sale_price_stc (dollar dd).
(* Value Of Shares Sold\s\$([\d,]+\.\d+) *)
Definition m_value_sold (s : text) : option (text * text) :=
  r <~~ lit k_value_sold s ;; r1 <~~ one_sp r ;; dollar cdd r1.
(* Fees\s*\(\$(\d+\.\d+) *)
Definition m_fees := key_sp0 k_fees paren_dollar_dd.
(* Amount in Excess of Tax Due\s\$(\d+\.\d+) *)
Definition m_excess (s : text) : option (text * text) :=
  r <~~ lit k_excess s ;; r1 <~~ one_sp r ;; dollar dd r1.

Definition parse_espp (s : text) : res tbenefit :=
  sym <- parse_common s ;;
  '(d, _) <- get1 m_purchase_date s ;;
  date <- parse_mdy d ;;
  purchased <- get1_dec m_shares_purchased s ;;
  fmv <- get1_dec m_pv_per_share s ;;
  _ <- get1_dec m_pp_per_share s ;;
  _ <- get1_dec m_total_price s ;;
  _ <- get1_dec m_total_value s ;;
  _ <- get1_dec m_taxable_gain s ;;
  _ <- get1_dec m_market_value s ;;
  _ <- get1_opt_dec m_total_taxes s ;;
  sold <- get1_opt_dec m_sold_to_cover s ;;
  sale <- get1_opt_dec m_sale_price_stc s ;;
  _ <- get1_opt_dec m_value_sold s ;;
  fee <- get1_opt_dec m_fees s ;;
  _ <- get1_opt_dec m_excess s ;;
  Ok {| tb_sec := sym; tb_date := date; tb_settle := date; tb_price := fmv; tb_shares := purchased;
        tb_stc_td := None; tb_stc_sd := None; tb_stc_price := sale; tb_stc_shares := sold;
        tb_stc_fee := fee; tb_note := k_ESPP; tb_sell_note := None |}.

(* ======================================================================
   parse_eso_data / parse_eso_entries                                     *)
Definition k_exercise_details := Eval vm_compute in txt "Exercise Details".
Definition k_exercise_date := Eval vm_compute in txt "Exercise Date".
Definition k_grant_ := Eval vm_compute in txt "Grant ".
Definition k_grant_number := Eval vm_compute in txt "Grant Number".
Definition k_exercise_mv := Eval vm_compute in txt "Exercise Market Value".
Definition k_shares_exercised := Eval vm_compute in txt "Shares Exercised".
Definition k_sale_price := Eval vm_compute in txt "Sale Price".
Definition k_comission_fee := Eval vm_compute in txt "Comission/Fee".
Definition k_exercise_type := Eval vm_compute in txt "Exercise Type:".
Definition k_registration := Eval vm_compute in txt "Registration".
Definition k_exercise_date_c := Eval vm_compute in txt "Exercise Date:".
Definition k_option_grant_ := Eval vm_compute in txt "Option Grant ".

(* (?s) ^( .* )(Exercise Details.*Exercise Date).*$
   group 2 ends at the LAST "Exercise Date" of the text (inner `.*` greedy;
   any admissible start reaches it); group 1 (greedy) ends at the last
   "Exercise Details" that lies entirely before it.  (header, body) *)
Definition eso_split (s : text) : option (text * text) :=
  '(a, _) <~~ split_last k_exercise_date s ;;
  '(header, bd) <~~ split_last k_exercise_details a ;;
  Some (header, bd ++ k_exercise_date).

(* Grant (\d+) *)
Definition m_grant_idx (s : text) : option (text * text) :=
  r <~~ lit k_grant_ s ;; run1 is_digit r.

(* search_for_rows: KEY(?:\s+(?P<rowvalue1>VAL)(?:\s+(?P<rowvalue2>VAL))?)
   VAL's run is maximal (the optional tail can match empty); the optional
   second value is taken when present (it moves the start of the next search) *)
Definition m_row (key : text) (vp : text -> option (text * text)) (s : text) : option (text * text) :=
  r <~~ lit key s ;; r1 <~~ sp1 r ;; '(v, r2) <~~ vp r1 ;;
  match (r3 <~~ sp1 r2 ;; vp r3) with
  | Some (_, r4) => Some (v, r4)
  | None => Some (v, r2)
  end.
Definition vp_digits := run1 is_digit.                          (* \d+ *)
Definition vp_dcd := run1 is_dcd.                               (* ([\d,\.]+) *)
Definition vp_dollar_dcd (s : text) : option (text * text) :=   (* \$([\d,\.]+); "$" is removed afterwards *)
  r <~~ chr 36 s ;; run1 is_dcd r.

Definition search_for_rows (key : text) (vp : text -> option (text * text)) (body : text) : res (list text) :=
  match all_matches (m_row key vp) body with
  | [] => rejn TErr.eso_rows
  | l => Ok l
  end.

Fixpoint map_res {T U} (f : T -> res U) (l : list T) : res (list U) :=
  match l with
  | [] => Ok []
  | x :: r => y <- f x ;; ys <- map_res f r ;; Ok (y :: ys)
  end.

Definition search_for_dec_rows (key : text) (dollar_prefix : bool) (body : text) : res (list Qc) :=
  strs <- search_for_rows key (if dollar_prefix then vp_dollar_dcd else vp_dcd) body ;;
  map_res parse_large strs.

(* s.parse::<u64>().unwrap_or_default() on ASCII digits *)
Definition u64_or_zero (t : text) : N :=
  let v := digits_value t in if v <=? 18446744073709551615 then v else 0.

Record eso_grant : Type := { g_num : N; g_fmv : Qc; g_shares : Qc; g_sale : Qc; g_fee : Qc }.

(* a.iter().zip(b).zip(c).zip(d).zip(e).zip(f): stops at the shortest; since the fix c454485 it is only
   reached with six lists of the same length *)
Fixpoint zip_grants (idx : list text) (nums : list N) (fmvs shares sales fees : list Qc) : list eso_grant :=
  match idx, nums, fmvs, shares, sales, fees with
  | _ :: i, n :: ns, f :: fs, sh :: shs, sa :: sas, fe :: fes =>
      {| g_num := n; g_fmv := f; g_shares := sh; g_sale := sa; g_fee := fe |} :: zip_grants i ns fs shs sas fes
  | _, _, _, _, _, _ => []
  end.

(* Exercise Type:\s+( .* )\s+Registration   (no s flag)
   after the maximal white space: the longest prefix of the rest of the line
   that is followed by \s+Registration; if there is none and at least two
   white-space characters precede "Registration": the empty capture *)
Fixpoint prefixes_line (pre_rev : text) (s : text) : list (text * text) :=
  (pre_rev, s) :: match s with
                  | [] => []
                  | c :: r => if c =? 10 then [] else prefixes_line (c :: pre_rev) r
                  end.
Definition sp1_registration (s : text) : option text :=
  r <~~ sp1 s ;; lit k_registration r.
Definition m_exercise_type (s : text) : option (text * text) :=
  r <~~ lit k_exercise_type s ;;
  match r with
  | c :: r0 =>
      if is_space c then
        let w := skip_spaces r0 in
        match first_some (fun pr => match sp1_registration (snd pr) with
                                    | Some rest => Some (rev (fst pr), rest)
                                    | None => None
                                    end) (rev (prefixes_line [] w)) with
        | Some x => Some x
        | None =>
            match r0 with
            | c2 :: _ => if is_space c2 then (rest <~~ lit k_registration w ;; Some ([], rest)) else None
            | [] => None
            end
        end
      else None
  | [] => None
  end.

(* Exercise Date:\s+(\d+/\d+/\d+) *)
Definition m_exercise_date (s : text) : option ((text * text * text) * text) :=
  r <~~ lit k_exercise_date_c s ;; r1 <~~ sp1 r ;; date3 47 r1.
(* Shares Sold\s+([\d,\.]+)   (on the header) *)
Definition m_eso_shares_sold (s : text) : option (text * text) :=
  r <~~ lit k_shares_sold s ;; r1 <~~ sp1 r ;; run1 is_dcd r1.

Definition rows_complete (n a b c d e : nat) : bool :=
  Nat.eqb a n && Nat.eqb b n && Nat.eqb c n && Nat.eqb d n && Nat.eqb e n.

Record eso_data : Type := {
  e_sym : text; e_type : text; e_date : Z; e_sold : Qc; e_grants : list eso_grant
}.

Definition parse_eso_data (s : text) : res eso_data :=
  match eso_split s with
  | None => rejn TErr.eso_body
  | Some (header, body) =>
      let idx := all_matches m_grant_idx body in
      nums <- search_for_rows k_grant_number vp_digits body ;;
      fmvs <- search_for_dec_rows k_exercise_mv true body ;;
      shares <- search_for_dec_rows k_shares_exercised false body ;;
      sales <- search_for_dec_rows k_sale_price true body ;;
      fees <- search_for_dec_rows k_comission_fee true body ;;
      (* every grant must come with exactly one row of each kind (fix c454485) *)
      if negb (rows_complete (length idx) (length nums) (length fmvs) (length shares) (length sales) (length fees))
      then rejn TErr.eso_incomplete else
      sym <- parse_common s ;;
      '(ty, _) <- get1 m_exercise_type s ;;
      '(d, _) <- get1 m_exercise_date s ;;
      date <- parse_mdy d ;;
      sold <- get1_dec m_eso_shares_sold header ;;
      Ok {| e_sym := sym; e_type := ty; e_date := date; e_sold := sold;
            e_grants := zip_grants idx (map u64_or_zero nums) fmvs shares sales fees |}
  end.

(* grants.iter().fold(Decimal::ZERO, |acc, g| acc + g.fee): `+` panics on overflow *)
Fixpoint fee_sum (acc : Qc) (gs : list eso_grant) : res Qc :=
  match gs with
  | [] => Ok acc
  | g :: r => a <- a_add dec acc (g_fee g) ;; fee_sum a r
  end.

Fixpoint eso_entries (e : eso_data) (last_sale fees : Qc) (gs : list eso_grant) : res (list tbenefit) :=
  match gs with
  | [] => Ok []
  | g :: r =>
      if negb (Qceqb (g_sale g) last_sale) then rejn TErr.eso_prices else
      let is_last := match r with [] => true | _ => false end in
      rest <- eso_entries e last_sale fees r ;;
      Ok ({| tb_sec := e_sym e; tb_date := e_date e; tb_settle := e_date e;
             tb_price := g_fmv g; tb_shares := g_shares g;
             tb_stc_td := if is_last then Some (e_date e) else None;
             tb_stc_sd := if is_last then Some (e_date e) else None;
             tb_stc_price := if is_last then Some (g_sale g) else None;
             tb_stc_shares := if is_last then Some (e_sold e) else None;
             tb_stc_fee := if is_last then Some fees else None;
             tb_note := k_option_grant_ ++ digits_of_N (g_num g);
             tb_sell_note := Some (e_type e) |} :: rest)
  end.

Definition parse_eso (s : text) : res (list tbenefit) :=
  e <- parse_eso_data s ;;
  match rev (e_grants e) with
  | [] => rejn TErr.eso_no_grants
  | lastg :: _ =>
      fees <- fee_sum 0%Qc (e_grants e) ;;
      eso_entries e (g_sale lastg) fees (e_grants e)
  end.

(* ======================================================================
   TxAction::try_from(&str): (?i)\b(buy|bought)\b, then sell|sold, roc, sfla, split *)
Definition is_word (c : N) : bool :=
  is_digit c || ((65 <=? c) && (c <=? 90)) || ((97 <=? c) && (c <=? 122)) || (c =? 95)
  || (c =? 170) || (c =? 181) || (c =? 186)
  || ((192 <=? c) && (c <=? 214)) || ((216 <=? c) && (c <=? 246)) || ((248 <=? c) && (c <=? 255)).
Fixpoint strip_prefix_ci (p s : text) : option text :=
  match p, s with
  | [], _ => Some s
  | x :: p', y :: s' => if x =? lower_c y then strip_prefix_ci p' s' else None
  | _ :: _, [] => None
  end.
Definition word_at (w : text) (s : text) : bool :=
  match strip_prefix_ci w s with
  | Some (c :: _) => negb (is_word c)
  | Some [] => true
  | None => false
  end.
Fixpoint has_word_aux (w : text) (prev_word : bool) (s : text) : bool :=
  (negb prev_word && word_at w s)
  || match s with [] => false | c :: r => has_word_aux w (is_word c) r end.
Definition has_word (w s : text) : bool := has_word_aux w false s.
Definition w_buy := Eval vm_compute in txt "buy".
Definition w_bought := Eval vm_compute in txt "bought".
Definition w_sell := Eval vm_compute in txt "sell".
Definition w_sold := Eval vm_compute in txt "sold".
Definition w_roc := Eval vm_compute in txt "roc".
Definition w_sfla := Eval vm_compute in txt "sfla".
Definition w_split := Eval vm_compute in txt "split".
Definition action_of (s : text) : res action5 :=
  if has_word w_buy s || has_word w_bought s then Ok XBuy
  else if has_word w_sell s || has_word w_sold s then Ok XSell
  else if has_word w_roc s then Ok XRoc
  else if has_word w_sfla s then Ok XSfla
  else if has_word w_split s then Ok XSplit
  else rejn TErr.bad_action.

(* Account\s+Number:\s*(\S+)\s *)
Definition k_Account := Eval vm_compute in txt "Account".
Definition k_Number_c := Eval vm_compute in txt "Number:".
Definition m_tc_account (s : text) : option (text * text) :=
  r <~~ lit k_Account s ;; r1 <~~ sp1 r ;; r2 <~~ lit k_Number_c r1 ;;
  '(tok, r3) <~~ run1 nonspace (skip_spaces r2) ;; r4 <~~ one_sp r3 ;; Some (tok, r4).

Definition opt_dec (o : option text) : res (option Qc) :=
  match o with Some t => v <- parse_large t ;; Ok (Some v) | None => Ok None end.
Definition or_zero (o : option Qc) : Qc := match o with Some v => v | None => 0%Qc end.

Record tc_caps : Type := {
  cp_td : text * text * text; cp_sd : text * text * text; cp_sym : text; cp_act : text;
  cp_n : text; cp_price : text; cp_comm : option text; cp_fee : option text
}.

(* ======================================================================
   parse_pre_ms_2023_trade_confirmations                                  *)
Definition k_COMMISSION := Eval vm_compute in txt "COMMISSION".
Definition k_FEE := Eval vm_compute in txt "FEE".
Definition k_NET := Eval vm_compute in txt "NET".
Definition k_AMOUNT := Eval vm_compute in txt "AMOUNT".

(* the positions a greedy [^\n]* can stop at, longest first: the suffixes of
   s inside its line, from the end of the line back to s *)
Fixpoint line_sufs (s : text) : list text :=
  match s with
  | [] => [[]]
  | c :: r => if c =? 10 then [s] else line_sufs r ++ [s]
  end.

(* WORD\s+\$(\d+\.\d+)[^\n]*\n *)
Definition m_money_line (k : text) (s : text) : option (text * text) :=
  r <~~ lit k s ;; r1 <~~ sp1 r ;; r2 <~~ chr 36 r1 ;; '(v, r3) <~~ dd r2 ;; r4 <~~ to_nl r3 ;; Some (v, r4).
(* NET\s+AMOUNT *)
Definition m_net_amount (s : text) : option text :=
  r <~~ lit k_NET s ;; r1 <~~ sp1 r ;; lit k_AMOUNT r1.
(* [^\n]*NET\s+AMOUNT *)
Definition k3 (s : text) : option text := first_some m_net_amount (line_sufs s).
(* [^\n]*(FEE...)?[^\n]*NET\s+AMOUNT : the optional group is tried before it is skipped *)
Definition k2 (s : text) : option (option text * text) :=
  first_some (fun p =>
    match (match m_money_line k_FEE p with
           | Some (v, n) => (rest <~~ k3 n ;; Some (Some v, rest))
           | None => None
           end) with
    | Some x => Some x
    | None => rest <~~ k3 p ;; Some (None, rest)
    end) (line_sufs s).
(* [^\n]*(COMMISSION...)?[^\n]*(FEE...)?[^\n]*NET\s+AMOUNT *)
Definition r2_lines (s : text) : option (option text * option text * text) :=
  first_some (fun p =>
    match (match m_money_line k_COMMISSION p with
           | Some (c, n) => ('(f, rest) <~~ k2 n ;; Some (Some c, f, rest))
           | None => None
           end) with
    | Some x => Some x
    | None => '(f, rest) <~~ k2 p ;; Some (None, f, rest)
    end) (line_sufs s).

(* (?P<sym>\S+)\s+(?P<act>\S+)\s+(?P<nshares>\d+)\s+\$(?P<price>\d+\.\d+)[^\n]*\n ... NET\s+AMOUNT *)
Definition pre_rest (td sd : text * text * text) (s : text) : option (tc_caps * text) :=
  '(sym, r) <~~ run1 nonspace s ;; r <~~ sp1 r ;;
  '(act, r) <~~ run1 nonspace r ;; r <~~ sp1 r ;;
  '(n, r) <~~ run1 is_digit r ;; r <~~ sp1 r ;;
  r <~~ chr 36 r ;; '(price, r) <~~ dd r ;; r <~~ to_nl r ;;
  '(c, f, rest) <~~ r2_lines r ;;
  Some ({| cp_td := td; cp_sd := sd; cp_sym := sym; cp_act := act; cp_n := n; cp_price := price;
           cp_comm := c; cp_fee := f |}, rest).

(* (?P<txdate>\d+/\d+/\d+)\s+(?P<sdate>\d+/\d+/\d+)\s+(?P<mkt>\d+)\s*(?P<cpt>\d+)\s+ ...
   mkt/cpt: first the whole digit run, white space, a second run; then (on
   failure of the rest too) the run split in two, which needs two digits *)
Definition m_pre_row (s : text) : option (tc_caps * text) :=
  '(td, r) <~~ date3 47 s ;; r <~~ sp1 r ;;
  '(sd, r) <~~ date3 47 r ;; r <~~ sp1 r ;;
  '(d1, r) <~~ run1 is_digit r ;;
  match ('(_, r2) <~~ run1 is_digit (skip_spaces r) ;; r3 <~~ sp1 r2 ;; pre_rest td sd r3) with
  | Some x => Some x
  | None => if Nat.leb 2 (length d1) then (r3 <~~ sp1 r ;; pre_rest td sd r3) else None
  end.

Definition trade_of_caps (short_year : bool) (acct : text) (row : nat) (c : tc_caps) : res ttrade :=
  td <- (if short_year then parse_short_mdy (cp_td c) else parse_mdy (cp_td c)) ;;
  sd <- (if short_year then parse_short_mdy (cp_sd c) else parse_mdy (cp_sd c)) ;;
  a <- action_of (cp_act c) ;;
  price <- parse_large (cp_price c) ;;
  n <- parse_large (cp_n c) ;;
  cm <- opt_dec (cp_comm c) ;;
  fe <- opt_dec (cp_fee c) ;;
  comm <- a_add dec (or_zero cm) (or_zero fe) ;;
  Ok {| tt_sec := cp_sym c; tt_td := td; tt_sd := sd;
        tt_td_text := date_text 47 (cp_td c); tt_sd_text := date_text 47 (cp_sd c);
        tt_act := a; tt_price := price; tt_shares := n; tt_comm := comm;
        tt_row := row; tt_acct := acct |}.

Fixpoint trades_of_caps (acct : text) (row : nat) (l : list tc_caps) : res (list ttrade) :=
  match l with
  | [] => Ok []
  | c :: r => t <- trade_of_caps true acct row c ;; ts <- trades_of_caps acct (S row) r ;; Ok (t :: ts)
  end.

Definition parse_tc_pre (s : text) : res (list ttrade) :=
  '(acct, _) <- get1 m_tc_account s ;;
  trades_of_caps acct 1 (all_matches m_pre_row s).

(* ======================================================================
   parse_post_ms_2023_trade_confirmation                                  *)
Definition k_Trade := Eval vm_compute in txt "Trade".
Definition k_Date := Eval vm_compute in txt "Date".
Definition k_Settlement := Eval vm_compute in txt "Settlement".
Definition k_Quantity := Eval vm_compute in txt "Quantity".
Definition k_Price := Eval vm_compute in txt "Price".
Definition k_Amount := Eval vm_compute in txt "Amount".
Definition k_Transaction := Eval vm_compute in txt "Transaction".
Definition k_Type_c := Eval vm_compute in txt "Type:".
Definition k_Description := Eval vm_compute in txt "Description".
Definition k_ISIN_c := Eval vm_compute in txt "ISIN:".
Definition k_Commission := Eval vm_compute in txt "Commission".
Definition k_Fee := Eval vm_compute in txt "Fee".

(* ISIN:\s*(?P<sym>\S+) *)
Definition m_isin (s : text) : option (text * text) :=
  r <~~ lit k_ISIN_c s ;; run1 nonspace (skip_spaces r).
(* \s*Description.*\n.*ISIN:\s*(\S+)   (the last ISIN: of the next line that has a token after it) *)
Definition after_act (s : text) : option (text * text) :=
  r <~~ lit k_Description (skip_spaces s) ;; r1 <~~ to_nl r ;; first_some m_isin (line_sufs r1).
(* (?P<act>\S.*\S) at a non-space character: the longest piece of the line, at
   least two characters, ending in a non-space character, after which the
   rest matches *)
Definition m_act (s : text) : option (text * (text * text)) :=
  match s with
  | c :: _ =>
      if is_space c then None else
      first_some (fun pr =>
        match fst pr with
        | e :: _ :: _ =>
            if is_space e then None
            else match after_act (snd pr) with
                 | Some x => Some (rev (fst pr), x)
                 | None => None
                 end
        | _ => None
        end) (rev (prefixes_line [] s))
  | [] => None
  end.
(* Commission\s+\$(\d+\.\d+) *)
Definition m_commission (s : text) : option (text * text) :=
  r <~~ lit k_Commission s ;; r1 <~~ sp1 r ;; r2 <~~ chr 36 r1 ;; dd r2.
(* Transaction\s+Fee\s+\$(\d+\.\d+) *)
Definition m_tx_fee (s : text) : option (text * text) :=
  r <~~ lits_sp1 [k_Transaction; k_Fee] s ;; r2 <~~ chr 36 r ;; dd r2.

(* Trade\s+Date\s+Settlement\s+Date\s+Quantity\s+Price\s+Settlement\s+Amount\s+
   (?P<txdate>\d+/\d+/\d+)\s+(?P<sdate>\d+/\d+/\d+)\s+(?P<nshares>\d+)\s+(?P<price>\d+\.\d+)\s+
   Transaction\s+Type:\s*(?P<act>\S.*\S)\s*Description.*\n.*ISIN:\s*(?P<sym>\S+)
   ([\s\S]*Commission\s+\$(?P<commission>\d+\.\d+))?([\s\S]*Transaction\s+Fee\s+\$(?P<fee>\d+\.\d+))?
   the optional tails: the LAST Commission of the rest, then the last
   Transaction Fee after it (a fee line before the last commission line is
   not seen) *)
Definition m_post (s : text) : option tc_caps :=
  r <~~ lits_sp1 [k_Trade; k_Date; k_Settlement; k_Date; k_Quantity; k_Price; k_Settlement; k_Amount] s ;;
  '(td, r) <~~ date3 47 r ;; r <~~ sp1 r ;;
  '(sd, r) <~~ date3 47 r ;; r <~~ sp1 r ;;
  '(n, r) <~~ run1 is_digit r ;; r <~~ sp1 r ;;
  '(price, r) <~~ dd r ;; r <~~ sp1 r ;;
  r <~~ lit k_Transaction r ;; r <~~ sp1 r ;; r <~~ lit k_Type_c r ;;
  '(act, (sym, rest)) <~~ m_act (skip_spaces r) ;;
  let '(c, rest1) := match find_last m_commission rest with
                     | Some (v, r') => (Some v, r')
                     | None => (None, rest)
                     end in
  let f := match find_last m_tx_fee rest1 with Some (v, _) => Some v | None => None end in
  Some {| cp_td := td; cp_sd := sd; cp_sym := sym; cp_act := act; cp_n := n; cp_price := price;
          cp_comm := c; cp_fee := f |}.

Definition parse_tc_post (s : text) : res ttrade :=
  '(acct, _) <- get1 m_tc_account s ;;
  match find m_post s with
  | Some c => trade_of_caps false acct 1 c
  | None => rejn TErr.post_no_tx
  end.

(* ======================================================================
   parse_pdf_text                                                          *)
Inductive doc_kind : Type := KRsu | KEso | KEspp | KPre | KPost.
Definition k_STOCK := Eval vm_compute in txt "STOCK".
Definition k_PLAN := Eval vm_compute in txt "PLAN".
Definition k_RELEASE := Eval vm_compute in txt "RELEASE".
Definition k_EXERCISE := Eval vm_compute in txt "EXERCISE".
Definition k_CONFIRMATION := Eval vm_compute in txt "CONFIRMATION".
Definition k_Plan := Eval vm_compute in txt "Plan".
Definition k_2014 := Eval vm_compute in txt "2014".
Definition k_ESP2 := Eval vm_compute in txt "ESP2".
Definition k_TRADE := Eval vm_compute in txt "TRADE".
Definition k_This := Eval vm_compute in txt "This".
Definition k_transaction := Eval vm_compute in txt "transaction".
Definition k_is := Eval vm_compute in txt "is".
Definition k_confirmed := Eval vm_compute in txt "confirmed".

Definition is_match (m : text -> option text) (s : text) : bool :=
  match find m s with Some _ => true | None => false end.
(* STOCK\s+PLAN\s+RELEASE\s+CONFIRMATION *)
Definition m_rsu_marker (s : text) : option text :=
  r <~~ lits_sp1 [k_STOCK; k_PLAN; k_RELEASE] s ;; lit k_CONFIRMATION r.
(* STOCK\s+PLAN\s+EXERCISE\s+CONFIRMATION *)
Definition m_eso_marker (s : text) : option text :=
  r <~~ lits_sp1 [k_STOCK; k_PLAN; k_EXERCISE] s ;; lit k_CONFIRMATION r.
(* Plan\s*(2014|ESP2) *)
Definition m_espp_marker (s : text) : option text :=
  r <~~ lit k_Plan s ;;
  let r1 := skip_spaces r in
  match lit k_2014 r1 with Some x => Some x | None => lit k_ESP2 r1 end.
(* TRADE\s*CONFIRMATION *)
Definition m_pre_marker (s : text) : option text :=
  r <~~ lit k_TRADE s ;; lit k_CONFIRMATION (skip_spaces r).
(* This\s+transaction\s+is\s+confirmed *)
Definition m_post_marker (s : text) : option text :=
  r <~~ lits_sp1 [k_This; k_transaction; k_is] s ;; lit k_confirmed r.

Definition classify_doc (s : text) : option doc_kind :=
  if is_match m_rsu_marker s then Some KRsu
  else if is_match m_eso_marker s then Some KEso
  else if is_match m_espp_marker s then Some KEspp
  else if is_match m_pre_marker s then Some KPre
  else if is_match m_post_marker s then Some KPost
  else None.

(* EtradePdfContent *)
Inductive content : Type :=
| Benefits (bs : list tbenefit)
| Trades (ts : list ttrade).

Definition parse_text (s : text) : res content :=
  match classify_doc s with
  | Some KRsu => b <- parse_rsu s ;; Ok (Benefits [b])
  | Some KEso => bs <- parse_eso s ;; Ok (Benefits bs)
  | Some KEspp => b <- parse_espp s ;; Ok (Benefits [b])
  | Some KPre => ts <- parse_tc_pre s ;; Ok (Trades ts)
  | Some KPost => t <- parse_tc_post s ;; Ok (Trades [t])
  | None => rejn TErr.no_layout
  end.

(* ======================================================================
   abstraction into the records of Model/Etrade.v                         *)
(* injective token for a text *)
Definition tok (t : text) : N := fold_left (fun acc c => acc * 1114112 + (c + 1)) t 0.
Definition abs_benefit (b : tbenefit) : benefit :=
  {| b_sec := tok (tb_sec b); b_date := tb_date b; b_settle := tb_settle b; b_price := tb_price b;
     b_shares := tb_shares b; b_stc_td := tb_stc_td b; b_stc_sd := tb_stc_sd b;
     b_stc_price := tb_stc_price b; b_stc_shares := tb_stc_shares b; b_stc_fee := tb_stc_fee b;
     b_note := tok (tb_note b); b_sell_note := option_map tok (tb_sell_note b) |}.
(* the matching core knows Buy and Sell only; RoC / SfLA / Split confirmations
   (accepted by TxAction::try_from) are outside its model *)
Definition abs_action (a : action5) : option act :=
  match a with XBuy => Some ABuy | XSell => Some ASell | _ => None end.
Definition abs_trade (tag : N) (t : ttrade) : option trade :=
  a <~~ abs_action (tt_act t) ;;
  Some {| t_sec := tok (tt_sec t); t_td := tt_td t; t_sd := tt_sd t; t_act := a;
          t_price := tt_price t; t_shares := tt_shares t; t_comm := tt_comm t; t_tag := tag |}.
Fixpoint abs_trades (tag : N) (ts : list ttrade) : option (list trade) :=
  match ts with
  | [] => Some []
  | t :: r => a <~~ abs_trade tag t ;; rest <~~ abs_trades (tag + 1) r ;; Some (a :: rest)
  end.

(* parse_doc: one document to the abstract records (None: an action the core
   does not model) *)
Definition parse_doc (s : text) : res (option (list benefit * list trade)) :=
  c <- parse_text s ;;
  match c with
  | Benefits bs => Ok (Some (map abs_benefit bs, []))
  | Trades ts => Ok (match abs_trades 0 ts with Some l => Some ([], l) | None => None end)
  end.

(* ======================================================================
   parse_pdfs over the sorted file arguments (run_with_args: args.files.sort();
   the first document that fails is fatal).  A path is its list of components
   (PathBuf's Ord compares component-wise); Vec::sort is stable.           *)
Fixpoint path_cmp (a b : list text) : comparison :=
  match a, b with
  | [], [] => Eq
  | [], _ :: _ => Lt
  | _ :: _, [] => Gt
  | x :: a', y :: b' => match text_cmp x y with Eq => path_cmp a' b' | c => c end
  end.
Definition path_le (x y : list text * text) : bool :=
  match path_cmp (fst x) (fst y) with Gt => false | _ => true end.

Fixpoint parse_sorted (files : list (list text * text)) : res (list tbenefit * list ttrade) :=
  match files with
  | [] => Ok ([], [])
  | (_, s) :: r =>
      c <- parse_text s ;;
      '(bs, ts) <- parse_sorted r ;;
      Ok (match c with
          | Benefits b => (b ++ bs, ts)
          | Trades t => (bs, t ++ ts)
          end)
  end.
Definition parse_files (files : list (list text * text)) : res (list tbenefit * list ttrade) :=
  parse_sorted (sort_by path_le files).
