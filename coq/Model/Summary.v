(* summary.rs: get_summary_range_delta_indicies, make_simple_summary_txs,
   make_annual_gains_summary_txs, make_summary_txs (one security), on the
   delta list of the bookkeeping model (Model/DeltaList.v).  Definitions only. *)
From Coq Require Import List NArith ZArith QArith Qcanon Bool.
From ACB Require Import Base.Outcome Base.QcExtra Base.Arith Model.Tx Model.Ledger Model.Sfl
     Model.DeltaList Model.App Model.Gains.
Import ListNotations.
Local Open Scope Z_scope.

(* Date::from_calendar_date(y, January, 1) as a day number (day 1 = 0001-01-01):
   Hinnant's days_from_civil for month 1, day 1 *)
Definition jan1 (y : Z) : Z :=
  let y' := y - 1 in
  let era := y' / 400 in
  let yoe := y' - era * 400 in
  let doe := yoe * 365 + yoe / 4 - yoe / 100 + 306 in
  era * 146097 + doe - 306 + 1.

Definition d_sd (d : delta) : Z := t_sd (d_tx d).
(* TxDelta::is_superficial_loss *)
Definition is_sfl_delta (d : delta) : bool :=
  match d_sfl d with
  | Some i => negb (Qceqb (sf_amount i) 0)
  | None => false
  end.

(* ---- get_summary_range_delta_indicies ---- *)
(* step 1: index of the latest delta settled on or before the date *)
Fixpoint latest_in_range (latest : Z) (ds : list delta) (i : nat) (acc : option nat) : option nat :=
  match ds with
  | [] => acc
  | d :: r => if latest <? d_sd d then acc else latest_in_range latest r (S i) (Some i)
  end.
(* step 2: the first superficial loss after that index *)
Definition first_sfl_after (idx : nat) (ds : list delta) : option delta :=
  find is_sfl_delta (skipn (S idx) ds).
(* step 3: going back from idx; [l] lists (index, delta) from idx down to 0 *)
Fixpoint back_scan (first_day : Z) (l : list (nat * delta)) : option nat :=
  match l with
  | [] => None
  | (i, d) :: r =>
      if d_sd d <? first_day then Some i
      else back_scan (if is_sfl_delta d then d_sd d - window_days else first_day) r
  end.
Fixpoint indexed {T} (i : nat) (l : list T) : list (nat * T) :=
  match l with
  | [] => []
  | x :: r => (i, x) :: indexed (S i) r
  end.

Record ranges : Type := { rg_latest : nat; rg_summarizable : option nat }.

Definition summary_ranges (latest : Z) (ds : list delta) : option ranges :=
  match latest_in_range latest ds 0 None with
  | None => None
  | Some idx =>
      match nth_error ds idx with
      | None => None      (* unreachable: idx is an index of ds *)
      | Some dl =>
          match first_sfl_after idx ds with
          | Some s =>
              let first_day := d_sd s - window_days in
              if first_day <=? d_sd dl then
                Some {| rg_latest := idx;
                        rg_summarizable := back_scan first_day (rev (indexed 0 (firstn (S idx) ds))) |}
              else Some {| rg_latest := idx; rg_summarizable := Some idx |}
          | None => Some {| rg_latest := idx; rg_summarizable := Some idx |}
          end
      end
  end.

(* ---- summary transactions of one affiliate ---- *)
Definition mk_tx (like : tx) (date : Z) (a : action) (af : aff) : tx :=
  {| t_sec := t_sec like; t_td := date; t_sd := date; t_act := a; t_af := af; t_glob := false; t_ri := 0%N |}.

(* The summary goes through write_txs_to_csv and parse_tx_csv (C11): the only
   effect on the bookkeeping is that, when no row of the summary names an
   affiliate other than the default one, the affiliate column is omitted and
   a split of the default affiliate is read back as a split of all affiliates. *)
Definition through_csv (sums : list tx) : list tx :=
  if forallb (fun t => N.eqb (af_id (t_af t)) default_id) sums
  then map (fun t => if is_split (t_act t)
                     then {| t_sec := t_sec t; t_td := t_td t; t_sd := t_sd t; t_act := t_act t;
                             t_af := t_af t; t_glob := true; t_ri := t_ri t |}
                     else t) sums
  else sums.

(* rows of the original history settling after the date *)
Definition rows_after (latest : Z) (txs : list tx) : list tx := filter (fun t => latest <? t_sd t) txs.

Section WithArith.
  Variable A : arith.

  (* make_simple_summary_txs: d is the affiliate's last summarizable delta *)
  Definition simple_summary (af : aff) (d : delta) : res (list tx) :=
    let post := d_post d in
    if Qcltb 0 (s_sh post) then
      aps <- match s_acb post with
             | Some acb => gez_div A acb (s_sh post)
             | None => Ok 0%Qc
             end ;;
      Ok [mk_tx (d_tx d) (d_sd d) (Buy (s_sh post) aps 0 1 1) af]
    else Ok [].

  (* yearly_cap_gains / latest_year_delta over deltas[..=idx] of the affiliate *)
  Fixpoint yearly_gains (af : aff) (ds : list delta) (acc : list (Z * Qc)) : res (list (Z * Qc)) :=
    match ds with
    | [] => Ok acc
    | d :: r =>
        if negb (aff_eqb (t_af (d_tx d)) af) then yearly_gains af r acc else
        let y := year_of_day (d_sd d) in
        match d_gain d with
        | Some g =>
            if Qceqb g 0 then yearly_gains af r acc else
            let prev := match zlookup y acc with Some v => v | None => 0%Qc end in
            s <- a_add A prev g ;;
            yearly_gains af r (zupdate y s acc)
        | None => yearly_gains af r acc
        end
    end.

  Fixpoint insert_year (y : Z * Qc) (l : list (Z * Qc)) : list (Z * Qc) :=
    match l with
    | [] => [y]
    | h :: r => if fst y <=? fst h then y :: l else h :: insert_year y r
    end.
  Definition sort_years (l : list (Z * Qc)) : list (Z * Qc) := fold_right insert_year [] l.

  Fixpoint year_sells (like : tx) (af : aff) (base : option Qc) (ys : list (Z * Qc)) : res (list tx) :=
    match ys with
    | [] => Ok []
    | (y, g) :: r =>
        gl <- (if Qcltb g 0 then
                 m <- a_mul A g (-(1))%Qc ;; l <- gez_unwrap 61%N m ;; Ok (0%Qc, l)
               else g' <- gez_unwrap 62%N g ;; Ok (g', 0%Qc)) ;;
        amount <- match base with
                  | Some aps => gez_add A aps (fst gl)
                  | None => Ok 0%Qc
                  end ;;
        rest <- year_sells like af base r ;;
        Ok (mk_tx like (jan1 y) (Sell 1 amount (snd gl) 1 1 None) af :: rest)
    end.

  (* make_annual_gains_summary_txs: [ds] = deltas[..=idx], d = deltas[idx],
     first_year = year of deltas[0] *)
  Definition annual_summary (af : aff) (first_year : Z) (ds : list delta) (d : delta) : res (list tx) :=
    ys0 <- (if af_reg af then Ok [] else yearly_gains af ds []) ;;
    let ys := sort_years ys0 in
    let post := d_post d in
    base <- match s_acb post with
            | Some acb => if Qcltb 0 (s_sh post) then v <- gez_div A acb (s_sh post) ;; Ok (Some v)
                          else Ok (Some 0%Qc)
            | None => Ok None
            end ;;
    n <- gez_add A (s_sh post) (QcZ (Z.of_nat (length ys))) ;;
    sells <- year_sells (d_tx d) af base ys ;;
    let buy := if Qcltb 0 n then
                 [mk_tx (d_tx d) (jan1 (first_year - 1))
                        (Buy n (match base with Some v => v | None => 0%Qc end) 0 1 1) af]
               else [] in
    Ok (buy ++ sells).

  (* affiliates with their last summarizable delta index, scanning back from idx *)
  Fixpoint last_idxs (l : list (nat * delta)) (acc : list (aff * nat)) : list (aff * nat) :=
    match l with
    | [] => acc
    | (i, d) :: r =>
        let af := t_af (d_tx d) in
        if existsb (fun x => aff_eqb (fst x) af) acc then last_idxs r acc
        else last_idxs r (acc ++ [(af, i)])
    end.
  Fixpoint ins_afi (a : aff * nat) (l : list (aff * nat)) : list (aff * nat) :=
    match l with
    | [] => [a]
    | b :: r => if N.leb (af_id (fst a)) (af_id (fst b)) then a :: l else b :: ins_afi a r
    end.
  Definition sort_afis (l : list (aff * nat)) : list (aff * nat) := fold_right ins_afi [] l.

  Fixpoint per_affiliate (annual : bool) (ds : list delta) (dflt : delta) (afs : list (aff * nat))
    : res (list tx) :=
    match afs with
    | [] => Ok []
    | (af, i) :: r =>
        let d := nth i ds dflt in
        one <- (if annual then annual_summary af (year_of_day (d_sd (nth 0 ds dflt))) (firstn (S i) ds) d
                else simple_summary af d) ;;
        rest <- per_affiliate annual ds dflt r ;;
        Ok (one ++ rest)
    end.

  Fixpoint number_from (i : N) (l : list tx) : list tx :=
    match l with
    | [] => []
    | t :: r => {| t_sec := t_sec t; t_td := t_td t; t_sd := t_sd t; t_act := t_act t; t_af := t_af t;
                   t_glob := t_glob t; t_ri := i |} :: number_from (i + 1) r
    end.
  Definition zero_ri (t : tx) : tx :=
    {| t_sec := t_sec t; t_td := t_td t; t_sd := t_sd t; t_act := t_act t; t_af := t_af t;
       t_glob := t_glob t; t_ri := 0%N |}.

  (* an unsummarizable delta re-emitted with an explicit superficial loss *)
  Definition keep_delta (d : delta) : res tx :=
    let t := d_tx d in
    match d_sfl d with
    | None => Ok t
    | Some i =>
        match t_act t with
        | Sell sh aps com rate crate spec =>
            (* a value the user forced stays forced (fix: see known-findings.d/C10.json) *)
            let force := match spec with Some (_, f) => f | None => false end in
            Ok {| t_sec := t_sec t; t_td := t_td t; t_sd := t_sd t;
                  t_act := Sell sh aps com rate crate (Some (sf_amount i, force));
                  t_af := t_af t; t_glob := t_glob t; t_ri := t_ri t |}
        | _ => Panic (PanicAssert 60%N)     (* summary.rs:423 "Superficial loss was not sell" *)
        end
    end.
  Fixpoint keep_all (l : list delta) : res (list tx) :=
    match l with
    | [] => Ok []
    | d :: r => t <- keep_delta d ;; rest <- keep_all r ;; Ok (t :: rest)
    end.

  (* make_summary_txs: (generated rows sorted by date, re-emitted rows) *)
  Definition summary_afs (rg : ranges) (ds : list delta) : list (aff * nat) :=
    match rg_summarizable rg with
    | Some s => sort_afis (last_idxs (rev (indexed 0 (firstn (S s) ds))) [])
    | None => []
    end.
  Definition first_unsum (rg : ranges) : nat :=
    match rg_summarizable rg with Some s => S s | None => O end.

  Definition make_summary_parts (latest : Z) (ds : list delta) (annual : bool) : res (list tx * list tx) :=
    match ds with
    | [] => Ok ([], [])
    | dflt :: _ =>
        match summary_ranges latest ds with
        | None => Ok ([], [])
        | Some rg =>
            sums <- per_affiliate annual ds dflt (summary_afs rg ds) ;;
            let sorted := map zero_ri (sort_txs (number_from 0 sums)) in
            kept <- keep_all (firstn (S (rg_latest rg) - first_unsum rg) (skipn (first_unsum rg) ds)) ;;
            Ok (sorted, kept)
        end
    end.
  Definition make_summary (latest : Z) (ds : list delta) (annual : bool) : res (list tx) :=
    p <- make_summary_parts latest ds annual ;; Ok (fst p ++ snd p).

  (* ---- the round trip of one security, and the classes on which it fails ---- *)
  Definition sec_run (rows : list tx) : list delta * option stop :=
    match replace_global_splits false (sort_txs rows) with
    | Ok l => run A None l
    | Rej e => ([], Some (SRej e))
    | Panic p => ([], Some (SPanic p))
    end.

  (* what is reported for a row: action, affiliate, date, share balance, cost
     base, capital gain, superficial loss *)
  Definition oeqb (a b : option Qc) : bool :=
    match a, b with Some x, Some y => Qceqb x y | None, None => true | _, _ => false end.
  Definition denied (d : delta) : Qc := match d_sfl d with Some i => sf_amount i | None => 0%Qc end.
  Definition act_tag (a : action) : N :=
    match a with Buy _ _ _ _ _ => 0 | Sell _ _ _ _ _ _ => 1 | Roc _ _ => 2 | Sfla _ _ => 3 | Split _ _ _ => 4 end%N.
  Definition same_report (d1 d2 : delta) : bool :=
    N.eqb (act_tag (t_act (d_tx d1))) (act_tag (t_act (d_tx d2)))
    && aff_eqb (t_af (d_tx d1)) (t_af (d_tx d2)) && (d_sd d1 =? d_sd d2)
    && Qceqb (s_sh (d_post d1)) (s_sh (d_post d2)) && oeqb (s_acb (d_post d1)) (s_acb (d_post d2))
    && oeqb (d_gain d1) (d_gain d2) && Qceqb (denied d1) (denied d2).
  Fixpoint same_reports (a b : list delta) : bool :=
    match a, b with
    | [], [] => true
    | x :: a', y :: b' => same_report x y && same_reports a' b'
    | _, _ => false
    end.
  Definition later_deltas (latest : Z) (ds : list delta) : list delta := filter (fun d => latest <? d_sd d) ds.

  (* the history is accepted, its summary is produced, and summary ++ later
     rows is accepted and reports every later row as the full history does *)
  Definition history_ok (rows : list tx) : bool :=
    match snd (sec_run rows) with None => true | Some _ => false end.
  Definition roundtrip_of (latest : Z) (annual : bool) (rows : list tx) (ds : list delta) : bool :=
    match make_summary latest ds annual with
    | Ok sums =>
        let '(ds2, o2) := sec_run (number_from 0 (through_csv sums ++ rows_after latest rows)) in
        match o2 with
        | None => same_reports (later_deltas latest ds) (later_deltas latest ds2)
        | Some _ => false
        end
    | _ => false
    end.
  Definition roundtrip_ok (latest : Z) (annual : bool) (rows : list tx) : bool :=
    roundtrip_of latest annual rows (fst (sec_run rows)).

  Definition within_after (a b : Z) : bool := (a <=? b) && (b <=? a + window_days).
  Definition plain_loss_sell (d : delta) : bool :=
    is_sell (t_act (d_tx d)) && negb (is_sfl_delta d)
    && match d_gain d with Some g => Qcltb g 0 | None => false end.
  Definition gen_loss_sell (t : tx) : bool :=
    match t_act t with Sell _ _ com _ _ _ => Qcltb 0 com | _ => false end.

  (* K_summary_buy_in_window: a sale at a loss that is not superficial in the
     full history, re-emitted or later, settles within 30 days after a
     generated purchase *)
  Definition K1_of (latest : Z) (annual : bool) (ds : list delta) : bool :=
    match summary_ranges latest ds, make_summary_parts latest ds annual with
    | Some rg, Ok (gen, _) =>
        existsb (fun b => is_buy (t_act b)
                          && existsb (fun d => plain_loss_sell d && within_after (t_sd b) (d_sd d))
                                     (skipn (first_unsum rg) ds)) gen
    | _, _ => false
    end.
  Definition K_summary_buy_in_window (latest : Z) (annual : bool) (rows : list tx) : bool :=
    K1_of latest annual (fst (sec_run rows)).
  (* K_annual_sell_in_window: an acquisition, re-emitted or later, settles
     within 30 days after a generated 1-January sale that realises a loss *)
  Definition K2_of (latest : Z) (annual : bool) (ds : list delta) : bool :=
    match summary_ranges latest ds, make_summary_parts latest ds annual with
    | Some rg, Ok (gen, _) =>
        existsb (fun s => gen_loss_sell s
                          && existsb (fun d => is_buy (t_act (d_tx d)) && within_after (t_sd s) (d_sd d))
                                     (skipn (first_unsum rg) ds)) gen
    | _, _ => false
    end.
  Definition K_annual_sell_in_window (latest : Z) (annual : bool) (rows : list tx) : bool :=
    K2_of latest annual (fst (sec_run rows)).
  (* K_zero_balance_acb: a summarised affiliate ends with no shares but a cost base *)
  Definition K3_of (latest : Z) (ds : list delta) : bool :=
    match ds, summary_ranges latest ds with
    | dflt :: _, Some rg =>
        existsb (fun x => let post := d_post (nth (snd x) ds dflt) in
                          Qceqb (s_sh post) 0
                          && match s_acb post with Some c => negb (Qceqb c 0) | None => false end)
                (summary_afs rg ds)
    | _, _ => false
    end.
  Definition K_zero_balance_acb (latest : Z) (rows : list tx) : bool := K3_of latest (fst (sec_run rows)).
End WithArith.
