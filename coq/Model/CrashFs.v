(* stub: to be written by group Rates *)
