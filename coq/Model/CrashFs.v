(* Model of the CSV rate cache file (src/fx/io/rates_cache.rs, CsvRatesCache)
   at the level of bytes, and of what an interrupted write can leave behind.
   Definitions only.

   - text: how a year of rates is rendered (Date Display "YYYY-MM-DD", a
     comma, rust_decimal Display, a line feed) and how the reader
     get_rates_from_csv takes a file apart (csv crate with has_headers(false)
     and flexible(false): records of a different field count than the first
     record are errors and skipped; a row whose date or rate does not parse is
     skipped; the rest is kept);
   - a write procedure is a list of steps over a two-name directory (the live
     file rates-<year>.csv and a temporary file next to it); a file has a
     durable part and a pending part (written, not yet synced); after a crash
     any prefix of the pending part may be what is found (assumption about the
     platform, listed in the trusted base); rename is atomic.

   Not modelled (outside the alphabet digits , . + - LF the generator of the
   check stays in): quoting, CR, other bytes; decimals with more than 28
   fractional digits or a mantissa above 2^96-1 (rust_decimal rounds those). *)
From Coq Require Import List NArith ZArith QArith Qcanon Bool.
From ACB Require Import Base.QcExtra Base.Fit Model.Rates.
Import ListNotations.
Local Open Scope Z_scope.

Definition bytes : Type := list N.

(* ------------------------------------------------------------ civil dates *)
Definition is_leap (y : Z) : bool := year_len y =? 366.
(* days of the year before month m (1..12; 13 = whole year) *)
Definition cum_days (leap : bool) (m : Z) : Z :=
  let l := if leap then 1 else 0 in
  match m with
  | 1 => 0 | 2 => 31 | 3 => 59 + l | 4 => 90 + l | 5 => 120 + l | 6 => 151 + l
  | 7 => 181 + l | 8 => 212 + l | 9 => 243 + l | 10 => 273 + l | 11 => 304 + l
  | 12 => 334 + l | _ => 365 + l
  end.
Definition month_of_doy (leap : bool) (doy : Z) : Z :=
  if doy <? cum_days leap 2 then 1 else if doy <? cum_days leap 3 then 2
  else if doy <? cum_days leap 4 then 3 else if doy <? cum_days leap 5 then 4
  else if doy <? cum_days leap 6 then 5 else if doy <? cum_days leap 7 then 6
  else if doy <? cum_days leap 8 then 7 else if doy <? cum_days leap 9 then 8
  else if doy <? cum_days leap 10 then 9 else if doy <? cum_days leap 11 then 10
  else if doy <? cum_days leap 12 then 11 else 12.

(* (year, month, day) of a day number *)
Definition civil (d : Z) : Z * Z * Z :=
  let y := year_of d in
  let doy := d - jan1 y in
  let m := month_of_doy (is_leap y) doy in
  (y, m, doy - cum_days (is_leap y) m + 1).

(* Date::from_calendar_date with range checks *)
Definition day_of_civil (y m dd : Z) : option Z :=
  if (1 <=? m) && (m <=? 12) && (1 <=? dd)
     && (dd <=? cum_days (is_leap y) (m + 1) - cum_days (is_leap y) m)
  then Some (jan1 y + cum_days (is_leap y) m + dd - 1) else None.

(* ----------------------------------------------------------------- digits *)
Definition digit (n : Z) : N := Z.to_N (48 + n).
Definition is_digit (b : N) : bool := ((48 <=? b) && (b <=? 57))%N.
Definition dval (b : N) : Z := Z.of_N b - 48.

(* value of a digit string; None if a byte is not a digit *)
Fixpoint num_acc (acc : Z) (bs : bytes) : option Z :=
  match bs with
  | [] => Some acc
  | b :: t => if is_digit b then num_acc (10 * acc + dval b) t else None
  end.
Definition num_of (bs : bytes) : option Z := num_acc 0 bs.

(* decimal digits of a non-negative integer, most significant first *)
Fixpoint digits_fuel (fuel : nat) (n : Z) (acc : bytes) : bytes :=
  match fuel with
  | O => acc
  | S k =>
      let acc' := digit (n mod 10) :: acc in
      if n / 10 =? 0 then acc' else digits_fuel k (n / 10) acc'
  end.
Definition digits_of (n : Z) : bytes := digits_fuel (S (Z.to_nat (Z.log2 n))) n [].

Definition digits2 (n : Z) : bytes := [digit (n / 10); digit (n mod 10)].
Definition digits4 (n : Z) : bytes :=
  [digit (n / 1000); digit ((n / 100) mod 10); digit ((n / 10) mod 10); digit (n mod 10)].

(* ------------------------------------------------------------------ dates *)
Definition DASH : N := 45%N.
Definition PLUS : N := 43%N.
Definition COMMA : N := 44%N.
Definition DOT : N := 46%N.
Definition LF : N := 10%N.

(* Date Display, years 0..9999 *)
Definition render_date (d : Z) : bytes :=
  let '(y, m, dd) := civil d in
  digits4 y ++ [DASH] ++ digits2 m ++ [DASH] ++ digits2 dd.

(* time: "[year]-[month]-[day]" -- optional sign, exactly 4+2+2 digits, valid date *)
Definition parse_ymd (sign : Z) (bs : bytes) : option Z :=
  match bs with
  | [a; b; c; e; s1; f; g; s2; h; i] =>
      if (s1 =? DASH)%N && (s2 =? DASH)%N then
        match num_of [a; b; c; e], num_of [f; g], num_of [h; i] with
        | Some y, Some m, Some dd => day_of_civil (sign * y) m dd
        | _, _, _ => None
        end
      else None
  | _ => None
  end.
Definition parse_date (bs : bytes) : option Z :=
  match bs with
  | s :: t =>
      if (s =? DASH)%N then parse_ymd (-1) t
      else if (s =? PLUS)%N then parse_ymd 1 t
      else parse_ymd 1 bs
  | [] => None
  end.

(* --------------------------------------------------------------- decimals *)
(* a rust_decimal value as text sees it: mantissa and scale *)
Definition dec_t : Type := (Z * nat)%type.
Definition dec_value (x : dec_t) : Qc := Qcfrac (fst x) (p10 (snd x)).

Fixpoint pad_zeros (n : nat) (bs : bytes) : bytes :=
  match n with O => bs | S k => digit 0 :: pad_zeros k bs end.

(* Decimal Display of a non-negative value *)
Definition render_dec (x : dec_t) : bytes :=
  let '(m, s) := x in
  let ds := digits_of m in
  match s with
  | O => ds
  | _ =>
      let ds' := pad_zeros (S s - length ds) ds in
      let k := (length ds' - s)%nat in
      firstn k ds' ++ [DOT] ++ skipn k ds'
  end.

(* split at the first occurrence of a separator *)
Fixpoint split_first (sep : N) (bs : bytes) : bytes * option bytes :=
  match bs with
  | [] => ([], None)
  | b :: t =>
      if (b =? sep)%N then ([], Some t)
      else let '(x, r) := split_first sep t in (b :: x, r)
  end.

(* Decimal::from_str restricted to what is exact: [+-] digits [. digits],
   at least one digit, at most 28 fractional digits, mantissa <= 2^96-1 *)
Definition parse_udec (bs : bytes) : option Qc :=
  let '(ip, r) := split_first DOT bs in
  let fp := match r with Some f => f | None => [] end in
  match num_of ip, num_of fp with
  | Some _, Some _ =>
      if (length ip + length fp =? 0)%nat then None
      else if (28 <? length fp)%nat then None
      else match num_of (ip ++ fp) with
           | Some m => if m <=? max_mant then Some (Qcfrac m (p10 (length fp))) else None
           | None => None
           end
  | _, _ => None
  end.
Definition parse_dec (bs : bytes) : option Qc :=
  match bs with
  | s :: t =>
      if (s =? DASH)%N then option_map Qcopp (parse_udec t)
      else if (s =? PLUS)%N then parse_udec t
      else parse_udec bs
  | [] => None
  end.

(* ------------------------------------------------------------- the reader *)
Fixpoint split_on (sep : N) (bs : bytes) : list bytes :=
  match bs with
  | [] => [[]]
  | b :: t =>
      match split_on sep t with
      | cur :: rest => if (b =? sep)%N then [] :: cur :: rest else (b :: cur) :: rest
      | [] => [[b]]   (* unreachable: split_on never returns [] *)
      end
  end.

Definition nonempty (l : bytes) : bool := match l with [] => false | _ => true end.

Definition parse_record (n0 : nat) (rec : list bytes) : list drate :=
  if (length rec =? n0)%nat then
    match rec with
    | f0 :: rest =>
        match parse_date f0 with
        | None => []
        | Some d =>
            match rest with
            | f1 :: _ => match parse_dec f1 with Some r => [(d, r)] | None => [] end
            | [] => []
            end
        end
    | [] => []
    end
  else [].

(* get_rates_from_csv *)
Definition parse_csv (content : bytes) : list drate :=
  let recs := map (split_on COMMA) (filter nonempty (split_on LF content)) in
  match recs with
  | [] => []
  | r0 :: _ => flat_map (parse_record (length r0)) recs
  end.

(* write_rates: one record per rate *)
Definition row_t : Type := (Z * dec_t)%type.
Definition render_row (r : row_t) : bytes :=
  render_date (fst r) ++ [COMMA] ++ render_dec (snd r) ++ [LF].
Definition render_rows (rs : list row_t) : bytes := flat_map render_row rs.
Definition row_value (r : row_t) : drate := (fst r, dec_value (snd r)).

(* ------------------------------------------------------------ file system *)
Inductive fname : Type := Live | Tmp.
Record file : Type := { f_durable : bytes; f_pending : bytes }.
Record fs : Type := { fs_live : option file; fs_tmp : option file }.

Inductive step : Type :=
| Create (f : fname)              (* File::create: create or truncate *)
| Append (f : fname) (b : bytes)  (* bytes handed to the kernel *)
| Flush                           (* csv::Writer::flush: user-space buffer, nothing durable *)
| Sync (f : fname)                (* File::sync_all *)
| Rename (src dst : fname).       (* std::fs::rename, atomic *)

Definition get_file (s : fs) (f : fname) : option file :=
  match f with Live => fs_live s | Tmp => fs_tmp s end.
Definition set_file (s : fs) (f : fname) (v : option file) : fs :=
  match f with
  | Live => {| fs_live := v; fs_tmp := fs_tmp s |}
  | Tmp => {| fs_live := fs_live s; fs_tmp := v |}
  end.

Definition exec_step (s : fs) (st : step) : fs :=
  match st with
  | Create f => set_file s f (Some {| f_durable := []; f_pending := [] |})
  | Append f b =>
      match get_file s f with
      | Some x => set_file s f (Some {| f_durable := f_durable x; f_pending := f_pending x ++ b |})
      | None => s
      end
  | Flush => s
  | Sync f =>
      match get_file s f with
      | Some x => set_file s f (Some {| f_durable := f_durable x ++ f_pending x; f_pending := [] |})
      | None => s
      end
  | Rename a b =>
      match get_file s a with
      | Some x => set_file (set_file s a None) b (Some x)
      | None => s
      end
  end.
Definition exec (p : list step) (s : fs) : fs := fold_left exec_step p s.

(* what may be found after a crash in state s: per file, the durable part
   followed by any prefix of the pending part *)
Definition persisted (f : option file) (c : option bytes) : Prop :=
  match f, c with
  | None, None => True
  | Some x, Some b => exists k : nat, b = f_durable x ++ firstn k (f_pending x)
  | _, _ => False
  end.
(* post-crash directories of running procedure p from s0: crash after any
   number of steps (a crash inside an Append is a crash after it with a
   shorter persisted prefix) *)
Definition post_crash (p : list step) (s0 : fs) (live tmp : option bytes) : Prop :=
  exists n : nat,
    let s := exec (firstn n p) s0 in
    persisted (fs_live s) live /\ persisted (fs_tmp s) tmp.

(* executable version for the correspondence check: crash after n steps with
   the first `cut` pending bytes of every file persisted *)
Definition cut_file (cut : nat) (f : option file) : option bytes :=
  option_map (fun x => f_durable x ++ firstn cut (f_pending x)) f.
Definition crash_at (p : list step) (s0 : fs) (n cut : nat) : option bytes * option bytes :=
  let s := exec (firstn n p) s0 in (cut_file cut (fs_live s), cut_file cut (fs_tmp s)).

(* the two procedures *)
(* before the fix of C14: File::create(rates-<year>.csv) truncates the live
   file, rows are streamed into it *)
Definition inplace_proc (rs : list row_t) : list step :=
  Create Live :: map (fun r => Append Live (render_row r)) rs ++ [Flush].
(* after the fix: temporary file, flush, sync, rename over the live file *)
Definition rename_proc (rs : list row_t) : list step :=
  Create Tmp :: map (fun r => Append Tmp (render_row r)) rs ++ [Flush; Sync Tmp; Rename Tmp Live].

Definition durable_file (b : bytes) : file := {| f_durable := b; f_pending := [] |}.
(* a directory holding a completely written old year (or none) *)
Definition fs_of (old : option (list row_t)) (tmp : option bytes) : fs :=
  {| fs_live := option_map (fun rs => durable_file (render_rows rs)) old;
     fs_tmp := option_map durable_file tmp |}.

(* what a later run reads: the rows of the live file, if there is one *)
Definition read_cache (live : option bytes) : option (list drate) := option_map parse_csv live.
