(* The output layer: app/outfmt/{model,csv,text}.rs (AcbWriter, CsvWriter,
   TextWriter) and app/approot.rs write_render_result, over the render model
   (portfolio/render.rs RenderTable).  Definitions only (theorems:
   Proofs/OutputProps.v).

   A string is a [text]: a list of the pieces of Model/Render.v (literal
   bytes, or an abstract leaf printed by Decimal::to_string / Date::to_string
   / a name).  A string the model knows completely is the one-piece text
   [lit s]; the cells of Model/Render.v come as their piece lists
   (cell_pieces).  Concatenation (format!) is [++].  Two texts denote the same
   string when their pieces print the same bytes; the model never needs to
   decide that: the writers copy cells, they do not inspect them (the only
   inspections are `len() > 0` of the footer / errors vectors and
   `footer_cell.is_empty()` in the drawing of the text table, which is not
   modelled).

   What is modelled
   - write_render_result: securities in sorted order (String's Ord = bytewise
     lexicographic), then the aggregate table, then - when present - the two
     costs tables; stop at the first failing print; the closing
     "[!] There are errors for the following securities: A, B" on stdout
     (println!, in every mode), built in the same sorted order.
   - CsvWriter, WriteMode::Directory: the file name per OutputType, the
     records written (header, rows, footer when non-empty, one record per
     note, one per error: the text in the first field, the other fields
     empty), the csv crate's equal-length check (has flexible(false): a
     record whose field count differs from the first record's is an error),
     `note_record[0]` on a table without columns (panic), File::create
     (truncates: a later write to the same name REPLACES the content;
     fails on a name that cannot be created, [EBlocked]).
   - CsvWriter, WriteMode::Writer: the same records, one table after the
     other on one stream.
   - TextWriter: per table the "[!] error" lines and the
     "Printing parsed information state:" line, the title, the table, the
     notes, an empty line.

   What is not modelled
   - the bytes the csv crate writes for a record (quoting, terminator) and
     what a reader recovers from them: hypothesis "record -> bytes -> record
     is the identity" as for C11; the check parses the files with an
     independent CSV reader and compares records;
   - the drawing of the text table by the `tabled` crate: the table is the
     opaque block [TTable records] (the records pushed to the builder: the
     upper-cased header, the rows, and for a non-empty footer a blank
     separator record and the footer); the check verifies that every cell
     text occurs in the drawn block;
   - str::to_lowercase / to_uppercase beyond ASCII;
   - failures of writeln!/flush (a closed pipe, a full disk) and what a file
     holds after a failed print ([EPartial]: unspecified);
   - the text of the messages written to stderr on failure. *)
From Coq Require Import List NArith ZArith Bool.
From ACB Require Import Base.Outcome Model.CsvFields Model.Tx Model.DeltaList Model.Render.
Import ListNotations.
Local Open Scope N_scope.

(* ------------------------------------------------------------------ strings *)
Definition text : Type := list piece.
Definition lit (s : bytes) : text := [PLit s].
Definition record : Type := list text.

(* String's Ord: bytewise lexicographic *)
Fixpoint bytes_leb (a b : bytes) : bool :=
  match a, b with
  | [], _ => true
  | _ :: _, [] => false
  | x :: a', y :: b' => if x <? y then true else if x =? y then bytes_leb a' b' else false
  end.
Fixpoint binsert (x : bytes) (l : list bytes) : list bytes :=
  match l with
  | [] => [x]
  | h :: r => if bytes_leb x h then x :: l else h :: binsert x r
  end.
Definition bsort (l : list bytes) : list bytes := fold_right binsert [] l.

Fixpoint blookup {V : Type} (k : bytes) (l : list (bytes * V)) : option V :=
  match l with
  | [] => None
  | (k', v) :: r => if beqb k' k then Some v else blookup k r
  end.

(* Vec<String>::join *)
Fixpoint join_with (sep : bytes) (l : list bytes) : bytes :=
  match l with
  | [] => []
  | [x] => x
  | x :: r => x ++ sep ++ join_with sep r
  end.

(* ------------------------------------------------------------------ literals *)
Definition s_dot_csv : bytes := [46; 99; 115; 118].   (* ".csv" *)
Definition s_aggregate_gains_csv : bytes :=
  [97; 103; 103; 114; 101; 103; 97; 116; 101; 45; 103; 97; 105; 110; 115; 46; 99; 115; 118].   (* "aggregate-gains.csv" *)
Definition s_costs_csv : bytes := [45; 99; 111; 115; 116; 115; 46; 99; 115; 118].   (* "-costs.csv" *)
Definition s_total_name : bytes := [84; 111; 116; 97; 108].   (* "Total" *)
Definition s_yearly_max : bytes := [89; 101; 97; 114; 108; 121; 32; 77; 97; 120].   (* "Yearly Max" *)
Definition s_bang : bytes := [91; 33; 93; 32].   (* "[!] " *)
Definition s_printing : bytes :=
  [80; 114; 105; 110; 116; 105; 110; 103; 32; 112; 97; 114; 115; 101; 100; 32; 105; 110; 102; 111; 114; 109;
   97; 116; 105; 111; 110; 32; 115; 116; 97; 116; 101; 58].   (* "Printing parsed information state:" *)
Definition s_transactions_for : bytes :=
  [84; 114; 97; 110; 115; 97; 99; 116; 105; 111; 110; 115; 32; 102; 111; 114; 32].   (* "Transactions for " *)
Definition s_aggregate_gains : bytes :=
  [65; 103; 103; 114; 101; 103; 97; 116; 101; 32; 71; 97; 105; 110; 115].   (* "Aggregate Gains" *)
Definition s_costs_title : bytes := [32; 67; 111; 115; 116; 115].   (* " Costs" *)
Definition s_closing : bytes :=
  [91; 33; 93; 32; 84; 104; 101; 114; 101; 32; 97; 114; 101; 32; 101; 114; 114; 111; 114; 115; 32; 102; 111;
   114; 32; 116; 104; 101; 32; 102; 111; 108; 108; 111; 119; 105; 110; 103; 32; 115; 101; 99; 117; 114; 105;
   116; 105; 101; 115; 58; 32].   (* "[!] There are errors for the following securities: " *)
Definition s_comma_sp : bytes := [44; 32].   (* ", " *)
Definition s_year : bytes := [89; 101; 97; 114].   (* "Year" *)
Definition s_capital_gains : bytes := [67; 97; 112; 105; 116; 97; 108; 32; 71; 97; 105; 110; 115].   (* "Capital Gains" *)
(* render_tx_table_model's header *)
Definition tx_header_names : list bytes := [
  [83; 101; 99; 117; 114; 105; 116; 121]   (* "Security" *);
  [84; 114; 97; 100; 101; 32; 68; 97; 116; 101]   (* "Trade Date" *);
  [83; 101; 116; 116; 108; 46; 32; 68; 97; 116; 101]   (* "Settl. Date" *);
  [84; 88]   (* "TX" *);
  [65; 109; 111; 117; 110; 116]   (* "Amount" *);
  [83; 104; 97; 114; 101; 115]   (* "Shares" *);
  [65; 109; 116; 47; 83; 104; 97; 114; 101]   (* "Amt/Share" *);
  [65; 67; 66]   (* "ACB" *);
  [67; 111; 109; 109; 105; 115; 115; 105; 111; 110]   (* "Commission" *);
  [67; 97; 112; 46; 32; 71; 97; 105; 110]   (* "Cap. Gain" *);
  [83; 104; 97; 114; 101; 32; 66; 97; 108; 97; 110; 99; 101]   (* "Share Balance" *);
  [65; 67; 66; 32; 43; 47; 45]   (* "ACB +/-" *);
  [78; 101; 119; 32; 65; 67; 66]   (* "New ACB" *);
  [78; 101; 119; 32; 65; 67; 66; 47; 83; 104; 97; 114; 101]   (* "New ACB/Share" *);
  [65; 102; 102; 105; 108; 105; 97; 116; 101]   (* "Affiliate" *);
  [77; 101; 109; 111]   (* "Memo" *)
].

(* ------------------------------------------------------------------ the render model as the writers see it *)
(* portfolio/render.rs RenderTable *)
Record rtable : Type := {
  rt_header : list text;
  rt_rows : list record;
  rt_footer : list text;
  rt_notes : list text;
  rt_errors : list text
}.

(* app/approot.rs AppRenderResult.  [ar_secs] is the HashMap<Security,
   RenderTable>: its keys are distinct and its order is arbitrary. *)
Record app_result : Type := {
  ar_secs : list (bytes * rtable);
  ar_agg : rtable;
  ar_costs : option (rtable * rtable)       (* CostsTables { total, yearly } *)
}.

Inductive out_type : Type := OTransactions | OAggregateGains | OCosts | ORaw.

(* why a print failed *)
Inductive cause : Type :=
| CCreate          (* File::create: Err *)
| CRecord.         (* csv: "found record with N fields, but the previous record has M fields" *)
Inductive fail : Type :=
| FWrite (ot : out_type) (name : bytes) (c : cause)   (* Err("Rendering ...: {err}"): stderr, exit code 1 *)
| FPanic (p : panic).

Definition site_csv_pad : N := 50.       (* csv.rs: note_record[0] / err_record[0] on a table without columns *)
Definition site_text_cols : N := 51.     (* text.rs: Cell::new(0, n_cols - 1) on a table without columns
                                            (subtraction overflow in a debug build; a release build wraps and
                                            what tabled then does is not modelled) *)
Definition site_write_get : N := 52.     (* approot.rs: sec_render_tables.get(sec).unwrap() *)
Definition site_csv_unequal : N := 53.   (* csv crate: a record's field count differs from the first record's *)

(* ------------------------------------------------------------------ CsvWriter *)
(* name.to_lowercase().replace(" ", "-") (ASCII) *)
Definition costs_file_stem (name : bytes) : bytes :=
  map (fun c => if c =? 32 then 45 else c) (lower name).

Definition file_name (ot : out_type) (name : bytes) : bytes :=
  match ot with
  | OTransactions => name ++ s_dot_csv
  | OAggregateGains => s_aggregate_gains_csv
  | OCosts => costs_file_stem name ++ s_costs_csv
  | ORaw => name ++ s_dot_csv
  end.

(* note_record / err_record: n_cols fields, the first one holds the text *)
Definition pad_record (n_cols : nat) (first : text) : record := first :: repeat [] (n_cols - 1).

(* the records print_render_table hands to the csv writer, in order *)
Definition csv_table_records (t : rtable) : res (list record) :=
  let n := length (rt_header t) in
  let body := rt_rows t ++ (if is_nil (rt_footer t) then [] else [rt_footer t]) in
  if negb (forallb (fun r => Nat.eqb (length r) n) body) then Rej (RejOther site_csv_unequal)
  else if Nat.eqb n 0 && negb (is_nil (rt_notes t ++ rt_errors t)) then Panic (PanicMissing site_csv_pad)
  else Ok (rt_header t :: body
             ++ map (pad_record n) (rt_notes t)
             ++ map (fun e => pad_record n (lit s_bang ++ e)) (rt_errors t)).

(* the output directory: an association list, file name -> content *)
Inductive entry : Type :=
| EFile (recs : list record)     (* what was written since the last File::create *)
| EPartial                       (* a print failed after File::create: content unspecified *)
| EBlocked.                      (* a name File::create fails on (a directory, no permission) *)
Definition dir : Type := list (bytes * entry).

Fixpoint dir_put (name : bytes) (e : entry) (d : dir) : dir :=
  match d with
  | [] => [(name, e)]
  | (n, x) :: r => if beqb n name then (n, e) :: r else (n, x) :: dir_put name e r
  end.

Definition print_csv_dir (d : dir) (ot : out_type) (name : bytes) (t : rtable) : dir * option fail :=
  let fn := file_name ot name in
  match blookup fn d with
  | Some EBlocked => (d, Some (FWrite ot name CCreate))
  | _ =>
      match csv_table_records t with
      | Ok recs => (dir_put fn (EFile recs) d, None)
      | Rej _ => (dir_put fn EPartial d, Some (FWrite ot name CRecord))
      | Panic p => (dir_put fn EPartial d, Some (FPanic p))
      end
  end.

(* WriteMode::Writer: every table's records on the one stream *)
Definition print_csv_stream (w : list (list record)) (ot : out_type) (name : bytes) (t : rtable)
  : list (list record) * option fail :=
  match csv_table_records t with
  | Ok recs => (w ++ [recs], None)
  | Rej _ => (w, Some (FWrite ot name CRecord))
  | Panic p => (w, Some (FPanic p))
  end.

(* ------------------------------------------------------------------ TextWriter *)
(* h.to_uppercase() of a header cell (ASCII).  A figure or a date has no
   letters; a header cell of the application never holds an abstract name
   (the headers are literals; the security names in the costs headers reach
   the model as literals). *)
Definition upper_piece (p : piece) : piece :=
  match p with PLit s => PLit (upper s) | other => other end.
Definition upper_text (t : text) : text := map upper_piece t.

Record section : Type := {
  sc_errors : list text;       (* one line "[!] <error>" each, before the title *)
  sc_title : text;
  sc_block : list record;      (* the records pushed to the tabled builder *)
  sc_notes : list text
}.

Definition title_of (ot : out_type) (name : bytes) : text :=
  match ot with
  | OTransactions => [PLit s_transactions_for; PLit name]
  | OAggregateGains => lit s_aggregate_gains
  | OCosts => [PLit name; PLit s_costs_title]
  | ORaw => lit name
  end.

Definition text_block (t : rtable) : list record :=
  map upper_text (rt_header t) :: rt_rows t
    ++ (if is_nil (rt_footer t) then [] else [repeat [] (length (rt_footer t)); rt_footer t]).

Definition text_section (ot : out_type) (name : bytes) (t : rtable) : section :=
  {| sc_errors := rt_errors t; sc_title := title_of ot name; sc_block := text_block t;
     sc_notes := rt_notes t |}.

Definition print_text (w : list section) (ot : out_type) (name : bytes) (t : rtable)
  : list section * option fail :=
  if Nat.eqb (length (rt_header t)) 0 then (w, Some (FPanic (PanicConstraint site_text_cols)))
  else (w ++ [text_section ot name t], None).

(* what reaches standard output: lines (writeln!) and drawn tables *)
Inductive titem : Type :=
| TLine (t : text)
| TTable (recs : list record).

Definition section_items (s : section) : list titem :=
  map (fun e => TLine (lit s_bang ++ e)) (sc_errors s)
    ++ (if is_nil (sc_errors s) then [] else [TLine (lit s_printing)])
    ++ [TLine (sc_title s); TTable (sc_block s)]
    ++ map TLine (sc_notes s)
    ++ [TLine []].

(* println!("\n[!] There are errors for the following securities: {}", secs.join(", ")) *)
Definition closing_items (errsecs : list bytes) : list titem :=
  match errsecs with
  | [] => []
  | _ => [TLine []; TLine (lit (s_closing ++ join_with s_comma_sp errsecs))]
  end.

(* ------------------------------------------------------------------ write_render_result *)
Record run_out (W : Type) : Type := {
  ro_state : W;                  (* the writer's state after the last print *)
  ro_errsecs : list bytes;       (* secs_with_errors at that point *)
  ro_fail : option fail          (* None: Ok(()) *)
}.
Arguments ro_state {W} r.
Arguments ro_errsecs {W} r.
Arguments ro_fail {W} r.

Section Writer.
  Variable W : Type.
  Variable print : W -> out_type -> bytes -> rtable -> W * option fail.

  Fixpoint write_secs (tabs : list (bytes * rtable)) (names : list bytes) (w : W) (errs : list bytes)
    : run_out W :=
    match names with
    | [] => {| ro_state := w; ro_errsecs := errs; ro_fail := None |}
    | s :: r =>
        match blookup s tabs with
        | None => {| ro_state := w; ro_errsecs := errs; ro_fail := Some (FPanic (PanicMissing site_write_get)) |}
        | Some t =>
            let (w', f) := print w OTransactions s t in
            match f with
            | Some e => {| ro_state := w'; ro_errsecs := errs; ro_fail := Some e |}
            | None => write_secs tabs r w' (if is_nil (rt_errors t) then errs else errs ++ [s])
            end
        end
    end.

  (* one more table after a run that has not failed *)
  Definition and_then (o : run_out W) (ot : out_type) (name : bytes) (t : rtable) : run_out W :=
    match ro_fail o with
    | Some _ => o
    | None =>
        let (w', f) := print (ro_state o) ot name t in
        {| ro_state := w'; ro_errsecs := ro_errsecs o; ro_fail := f |}
    end.

  Definition write_render_result (w0 : W) (r : app_result) : run_out W :=
    let o1 := write_secs (ar_secs r) (bsort (map fst (ar_secs r))) w0 [] in
    let o2 := and_then o1 OAggregateGains [] (ar_agg r) in
    match ar_costs r with
    | Some (total, yearly) => and_then (and_then o2 OCosts s_total_name total) OCosts s_yearly_max yearly
    | None => o2
    end.
End Writer.
Arguments write_render_result {W} print w0 r.

(* standard output of the closing println!: only after Ok *)
Definition closing_of {W} (o : run_out W) : list titem :=
  match ro_fail o with None => closing_items (ro_errsecs o) | Some _ => [] end.

(* (a) --csv-output-dir: the directory after the run, started on directory d0 *)
Definition csv_dir_output (d0 : dir) (r : app_result) : run_out dir :=
  write_render_result print_csv_dir d0 r.
Definition csv_dir_stdout (d0 : dir) (r : app_result) : list titem := closing_of (csv_dir_output d0 r).
(* the file names in the order of the prints (File::create calls) *)
Definition write_log (r : app_result) : list bytes :=
  map (file_name OTransactions) (bsort (map fst (ar_secs r)))
    ++ [file_name OAggregateGains []]
    ++ match ar_costs r with
       | Some _ => [file_name OCosts s_total_name; file_name OCosts s_yearly_max]
       | None => []
       end.

(* (b) WriteMode::Writer *)
Definition csv_stream_output (r : app_result) : run_out (list (list record)) :=
  write_render_result print_csv_stream [] r.

(* (c) text mode: the sections, and standard output as a whole *)
Definition text_output (r : app_result) : run_out (list section) :=
  write_render_result print_text [] r.
Definition text_stdout (r : app_result) : list titem :=
  flat_map section_items (ro_state (text_output r)) ++ closing_of (text_output r).

(* ------------------------------------------------------------------ from Model/Render.v's report *)
Definition tx_header : list text := map lit tx_header_names.
Definition agg_header : list text := [lit s_year; lit s_capital_gains].

(* render_tx_table_model's RenderTable with the errors the caller adds *)
Definition rtable_of_table (t : table) (errs : list text) : rtable :=
  {| rt_header := tx_header;
     rt_rows := map (map cell_pieces) (tb_rows t);
     rt_footer := footer_cells t;
     rt_notes := map lit (notes_of t);
     rt_errors := errs |}.

(* render_aggregate_capital_gains's RenderTable *)
Definition rtable_of_aggregate (l : list (label * pm)) : rtable :=
  {| rt_header := agg_header;
     rt_rows := map (fun x => [label_pieces (fst x); pm_pieces (snd x)]) l;
     rt_footer := []; rt_notes := []; rt_errors := [] |}.

(* run_acb_app_to_render_model's result.  [secname]: the security's name;
   [errmsg]: the message of the security's rejection (err_msg; its text is
   not modelled); [costs]: the tables of --total-costs (rendered by
   render_total_costs, outside Model/Render.v). *)
Definition errors_of (errmsg : N -> text) (s : N) (o : option stop) : list text :=
  match o with Some (SRej _) => [errmsg s] | _ => [] end.
Definition app_of_report (secname : N -> bytes) (errmsg : N -> text) (costs : option (rtable * rtable))
           (rep : report) : app_result :=
  {| ar_secs := map (fun x => (secname (fst (fst x)),
                               rtable_of_table (snd x) (errors_of errmsg (fst (fst x)) (snd (fst x)))))
                    (rp_tables rep);
     ar_agg := rtable_of_aggregate (rp_aggregate rep);
     ar_costs := costs |}.
