(* delta_for_tx (Sell arm with superficial-loss handling) and
   txs_to_delta_list (delta_list.rs:457-517).
   The Rust loop walks a vector that grows while it is walked: rows generated
   for a sale are inserted right after it and processed next.  Generated rows
   are cost-base adjustments (SfLA), which never generate rows themselves, so
   the loop is written here as structural recursion over the original rows
   with an inner fold over the rows generated for the current one. *)
From Coq Require Import List NArith ZArith QArith Qcanon Bool.
From ACB Require Import Base.Outcome Base.QcExtra Base.Arith Model.Tx Model.Ledger Model.Sfl.
Import ListNotations.
Local Open Scope Qc_scope.

Inductive stop : Type := SRej (r : rej) | SPanic (p : panic).

Section WithArith.
  Variable A : arith.

  Definition delta_for_tx (bef : list tx) (t : tx) (aft : list tx) (st : pstate)
    : res (delta * list tx) :=
    let pre := next_pre_status st (t_af t) in
    _ <- sanity_check pre (t_af t) ;;
    match t_act t with
    | Sell sh aps com rate crate spec =>
        c <- sell_core A pre sh aps com rate crate ;;
        match sc_gain c with
        | None => Ok (mk_delta t pre (sc_sh c) (sc_all c) (sc_acb c) None None, [])
        | Some g =>
            if Qcltb g 0 then
              m <- delta_sfl A bef t sh spec aft st g ;;
              match m with
              | Some (info, inj) =>
                  g' <- a_sub A g (sf_amount info) ;;
                  Ok (mk_delta t pre (sc_sh c) (sc_all c) (sc_acb c) (Some g') (Some info), inj)
              | None => Ok (mk_delta t pre (sc_sh c) (sc_all c) (sc_acb c) (Some g) None, [])
              end
            else match spec with
                 | Some _ => Rej RejSflNoLoss
                 | None => Ok (mk_delta t pre (sc_sh c) (sc_all c) (sc_acb c) (Some g) None, [])
                 end
        end
    | _ => d <- delta_nonsell A t pre ;; Ok (d, [])
    end.

  (* rows generated for the current row: processed immediately, in order *)
  Fixpoint run_injected (bef : list tx) (st : pstate) (inj : list tx) (aft : list tx)
    : list delta * list tx * pstate * option stop :=
    match inj with
    | [] => ([], bef, st, None)
    | t :: r =>
        match delta_for_tx bef t (r ++ aft) st with
        | Ok (d, _) =>
            match set_latest A st (t_af t) (d_post d) with
            | Ok st1 =>
                let '(ds, bef', st2, o) := run_injected (t :: bef) st1 r aft in
                (d :: ds, bef', st2, o)
            | Rej e => ([], bef, st, Some (SRej e))
            | Panic p => ([], bef, st, Some (SPanic p))
            end
        | Rej e => ([], bef, st, Some (SRej e))
        | Panic p => ([], bef, st, Some (SPanic p))
        end
    end.

  Fixpoint run_loop (bef : list tx) (st : pstate) (aft : list tx)
    : list delta * option stop :=
    match aft with
    | [] => ([], None)
    | t :: rest =>
        match delta_for_tx bef t rest st with
        | Ok (d, inj) =>
            match set_latest A st (t_af t) (d_post d) with
            | Ok st1 =>
                let '(dsi, bef', st2, o) := run_injected (t :: bef) st1 inj rest in
                match o with
                | None => let '(ds, o') := run_loop bef' st2 rest in (d :: dsi ++ ds, o')
                | Some s => (d :: dsi, Some s)
                end
            | Rej e => ([], Some (SRej e))
            | Panic p => ([], Some (SPanic p))
            end
        | Rej e => ([], Some (SRej e))
        | Panic p => ([], Some (SPanic p))
        end
    end.

  (* txs_to_delta_list *)
  Definition run (init : option status) (txs : list tx) : list delta * option stop :=
    match txs with
    | [] => ([], None)
    | _ =>
        match init_state A init with
        | Ok st => run_loop [] st txs
        | Rej e => ([], Some (SRej e))
        | Panic p => ([], Some (SPanic p))
        end
    end.
End WithArith.
