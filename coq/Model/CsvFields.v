(* stub: to be written by group Csv *)
