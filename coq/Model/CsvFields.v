(* Field codecs of acb's transaction CSV (src/portfolio/io/tx_csv.rs,
   src/portfolio/model/{tx,affiliate,currency}.rs, src/util/decimal.rs) over
   byte lists.  Text is [list N] (UTF-8 byte codes).  Decimals are
   (sign, mantissa, scale) triples as in rust_decimal: the display scale and
   the sign of zero are part of the value here.  Definitions only. *)
From Coq Require Import List NArith ZArith Bool Arith.
From ACB Require Import Base.Outcome.
Import ListNotations.
Local Open Scope N_scope.

Definition bytes := list N.

Fixpoint beqb (a b : bytes) : bool :=
  match a, b with
  | [], [] => true
  | x :: a', y :: b' => N.eqb x y && beqb a' b'
  | _, _ => false
  end.

Definition is_nil {T} (l : list T) : bool := match l with [] => true | _ => false end.

(* ---- ASCII classes; str::to_lowercase / to_uppercase restricted to ASCII
   (non-ASCII letters are outside valid_tx for the fields that are case
   folded: affiliate, currency, action, header names) ---- *)
Definition is_digit (c : N) : bool := (48 <=? c) && (c <=? 57).
Definition is_upper (c : N) : bool := (65 <=? c) && (c <=? 90).
Definition is_lower (c : N) : bool := (97 <=? c) && (c <=? 122).
Definition lower1 (c : N) : N := if is_upper c then c + 32 else c.
Definition upper1 (c : N) : N := if is_lower c then c - 32 else c.
Definition lower (s : bytes) : bytes := map lower1 s.
Definition upper (s : bytes) : bytes := map upper1 s.
Definition is_ascii (s : bytes) : bool := forallb (fun c => c <? 128) s.

(* ---- str::trim: char::is_whitespace on UTF-8 bytes
   U+0009..000D, U+0020, U+0085, U+00A0, U+1680, U+2000..200A, U+2028,
   U+2029, U+202F, U+205F, U+3000 ---- *)
Definition is_ascii_ws (c : N) : bool := ((9 <=? c) && (c <=? 13)) || (c =? 32).
Definition ws3 (a b c : N) : bool :=
  ((a =? 225) && (b =? 154) && (c =? 128))
  || ((a =? 226) && (b =? 128) &&
      (((128 <=? c) && (c <=? 138)) || (c =? 168) || (c =? 169) || (c =? 175)))
  || ((a =? 226) && (b =? 129) && (c =? 159))
  || ((a =? 227) && (b =? 128) && (c =? 128)).
Definition ws2 (a b : N) : bool := (a =? 194) && ((b =? 133) || (b =? 160)).

Fixpoint trim_start (s : bytes) : bytes :=
  match s with
  | [] => []
  | a :: r =>
      if is_ascii_ws a then trim_start r else
      match r with
      | b :: r2 =>
          if ws2 a b then trim_start r2 else
          match r2 with
          | c :: r3 => if ws3 a b c then trim_start r3 else s
          | [] => s
          end
      | [] => s
      end
  end.

(* the same on the reversed string (patterns reversed) *)
Fixpoint trim_start_rev (s : bytes) : bytes :=
  match s with
  | [] => []
  | a :: r =>
      if is_ascii_ws a then trim_start_rev r else
      match r with
      | b :: r2 =>
          if ws2 b a then trim_start_rev r2 else
          match r2 with
          | c :: r3 => if ws3 c b a then trim_start_rev r3 else s
          | [] => s
          end
      | [] => s
      end
  end.
Definition trim_end (s : bytes) : bytes := rev (trim_start_rev (rev s)).
Definition trim (s : bytes) : bytes := trim_end (trim_start s).

(* ---- decimal digits ---- *)
Definition val_from (acc : N) (ds : list N) : N := fold_left (fun a d => a * 10 + d) ds acc.
Definition val (ds : list N) : N := val_from 0 ds.

Fixpoint digits_fuel (fuel : nat) (n : N) (acc : list N) : list N :=
  match fuel with
  | O => acc
  | S f => if n =? 0 then acc else digits_fuel f (n / 10) (n mod 10 :: acc)
  end.
(* most significant digit first; [] for 0 (as the digit loop of
   rust_decimal::str::to_str_internal) *)
Definition digits (n : N) : list N := digits_fuel (N.to_nat (N.size n)) n [].

Definition chars (ds : list N) : bytes := map (fun d => d + 48) ds.
Definition zeros (n : nat) : list N := repeat 0 n.
Definition pad_left (w : nat) (ds : list N) : list N := zeros (w - length ds) ++ ds.

(* ---- rust_decimal::Decimal ---- *)
Record dec : Type := { d_neg : bool; d_mant : N; d_scale : nat }.
Definition max_mant : N := 79228162514264337593543950335. (* 2^96 - 1 *)

Definition mk_dec (neg : bool) (m : N) (s : nat) : dec := {| d_neg := neg; d_mant := m; d_scale := s |}.

(* to_str_internal: the digit string padded to at least [scale] digits,
   split into whole and fractional digits *)
Definition mant_digits (d : dec) : list N := pad_left (d_scale d) (digits (d_mant d)).
Definition whole_digits (d : dec) : list N :=
  firstn (length (mant_digits d) - d_scale d) (mant_digits d).
Definition frac_digits (d : dec) : list N :=
  skipn (length (mant_digits d) - d_scale d) (mant_digits d).
Definition take_pad (p : nat) (l : list N) : list N := firstn p (l ++ zeros p).
Definition whole_chars (w : list N) : bytes := match w with [] => [48] | _ => chars w end.

(* Display with precision p ("{:.p}"): truncates, pads with zeros; sign from
   the flag (so negative zero prints "-0") *)
Definition fmt_prec (p : nat) (d : dec) : bytes :=
  (if d_neg d then [45] else [])
    ++ whole_chars (whole_digits d)
    ++ (if (p =? 0)%nat then [] else 46 :: chars (take_pad p (frac_digits d))).
(* the digits are assembled in an ArrayString of capacity 32 (at most 28
   fractional digits; further zeros are appended outside it): a longer
   rendering panics (str.rs:64).  Unreachable for the precisions acb uses on
   96-bit decimals: lemma fmt_fits in Proofs/CsvProps.v. *)
Definition rep_len (p : nat) (d : dec) : nat :=
  length (whole_chars (whole_digits d)) + (if (p =? 0)%nat then 0 else S (Nat.min p 28)).
Definition fmt_panics (p : nat) (d : dec) : bool := (32 <? rep_len p d)%nat.
(* to_string() *)
Definition dec_to_string (d : dec) : bytes := fmt_prec (d_scale d) d.

Fixpoint drop_zeros (l : list N) : list N :=
  match l with
  | x :: r => if x =? 0 then drop_zeros r else l
  | [] => []
  end.
(* util/decimal.rs to_string_min_precision: group 5 of the regex is the
   fractional part without its trailing zeros *)
Definition trimmed_prec (d : dec) : nat := length (drop_zeros (rev (frac_digits d))).
Definition tsmp (k : nat) (d : dec) : bytes := fmt_prec (Nat.max (trimmed_prec d) k) d.

(* Decimal::from_str / from_str_exact (str.rs parse_str_radix_10), without
   '_' separators (reported as not modelled).  [exact] = from_str_exact:
   the rounding points return Underflow instead of rounding. *)
Definition rej_dec : rej := RejParse 1.
Definition rej_unmodelled : rej := RejOther 99.

Definition dec_round (exact : bool) (data : N) (c : N) (scale : nat) : res (N * nat) :=
  if exact then Rej rej_dec else
  if is_digit c then
    if (c - 48) <? 5 then Ok (data, scale)
    else let data1 := data + 1 in
         if max_mant <? data1 then
           match scale with
           | O => Rej rej_dec
           | S s' => Ok ((data1 + 4) / 10, s')
           end
         else Ok (data1, scale)
  else if c =? 95 then Rej rej_unmodelled
  else Rej rej_dec.

Fixpoint dec_scan (exact : bool) (s : bytes) (data : N) (scale : nat) (point has : bool)
  : res (N * nat) :=
  match s with
  | [] => if has then Ok (data, scale) else Rej rej_dec
  | c :: r =>
      if is_digit c then
        let next := data * 10 + (c - 48) in
        if max_mant <? next then
          (if point then dec_round exact data c scale else Rej rej_dec)
        else
          let scale' := if point then S scale else scale in
          if point && (28 <=? scale')%nat && negb (is_nil r)
          then dec_round exact next (hd 0 r) scale'
          else dec_scan exact r next scale' point true
      else if (c =? 46) && negb point then dec_scan exact r data scale true has
      else if (c =? 95) && has then Rej rej_unmodelled
      else Rej rej_dec
  end.

(* Decimal::from_parts clears the sign of zero *)
Definition dec_of_parts (neg : bool) (x : N * nat) : dec :=
  mk_dec (neg && negb (fst x =? 0)) (fst x) (snd x).

Definition parse_dec_gen (exact : bool) (s : bytes) : res dec :=
  match s with
  | [] => Rej rej_dec
  | c :: r =>
      if c =? 45 then x <- dec_scan exact r 0 0%nat false false ;; Ok (dec_of_parts true x)
      else if c =? 43 then x <- dec_scan exact r 0 0%nat false false ;; Ok (dec_of_parts false x)
      else x <- dec_scan exact s 0 0%nat false false ;; Ok (dec_of_parts false x)
  end.
Definition parse_dec : bytes -> res dec := parse_dec_gen false.
Definition parse_dec_exact : bytes -> res dec := parse_dec_gen true.

Definition dec_is_zero (d : dec) : bool := d_mant d =? 0.
(* is_positive / constraints of util/decimal.rs *)
Definition dec_pos (d : dec) : bool := negb (d_neg d) && negb (dec_is_zero d).
Definition dec_gez (d : dec) : bool := negb (d_neg d) || dec_is_zero d.
Definition dec_lez (d : dec) : bool := d_neg d || dec_is_zero d.
Definition pow10 (n : nat) : N := 10 ^ N.of_nat n.
(* numeric equality / order of two non-negative magnitudes *)
Definition mag_eqb (a b : dec) : bool :=
  d_mant a * pow10 (d_scale b) =? d_mant b * pow10 (d_scale a).
Definition mag_ltb (a b : dec) : bool :=
  d_mant a * pow10 (d_scale b) <? d_mant b * pow10 (d_scale a).
(* same sign flag and same number *)
Definition dec_eqv (a b : dec) : bool := Bool.eqb (d_neg a) (d_neg b) && mag_eqb a b.
Definition dec_is_integer (d : dec) : bool := (d_mant d) mod (pow10 (d_scale d)) =? 0.
Definition dec_one : dec := mk_dec false 1 0.
Definition dec_zero : dec := mk_dec false 0 0.
(* value == 1.0 *)
Definition dec_is_one (d : dec) : bool := negb (d_neg d) && (d_mant d =? pow10 (d_scale d)).

(* ---- time::Date, as the civil triple; Display is "{:04}-{:02}-{:02}" for
   years 0..9999; Date::parse with "[year]-[month]-[day]" ---- *)
Record date : Type := { dt_y : N; dt_m : N; dt_d : N }.
Definition is_leap (y : N) : bool :=
  ((y mod 4 =? 0) && negb (y mod 100 =? 0)) || (y mod 400 =? 0).
Definition days_in_month (y m : N) : N :=
  if (m =? 2) then (if is_leap y then 29 else 28)
  else if (m =? 4) || (m =? 6) || (m =? 9) || (m =? 11) then 30 else 31.
Definition valid_date (d : date) : bool :=
  (dt_y d <=? 9999) && (1 <=? dt_m d) && (dt_m d <=? 12)
  && (1 <=? dt_d d) && (dt_d d <=? days_in_month (dt_y d) (dt_m d)).
Definition show_date (d : date) : bytes :=
  chars (pad_left 4 (digits (dt_y d))) ++ [45] ++ chars (pad_left 2 (digits (dt_m d)))
    ++ [45] ++ chars (pad_left 2 (digits (dt_d d))).
Definition rej_date : rej := RejParse 2.
Definition dig (c : N) : N := c - 48.
Definition parse_date (s : bytes) : res date :=
  match s with
  | [y1; y2; y3; y4; h1; m1; m2; h2; d1; d2] =>
      if forallb is_digit [y1; y2; y3; y4; m1; m2; d1; d2] && (h1 =? 45) && (h2 =? 45) then
        let d := {| dt_y := val [dig y1; dig y2; dig y3; dig y4];
                    dt_m := val [dig m1; dig m2]; dt_d := val [dig d1; dig d2] |} in
        if valid_date d then Ok d else Rej rej_date
      else Rej rej_date
  | _ => Rej rej_date
  end.

(* ---- TxAction ---- *)
Inductive act : Type := ABuy | ASell | ARoc | ASfla | ASplit.
Definition str (l : list N) : bytes := l.
Definition s_buy : bytes := [66; 117; 121].
Definition s_sell : bytes := [83; 101; 108; 108].
Definition s_roc : bytes := [82; 111; 67].
Definition s_sfla : bytes := [83; 102; 76; 65].
Definition s_split : bytes := [83; 112; 108; 105; 116].
Definition show_act (a : act) : bytes :=
  match a with ABuy => s_buy | ASell => s_sell | ARoc => s_roc | ASfla => s_sfla | ASplit => s_split end.
Definition rej_act : rej := RejParse 3.
Definition parse_act (s : bytes) : res act :=
  let v := lower (trim s) in
  if beqb v (lower s_buy) then Ok ABuy
  else if beqb v (lower s_sell) then Ok ASell
  else if beqb v (lower s_roc) then Ok ARoc
  else if beqb v (lower s_sfla) then Ok ASfla
  else if beqb v (lower s_split) then Ok ASplit
  else Rej rej_act.

(* ---- Currency::new: upper-cased text, "" = CAD ---- *)
Definition s_cad : bytes := [67; 65; 68].
Definition currency_new (s : bytes) : bytes :=
  let u := upper s in if is_nil u then s_cad else u.
Definition cur_is_default (c : bytes) : bool := beqb c s_cad.

(* ---- Affiliate (affiliate.rs): from_strep + the process-wide dedup table ---- *)
Record affdata : Type := { a_id : bytes; a_name : bytes; a_reg : bool }.
Definition affdata_eqb (a b : affdata) : bool :=
  beqb (a_id a) (a_id b) && beqb (a_name a) (a_name b) && Bool.eqb (a_reg a) (a_reg b).

(* REGISTERED_RE = \([rR]\) *)
Definition is_reg3 (a b c : N) : bool := (a =? 40) && ((b =? 82) || (b =? 114)) && (c =? 41).
Fixpoint has_reg (s : bytes) : bool :=
  match s with
  | a :: r =>
      match r with
      | b :: c :: _ => is_reg3 a b c || has_reg r
      | _ => false
      end
  | [] => false
  end.
(* replace_all(REGISTERED_RE, " "): leftmost, non-overlapping *)
Fixpoint repl_reg (s : bytes) : bytes :=
  match s with
  | a :: r =>
      match r with
      | b :: c :: r3 => if is_reg3 a b c then 32 :: repl_reg r3 else a :: repl_reg r
      | _ => s
      end
  | [] => []
  end.
(* replace_all("  +", " ") *)
Fixpoint collapse (s : bytes) : bytes :=
  match s with
  | a :: r =>
      if (a =? 32) && (match r with b :: _ => b =? 32 | [] => false end)
      then collapse r else a :: collapse r
  | [] => []
  end.
Definition s_default : bytes := [68; 101; 102; 97; 117; 108; 116].
Definition s_reg_suffix : bytes := [32; 40; 82; 41].
Definition s_global : bytes := [95; 95; 103; 108; 111; 98; 97; 108; 95; 95].

Definition from_strep_data (s : bytes) : affdata :=
  let registered := has_reg s in
  let p0 := if registered then repl_reg s else s in
  let p1 := trim (collapse p0) in
  let pretty := if is_nil p1 then s_default else p1 in
  let id := lower pretty in
  if registered then {| a_id := id ++ s_reg_suffix; a_name := pretty ++ s_reg_suffix; a_reg := true |}
  else {| a_id := id; a_name := pretty; a_reg := false |}.

(* AffiliateDedupTable: id -> first data seen with that id *)
Definition aftable := list affdata.
Fixpoint tbl_find (id : bytes) (t : aftable) : option affdata :=
  match t with
  | [] => None
  | a :: r => if beqb (a_id a) id then Some a else tbl_find id r
  end.
(* deduped_affiliate *)
Definition intern (t : aftable) (s : bytes) : affdata * aftable :=
  let d := from_strep_data s in
  match tbl_find (a_id d) t with
  | Some a => (a, t)
  | None => (d, t ++ [d])
  end.
Definition af_default (t : aftable) := intern t [].
Definition af_global (t : aftable) := intern t s_global.
Definition aff_is_global (a : affdata) : bool := beqb (a_id a) s_global.

(* ---- SFLInput ---- *)
Record sflin : Type := { sf_val : dec; sf_force : bool }.
Definition show_sfl (v : sflin) : bytes := tsmp 2 (sf_val v) ++ (if sf_force v then [33] else []).
Definition rej_sfl : rej := RejParse 4.
Definition parse_sfl (s : bytes) : res sflin :=
  let force := match rev s with c :: _ => c =? 33 | [] => false end in
  let num := if force then removelast s else s in
  match parse_dec num with
  | Ok d => if dec_lez d then Ok {| sf_val := d; sf_force := force |} else Rej rej_sfl
  | Rej r => if match r with RejOther _ => true | _ => false end then Rej r else Rej rej_sfl
  | Panic p => Panic p
  end.

(* ---- SplitRatio ---- *)
Record ratio : Type := { r_post : dec; r_pre : dec; r_rio : bool }.
Definition ratio_is_reverse (r : ratio) : bool := mag_ltb (r_post r) (r_pre r).
Definition s_for : bytes := [45; 102; 111; 114; 45].
Definition show_ratio (r : ratio) : bytes :=
  if dec_is_integer (r_post r) && dec_is_integer (r_pre r) then
    if ratio_is_reverse r && negb (r_rio r)
    then fmt_prec 1 (r_post r) ++ s_for ++ fmt_prec 1 (r_pre r)
    else fmt_prec 0 (r_post r) ++ s_for ++ fmt_prec 0 (r_pre r)
  else dec_to_string (r_post r) ++ s_for ++ dec_to_string (r_pre r).

Definition is_digdot (c : N) : bool := is_digit c || (c =? 46).
Fixpoint span_digdot (s : bytes) : bytes * bytes :=
  match s with
  | c :: r => if is_digdot c then let '(a, b) := span_digdot r in (c :: a, b) else ([], s)
  | [] => ([], [])
  end.
(* \.\d *)
Fixpoint has_dot_digit (s : bytes) : bool :=
  match s with
  | a :: r => match r with b :: _ => ((a =? 46) && is_digit b) || has_dot_digit r | [] => false end
  | [] => false
  end.
Definition rej_ratio : rej := RejParse 5.
Definition strip_for (s : bytes) : option bytes :=
  match s with
  | a :: b :: c :: d :: e :: r => if beqb (lower [a; b; c; d; e]) s_for then Some r else None
  | _ => None
  end.
Definition parse_ratio (s0 : bytes) : res ratio :=
  let s := trim s0 in
  let '(g1, r1) := span_digdot s in
  if is_nil g1 then Rej rej_ratio else
  match strip_for r1 with
  | None => Rej rej_ratio
  | Some r2 =>
      let '(g2, r3) := span_digdot r2 in
      if is_nil g2 || negb (is_nil r3) then Rej rej_ratio else
      match parse_dec_exact g1 with
      | Ok post =>
          if negb (dec_pos post) then Rej rej_ratio else
          match parse_dec_exact g2 with
          | Ok pre =>
              if negb (dec_pos pre) then Rej rej_ratio else
              let rio := negb (has_dot_digit g1) && negb (has_dot_digit g2) in
              let r := {| r_post := post; r_pre := pre; r_rio := rio |} in
              Ok (if ratio_is_reverse r then r else {| r_post := post; r_pre := pre; r_rio := false |})
          | Rej e => Rej (match e with RejOther _ => e | _ => rej_ratio end)
          | Panic p => Panic p
          end
      | Rej e => Rej (match e with RejOther _ => e | _ => rej_ratio end)
      | Panic p => Panic p
      end
  end.

(* ---- executable validity of field values (the domain of C11) ---- *)
Definition valid_dec (d : dec) : bool :=
  (d_mant d <=? max_mant) && (d_scale d <=? 28)%nat && negb (d_neg d && (d_mant d =? 0)).
(* a security: non-empty and without surrounding white space *)
Definition valid_sec (s : bytes) : bool := negb (is_nil s) && beqb (trim s) s.
(* a Currency value: as produced by Currency::new on ASCII text *)
Definition valid_cur (c : bytes) : bool :=
  negb (is_nil c) && is_ascii c && beqb (upper c) c && beqb (trim c) c.
Definition valid_sfl (v : sflin) : bool := valid_dec (sf_val v) && dec_lez (sf_val v).
Definition int_part (d : dec) : N := d_mant d / pow10 (d_scale d).
(* a SplitRatio: the invariants of SplitRatio::parse (integer-only flag only
   on whole-number reverse splits) and terms whose "{:.1}" rendering fits *)
Definition valid_ratio (r : ratio) : bool :=
  valid_dec (r_post r) && valid_dec (r_pre r) && dec_pos (r_post r) && dec_pos (r_pre r)
  && (negb (r_rio r) || (ratio_is_reverse r && dec_is_integer (r_post r) && dec_is_integer (r_pre r)))
  && (negb (dec_is_integer (r_post r) && dec_is_integer (r_pre r) && ratio_is_reverse r && negb (r_rio r))
      || ((int_part (r_post r) * 10 <=? max_mant) && (int_part (r_pre r) * 10 <=? max_mant))).
