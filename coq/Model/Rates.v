(* Model of the exchange-rate look-up of tsiemens/acb (group "rates"):
     src/fx/io/remote_rate_loader.rs   parse_rates_json (per observation)
     src/fx/io/rate_loader.rs          fill_in_unknown_day_rates, make_date_to_rate_map
     src/portfolio/io/tx_loader.rs     load_rate_if_needed
     src/portfolio/model/tx.rs         get_valid_exchange_rate
     src/portfolio/model/currency.rs   CurrencyAndExchangeRate::try_new
   Definitions only.  Dates are day numbers (days since 1970-01-01); rates are
   canonical rationals; a year's rates are the Vec<DailyRate> the code builds,
   looked up with the semantics of the HashMap made from it (last entry of a
   date wins). *)
From Coq Require Import List NArith ZArith QArith Qcanon Bool.
From ACB Require Import Base.Outcome Base.QcExtra Base.Fit Base.Arith.
Import ListNotations.
Local Open Scope Z_scope.

(* ------------------------------------------------------------------ dates *)
(* Proleptic Gregorian calendar, as the `time` crate counts it (assumed
   oracle, re-validated by the check in mode "dates"). *)
Definition days_before_year (y : Z) : Z :=
  let p := y - 1 in 365 * p + p / 4 - p / 100 + p / 400.
(* day number of January 1st of year y; 1970-01-01 is day 0 *)
Definition jan1 (y : Z) : Z := days_before_year y - 719162.

(* Date::year(): estimate from below, then correct (at most two steps). *)
Definition year_est (d : Z) : Z :=
  let z := d + 719162 in
  400 * (z / 146097) + (z mod 146097) / 366 + 1.
Definition year_of (d : Z) : Z :=
  let y := year_est d in
  if d <? jan1 (y + 1) then y else if d <? jan1 (y + 2) then y + 1 else y + 2.

Definition year_len (y : Z) : Z := jan1 (y + 1) - jan1 y.

(* ------------------------------------------------------------ daily rates *)
Definition drate : Type := (Z * Qc)%type.          (* DailyRate {date, foreign_to_local_rate} *)

(* HashMap built by make_date_to_rate_map: later entries overwrite earlier *)
Fixpoint mget (d : Z) (l : list drate) : option Qc :=
  match l with
  | [] => None
  | (d', r) :: t =>
      match mget d t with
      | Some x => Some x
      | None => if d' =? d then Some r else None
      end
  end.
Definition mhas (d : Z) (l : list drate) : bool :=
  match mget d l with Some _ => true | None => false end.

(* n placeholder entries (rate zero) for the days from, from+1, ... *)
Fixpoint zeros (from : Z) (n : nat) : list drate :=
  match n with
  | O => []
  | S k => (from, 0%Qc) :: zeros (from + 1) k
  end.

(* rate_loader.rs:71-81.  `cur` is date_to_fill.  The inner
   `while date_to_fill < rate.date` pushes (rate.date - date_to_fill) zeros
   when that is positive, none otherwise; then the rate itself is pushed and
   date_to_fill advances by ONE day (not to rate.date + 1). *)
Fixpoint fill_loop (rates : list drate) (cur : Z) : list drate * Z :=
  match rates with
  | [] => ([], cur)
  | (d, r) :: t =>
      let n := Z.to_nat (d - cur) in
      let '(l, c) := fill_loop t (cur + Z.of_nat n + 1) in
      (zeros cur n ++ (d, r) :: l, c)
  end.

(* rate_loader.rs:83-90: `while date_to_fill < today && date_to_fill.year() == year`;
   the loop runs at most (today - cur) times, which is the fuel. *)
Fixpoint fill_tail (fuel : nat) (cur today y : Z) : list drate :=
  match fuel with
  | O => []
  | S k =>
      if (cur <? today) && (year_of cur =? y)
      then (cur, 0%Qc) :: fill_tail k (cur + 1) today y
      else []
  end.

(* fill_in_unknown_day_rates(rates, year) with today_local() = today *)
Definition fill (rates : list drate) (y today : Z) : list drate :=
  let '(l, c) := fill_loop rates (jan1 y) in
  l ++ fill_tail (Z.to_nat (today - c)) c today y.

(* ------------------------------------------------- Bank of Canada observations *)
(* What parse_rates_json sees under a series key of one observation object:
   the key is absent / present but unusable (container not an object, no "v",
   not a number, not positive: all reported as non-fatal and the observation
   skipped) / a positive decimal. *)
Inductive jval : Type := JAbsent | JBad | JGood (q : Qc).
Record obs : Type := {
  o_date : option Z;       (* None: "d" missing, of the wrong type or unparsable *)
  o_noon : jval;           (* IEXE0101 *)
  o_daily : jval           (* FXCADUSD *)
}.

(* remote_rate_loader.rs:115-211, one iteration.  The noon series takes
   precedence when both are present; a daily observation is inverted with
   rust_decimal division (dec!(1) / r). *)
Definition parse_obs (o : obs) : res (option drate) :=
  match o_date o with
  | None => Ok None
  | Some d =>
      match o_noon o with
      | JBad => Ok None
      | JGood r => Ok (Some (d, r))
      | JAbsent =>
          match o_daily o with
          | JBad => Ok None
          | JAbsent => Ok None
          | JGood r => x <- a_div dec 1%Qc r ;; Ok (Some (d, x))
          end
      end
  end.

Fixpoint parse_all (l : list obs) : res (list drate) :=
  match l with
  | [] => Ok []
  | o :: t =>
      x <- parse_obs o ;;
      r <- parse_all t ;;
      Ok (match x with Some dr => dr :: r | None => r end)
  end.

(* get_fx_json_url: which series is requested for a year (true = FXCADUSD) *)
Definition series_daily (y : Z) : bool := 2017 <=? y.

(* ----------------------------------------------------- row decision rules *)
Inductive currency : Type := CAD | USD | OtherCur (n : N).
Definition is_default (c : currency) : bool := match c with CAD => true | _ => false end.

Inductive row_err : Type :=
| ENoAuto            (* "Currency .. does not support automatically loaded day rates" *)
| EFxWithoutCurr     (* "<fx col> specified but <curr col> not found" *)
| ECurrWithoutFx     (* "<curr col> specified but <fx col> not found" *)
| ENotPositive       (* "<fx col> must be a positive value" *)
| ECadNotOne.        (* "Default currency (CAD) exchange rate was not 1" *)

(* tx_loader.rs load_rate_if_needed, up to the call of the loader:
   what has to be done for a (currency, provided rate) pair *)
Inductive load_decision : Type :=
| LKeep                       (* Ok(None): leave the row as it is *)
| LLoadUsd                    (* look the USD/CAD rate of the TRADE date up *)
| LErr (e : row_err).
Definition load_decide (curr : option currency) (provided : option Qc) : load_decision :=
  match provided with
  | Some _ => LKeep
  | None =>
      match curr with
      | None => LKeep
      | Some c => if is_default c then LKeep
                  else match c with USD => LLoadUsd | _ => LErr ENoAuto end
      end
  end.

(* tx.rs get_valid_exchange_rate + currency.rs try_new: the (currency, rate)
   attached to the transaction; None = column pair absent *)
Definition valid_rate (curr : option currency) (fx : option Qc)
  : sum row_err (option (currency * Qc)) :=
  match curr, fx with
  | None, None => inr None
  | None, Some _ => inl EFxWithoutCurr
  | Some c, _ =>
      match fx with
      | None => if is_default c then inr (Some (CAD, 1%Qc)) else inl ECurrWithoutFx
      | Some r =>
          if Qcltb 0%Qc r then
            if is_default c && negb (Qceqb r 1%Qc) then inl ECadNotOne
            else inr (Some (c, r))
          else inl ENotPositive
      end
  end.
