(* Table level of acb's transaction CSV: Tx -> CsvTx (tx.rs to_csvtx),
   CsvTx list -> header + rows with the unused optional columns omitted
   (tx_csv.rs txs_to_csv_table), header-driven parse of rows to CsvTx
   (parse_tx_csv, csvtx_from_csv_values) and CsvTx -> Tx (Tx::try_from).
   The RFC-4180 layer (the csv crate) is a parameter of [write] / [read].
   Definitions only. *)
From Coq Require Import List NArith ZArith Bool Arith.
From ACB Require Import Base.Outcome Model.CsvFields.
Import ListNotations.
Local Open Scope N_scope.

(* CurrencyAndExchangeRate *)
Record car : Type := { c_cur : bytes; c_rate : dec }.
Definition car_default : car := {| c_cur := s_cad; c_rate := dec_one |}.
Definition car_is_default (c : car) : bool := cur_is_default (c_cur c).

(* TxActionSpecifics *)
Inductive cact : Type :=
| XBuy (sh aps com : dec) (cr : car) (ccr : option car)
| XSell (sh aps com : dec) (cr : car) (ccr : option car) (sfl : option sflin)
| XRoc (aps : dec) (cr : car)
| XSfla (sh aps : dec)
| XSplit (r : ratio).

(* Tx *)
Record ctx : Type := {
  x_sec : bytes; x_td : date; x_sd : date; x_act : cact;
  x_memo : bytes; x_af : affdata; x_ri : N
}.

(* CsvTx *)
Record csvtx : Type := {
  v_sec : option bytes; v_td : option date; v_sd : option date; v_act : option act;
  v_sh : option dec; v_aps : option dec; v_com : option dec;
  v_cur : option bytes; v_fx : option dec; v_ccur : option bytes; v_cfx : option dec;
  v_memo : option bytes; v_af : option affdata; v_sfl : option sflin;
  v_ratio : option ratio; v_ri : N
}.

Definition csvtx_empty : csvtx :=
  {| v_sec := None; v_td := None; v_sd := None; v_act := None; v_sh := None; v_aps := None;
     v_com := None; v_cur := None; v_fx := None; v_ccur := None; v_cfx := None;
     v_memo := None; v_af := None; v_sfl := None; v_ratio := None; v_ri := 0 |}.

Definition rate_opt (c : car) : option dec := if car_is_default c then None else Some (c_rate c).

(* Tx::to_csvtx / populate_csvtx_fields_from_action_specifics *)
Definition to_csvtx (t : ctx) : csvtx :=
  let base (a : act) sh aps com cur fx ccur cfx sfl ratio :=
    {| v_sec := Some (x_sec t); v_td := Some (x_td t); v_sd := Some (x_sd t); v_act := Some a;
       v_sh := sh; v_aps := aps; v_com := com; v_cur := cur; v_fx := fx; v_ccur := ccur;
       v_cfx := cfx; v_memo := Some (x_memo t); v_af := Some (x_af t); v_sfl := sfl;
       v_ratio := ratio; v_ri := x_ri t |} in
  match x_act t with
  | XBuy sh aps com cr ccr =>
      base ABuy (Some sh) (Some aps) (Some com) (Some (c_cur cr)) (rate_opt cr)
           (option_map c_cur ccr) (match ccr with Some c => rate_opt c | None => None end) None None
  | XSell sh aps com cr ccr sfl =>
      base ASell (Some sh) (Some aps) (Some com) (Some (c_cur cr)) (rate_opt cr)
           (option_map c_cur ccr) (match ccr with Some c => rate_opt c | None => None end) sfl None
  | XRoc aps cr => base ARoc None (Some aps) None (Some (c_cur cr)) (rate_opt cr) None None None None
  | XSfla sh aps => base ASfla (Some sh) (Some aps) None None None None None None None
  | XSplit r => base ASplit None None None None None None None None (Some r)
  end.

(* CsvCol *)
Inductive col : Type :=
| KSec | KTd | KSd | KAct | KSh | KAps | KCom | KCur | KFx | KCcur | KCfx | KSfl | KRatio
| KAf | KMemo | KLegacy.
Definition col_eqb (a b : col) : bool :=
  match a, b with
  | KSec, KSec | KTd, KTd | KSd, KSd | KAct, KAct | KSh, KSh | KAps, KAps | KCom, KCom
  | KCur, KCur | KFx, KFx | KCcur, KCcur | KCfx, KCfx | KSfl, KSfl | KRatio, KRatio
  | KAf, KAf | KMemo, KMemo | KLegacy, KLegacy => true
  | _, _ => false
  end.
Definition col_name (c : col) : bytes :=
  match c with
  | KSec => [115;101;99;117;114;105;116;121]
  | KTd => [116;114;97;100;101;32;100;97;116;101]
  | KSd => [115;101;116;116;108;101;109;101;110;116;32;100;97;116;101]
  | KAct => [97;99;116;105;111;110]
  | KSh => [115;104;97;114;101;115]
  | KAps => [97;109;111;117;110;116;47;115;104;97;114;101]
  | KCom => [99;111;109;109;105;115;115;105;111;110]
  | KCur => [99;117;114;114;101;110;99;121]
  | KFx => [101;120;99;104;97;110;103;101;32;114;97;116;101]
  | KCcur => [99;111;109;109;105;115;115;105;111;110;32;99;117;114;114;101;110;99;121]
  | KCfx => [99;111;109;109;105;115;115;105;111;110;32;101;120;99;104;97;110;103;101;32;114;97;116;101]
  | KSfl => [115;117;112;101;114;102;105;99;105;97;108;32;108;111;115;115]
  | KRatio => [115;112;108;105;116;32;114;97;116;105;111]
  | KAf => [97;102;102;105;108;105;97;116;101]
  | KMemo => [109;101;109;111]
  | KLegacy => [100;97;116;101]
  end.
(* export_order_non_deprecated_cols *)
Definition export_cols : list col :=
  [KSec; KTd; KSd; KAct; KSh; KAps; KCom; KCur; KFx; KCcur; KCfx; KSfl; KRatio; KAf; KMemo].
Definition all_cols : list col := export_cols ++ [KLegacy].
Definition col_of_name (s : bytes) : option col := find (fun c => beqb (col_name c) s) all_cols.
Definition col_optional (c : col) : bool :=
  match c with KFx | KCcur | KCfx | KSfl | KRatio | KAf => true | _ => false end.

Definition is_some {T} (o : option T) : bool := match o with Some _ => true | None => false end.

(* the affiliate column (tx_csv.rs, after fix e44bc72): a blank cell on a
   Split row means "all affiliates", so a split for all affiliates does not
   need the column by itself; the column is needed when a row names an
   affiliate other than the default one, or when a split addressed to the
   default affiliate has to be told apart from a split for all affiliates *)
Definition v_is_split (v : csvtx) : bool := match v_act v with Some ASplit => true | _ => false end.
Definition af_global_split (v : csvtx) : bool :=
  match v_af v with Some a => v_is_split v && aff_is_global a | None => false end.
Definition af_named (dflt : affdata) (v : csvtx) : bool :=
  match v_af v with
  | Some a => negb (v_is_split v && aff_is_global a) && negb (affdata_eqb a dflt)
  | None => false
  end.
Definition af_default_split (dflt : affdata) (v : csvtx) : bool :=
  match v_af v with
  | Some a => negb (v_is_split v && aff_is_global a) && affdata_eqb a dflt && v_is_split v
  | None => false
  end.

(* which optional columns are in use *)
Definition col_in_use (dflt : affdata) (txs : list csvtx) (c : col) : bool :=
  match c with
  | KFx => existsb (fun v => is_some (v_fx v)) txs
  | KCcur => existsb (fun v => is_some (v_ccur v)) txs
  | KCfx => existsb (fun v => is_some (v_cfx v)) txs
  | KSfl => existsb (fun v => is_some (v_sfl v)) txs
  | KRatio => existsb (fun v => is_some (v_ratio v)) txs
  | KAf => existsb (af_named dflt) txs
           || (existsb af_global_split txs && existsb (af_default_split dflt) txs)
  | _ => false
  end.
Definition table_header (dflt : affdata) (txs : list csvtx) : list col :=
  filter (fun c => negb (col_optional c) || col_in_use dflt txs c) export_cols.

Definition oshow {T} (f : T -> bytes) (o : option T) : bytes :=
  match o with Some v => f v | None => [] end.

Definition cell (v : csvtx) (c : col) : bytes :=
  match c with
  | KSec => oshow (fun s => s) (v_sec v)
  | KTd => oshow show_date (v_td v)
  | KSd => oshow show_date (v_sd v)
  | KAct => oshow show_act (v_act v)
  | KSh => oshow (tsmp 0) (v_sh v)
  | KAps => oshow (tsmp 2) (v_aps v)
  | KCom => oshow (tsmp 2) (v_com v)
  | KCur => oshow (fun s => s) (v_cur v)
  | KFx => oshow (tsmp 0) (v_fx v)
  | KCcur => oshow (fun s => s) (v_ccur v)
  | KCfx => oshow (tsmp 0) (v_cfx v)
  | KSfl => oshow show_sfl (v_sfl v)
  | KRatio => oshow show_ratio (v_ratio v)
  | KAf => oshow a_name (v_af v)
  | KMemo => oshow trim (v_memo v)      (* written trimmed (fix 84ca472) *)
  | KLegacy => []   (* panic!("Invalid col") in the Rust; never in the header *)
  end.

(* txs_to_csv_table; Affiliate::default() interns the default affiliate (only
   evaluated when some row carries an affiliate) *)
Definition csv_table (tbl : aftable) (txs : list csvtx) : (list bytes * list (list bytes)) * aftable :=
  let uses := existsb (fun v => is_some (v_af v)) txs in
  let '(dflt, tbl1) := af_default tbl in
  let hdr := table_header dflt txs in
  ((map col_name hdr, map (fun v => map (cell v) hdr) txs), if uses then tbl1 else tbl).

(* ---- reading ---- *)
Definition rej_both_dates : rej := RejParse 21.
Definition rej_row_len : rej := RejParse 20.

Definition header_cols (hdr : list bytes) : list (option col) :=
  map (fun h => col_of_name (trim (lower h))) hdr.

(* tx_values of one record: the last non-blank cell of a recognised column wins *)
Fixpoint row_values (hdr : list (option col)) (row : list bytes) : list (col * bytes) :=
  match hdr, row with
  | h :: hr, c :: cr =>
      let rest := row_values hr cr in
      let t := trim c in
      match h with
      | Some k => if is_nil t then rest else rest ++ [(k, t)]
      | None => rest
      end
  | _, _ => []
  end.
(* [row_values] lists later columns first, so the first hit is the last column *)
Fixpoint lookup (k : col) (vals : list (col * bytes)) : option bytes :=
  match vals with
  | [] => None
  | (k', v) :: r => if col_eqb k k' then Some v else lookup k r
  end.

Definition opt_parse {T} (f : bytes -> res T) (o : option bytes) : res (option T) :=
  match o with
  | Some s => x <- f s ;; Ok (Some x)
  | None => Ok None
  end.

(* csvtx_from_csv_values (fields evaluated in the order of the struct literal) *)
Definition csvtx_from_values (tbl : aftable) (vals : list (col * bytes)) (ri : N)
  : res (csvtx * aftable) :=
  let sec := lookup KSec vals in
  td <- opt_parse parse_date (lookup KTd vals) ;;
  sd0 <- opt_parse parse_date (lookup KSd vals) ;;
  sdl <- opt_parse parse_date (lookup KLegacy vals) ;;
  let sd := match sd0 with Some _ => sd0 | None => sdl end in
  a <- opt_parse parse_act (lookup KAct vals) ;;
  sh <- opt_parse parse_dec (lookup KSh vals) ;;
  aps <- opt_parse parse_dec (lookup KAps vals) ;;
  com <- opt_parse parse_dec (lookup KCom vals) ;;
  let cur := option_map currency_new (lookup KCur vals) in
  fx <- opt_parse parse_dec (lookup KFx vals) ;;
  let ccur := option_map currency_new (lookup KCcur vals) in
  cfx <- opt_parse parse_dec (lookup KCfx vals) ;;
  let memo := lookup KMemo vals in
  let '(af, tbl1) :=
    match lookup KAf vals with
    | Some s => if is_nil (trim s) then (None, tbl)
                else let '(a, t1) := intern tbl s in (Some a, t1)
    | None => (None, tbl)
    end in
  sfl <- opt_parse parse_sfl (lookup KSfl vals) ;;
  ratio <- opt_parse parse_ratio (lookup KRatio vals) ;;
  Ok ({| v_sec := sec; v_td := td; v_sd := sd; v_act := a; v_sh := sh; v_aps := aps;
         v_com := com; v_cur := cur; v_fx := fx; v_ccur := ccur; v_cfx := cfx;
         v_memo := memo; v_af := af; v_sfl := sfl; v_ratio := ratio; v_ri := ri |}, tbl1).

Fixpoint parse_rows (tbl : aftable) (hdr : list (option col)) (rows : list (list bytes)) (ri : N)
  : res (list csvtx * aftable) :=
  match rows with
  | [] => Ok ([], tbl)
  | r :: rest =>
      if negb (length r =? length hdr)%nat then Rej rej_row_len else
      '(v, tbl1) <- csvtx_from_values tbl (row_values hdr r) ri ;;
      '(vs, tbl2) <- parse_rows tbl1 hdr rest (ri + 1) ;;
      Ok (v :: vs, tbl2)
  end.

Definition has_col (k : col) (hdr : list (option col)) : bool :=
  existsb (fun h => match h with Some k' => col_eqb k k' | None => false end) hdr.

(* parse_tx_csv *)
Definition parse_table (tbl : aftable) (header : list bytes) (rows : list (list bytes)) (ri0 : N)
  : res (list csvtx * aftable) :=
  let hdr := header_cols header in
  if has_col KSd hdr && has_col KLegacy hdr then Rej rej_both_dates
  else parse_rows tbl hdr rows ri0.

(* get_valid_exchange_rate *)
Definition valid_exchange_rate (cur : option bytes) (fx : option dec) : res (option car) :=
  match cur, fx with
  | None, None => Ok None
  | None, Some _ => Rej (RejParse 11)
  | Some c, _ =>
      if cur_is_default c && negb (is_some fx) then Ok (Some car_default) else
      match fx with
      | None => Rej (RejParse 12)
      | Some r =>
          if negb (dec_pos r) then Rej (RejParse 13)
          else if cur_is_default c && negb (dec_is_one r) then Rej (RejParse 14)
          else Ok (Some {| c_cur := c; c_rate := r |})
      end
  end.

Definition or_default (o : option car) : car := match o with Some c => c | None => car_default end.
Definition req {T} (o : option T) (code : N) : res T :=
  match o with Some v => Ok v | None => Rej (RejParse code) end.

(* buy_or_sell_common_attrs_from_csv_tx *)
Definition common_attrs (v : csvtx) : res (dec * dec * dec * car * option car) :=
  sh <- req (v_sh v) 15 ;;
  aps <- req (v_aps v) 16 ;;
  let com := match v_com v with Some c => c | None => dec_zero end in
  cr <- valid_exchange_rate (v_cur v) (v_fx v) ;;
  ccr <- valid_exchange_rate (v_ccur v) (v_cfx v) ;;
  if negb (dec_pos sh) then Rej (RejParse 17)
  else if negb (dec_gez aps) then Rej (RejParse 18)
  else if negb (dec_gez com) then Rej (RejParse 19)
  else Ok (sh, aps, com, or_default cr, ccr).

(* Tx::try_from(CsvTx) *)
Definition tx_try_from (tbl : aftable) (v : csvtx) : res (ctx * aftable) :=
  match v_act v with
  | None => Rej (RejParse 10)
  | Some a =>
      specs <-
        match a with
        | ABuy => '(sh, aps, com, cr, ccr) <- common_attrs v ;; Ok (XBuy sh aps com cr ccr)
        | ASell => '(sh, aps, com, cr, ccr) <- common_attrs v ;; Ok (XSell sh aps com cr ccr (v_sfl v))
        | ARoc =>
            aps <- req (v_aps v) 16 ;;
            if negb (dec_gez aps) then Rej (RejParse 18) else
            if is_some (v_sh v) then Rej (RejParse 22) else
            cr <- valid_exchange_rate (v_cur v) (v_fx v) ;;
            Ok (XRoc aps (or_default cr))
        | ASfla =>
            aps <- req (v_aps v) 16 ;;
            sh <- req (v_sh v) 15 ;;
            cr <- valid_exchange_rate (v_cur v) (v_fx v) ;;
            if match cr with Some c => negb (car_is_default c) | None => false end
            then Rej (RejParse 23)
            else if negb (dec_pos sh) then Rej (RejParse 17)
            else if negb (dec_pos aps) then Rej (RejParse 18)
            else Ok (XSfla sh aps)
        | ASplit => r <- req (v_ratio v) 24 ;; Ok (XSplit r)
        end ;;
      sec <- req (v_sec v) 25 ;;
      td <- req (v_td v) 26 ;;
      sd <- req (v_sd v) 27 ;;
      let memo := match v_memo v with Some m => m | None => [] end in
      let '(af, tbl1) :=
        match v_af v with
        | Some a => (a, tbl)
        | None => match a with ASplit => af_global tbl | _ => af_default tbl end
        end in
      if is_nil sec then Rej (RejParse 28) else
      Ok ({| x_sec := sec; x_td := td; x_sd := sd; x_act := specs; x_memo := memo;
             x_af := af; x_ri := v_ri v |}, tbl1)
  end.

Fixpoint txs_try_from (tbl : aftable) (vs : list csvtx) : res (list ctx * aftable) :=
  match vs with
  | [] => Ok ([], tbl)
  | v :: r =>
      '(t, tbl1) <- tx_try_from tbl v ;;
      '(ts, tbl2) <- txs_try_from tbl1 r ;;
      Ok (t :: ts, tbl2)
  end.

(* header + cells of a transaction list, and back *)
Definition write_table (tbl : aftable) (txs : list ctx) :=
  csv_table tbl (map to_csvtx txs).
Definition read_table (tbl : aftable) (header : list bytes) (rows : list (list bytes))
  : res (list ctx * aftable) :=
  '(vs, tbl1) <- parse_table tbl header rows 0 ;;
  txs_try_from tbl1 vs.

(* the byte level: csv::Writer::write_record / csv::Reader with headers *)
Section CsvLayer.
  Variable csv_write : list (list bytes) -> bytes.
  Variable csv_read : bytes -> res (list (list bytes)).

  (* write_txs_to_csv (of the CsvTx of each Tx) *)
  Definition write (tbl : aftable) (txs : list ctx) : bytes * aftable :=
    let '((h, rows), tbl1) := write_table tbl txs in (csv_write (h :: rows), tbl1).
  (* parse_tx_csv followed by Tx::try_from on every row *)
  Definition read (tbl : aftable) (b : bytes) : res (list ctx * aftable) :=
    recs <- csv_read b ;;
    match recs with
    | [] => Ok ([], tbl)
    | h :: rows => read_table tbl h rows
    end.
End CsvLayer.

(* what is assumed of the csv crate: a header and records of the same length
   written with csv::Writer are read back by csv::Reader *)
Definition csv_layer_ok (csv_write : list (list bytes) -> bytes)
           (csv_read : bytes -> res (list (list bytes))) : Prop :=
  forall h rows, h <> [] -> Forall (fun r => length r = length h) rows ->
                 csv_read (csv_write (h :: rows)) = Ok (h :: rows).

(* ---- executable validity of a transaction list (the domain of C11) ---- *)
Definition valid_car (c : car) : bool :=
  valid_cur (c_cur c) && valid_dec (c_rate c) && dec_pos (c_rate c)
  && (negb (car_is_default c) || dec_is_one (c_rate c)).
Definition valid_ocar (o : option car) : bool := match o with Some c => valid_car c | None => true end.
(* an Affiliate: interned in the process table, written name parses to its id *)
Definition valid_aff (tbl : aftable) (a : affdata) : bool :=
  match tbl_find (a_id a) tbl with Some b => affdata_eqb a b | None => false end
  && negb (is_nil (a_name a)) && beqb (trim (a_name a)) (a_name a)
  && beqb (a_id (from_strep_data (a_name a))) (a_id a).
Definition valid_act (a : cact) : bool :=
  match a with
  | XBuy sh aps com cr ccr =>
      valid_dec sh && dec_pos sh && valid_dec aps && dec_gez aps && valid_dec com && dec_gez com
      && valid_car cr && valid_ocar ccr
  | XSell sh aps com cr ccr sfl =>
      valid_dec sh && dec_pos sh && valid_dec aps && dec_gez aps && valid_dec com && dec_gez com
      && valid_car cr && valid_ocar ccr && match sfl with Some v => valid_sfl v | None => true end
  | XRoc aps cr => valid_dec aps && dec_gez aps && valid_car cr
  | XSfla sh aps => valid_dec sh && dec_pos sh && valid_dec aps && dec_pos aps
  | XSplit r => valid_ratio r
  end.
Definition valid_tx (tbl : aftable) (t : ctx) : bool :=
  valid_sec (x_sec t) && valid_date (x_td t) && valid_date (x_sd t) && valid_act (x_act t)
  && valid_aff tbl (x_af t).

(* ---- "the same transaction" after a round trip ---- *)
Definition car_eqv (a b : car) : bool := beqb (c_cur a) (c_cur b) && dec_eqv (c_rate a) (c_rate b).
Definition ocar_eqv (a b : option car) : bool :=
  match a, b with Some x, Some y => car_eqv x y | None, None => true | _, _ => false end.
Definition sfl_eqv (a b : option sflin) : bool :=
  match a, b with
  | Some x, Some y => dec_eqv (sf_val x) (sf_val y) && Bool.eqb (sf_force x) (sf_force y)
  | None, None => true
  | _, _ => false
  end.
Definition ratio_eqv (a b : ratio) : bool :=
  dec_eqv (r_post a) (r_post b) && dec_eqv (r_pre a) (r_pre b) && Bool.eqb (r_rio a) (r_rio b).
Definition act_eqv (a b : cact) : bool :=
  match a, b with
  | XBuy s1 p1 c1 r1 q1, XBuy s2 p2 c2 r2 q2 =>
      dec_eqv s1 s2 && dec_eqv p1 p2 && dec_eqv c1 c2 && car_eqv r1 r2 && ocar_eqv q1 q2
  | XSell s1 p1 c1 r1 q1 f1, XSell s2 p2 c2 r2 q2 f2 =>
      dec_eqv s1 s2 && dec_eqv p1 p2 && dec_eqv c1 c2 && car_eqv r1 r2 && ocar_eqv q1 q2 && sfl_eqv f1 f2
  | XRoc p1 r1, XRoc p2 r2 => dec_eqv p1 p2 && car_eqv r1 r2
  | XSfla s1 p1, XSfla s2 p2 => dec_eqv s1 s2 && dec_eqv p1 p2
  | XSplit r1, XSplit r2 => ratio_eqv r1 r2
  | _, _ => false
  end.
Definition is_xsplit (a : cact) : bool := match a with XSplit _ => true | _ => false end.
Definition date_eqb (a b : date) : bool :=
  (dt_y a =? dt_y b) && (dt_m a =? dt_m b) && (dt_d a =? dt_d b).
Definition s_default_id : bytes := lower s_default.
Definition aff_is_default (a : affdata) : bool := beqb (a_id a) s_default_id.
(* no transaction names an affiliate other than the default one (a split
   for all affiliates names none) *)
Definition no_named_affiliate (txs : list ctx) : bool :=
  forallb (fun t => aff_is_default (x_af t) || (is_xsplit (x_act t) && aff_is_global (x_af t))) txs.
(* [t'] is [t] read back: same security, dates, action with numerically equal
   decimals (same sign), same currencies, same force flag and integer-only
   flag, memo trimmed, same affiliate - except that a split of the default
   affiliate comes back as a split of all affiliates when [glob_ok] (no row
   names another affiliate) *)
Definition tx_same (glob_ok : bool) (t t' : ctx) : bool :=
  beqb (x_sec t) (x_sec t') && date_eqb (x_td t) (x_td t') && date_eqb (x_sd t) (x_sd t')
  && act_eqv (x_act t) (x_act t') && beqb (trim (x_memo t)) (x_memo t')
  && (affdata_eqb (x_af t) (x_af t')
      || (glob_ok && is_xsplit (x_act t) && aff_is_default (x_af t) && aff_is_global (x_af t'))).

(* read_index = position, counted from ri *)
Fixpoint ri_from (ri : N) (l : list ctx) : bool :=
  match l with
  | [] => true
  | t :: r => (x_ri t =? ri) && ri_from (ri + 1) r
  end.

Fixpoint forall2b {T} (f : T -> T -> bool) (a b : list T) : bool :=
  match a, b with
  | [], [] => true
  | x :: a', y :: b' => f x y && forall2b f a' b'
  | _, _ => false
  end.
