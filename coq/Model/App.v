(* approot.rs run_acb_app_to_delta_models after parsing: sort all rows by
   (settlement date, read index), split by security, expand global splits
   (splits.rs), run the ledger per security with its opening status. *)
From Coq Require Import List NArith ZArith QArith Qcanon Bool.
From ACB Require Import Base.Outcome Base.QcExtra Base.Arith Model.Tx Model.Ledger Model.Sfl
     Model.DeltaList.
Import ListNotations.
Local Open Scope Z_scope.

Definition tx_leb (a b : tx) : bool :=
  (t_sd a <? t_sd b) || ((t_sd a =? t_sd b) && N.leb (t_ri a) (t_ri b)).

Fixpoint insert_tx (t : tx) (l : list tx) : list tx :=
  match l with
  | [] => [t]
  | h :: r => if tx_leb t h then t :: l else h :: insert_tx t r
  end.
Definition sort_txs (l : list tx) : list tx := fold_right insert_tx [] l.

(* securities in increasing number; rows of each in list order *)
Fixpoint insert_sec (s : N) (l : list N) : list N :=
  match l with
  | [] => [s]
  | h :: r => if N.eqb s h then l else if N.ltb s h then s :: l else h :: insert_sec s r
  end.
Definition securities (l : list tx) : list N := fold_right (fun t acc => insert_sec (t_sec t) acc) [] l.
Definition txs_of_sec (s : N) (l : list tx) : list tx := filter (fun t => N.eqb (t_sec t) s) l.

(* splits.rs has_non_global_surrounding_splits, on the zipper *)
Fixpoint near_split_scan (target : Z) (back : bool) (l : list tx) : bool :=
  match l with
  | [] => false
  | t :: r =>
      let diff := if back then target - t_td t else t_td t - target in
      if 1 <? diff then false
      else if is_split (t_act t) && negb (t_glob t) then true
      else near_split_scan target back r
  end.

Fixpoint global_split_check (bef : list tx) (aft : list tx) : bool :=
  match aft with
  | [] => true
  | t :: r =>
      if is_split (t_act t) && t_glob t then
        if near_split_scan (t_td t) true bef || near_split_scan (t_td t) false r then false
        else global_split_check (t :: bef) r
      else global_split_check (t :: bef) r
  end.

(* find_all_non_global_affiliates; the Rust HashSet is iterated in an
   arbitrary order, the model takes the affiliates sorted by id (see C09). *)
Definition non_global_affs (l : list tx) : list aff :=
  sort_affs (fold_left (fun acc t => if t_glob t then acc else add_aff (t_af t) acc) l []).

Definition with_aff (t : tx) (a : aff) : tx :=
  {| t_sec := t_sec t; t_td := t_td t; t_sd := t_sd t; t_act := t_act t;
     t_af := a; t_glob := false; t_ri := t_ri t |}.

Definition expand_with (affs : list aff) (l : list tx) : list tx :=
  flat_map (fun t => if is_split (t_act t) && t_glob t then map (with_aff t) affs else [t]) l.

(* [has_init]: an opening position was given for the security; its holder,
   the default affiliate, is split too even without a row of its own *)
Definition holders (has_init : bool) (l : list tx) : list aff :=
  sort_affs (fold_left (fun acc t => if t_glob t then acc else add_aff (t_af t) acc) l
                       (if has_init then [default_aff] else [])).

Definition replace_global_splits (has_init : bool) (l : list tx) : res (list tx) :=
  if negb (global_split_check [] l) then Rej RejGlobalSplitNear else
  if negb (existsb (fun t => is_split (t_act t) && t_glob t) l) then Ok l else
  let affs := match holders has_init l with [] => [default_aff] | a => a end in
  Ok (expand_with affs l).

Definition init_for (inits : list (N * status)) (s : N) : option status := alookup s inits.

Section WithArith.
  Variable A : arith.

  Fixpoint run_secs (inits : list (N * status)) (all : list tx) (secs : list N)
    : res (list (N * (list delta * option stop))) :=
    match secs with
    | [] => Ok []
    | s :: r =>
        rest <- run_secs inits all r ;;
        match replace_global_splits (match init_for inits s with Some _ => true | None => false end)
                                    (txs_of_sec s all) with
        | Ok l => Ok ((s, run A (init_for inits s) l) :: rest)
        | Rej e => Ok ((s, ([], Some (SRej e))) :: rest)
        | Panic p => Ok ((s, ([], Some (SPanic p))) :: rest)
        end
    end.

  Definition run_app (inits : list (N * status)) (rows : list tx)
    : res (list (N * (list delta * option stop))) :=
    let sorted := sort_txs rows in
    run_secs inits sorted (securities sorted).
End WithArith.
