(* stub: to be written by group Costs *)
