(* Total-cost tables (--total-costs): portfolio/bookkeeping/costs.rs
   (MaxSingleDayCosts::observe_new_cost, calc_max_day_cost_per_sec,
   calc_yearly_max_cost_day, calc_total_costs), portfolio/render.rs
   render_total_costs and the concatenation of the securities' delta lists in
   app/approot.rs run_acb_app_to_render_model.

   Input: the deltas as data (security number = rank of the security name,
   settlement day number, affiliate number, the code's is_default() flag, ACB
   before / after: None for a registered affiliate).  Rust HashMaps are
   association lists in insertion order; every loop over a hash container
   takes its iteration order as an explicit list, so that the order the code
   uses (sorted, after the C09 fixes) and an arbitrary hash order (before)
   are instances of the same definitions.  Definitions only. *)
From Coq Require Import List NArith ZArith QArith Qcanon Bool.
From ACB Require Import Base.Outcome Base.QcExtra Base.Arith Model.Tx.
Import ListNotations.
Local Open Scope Z_scope.

(* ---- keys: days (Z) and years (Z), securities (N, Model.Tx.alookup) ---- *)
Section ZAssoc.
  Context {V : Type}.
  Fixpoint zlookup (k : Z) (l : list (Z * V)) : option V :=
    match l with
    | [] => None
    | (k', v) :: r => if Z.eqb k k' then Some v else zlookup k r
    end.
  Fixpoint zupdate (k : Z) (v : V) (l : list (Z * V)) : list (Z * V) :=
    match l with
    | [] => [(k, v)]
    | (k', v') :: r => if Z.eqb k k' then (k, v) :: r else (k', v') :: zupdate k v r
    end.
End ZAssoc.

(* insertion sorts (Vec::sort on dates / years / security names) *)
Fixpoint zinsert (x : Z) (l : list Z) : list Z :=
  match l with
  | [] => [x]
  | h :: r => if Z.leb x h then x :: l else h :: zinsert x r
  end.
Definition zsort (l : list Z) : list Z := fold_right zinsert [] l.
Fixpoint ninsert (x : N) (l : list N) : list N :=
  match l with
  | [] => [x]
  | h :: r => if N.leb x h then x :: l else h :: ninsert x r
  end.
Definition nsort (l : list N) : list N := fold_right ninsert [] l.

(* time::Date::year of a day number (proleptic Gregorian ordinal, day 1 =
   0001-01-01, as Python's date.toordinal): Hinnant's civil_from_days. *)
Definition year_of (ord : Z) : Z :=
  let z := ord - 719163 + 719468 in
  let era := z / 146097 in
  let doe := z - era * 146097 in
  let yoe := (doe - doe / 1460 + doe / 36524 - doe / 146096) / 365 in
  let y := yoe + era * 400 in
  let doy := doe - (365 * yoe + yoe / 4 - yoe / 100) in
  let mp := (5 * doy + 2) / 153 in
  let m := if mp <? 10 then mp + 3 else mp - 9 in
  if m <=? 2 then y + 1 else y.

(* ---- input ---- *)
Record cdelta : Type := {
  cd_sec : N;               (* post_status.security *)
  cd_day : Z;               (* tx.settlement_date *)
  cd_af : N;                (* tx.affiliate (number; Model.Tx.default_id = "default") *)
  cd_dflt : bool;           (* tx.affiliate.is_default() as the code computes it *)
  cd_pre : option Qc;       (* pre_status.total_acb *)
  cd_post : option Qc       (* post_status.total_acb *)
}.

(* ignored_delta_descs entries *)
Inductive note : Type :=
| NoteReg (day : Z) (sec : N)            (* "... ignored transaction from registered affiliate" *)
| NoteAf (day : Z) (sec : N) (af : N).   (* "... from non-default affiliate <name>" *)

(* MaxSingleDayCosts without its date *)
Record dayrec : Type := {
  dr_total : Qc;
  dr_costs : list (N * Qc)       (* sec_max_cost_for_day *)
}.
Definition dayrec0 : dayrec := {| dr_total := 0%Qc; dr_costs := [] |}.

(* carry-forward of calc_max_day_cost_per_sec: the code before commit
   "fix: carry the closing cost forward" carried the day's maximum *)
Inductive carry_mode : Type := CarryMax | CarryClosing.

Module CSite.
  Definition observe_max : N := 40.    (* costs.rs observe_new_cost: try_from(max).unwrap() *)
  Definition observe_total : N := 41.  (* costs.rs observe_new_cost: try_from(total - old + cur).unwrap() *)
  Definition pre_unwrap : N := 42.     (* costs.rs d.pre_status.total_acb.unwrap() *)
  Definition not_sorted : N := 43.     (* costs.rs panic!("Deltas for {sec} were not sorted ...") *)
  Definition day_zero : N := 44.       (* costs.rs day_zero_sec_costs.get(sec).unwrap() *)
  Definition day_missing : N := 45.    (* costs.rs max_costs_by_day.get(..).unwrap() *)
  Definition render_cost : N := 46.    (* render.rs sec_max_cost_for_day.get(sec).unwrap() *)
  Definition year_missing : N := 47.   (* render.rs costs.yearly.get(&year).unwrap() *)
End CSite.

(* monadic left fold *)
Fixpoint mfold {S X : Type} (f : S -> X -> res S) (l : list X) (s : S) : res S :=
  match l with
  | [] => Ok s
  | x :: r => s' <- f s x ;; mfold f r s'
  end.

Record st1 : Type := {
  s_days : list (Z * dayrec);            (* max_costs_by_day *)
  s_zero : list (N * (Z * Qc));          (* day_zero_sec_costs *)
  s_secs : list N;                       (* security_set (insertion order) *)
  s_notes : list note;                   (* ignored_delta_descs *)
  s_close : list (Z * list (N * Qc))     (* closing_costs_by_day *)
}.
Definition st1_0 : st1 :=
  {| s_days := []; s_zero := []; s_secs := []; s_notes := []; s_close := [] |}.

Definition nmem (x : N) (l : list N) : bool := existsb (N.eqb x) l.

Section WithArith.
  Variable A : arith.

  (* MaxSingleDayCosts::observe_new_cost *)
  Definition observe (r : dayrec) (sec : N) (new_cost : Qc) : res dayrec :=
    let old := match alookup sec (dr_costs r) with Some v => v | None => 0%Qc end in
    cur <- gez_unwrap CSite.observe_max (Qcmax old new_cost) ;;
    t1 <- a_sub A (dr_total r) old ;;
    t2 <- a_add A t1 cur ;;
    t <- gez_unwrap CSite.observe_total t2 ;;
    Ok {| dr_total := t; dr_costs := aupdate sec cur (dr_costs r) |}.

  (* body of the first loop of calc_max_day_cost_per_sec *)
  Definition step1 (st : st1) (d : cdelta) : res st1 :=
    let day := cd_day d in
    let sec := cd_sec d in
    match cd_post d with
    | None =>
        Ok {| s_days := s_days st; s_zero := s_zero st; s_secs := s_secs st;
              s_notes := s_notes st ++ [NoteReg day sec]; s_close := s_close st |}
    | Some acb =>
        if negb (cd_dflt d) then
          Ok {| s_days := s_days st; s_zero := s_zero st; s_secs := s_secs st;
                s_notes := s_notes st ++ [NoteAf day sec (cd_af d)]; s_close := s_close st |}
        else
          let secs := if nmem sec (s_secs st) then s_secs st else s_secs st ++ [sec] in
          let r := match zlookup day (s_days st) with Some r => r | None => dayrec0 end in
          r' <- observe r sec acb ;;
          let days := zupdate day r' (s_days st) in
          let cl := match zlookup day (s_close st) with Some c => c | None => [] end in
          let close := zupdate day (aupdate sec acb cl) (s_close st) in
          match alookup sec (s_zero st) with
          | None =>
              match cd_pre d with
              | None => Panic (PanicMissing CSite.pre_unwrap)
              | Some p =>
                  Ok {| s_days := days; s_zero := s_zero st ++ [(sec, (day, p))]; s_secs := secs;
                        s_notes := s_notes st; s_close := close |}
              end
          | Some (d0, _) =>
              if day <? d0 then Panic (PanicAssert CSite.not_sorted)
              else Ok {| s_days := days; s_zero := s_zero st; s_secs := secs;
                         s_notes := s_notes st; s_close := close |}
          end
    end.

  Definition loop1 (ds : list cdelta) : res st1 := mfold step1 ds st1_0.

  (* second loop: one security on one day *)
  Definition fill_sec (cm : carry_mode) (zero : list (N * (Z * Qc))) (cl : list (N * Qc))
             (x : dayrec * list (N * Qc)) (sec : N) : res (dayrec * list (N * Qc)) :=
    let '(r, last) := x in
    v <- match alookup sec (dr_costs r) with
         | Some v => Ok v
         | None => match alookup sec last with
                   | Some v => Ok v
                   | None => match alookup sec zero with
                             | Some (_, p) => Ok p
                             | None => Panic (PanicMissing CSite.day_zero)
                             end
                   end
         end ;;
    let carried := match cm with
                   | CarryMax => v
                   | CarryClosing => match alookup sec cl with Some c => c | None => v end
                   end in
    let last' := aupdate sec carried last in
    if amem sec (dr_costs r) then Ok (r, last')
    else r' <- observe r sec v ;; Ok (r', last').

  (* second loop: one day; [order] is the iteration order over security_set *)
  Definition fill_day (cm : carry_mode) (zero : list (N * (Z * Qc))) (close : list (Z * list (N * Qc)))
             (order : list N) (x : list (Z * dayrec) * list (N * Qc)) (day : Z)
    : res (list (Z * dayrec) * list (N * Qc)) :=
    let '(days, last) := x in
    match zlookup day days with
    | None => Panic (PanicMissing CSite.day_missing)
    | Some r =>
        let cl := match zlookup day close with Some c => c | None => [] end in
        '(r', last') <- mfold (fill_sec cm zero cl) order (r, last) ;;
        Ok (zupdate day r' days, last')
    end.

  Definition loop2 (cm : carry_mode) (order : list N) (st : st1) : res (list (Z * dayrec)) :=
    '(days, _) <- mfold (fill_day cm (s_zero st) (s_close st) order)
                        (zsort (map fst (s_days st))) (s_days st, []) ;;
    Ok days.

  (* calc_yearly_max_cost_day: [order] is the iteration order over
     max_costs_by_day; the result maps a year to its chosen day *)
  Definition pick_step (days : list (Z * dayrec)) (picks : list (Z * Z)) (day : Z) : res (list (Z * Z)) :=
    match zlookup day days with
    | None => Panic (PanicMissing CSite.day_missing)
    | Some r =>
        let y := year_of day in
        match zlookup y picks with
        | None => Ok (zupdate y day picks)
        | Some old =>
            match zlookup old days with
            | None => Panic (PanicMissing CSite.day_missing)
            | Some ro =>
                if Qcltb (dr_total ro) (dr_total r) then Ok (zupdate y day picks) else Ok picks
            end
        end
    end.
  Definition yearly_picks (order : list Z) (days : list (Z * dayrec)) : res (list (Z * Z)) :=
    mfold (pick_step days) order [].
End WithArith.

(* ---- render_total_costs ---- *)
Definition trow : Type := (Z * Qc * list Qc)%type.          (* date, total, per security *)
Definition yrow : Type := (Z * Z * Qc * list Qc)%type.      (* year, date, total, per security *)

Fixpoint mmap {X Y : Type} (f : X -> res Y) (l : list X) : res (list Y) :=
  match l with
  | [] => Ok []
  | x :: r => y <- f x ;; ys <- mmap f r ;; Ok (y :: ys)
  end.

Definition render_costs (secs : list N) (r : dayrec) : res (list Qc) :=
  mmap (fun s => match alookup s (dr_costs r) with
                 | Some v => Ok v
                 | None => Panic (PanicMissing CSite.render_cost)
                 end) secs.

Definition render_day (secs : list N) (days : list (Z * dayrec)) (day : Z) : res trow :=
  match zlookup day days with
  | None => Panic (PanicMissing CSite.day_missing)
  | Some r => cs <- render_costs secs r ;; Ok (day, dr_total r, cs)
  end.

Definition render_year (secs : list N) (days : list (Z * dayrec)) (picks : list (Z * Z)) (y : Z) : res yrow :=
  match zlookup y picks with
  | None => Panic (PanicMissing CSite.year_missing)
  | Some day =>
      match zlookup day days with
      | None => Panic (PanicMissing CSite.day_missing)
      | Some r => cs <- render_costs secs r ;; Ok (y, day, dr_total r, cs)
      end
  end.

Record ctables : Type := {
  ct_secs : list N;          (* header: security columns *)
  ct_total : list trow;      (* Total Costs rows *)
  ct_yearly : list yrow;     (* Yearly Max Costs rows *)
  ct_notes : list note       (* notes of both tables *)
}.

(* calc_total_costs + render_total_costs with explicit iteration orders:
   [sec_order] over security_set in the carry-forward loop, [day_order] over
   max_costs_by_day in calc_yearly_max_cost_day (functions of the containers'
   key lists) *)
Definition costs_with (A : arith) (cm : carry_mode)
           (sec_order : list N -> list N) (day_order : list Z -> list Z)
           (ds : list cdelta) : res ctables :=
  st <- loop1 A ds ;;
  days <- loop2 A cm (sec_order (s_secs st)) st ;;
  picks <- yearly_picks (day_order (map fst days)) days ;;
  let secs := nsort (s_secs st) in
  let sorted_days := zsort (map fst days) in
  total <- mmap (render_day secs days) sorted_days ;;
  yearly <- mmap (render_year secs days picks) (zsort (map fst picks)) ;;
  Ok {| ct_secs := secs; ct_total := total; ct_yearly := yearly; ct_notes := s_notes st |}.

(* the code as it is now: closing cost carried forward, securities and days
   iterated in sorted order *)
Definition costs (A : arith) (ds : list cdelta) : res ctables :=
  costs_with A CarryClosing nsort zsort ds.

(* approot.rs run_acb_app_to_render_model: all_deltas is the concatenation of
   the securities' delta lists in the iteration order over the result map *)
Definition concat_deltas (order : list N) (by_sec : list (N * list cdelta)) : list cdelta :=
  flat_map (fun s => match alookup s by_sec with Some l => l | None => [] end) order.
Definition all_deltas (by_sec : list (N * list cdelta)) : list cdelta :=
  concat_deltas (nsort (map fst by_sec)) by_sec.
