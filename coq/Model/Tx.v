(* Transactions, statuses and deltas of the bookkeeping model.
   Numbers are canonical rationals; dates are day numbers; securities and
   affiliates are numbered by the correspondence harness (affiliates in the
   lexicographic order of their Rust id() strings, which the code sorts by). *)
From Coq Require Import List NArith ZArith QArith Qcanon Bool.
From ACB Require Import Base.Outcome Base.QcExtra.
Import ListNotations.
Local Open Scope Qc_scope.

Record aff : Type := {
  af_id : N;           (* rank of the Rust id() string *)
  af_reg : bool;       (* registered(): id ends with " (R)" *)
  af_dflt : bool       (* is_default(): id starts with "default" *)
}.
Definition aff_eqb (a b : aff) : bool := N.eqb (af_id a) (af_id b).
(* Affiliate::default(): id "default", not registered.  The harness gives it
   the id below whenever it occurs. *)
Definition default_id : N := 1000.
Definition default_aff : aff := {| af_id := default_id; af_reg := false; af_dflt := true |}.

Inductive action : Type :=
| Buy  (sh aps com rate crate : Qc)
| Sell (sh aps com rate crate : Qc) (sfl : option (Qc * bool))
| Roc  (aps rate : Qc)
| Sfla (sh aps : Qc)
| Split (post pre : Qc) (int_only : bool).

Record tx : Type := {
  t_sec : N;
  t_td : Z;            (* trade date *)
  t_sd : Z;            (* settlement date *)
  t_act : action;
  t_af : aff;
  t_glob : bool;       (* affiliate is the global pseudo-affiliate *)
  t_ri : N             (* read index *)
}.

Definition is_buy (a : action) := match a with Buy _ _ _ _ _ => true | _ => false end.
Definition is_sell (a : action) := match a with Sell _ _ _ _ _ _ => true | _ => false end.
Definition is_split (a : action) := match a with Split _ _ _ => true | _ => false end.
Definition is_sfla (a : action) := match a with Sfla _ _ => true | _ => false end.
Definition is_roc (a : action) := match a with Roc _ _ => true | _ => false end.

(* Tx::try_from guarantees these (PosDecimal / GreaterEqualZeroDecimal fields). *)
Definition valid_action (a : action) : bool :=
  match a with
  | Buy sh aps com rate crate =>
      Qcltb 0 sh && Qcleb 0 aps && Qcleb 0 com && Qcltb 0 rate && Qcltb 0 crate
  | Sell sh aps com rate crate sfl =>
      Qcltb 0 sh && Qcleb 0 aps && Qcleb 0 com && Qcltb 0 rate && Qcltb 0 crate
      && match sfl with Some (v, _) => Qcleb v 0 | None => true end
  | Roc aps rate => Qcleb 0 aps && Qcltb 0 rate
  | Sfla sh aps => Qcltb 0 sh && Qcltb 0 aps
  | Split post pre _ => Qcltb 0 post && Qcltb 0 pre
  end.
Definition valid_tx (t : tx) : bool := valid_action (t_act t).

Record status : Type := {
  s_sh : Qc;            (* share_balance *)
  s_all : Qc;           (* all_affiliate_share_balance *)
  s_acb : option Qc     (* total_acb; None for registered affiliates *)
}.

Record sflinfo : Type := {
  sf_amount : Qc;       (* superficial_loss, negative *)
  sf_num : Qc;          (* ratio numerator *)
  sf_den : Qc;          (* ratio denominator *)
  sf_over : bool        (* potentially_over_applied *)
}.

Record delta : Type := {
  d_tx : tx;
  d_pre : status;
  d_post : status;
  d_gain : option Qc;
  d_sfl : option sflinfo
}.

(* association lists keyed by affiliate id *)
Section Assoc.
  Context {V : Type}.
  Fixpoint alookup (k : N) (l : list (N * V)) : option V :=
    match l with
    | [] => None
    | (k', v) :: r => if N.eqb k k' then Some v else alookup k r
    end.
  Fixpoint aupdate (k : N) (v : V) (l : list (N * V)) : list (N * V) :=
    match l with
    | [] => [(k, v)]
    | (k', v') :: r => if N.eqb k k' then (k, v) :: r else (k', v') :: aupdate k v r
    end.
  Definition amem (k : N) (l : list (N * V)) : bool :=
    match alookup k l with Some _ => true | None => false end.
End Assoc.
