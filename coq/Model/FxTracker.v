(* C18: src/peripheral/broker/broker_tx.rs (Account, BrokerTx, its ordering)
   and src/peripheral/broker/fx_tracker.rs (FxtRow, FxTracker).
   Memo and file name of BrokerTx are not modelled (the property does not
   speak about them).  Dates are (year, month, day) triples.  Definitions
   only. *)
From Coq Require Import List NArith ZArith QArith Qcanon Bool.
From ACB Require Import Base.Outcome Base.QcExtra Base.Fit Base.Arith Model.QText.
Import ListNotations.
Local Open Scope N_scope.

Definition date3 := (N * N * N)%type.
Definition date_cmp (a b : date3) : comparison :=
  let '(y1, m1, d1) := a in
  let '(y2, m2, d2) := b in
  match N.compare y1 y2 with
  | Eq => match N.compare m1 m2 with Eq => N.compare d1 d2 | c => c end
  | c => c
  end.
Definition date_eqb (a b : date3) : bool :=
  match date_cmp a b with Eq => true | _ => false end.

Record account := { ac_type : text; ac_num : text }.
Definition account_eqb (a b : account) : bool :=
  text_eqb (ac_type a) (ac_type b) && text_eqb (ac_num a) (ac_num b).
(* Account::account_str: "{type} {num}" *)
Definition account_str (a : account) : text := ac_type a ++ 32 :: ac_num a.

Record btx := {
  b_sec : text;
  b_td : date3;  b_sd : date3;
  b_tdt : text;  b_sdt : text;       (* the full date cells: sort tie-break *)
  b_buy : bool;                       (* TxAction::Buy / Sell *)
  b_price : Qc;  b_shares : Qc;  b_comm : Qc;
  b_cur : text;                       (* Currency (upper case, "" => CAD) *)
  b_rate : option Qc;
  b_reg : bool;                       (* Affiliate::default_registered() / default() *)
  b_row : N;
  b_acct : account;
  b_tb : option N                     (* sort_tiebreak *)
}.

Definition t_CAD : text := [67; 65; 68].
Definition t_USD : text := [85; 83; 68].
Definition t_dotFX : text := [46; 70; 88].

(* Currency::new *)
Definition currency_of (s : text) : text :=
  match upper s with
  | [] => t_CAD
  | u => u
  end.
Definition cur_is_default (c : text) : bool := text_eqb c t_CAD.

(* ---- BrokerTx ordering (broker_tx.rs:51-100) ---- *)
Definition tb_cmp (a b : option N) : comparison :=
  match a, b with
  | Some x, Some y => N.compare x y
  | Some _, None => Gt
  | None, Some _ => Lt
  | None, None => Eq
  end.

Definition btx_cmp (a b : btx) : comparison :=
  match date_cmp (b_sd a) (b_sd b) with
  | Eq =>
      match text_cmp (b_sdt a) (b_sdt b) with
      | Eq =>
          match tb_cmp (b_tb a) (b_tb b) with
          | Eq => N.compare (b_row a) (b_row b)
          | c => c
          end
      | c => c
      end
  | c => c
  end.

Definition btx_le (a b : btx) : bool :=
  match btx_cmp a b with Gt => false | _ => true end.

(* Vec::sort is a stable sort: stable insertion sort on the same order *)
Fixpoint insert_sorted (x : btx) (l : list btx) : list btx :=
  match l with
  | [] => [x]
  | y :: r => if btx_le x y then x :: l else y :: insert_sorted x r
  end.
(* inserting from the right keeps equal elements in their original order *)
Definition sort_btx (l : list btx) : list btx := fold_right insert_sorted [] l.

(* ---- error classes of the conversion (col = 0 when no column is involved) ---- *)
Module QErr.
  Definition unrecognized_action : N := 2000.
  Definition bad_date (col : N) : N := 2100 + col.
  Definition symbol_empty : N := 2200.
  Definition fxt_not_one_cad : N := 2300.
  Definition fxt_dates_differ : N := 2400.
  Definition fxt_accounts_differ : N := 2500.
  Definition fxt_both_positive : N := 2600.
  Definition fxt_both_negative : N := 2700.
  Definition fxt_zero_amount : N := 2650.
  Definition fx_currency_unsupported : N := 2800.
  Definition unpaired_fxt : N := 2900.
  Definition no_column (col : N) : N := 100 + col.
  Definition bad_number (col : N) : N := 400 + col.
  Definition empty_value (col : N) : N := 500 + col.
  Definition bool_value (col : N) : N := 600 + col.
  Definition float_unconvertible (col : N) : N := 700 + col.
  Definition model_gap (col : N) : N := 900 + col.   (* Decimal::from_str outside the modelled grammar *)
End QErr.

(* ---- FxTracker ---- *)
Record fxt_row := {
  fr_row : N; fr_cur : text; fr_reg : bool; fr_td : date3; fr_tdt : text;
  fr_amount : Qc; fr_acct : account
}.

(* FxTracker::fx_tx *)
Definition fx_tx (cur : text) (td : date3) (tdt : text) (amount : Qc) (reg : bool)
           (row : N) (acct : account) (rate : option Qc) : N + btx :=
  if text_eqb cur t_USD then
    let buy := Qcltb 0 amount in
    inr {| b_sec := cur ++ t_dotFX; b_td := td; b_sd := td; b_tdt := tdt; b_sdt := tdt;
           b_buy := buy; b_price := 1%Qc; b_shares := Qcabs amount; b_comm := 0%Qc;
           b_cur := cur; b_rate := rate; b_reg := reg; b_row := row; b_acct := acct;
           b_tb := Some (if buy then 1 else 2) |}
  else inl QErr.fx_currency_unsupported.

(* The tracker holds the pending first row of a conversion (adjacent_fxt) and
   the generated transactions; the latter are only ever appended to, so the
   functions below return the transactions they add. *)

Section Tracker.
  Variable A : arith.

  (* add_fxt_row: new pending row, transactions added, error of the row.
     The pending row is consumed even when the pair is rejected. *)
  Definition add_fxt_row (adj : option fxt_row) (fr : fxt_row)
    : res (option fxt_row * list btx * option N) :=
    match adj with
    | None => Ok (Some fr, [], None)
    | Some adj =>
        let '(cad, other) := if text_eqb (fr_cur adj) t_CAD then (adj, fr) else (fr, adj) in
        if negb (text_eqb (fr_cur cad) t_CAD) || text_eqb (fr_cur other) t_CAD then
          Ok (None, [], Some QErr.fxt_not_one_cad)
        else if negb (date_eqb (fr_td other) (fr_td cad)) then
          Ok (None, [], Some QErr.fxt_dates_differ)
        else if negb (Bool.eqb (fr_reg other) (fr_reg cad))
                || negb (account_eqb (fr_acct other) (fr_acct cad)) then
          Ok (None, [], Some QErr.fxt_accounts_differ)
        else
          prod <- a_mul A (fr_amount cad) (fr_amount other) ;;
          if Qcltb 0 prod then
            Ok (None, [], Some (if Qcltb 0 (fr_amount cad) then QErr.fxt_both_positive
                                else QErr.fxt_both_negative))
          else if Qceqb (fr_amount other) 0 then
            Ok (None, [], Some QErr.fxt_zero_amount)
          else
            q <- a_div A (fr_amount cad) (fr_amount other) ;;
            match fx_tx (fr_cur other) (fr_td other) (fr_tdt other) (fr_amount other)
                        (fr_reg other) (fr_row fr) (fr_acct other) (Some (Qcabs q)) with
            | inl e => Ok (None, [], Some e)
            | inr t => Ok (None, [t], None)
            end
    end.

  (* add_implicit_fxt: called for every trade whose currency is not CAD *)
  Definition add_implicit_fxt (t : btx) : res (list btx * option N) :=
    gross <- a_mul A (b_price t) (b_shares t) ;;
    let signed := if b_buy t then (- gross)%Qc else gross in
    amount <- a_sub A signed (b_comm t) ;;
    if Qceqb amount 0 then Ok ([], None)
    else match fx_tx (b_cur t) (b_td t) (b_tdt t) amount (b_reg t) (b_row t) (b_acct t) None with
         | inl e => Ok ([], Some e)
         | inr x => Ok ([x], None)
         end.
End Tracker.

(* get_fx_txs: the "Unpaired FXT" error *)
Definition unpaired_error (adj : option fxt_row) : list (N * N) :=
  match adj with
  | Some a => [(fr_row a, QErr.unpaired_fxt)]
  | None => []
  end.
