(* The remote document layer of the exchange-rate look-up:
     src/fx/io/remote_rate_loader.rs   parse_rates_json AFTER json::parse,
                                       json_value_to_decimal,
                                       json_value_to_positive_decimal,
                                       json_value_to_string
   over an abstract JSON value.  Definitions only.

   The json crate's text -> tree parsing (objects, arrays, strings, escapes,
   white space) is a stated hypothesis: the check builds the tree from the same
   text with Python's json module.  What IS modelled of the json crate:
   - Object::get / insert: of several members with one key the LAST one counts;
   - JsonValue::members(): the elements of an array, nothing for anything else;
   - numbers: a number token is kept by the json crate as (sign, u64 mantissa,
     i16 exponent) ([lex_number]: digits are taken into the mantissa while it
     is below 576460752303423500 or still fits 64 bits; further integer digits
     bump the exponent, further fraction digits are DROPPED), and
     json_value_to_decimal converts it to Decimal through its Display text
     ([number_text]: plain digits, a fixed-point text for exponents -17..-1
     (and for lower ones when the mantissa has exactly |exponent| + 1 digits),
     trailing zeros while digits + exponent <= 20, otherwise `e` notation,
     which Decimal::from_str rejects) -- not through f64.

   Decimal::from_str is [parse_dec] of Model/CrashFs.v: exact on
   `[+-] digits [. digits]` with at most 28 fractional digits and a mantissa of
   at most 2^96-1 ([dec_text_class]); outside that class rust_decimal rounds
   or accepts `_` separators, which is not modelled (the generator of the check
   stays inside).  Date::parse with "[year]-[month]-[day]" is [parse_date]. *)
From Coq Require Import List NArith ZArith QArith Qcanon Bool.
From ACB Require Import Base.Outcome Base.QcExtra Base.Fit Base.Arith
     Model.Rates Model.CrashFs.
Import ListNotations.
Local Open Scope Z_scope.

Inductive jv : Type :=
| JNull
| JBool (b : bool)
| JNum (text : bytes)                 (* the number token as it stands in the document *)
| JStr (s : bytes)                    (* the string's content (UTF-8, escapes resolved) *)
| JArr (l : list jv)
| JObj (l : list (bytes * jv)).       (* members in document order, duplicates included *)

Fixpoint beq (a b : bytes) : bool :=
  match a, b with
  | [], [] => true
  | x :: s, y :: t => (x =? y)%N && beq s t
  | _, _ => false
  end.

(* Object::get after the parser's insert of every member: the last one of a key wins *)
Fixpoint obj_get (k : bytes) (l : list (bytes * jv)) : option jv :=
  match l with
  | [] => None
  | (k', v) :: t =>
      match obj_get k t with
      | Some x => Some x
      | None => if beq k' k then Some v else None
      end
  end.

Definition members (v : jv) : list jv := match v with JArr l => l | _ => [] end.

(* keys *)
Definition K_OBSERVATIONS : bytes := [111; 98; 115; 101; 114; 118; 97; 116; 105; 111; 110; 115]%N.
Definition K_D : bytes := [100]%N.
Definition K_V : bytes := [118]%N.
Definition K_NOON : bytes := [73; 69; 88; 69; 48; 49; 48; 49]%N.      (* IEXE0101 *)
Definition K_DAILY : bytes := [70; 88; 67; 65; 68; 85; 83; 68]%N.     (* FXCADUSD *)

(* ------------------------------------------------------------ number tokens *)
Definition MAXP : Z := 576460752303423500.          (* parser.rs MAX_PRECISION *)
Definition U64MAX : Z := 18446744073709551615.
Definition sat16 (z : Z) : Z := Z.max (-32768) (Z.min 32767 z).

(* expect_number! / read_big_number: the digits of the integer part after the
   first one; [big]: the mantissa has reached MAX_PRECISION *)
Fixpoint lex_int (ds : bytes) (num e : Z) (big : bool) : Z * Z :=
  match ds with
  | [] => (num, e)
  | b :: t =>
      let d := dval b in
      if big || (MAXP <=? num) then
        if num * 10 + d <=? U64MAX then lex_int t (num * 10 + d) e true
        else lex_int t num (e + 1) true
      else lex_int t (num * 10 + d) e false
  end.

(* expect_fraction! *)
Fixpoint lex_frac (ds : bytes) (num e : Z) : Z * Z :=
  match ds with
  | [] => (num, e)
  | b :: t =>
      let d := dval b in
      if (num <? MAXP) || (num * 10 + d <=? U64MAX) then lex_frac t (num * 10 + d) (e - 1)
      else lex_frac t num e
  end.

(* expect_exponent: i16 with saturating_mul / saturating_add *)
Fixpoint lex_exp (ds : bytes) (acc : Z) : Z :=
  match ds with
  | [] => acc
  | b :: t => lex_exp t (Z.min 32767 (Z.min 32767 (acc * 10) + dval b))
  end.

Fixpoint split_e (bs : bytes) : bytes * option bytes :=
  match bs with
  | [] => ([], None)
  | b :: t =>
      if ((b =? 101) || (b =? 69))%N then ([], Some t)
      else let '(x, r) := split_e t in (b :: x, r)
  end.

Definition all_digits (bs : bytes) : bool := nonempty bs && forallb is_digit bs.

(* a JSON number token -> (negative, mantissa, exponent) as json::Number holds
   it; None: not a JSON number token (json::parse fails on such a document) *)
Definition lex_number (t : bytes) : option (bool * Z * Z) :=
  let '(neg, u) := match t with
                   | b :: r => if (b =? DASH)%N then (true, r) else (false, t)
                   | [] => (false, [])
                   end in
  let '(mant, ex) := split_e u in
  let '(ip, fr) := split_first DOT mant in
  let ex_ok :=
    match ex with
    | None => Some 0
    | Some x =>
        match x with
        | s :: r =>
            if (s =? DASH)%N then (if all_digits r then Some (- lex_exp r 0) else None)
            else if (s =? PLUS)%N then (if all_digits r then Some (lex_exp r 0) else None)
            else if all_digits x then Some (lex_exp x 0) else None
        | [] => None
        end
    end in
  match ip, ex_ok with
  | d0 :: rest, Some e2 =>
      if all_digits ip && (negb (d0 =? 48)%N || match rest with [] => true | _ => false end)
         && match fr with Some f => all_digits f | None => true end
      then
        let '(n1, e1) := lex_int rest (dval d0) 0 false in
        let '(n2, e3) := match fr with Some f => lex_frac f n1 e1 | None => (n1, e1) end in
        Some (neg, n2, sat16 (e3 + e2))
      else None
  | _, _ => None
  end.

(* Number's Display (util/print_dec.rs); None: `e` notation *)
Definition number_text (neg : bool) (n e : Z) : option bytes :=
  let sign := if neg then [DASH] else [] in
  if n =? 0 then Some (sign ++ [digit 0])
  else if e =? 0 then Some (sign ++ digits_of n)
  else if e <? 0 then
    (* fixed point for exponents -17..-1; from -18 on the digits are printed as
       d.ddd with an `e` part, which is omitted when it is e0: exactly when the
       mantissa has |e| + 1 digits, and then the text is the fixed-point one *)
    (if (- e <? 18) || ((10 <=? n) && (Z.of_nat (length (digits_of n)) - 1 =? - e))
     then Some (sign ++ render_dec (n, Z.to_nat (- e))) else None)
  else if Z.of_nat (length (digits_of n)) + e <=? 20
       then Some (sign ++ digits_of n ++ repeat (digit 0) (Z.to_nat e))
       else None.

(* ------------------------------------------------------------ values *)
(* json_value_to_decimal: strings through Decimal::from_str, numbers through
   their Display text and Decimal::from_str, anything else is an error *)
Definition to_decimal (v : jv) : option Qc :=
  match v with
  | JStr s => parse_dec s
  | JNum t =>
      match lex_number t with
      | Some (neg, n, e) =>
          match number_text neg n e with
          | Some s => parse_dec s
          | None => None
          end
      | None => None
      end
  | _ => None
  end.

(* json_value_to_positive_decimal: is_sign_positive && !is_zero *)
Definition to_positive_decimal (v : jv) : option Qc :=
  match to_decimal v with
  | Some q => if Qcltb 0%Qc q then Some q else None
  | None => None
  end.

(* parse_rate_value(key): absent / unusable (container not an object, no "v",
   not a positive decimal) / the value *)
Definition rate_value (key : bytes) (o : list (bytes * jv)) : jval :=
  match obj_get key o with
  | None => JAbsent
  | Some (JObj c) =>
      match obj_get K_V c with
      | None => JBad
      | Some x => match to_positive_decimal x with Some q => JGood q | None => JBad end
      end
  | Some _ => JBad
  end.

(* one member of "observations" as the loop body sees it *)
Definition obs_of_jv (v : jv) : obs :=
  match v with
  | JObj o =>
      {| o_date := match obj_get K_D o with
                   | Some (JStr s) => parse_date s
                   | _ => None            (* missing, or not a string *)
                   end;
         o_noon := rate_value K_NOON o;
         o_daily := rate_value K_DAILY o |}
  | _ => {| o_date := None; o_noon := JAbsent; o_daily := JAbsent |}   (* "Non-object found in observations" *)
  end.

(* the members the loop runs over; None: the document is rejected as a whole
   ("Root was not of type object", "Did not find 'observations'") *)
Definition doc_observations (root : jv) : option (list jv) :=
  match root with
  | JObj o => match obj_get K_OBSERVATIONS o with Some x => Some (members x) | None => None end
  | _ => None
  end.

(* parse_rates_json after json::parse: None = Err, Some r = Ok with the rates
   [parse_all] (Model/Rates.v) makes of the per-observation views, in
   document order, duplicates kept *)
Definition parse_doc (root : jv) : option (res (list drate)) :=
  option_map (fun l => parse_all (map obs_of_jv l)) (doc_observations root).

(* texts on which Decimal::from_str is modelled exactly *)
Definition dec_text_class (s : bytes) : bool :=
  let u := match s with
           | b :: r => if ((b =? DASH) || (b =? PLUS))%N then r else s
           | [] => []
           end in
  let '(ip, r) := split_first DOT u in
  let fp := match r with Some f => f | None => [] end in
  forallb is_digit ip && forallb is_digit fp && (length fp <=? 28)%nat
  && match num_of (ip ++ fp) with Some m => m <=? max_mant | None => false end.

(* ---- the Bank of Canada layout ---- *)
(* one observation: {"d": "<date>", "<series>": {"v": "<value>"}} *)
Definition boc_obs (daily : bool) (x : Z * dec_t) : jv :=
  JObj [ (K_D, JStr (render_date (fst x)));
         (if daily then K_DAILY else K_NOON, JObj [(K_V, JStr (render_dec (snd x)))]) ].
(* the document: any members that are not "observations", then the list *)
Definition boc_doc (pre : list (bytes * jv)) (daily : bool) (l : list (Z * dec_t)) : jv :=
  JObj (pre ++ [(K_OBSERVATIONS, JArr (map (boc_obs daily) l))]).
