(* C20 (text layer): src/peripheral/questrade_statement_fmv_impl.rs
     the three line regexes (lines 42-55) as hand-written matchers,
     FmvParseSm (lines 57-212), parse_fmvs_from_page, parse_statement_text
     (lines 248-303).
   Text is a list of Unicode scalar values; see Model/QText.v for the
   character classes and what is not modelled (non-ASCII decimal digits in
   \d, non-ASCII case mapping).  Definitions only. *)
From Coq Require Import List NArith ZArith QArith Qcanon Bool.
From ACB Require Import Base.Outcome Base.QcExtra Base.Fit Model.QText.
Import ListNotations.
Local Open Scope N_scope.

Module FErr.
  Definition no_total : N := 201.     (* "No header or allocation total line found" *)
  Definition no_data : N := 202.      (* "Unable to parse allocation and FMV from ..." *)
  Definition bad_alloc : N := 203.    (* "Unable to parse allocation from ..." *)
  Definition bad_fmv : N := 204.      (* "Unable to parse FMV from ..." *)
  Definition no_month : N := 205.     (* "Could not find month" *)
  Definition no_fmvs : N := 206.      (* "Did not find FMVs in statement" *)
  Definition bad_year : N := 207.     (* year.parse::<i32>() failed *)
  Definition bad_day : N := 208.      (* day.parse::<u8>() failed *)
  Definition bad_date : N := 209.     (* Date::from_calendar_date failed *)
End FErr.

(* ---- str::lines ---- *)
(* split_inclusive('\n'); a line that ended in '\n' loses it and then one
   trailing '\r'; a final piece without '\n' is kept as it is *)
Definition strip_cr_rev (racc : text) : text :=
  match racc with
  | 13 :: a => rev a
  | _ => rev racc
  end.

Fixpoint lines_aux (racc : text) (s : text) : list text :=
  match s with
  | [] => match racc with [] => [] | _ => [rev racc] end
  | c :: r => if c =? 10 then strip_cr_rev racc :: lines_aux [] r else lines_aux (c :: racc) r
  end.
Definition lines (s : text) : list text := lines_aux [] s.

(* ---- TOTAL_ROW_RE  ^\s*100.00?\s+(\d[0-9,\.]+)\s*$ ---- *)
Definition is_num_char (c : N) : bool := is_digit c || is_dot c || is_comma c.
Definition is_numdot_char (c : N) : bool := is_digit c || is_dot c.

(* \d[0-9,\.]+ *)
Definition total_tok_ok (t : text) : bool :=
  match t with
  | c :: (_ :: _) as r => is_digit c && forallb is_num_char r
  | _ => false
  end.

Definition match_total (line : text) : option text :=
  match skip_spaces line with
  | 49 :: 48 :: 48 :: c :: 48 :: r =>
      if c =? 10 then None else
      let r1 := match r with 48 :: r' => r' | _ => r end in
      match r1 with
      | sp :: _ =>
          if is_space sp then
            let '(tok, rest) := span_nonspace (skip_spaces r1) in
            if total_tok_ok tok && is_blank rest then Some tok else None
          else None
      | [] => None
      end
  | _ => None
  end.

(* ---- SEC_FIRST_ROW_RE:  ^ \s* <U+25A0> \s* ( \S . * ) \s* $  ---- *)
Fixpoint span_no_nl (s : text) : text * text :=
  match s with
  | c :: r => if c =? 10 then ([], s) else let '(t, rest) := span_no_nl r in (c :: t, rest)
  | [] => ([], [])
  end.

Definition match_first_row (line : text) : option text :=
  match skip_spaces line with
  | c :: r =>
      if c =? c_bullet then
        match skip_spaces r with
        | [] => None
        | body =>
            let '(cap, rest) := span_no_nl body in
            if is_blank rest then Some cap else None
        end
      else None
  | [] => None
  end.

(* ---- SEC_DATA_RE
   ^ \s* (?P<desc> \S ( . * \S )? ) \s+ (?P<alloc> \d [0-9\.]+ ) \s+ (?P<fmv> \d [0-9,\.] * ) \s* $ ---- *)
Definition alloc_tok_ok (t : text) : bool :=
  match t with
  | c :: (_ :: _) as r => is_digit c && forallb is_numdot_char r
  | _ => false
  end.
Definition fmv_tok_ok (t : text) : bool :=
  match t with
  | c :: r => is_digit c && forallb is_num_char r
  | [] => false
  end.

Definition starts_with_space (s : text) : bool :=
  match s with c :: _ => is_space c | [] => false end.

(* the matcher works from the end of the text: fmv and alloc are the last two
   whitespace-delimited tokens, desc is what precedes them, trimmed *)
Definition match_data (s : text) : option (text * text * text) :=
  let r1 := skip_spaces (rev s) in
  let '(fmv_r, r2) := span_nonspace r1 in
  if negb (fmv_tok_ok (rev fmv_r)) then None else
  if negb (starts_with_space r2) then None else
  let '(alloc_r, r4) := span_nonspace (skip_spaces r2) in
  if negb (alloc_tok_ok (rev alloc_r)) then None else
  if negb (starts_with_space r4) then None else
  let desc := skip_spaces (rev (skip_spaces r4)) in
  match desc with
  | [] => None
  | _ => if existsb (N.eqb 10) desc then None else Some (desc, rev alloc_r, rev fmv_r)
  end.

(* ---- numbers ---- *)
Definition parse_alloc (t : text) : res Qc :=
  if plain_num_ok t then Ok (plain_num_value t) else Rej (RejOther FErr.bad_alloc).
Definition parse_large (t : text) : res Qc :=
  let s := strip_commas t in
  if plain_num_ok s then Ok (plain_num_value s) else Rej (RejOther FErr.bad_fmv).

(* ---- FmvParseSm ---- *)
Record fmv := { f_desc : text; f_alloc : Qc; f_fmv : Qc }.

Definition security_text_to_fmv (s : text) : res fmv :=
  match match_data s with
  | Some (desc, alloc, fm) =>
      a <- parse_alloc alloc ;;
      f <- parse_large fm ;;
      Ok {| f_desc := desc; f_alloc := a; f_fmv := f |}
  | None => Rej (RejOther FErr.no_data)
  end.

Inductive sm_state := LookHeader | LookFirst | Gather.
Record sm := { sm_fmvs : list fmv; sm_state_of : sm_state; sm_desc : text }.

Definition sm_init : sm := {| sm_fmvs := []; sm_state_of := LookHeader; sm_desc := [] |}.

Definition finalize (m : sm) : res sm :=
  f <- security_text_to_fmv (sm_desc m) ;;
  Ok {| sm_fmvs := sm_fmvs m ++ [f]; sm_state_of := sm_state_of m; sm_desc := sm_desc m |}.

Definition gather_security_line (m : sm) (line : text) : res sm :=
  match match_first_row line with
  | Some cap =>
      m1 <- (match sm_desc m with [] => Ok m | _ => finalize m end) ;;
      Ok {| sm_fmvs := sm_fmvs m1; sm_state_of := sm_state_of m1; sm_desc := cap |}
  | None =>
      if is_blank line then Ok m
      else Ok {| sm_fmvs := sm_fmvs m; sm_state_of := sm_state_of m;
                 sm_desc := sm_desc m ++ 32 :: trim line |}
  end.

(* gather_total_line: the caller has matched TOTAL_ROW_RE *)
Definition gather_total_line (line : text) : res Qc :=
  match match_total line with
  | Some tok => parse_large tok
  | None => Panic (PanicMissing 310)   (* captures(line).unwrap(): unreachable *)
  end.

Inductive step_res :=
| Cont (m : sm)
| Done (fmvs : list fmv) (total : Qc)
| Stop (r : res (list fmv * Qc)).   (* an error *)

Definition with_state (m : sm) (s : sm_state) : sm :=
  {| sm_fmvs := sm_fmvs m; sm_state_of := s; sm_desc := sm_desc m |}.

Definition lift {A} (r : res A) (k : A -> step_res) : step_res :=
  match r with
  | Ok a => k a
  | Rej e => Stop (Rej e)
  | Panic p => Stop (Panic p)
  end.

Definition is_total (line : text) : bool :=
  match match_total line with Some _ => true | None => false end.

(* one non-blank line *)
Definition step (m : sm) (line : text) : step_res :=
  match sm_state_of m with
  | LookHeader =>
      if contains t_ALLOCATION line then Cont (with_state m LookFirst) else Cont m
  | LookFirst =>
      if existsb (N.eqb c_bullet) line then
        lift (gather_security_line (with_state m Gather) line) Cont
      else if is_total line then
        lift (gather_total_line line) (fun t => Done (sm_fmvs m) t)
      else Cont m
  | Gather =>
      if is_total line then
        match finalize m with
        | Ok m1 => lift (gather_total_line line) (fun t => Done (sm_fmvs m1) t)
        | _ => lift (gather_security_line m line) Cont
        end
      else lift (gather_security_line m line) Cont
  end.

Fixpoint run_lines (m : sm) (ls : list text) : res (list fmv * Qc) :=
  match ls with
  | [] => Rej (RejOther FErr.no_total)
  | l :: r =>
      if is_blank l then run_lines m r
      else match step m l with
           | Cont m' => run_lines m' r
           | Done f t => Ok (f, t)
           | Stop e => e
           end
  end.

Definition parse_page (page : text) : res (list fmv * Qc) := run_lines sm_init (lines page).

(* ---- parse_statement_text ---- *)
(* Securities\s+Owned\s+Combined\s+in\s+\(CAD\) *)
Definition t_Securities : text := [83; 101; 99; 117; 114; 105; 116; 105; 101; 115].
Definition t_Owned : text := [79; 119; 110; 101; 100].
Definition t_Combined : text := [67; 111; 109; 98; 105; 110; 101; 100].
Definition t_in : text := [105; 110].
Definition t_CAD_paren : text := [40; 67; 65; 68; 41].

(* literal followed by \s+ *)
Definition lit_then_spaces (litr : text) (s : text) : option text :=
  match strip_prefix litr s with
  | Some r => if starts_with_space r then Some (skip_spaces r) else None
  | None => None
  end.

Definition marker_at (s : text) : bool :=
  match lit_then_spaces t_Securities s with
  | Some r1 =>
      match lit_then_spaces t_Owned r1 with
      | Some r2 =>
          match lit_then_spaces t_Combined r2 with
          | Some r3 =>
              match lit_then_spaces t_in r3 with
              | Some r4 => starts_with t_CAD_paren r4
              | None => false
              end
          | None => false
          end
      | None => false
      end
  | None => false
  end.

Fixpoint has_marker (s : text) : bool :=
  marker_at s || match s with [] => false | _ :: r => has_marker r end.

(* (?i)\bCurrent month:\s+(?P<month>\S+) (?P<day>\d+), (?P<year>\d+) *)
Definition t_current_month : text :=   (* lower case *)
  [99; 117; 114; 114; 101; 110; 116; 32; 109; 111; 110; 116; 104; 58].

(* \w restricted to what is modelled: ASCII letters, digits, '_' and the
   Latin-1 letters *)
Definition is_word (c : N) : bool :=
  is_digit c || ((65 <=? c) && (c <=? 90)) || ((97 <=? c) && (c <=? 122)) || (c =? 95)
  || (c =? 170) || (c =? 181) || (c =? 186)
  || ((192 <=? c) && (c <=? 214)) || ((216 <=? c) && (c <=? 246)) || ((248 <=? c) && (c <=? 255)).

Fixpoint strip_prefix_ci (p s : text) : option text :=
  match p, s with
  | [], _ => Some s
  | x :: p', y :: s' => if x =? lower_c y then strip_prefix_ci p' s' else None
  | _ :: _, [] => None
  end.

(* match starting exactly at s (the word boundary is checked by the caller) *)
Definition month_at (s : text) : option (text * text * text) :=
  match strip_prefix_ci t_current_month s with
  | Some r =>
      if starts_with_space r then
        let '(month, r1) := span_nonspace (skip_spaces r) in
        match r1 with
        | 32 :: r2 =>
            let '(day, r3) := span_digits r2 in
            match day, r3 with
            | _ :: _, 44 :: 32 :: r4 =>
                let '(year, _) := span_digits r4 in
                match year with
                | _ :: _ => Some (month, day, year)
                | [] => None
                end
            | _, _ => None
            end
        | _ => None
        end
      else None
  | None => None
  end.

(* leftmost match; [prev_word] = the previous character is a word character *)
Fixpoint find_month_aux (prev_word : bool) (s : text) : option (text * text * text) :=
  match (if prev_word then None else month_at s) with
  | Some m => Some m
  | None =>
      match s with
      | [] => None
      | c :: r => find_month_aux (is_word c) r
      end
  end.
Definition find_month (page : text) : option (text * text * text) := find_month_aux false page.

Definition t3 (a b c : N) : text := [a; b; c].
Definition parse_month (m : text) : option N :=
  let t := trim (lower m) in
  if starts_with (t3 106 97 110) t then Some 1
  else if starts_with (t3 102 101 98) t then Some 2
  else if starts_with (t3 109 97 114) t then Some 3
  else if starts_with (t3 97 112 114) t then Some 4
  else if starts_with (t3 109 97 121) t then Some 5
  else if starts_with (t3 106 117 110) t then Some 6
  else if starts_with (t3 106 117 108) t then Some 7
  else if starts_with (t3 97 117 103) t then Some 8
  else if starts_with (t3 115 101 112) t then Some 9
  else if starts_with (t3 111 99 116) t then Some 10
  else if starts_with (t3 110 111 118) t then Some 11
  else if starts_with (t3 100 101 99) t then Some 12
  else None.

Definition is_leap (y : N) : bool :=
  ((y mod 4 =? 0) && negb (y mod 100 =? 0)) || (y mod 400 =? 0).
Definition days_in_month (y m : N) : N :=
  match m with
  | 2 => if is_leap y then 29 else 28
  | 4 | 6 | 9 | 11 => 30
  | _ => 31
  end.

(* Date::from_calendar_date (time crate without large-dates: |year| <= 9999) *)
Definition valid_date (y m d : N) : bool :=
  (y <=? 9999) && (1 <=? m) && (m <=? 12) && (1 <=? d) && (d <=? days_in_month y m).

Definition date3 := (N * N * N)%type.

Definition month_date_of (page : text) : res (option date3) :=
  match find_month page with
  | Some (mt, dt, yt) =>
      match parse_month mt with
      | Some m =>
          let y := digits_value yt in
          let d := digits_value dt in
          if 2147483647 <? y then Rej (RejOther FErr.bad_year)
          else if 255 <? d then Rej (RejOther FErr.bad_day)
          else if valid_date y m d then Ok (Some (y, m, d))
          else Rej (RejOther FErr.bad_date)
      | None => Ok None
      end
  | None => Ok None
  end.

Record statement := { st_month : date3; st_fmvs : list fmv; st_total : Qc }.

Fixpoint parse_statement_aux (month : option date3) (pages : list text) : res statement :=
  match pages with
  | [] => Rej (RejOther FErr.no_fmvs)
  | p :: r =>
      month' <- (match month with
                 | Some _ => Ok month
                 | None => month_date_of p
                 end) ;;
      if has_marker p then
        '(fmvs, total) <- parse_page p ;;
        match month' with
        | Some md => Ok {| st_month := md; st_fmvs := fmvs; st_total := total |}
        | None => Rej (RejOther FErr.no_month)
        end
      else parse_statement_aux month' r
  end.

Definition parse_statement_text (pages : list text) : res statement :=
  parse_statement_aux None pages.
