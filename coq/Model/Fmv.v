(* stub: to be written by group Questrade *)
