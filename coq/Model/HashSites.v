(* Models of the places where the code iterates a HashMap / HashSet and the
   result reaches standard output or an output file (property C09).  The
   iteration order of a hash container differs from process to process: each
   function takes it as an explicit list [order] (an arbitrary permutation of
   the keys).  "..._now" is the code as it is: after the C09 fixes every such
   loop runs over the sorted keys.  Definitions only. *)
From Coq Require Import List NArith ZArith QArith Qcanon Bool.
From ACB Require Import Base.Outcome Base.QcExtra Base.Arith Model.Tx Model.Costs.
Import ListNotations.
Local Open Scope Z_scope.

(* a running decimal total: `total += x` for x in the given order
   (cumulative_gains.rs calc_cumulative_capital_gains,
    superficial_loss.rs buying_affiliate_split_adjusted_shares_at_eop_total) *)
Definition sum_in_order (A : arith) (vs : list Qc) : res Qc :=
  mfold (fun t x => a_add A t x) vs 0%Qc.

(* insertion sort of an association list by its (distinct) keys *)
Fixpoint kinsert {V : Type} (x : N * V) (l : list (N * V)) : list (N * V) :=
  match l with
  | [] => [x]
  | h :: r => if N.leb (fst x) (fst h) then x :: l else h :: kinsert x r
  end.
Definition ksort {V : Type} (l : list (N * V)) : list (N * V) := fold_right kinsert [] l.

(* cumulative_gains.rs calc_cumulative_capital_gains: per security
   (total, per-year totals); [m] lists the map's entries in hash order.
   The per-year map is accumulated entry by entry. *)
Definition year_acc (A : arith) (acc : list (Z * Qc)) (yg : Z * Qc) : res (list (Z * Qc)) :=
  let '(y, g) := yg in
  let sofar := match zlookup y acc with Some v => v | None => 0%Qc end in
  v <- a_add A sofar g ;; Ok (zupdate y v acc).
(* calc_security_cumulative_capital_gains: the gains of one security's deltas
   (year of settlement, gain), in list order *)
Definition sec_gains (A : arith) (l : list (Z * Qc)) : res (Qc * list (Z * Qc)) :=
  mfold (fun st yg => tot' <- a_add A (fst st) (snd yg) ;;
                      years' <- year_acc A (snd st) yg ;;
                      Ok (tot', years')) l (0%Qc, []).
Definition gains_step (A : arith) (st : Qc * list (Z * Qc)) (e : N * (Qc * list (Z * Qc)))
  : res (Qc * list (Z * Qc)) :=
  let '(tot, years) := st in
  let '(_, (g, ys)) := e in
  tot' <- a_add A tot g ;;
  years' <- mfold (year_acc A) ys years ;;
  Ok (tot', years').
Definition gains_in_order (A : arith) (m : list (N * (Qc * list (Z * Qc)))) : res (Qc * list (Z * Qc)) :=
  mfold (gains_step A) m (0%Qc, []).
(* what is printed: the total and the per-year totals looked up by sorted year *)
Definition gains_view (r : Qc * list (Z * Qc)) : Qc * list (Z * Qc) :=
  (fst r, map (fun y => (y, match zlookup y (snd r) with Some v => v | None => 0%Qc end))
              (zsort (map fst (snd r)))).
Definition gains_out (A : arith) (m : list (N * (Qc * list (Z * Qc)))) : res (Qc * list (Z * Qc)) :=
  r <- gains_in_order A m ;; Ok (gains_view r).
Definition gains_now (A : arith) (m : list (N * (Qc * list (Z * Qc)))) := gains_out A (ksort m).

(* superficial_loss.rs: total of the buying affiliates' shares *)
Definition buyers_total_now (A : arith) (m : list (N * Qc)) : res Qc :=
  sum_in_order A (map snd (ksort m)).

(* splits.rs replace_global_security_splits: one row per affiliate, in the
   iteration order over the affiliate set *)
Definition expand_split {T : Type} (mk : N -> T) (order : list N) : list T := map mk order.
Definition expand_split_now {T : Type} (mk : N -> T) (afs : list N) : list T := expand_split mk (nsort afs).

(* approot.rs: order of the "ignored transaction" notes = order of all_deltas *)
Definition notes_in_order (order : list N) (by_sec : list (N * list note)) : list note :=
  flat_map (fun s => match alookup s by_sec with Some l => l | None => [] end) order.
Definition notes_now (by_sec : list (N * list note)) : list note :=
  notes_in_order (nsort (map fst by_sec)) by_sec.

(* costs.rs calc_yearly_max_cost_day on day totals: Model.Costs.yearly_picks
   with [order]; the yearly table then shows the chosen day of each year *)
Definition days_of_totals (l : list (Z * Qc)) : list (Z * dayrec) :=
  map (fun x => (fst x, {| dr_total := snd x; dr_costs := [] |})) l.
Definition yearly_choice (order : list Z) (totals : list (Z * Qc)) : res (list (Z * Z)) :=
  p <- yearly_picks order (days_of_totals totals) ;;
  Ok (map (fun y => (y, match zlookup y p with Some d => d | None => 0 end)) (zsort (map fst p))).
Definition yearly_choice_now (totals : list (Z * Qc)) : res (list (Z * Z)) :=
  yearly_choice (zsort (map fst totals)) totals.
