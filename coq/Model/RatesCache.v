(* Model of RateLoader (src/fx/io/rate_loader.rs) with its cache
   (src/fx/io/rates_cache.rs: InMemoryRatesCache, or CsvRatesCache whose text
   round trip is the subject of Model/CrashFs.v) as a state machine over
   look-ups inside a run and over runs.  Definitions only.

   A Rust `Err` of a look-up does not roll the loader state back, so the state
   is threaded through errors; only a panic ends everything ([Panic]). *)
From Coq Require Import List NArith ZArith QArith Qcanon Bool.
From ACB Require Import Base.Outcome Base.QcExtra Base.Fit Base.Arith Model.Rates.
Import ListNotations.
Local Open Scope Z_scope.

(* association lists keyed by year: insertion conses, first match wins *)
Fixpoint aget {A} (y : Z) (l : list (Z * A)) : option A :=
  match l with
  | [] => None
  | (y', v) :: t => if y' =? y then Some v else aget y t
  end.
Fixpoint zmem (y : Z) (l : list Z) : bool :=
  match l with [] => false | x :: t => (x =? y) || zmem y t end.

(* what a run is given *)
Record env : Type := {
  e_today : Z;                     (* today_local() *)
  e_force : bool;                  (* RateLoader.force_download *)
  e_remote : Z -> list obs         (* observations the Bank of Canada returns for a year *)
}.

Record st : Type := {
  s_years : list (Z * list drate);   (* RateLoader.year_rates (each map as the Vec it was made from) *)
  s_fresh : list Z;                  (* RateLoader.fresh_loaded_years *)
  s_cache : list (Z * list drate);   (* the RatesCache: year -> Vec<DailyRate> *)
  s_dl : list Z                      (* years requested from the remote in this run, newest first *)
}.

Definition empty_st : st := {| s_years := []; s_fresh := []; s_cache := []; s_dl := [] |}.
(* a new process over the same cache *)
Definition new_run (s : st) : st :=
  {| s_years := []; s_fresh := []; s_cache := s_cache s; s_dl := [] |}.

Inductive lerr : Type :=
| LNotYet            (* "No USD/CAD exchange rate is available for .. yet" *)
| LCacheMissing      (* "Did not find rates for .. in cache after they were downloaded" *)
| LNone7             (* "Could not find relevant exchange rate within the 7 preceding days" *)
| LLookback (e : lerr). (* "Cound not retrieve exchange rates within the 7 preceding days (..)" *)

(* get_remote_usd_cad_rates: download, fill, mark fresh, write the cache *)
Definition download (e : env) (s : st) (y : Z) : res (st * list drate) :=
  rs <- parse_all (e_remote e y) ;;
  let rates := fill rs y (e_today e) in
  Ok ({| s_years := s_years s;
         s_fresh := y :: s_fresh s;
         s_cache := (y, rates) :: s_cache s;
         s_dl := y :: s_dl s |}, rates).

(* fetch_usd_cad_rates_for_date_year *)
Definition fetch (e : env) (s : st) (d : Z) : res (st * sum lerr (list drate)) :=
  let y := year_of d in
  let dl := '(s1, rates) <- download e s y ;; Ok (s1, inr rates) in
  if e_force e then dl else
  let fresh := zmem y (s_fresh s) in
  match aget y (s_cache s) with
  | Some rates =>
      if fresh then Ok (s, inr rates)
      else if mhas d rates then Ok (s, inr rates)
      else dl
  | None => if fresh then Ok (s, inl LCacheMissing) else dl
  end.

(* get_exact_usd_cad_rate.  [reval] = the year map of a year that was taken
   from the cache (not downloaded by this process) is re-validated when the
   requested date is missing from it; [reval = false] is the code before the
   fix of C13, which validated only on the first access of a year. *)
Definition exact (reval : bool) (e : env) (s : st) (d : Z)
  : res (st * sum lerr (option drate)) :=
  let y := year_of d in
  let load :=
    '(s1, r) <- fetch e s d ;;
    match r with
    | inl err => Ok (s1, inl err)
    | inr rates =>
        Ok ({| s_years := (y, rates) :: s_years s1; s_fresh := s_fresh s1;
               s_cache := s_cache s1; s_dl := s_dl s1 |}, inr rates)
    end in
  '(s1, r) <- match aget y (s_years s) with
              | None => load
              | Some m =>
                  if reval && negb (zmem y (s_fresh s)) && negb (mhas d m) then load
                  else Ok (s, inr m)
              end ;;
  match r with
  | inl err => Ok (s1, inl err)
  | inr m =>
      match mget d m with
      | Some r => if Qceqb r 0%Qc then Ok (s1, inr None) else Ok (s1, inr (Some (d, r)))
      | None => if e_today e <=? d then Ok (s1, inl LNotYet) else Ok (s1, inr None)
      end
  end.

(* find_usd_cad_preceding_relevant_spot_rate: `for _ in 0..7` *)
Fixpoint lookback (reval : bool) (n : nat) (e : env) (s : st) (d : Z)
  : res (st * sum lerr drate) :=
  match n with
  | O => Ok (s, inl LNone7)
  | S k =>
      '(s1, r) <- exact reval e s (d - 1) ;;
      match r with
      | inl err => Ok (s1, inl (LLookback err))
      | inr (Some x) => Ok (s1, inr x)
      | inr None => lookback reval k e s1 (d - 1)
      end
  end.

(* get_effective_usd_cad_rate *)
Definition effective (reval : bool) (e : env) (s : st) (d : Z) : res (st * sum lerr drate) :=
  '(s1, r) <- exact reval e s d ;;
  match r with
  | inl err => Ok (s1, inl err)
  | inr (Some x) => Ok (s1, inr x)
  | inr None => lookback reval 7 e s1 d
  end.

(* a sequence of look-ups by one loader *)
Fixpoint lookups (reval : bool) (e : env) (s : st) (ds : list Z)
  : res (st * list (sum lerr drate)) :=
  match ds with
  | [] => Ok (s, [])
  | d :: t =>
      '(s1, a) <- effective reval e s d ;;
      '(s2, r) <- lookups reval e s1 t ;;
      Ok (s2, a :: r)
  end.

(* a history: runs (each a fresh loader over the cache the previous runs left);
   per run the answers and the download log *)
Fixpoint history (reval : bool) (s : st) (runs : list (env * list Z))
  : res (st * list (list (sum lerr drate) * list Z)) :=
  match runs with
  | [] => Ok (s, [])
  | (e, ds) :: t =>
      '(s1, a) <- lookups reval e (new_run s) ds ;;
      '(s2, r) <- history reval s1 t ;;
      Ok (s2, (a, s_dl s1) :: r)
  end.

(* ---- the application path for one file of rows (tx_loader.rs load_tx_rates
   followed by Tx::try_from for every row) ---- *)
Record row : Type := {
  r_td : Z;                         (* trade date *)
  r_cur : option currency; r_fx : option Qc;
  r_ccur : option currency; r_cfx : option Qc
}.
Inductive rows_err : Type :=
| RRate (commission : bool) (e : lerr)     (* "[Commission ]Exchange rate error: Unable to retrieve ..." *)
| RRow (commission : bool) (e : row_err).

Definition load_one (reval : bool) (e : env) (s : st) (td : Z) (cur : option currency) (fx : option Qc)
  : res (st * sum (sum lerr row_err) (option Qc)) :=
  match load_decide cur fx with
  | LKeep => Ok (s, inr fx)
  | LErr err => Ok (s, inl (inr err))
  | LLoadUsd =>
      '(s1, a) <- effective reval e s td ;;
      match a with
      | inl err => Ok (s1, inl (inl err))
      | inr (_, r) => Ok (s1, inr (Some r))
      end
  end.

Definition wrap_err (c : bool) (x : sum lerr row_err) : rows_err :=
  match x with inl e => RRate c e | inr e => RRow c e end.

(* phase 1: load_tx_rates fills the missing rates of every row, in row order *)
Fixpoint load_rows (reval : bool) (e : env) (s : st) (rs : list row)
  : res (st * sum rows_err (list row)) :=
  match rs with
  | [] => Ok (s, inr [])
  | r :: t =>
      '(s1, a) <- load_one reval e s (r_td r) (r_cur r) (r_fx r) ;;
      match a with
      | inl err => Ok (s1, inl (wrap_err false err))
      | inr fx =>
          '(s2, b) <- load_one reval e s1 (r_td r) (r_ccur r) (r_cfx r) ;;
          match b with
          | inl err => Ok (s2, inl (wrap_err true err))
          | inr cfx =>
              '(s3, rest) <- load_rows reval e s2 t ;;
              match rest with
              | inl err => Ok (s3, inl err)
              | inr l => Ok (s3, inr ({| r_td := r_td r; r_cur := r_cur r; r_fx := fx;
                                         r_ccur := r_ccur r; r_cfx := cfx |} :: l))
              end
          end
      end
  end.

(* phase 2: buy_or_sell_common_attrs_from_csv_tx; the rates attached to the
   transaction: (transaction rate, commission rate) *)
Definition row_rates (r : row) : sum rows_err (Qc * Qc) :=
  match valid_rate (r_cur r) (r_fx r) with
  | inl err => inl (RRow false err)
  | inr x =>
      let tx := match x with Some (_, q) => q | None => 1%Qc end in
      match valid_rate (r_ccur r) (r_cfx r) with
      | inl err => inl (RRow true err)
      | inr (Some (_, q)) => inr (tx, q)
      | inr None => inr (tx, tx)
      end
  end.
Fixpoint rows_rates (rs : list row) : sum rows_err (list (Qc * Qc)) :=
  match rs with
  | [] => inr []
  | r :: t =>
      match row_rates r with
      | inl err => inl err
      | inr x => match rows_rates t with inl err => inl err | inr l => inr (x :: l) end
      end
  end.

Definition app_rows (reval : bool) (e : env) (rs : list row)
  : res (sum rows_err (list (Qc * Qc))) :=
  '(_, a) <- load_rows reval e empty_st rs ;;
  match a with
  | inl err => Ok (inl err)
  | inr l => Ok (rows_rates l)
  end.
