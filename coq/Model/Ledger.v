(* AffiliatePortfolioSecurityStatuses (portfolio_status.rs) and delta_for_tx
   without its superficial-loss branch (delta_list.rs:200-418). *)
From Coq Require Import List NArith ZArith QArith Qcanon Bool.
From ACB Require Import Base.Outcome Base.QcExtra Base.Arith Model.Tx.
Import ListNotations.
Local Open Scope Qc_scope.

Record pstate : Type := {
  ps_map : list (N * status);   (* last_post_status_for_affiliate *)
  ps_all : Qc;                  (* latest_all_affiliates_share_balance *)
  ps_latest : aff               (* latest_affiliate *)
}.

Definition default_status (af : aff) : status :=
  {| s_sh := 0; s_all := 0; s_acb := if af_reg af then None else Some 0 |}.

Definition latest_for (st : pstate) (af : aff) : option status := alookup (af_id af) (ps_map st).

Definition latest_post_status (st : pstate) : status :=
  match latest_for st (ps_latest st) with
  | Some s => s
  | None => default_status (ps_latest st)
  end.

Definition next_pre_status (st : pstate) (af : aff) : status :=
  let last := match latest_for st af with Some s => s | None => default_status af end in
  if Qceqb (s_all last) (ps_all st) then last
  else {| s_sh := s_sh last; s_all := ps_all st; s_acb := s_acb last |}.

Definition is_none {T} (o : option T) : bool := match o with None => true | Some _ => false end.

Section WithArith.
  Variable A : arith.

  (* AffiliatePortfolioSecurityStatuses::all_affiliates_share_balance_after:
     the all-affiliate balance that goes with a new balance of one affiliate -
     the others' shares plus the new balance, unchanged when the affiliate's
     balance is.  The ONE expression used by the Buy, Sell and Split arms of
     delta_for_tx and by the assertion of set_latest_post_status. *)
  Definition all_after (all old new : Qc) : res Qc :=
    if Qceqb new old then Ok all
    else oth <- a_sub A all old ;; a_add A oth new.

  (* set_latest_post_status, with its two assert_eq! *)
  Definition set_latest (st : pstate) (af : aff) (v : status) : res pstate :=
    let last_sh := match latest_for st af with Some s => s_sh s | None => 0 end in
    expected <- all_after (ps_all st) last_sh (s_sh v) ;;
    if negb (Bool.eqb (af_reg af) (is_none (s_acb v))) then Panic (PanicAssert Site.set_latest_acb)
    else if negb (Qceqb (s_all v) expected) then Panic (PanicAssert Site.set_latest_all)
    else Ok {| ps_map := aupdate (af_id af) v (ps_map st);
               ps_all := s_all v;
               ps_latest := af |}.

  Definition init_state (init : option status) : res pstate :=
    let s0 := {| ps_map := []; ps_all := 0; ps_latest := default_aff |} in
    match init with
    | None => Ok s0
    | Some i =>
        if negb (Qceqb (s_sh i) (s_all i)) then Panic (PanicAssert Site.init_balance)
        else set_latest s0 default_aff i
    end.

  Definition sanity_check (pre : status) (af : aff) : res unit :=
    if Qcltb (s_all pre) (s_sh pre) then Rej RejSanityAllLower
    else if af_reg af && negb (is_none (s_acb pre)) then Rej RejSanityRegAcb
    else if negb (af_reg af) && is_none (s_acb pre) then Rej RejSanityNoAcb
    else Ok tt.

  (* PortfolioSecurityStatus::per_share_acb *)
  Definition per_share_acb (s : status) : res (option Qc) :=
    match s_acb s with
    | None => Ok None
    | Some acb =>
        if Qcltb 0 (s_sh s) then r <- gez_div A acb (s_sh s) ;; Ok (Some r)
        else Ok (Some 0)
    end.

  (* total_local_share_value: amount_per_share * shares * rate *)
  Definition local_value (sh aps rate : Qc) : res Qc :=
    v <- gez_mul A aps sh ;; gez_mul A v rate.

  (* SplitRatio::pre_to_post_factor *)
  Definition split_factor (post pre : Qc) : res Qc := pos_div A post pre.

  (* The part of a Sell arm that does not depend on the superficial-loss
     computation: new balances, new ACB, unadjusted gain. *)
  Record sellcore : Type := {
    sc_sh : Qc; sc_all : Qc; sc_acb : option Qc; sc_gain : option Qc
  }.

  Definition sell_core (pre : status) (sh aps com rate crate : Qc) : res sellcore :=
    nsh <- a_sub A (s_sh pre) sh ;;
    if Qcltb nsh 0 then Rej RejOversale else
    nall <- all_after (s_all pre) (s_sh pre) nsh ;;
    if Qcltb nall 0 then Rej RejOversaleAll else
    maps <- per_share_acb pre ;;
    match maps with
    | None => Ok {| sc_sh := nsh; sc_all := nall; sc_acb := s_acb pre; sc_gain := None |}
    | Some acbps =>
        nacb <- gez_mul A nsh acbps ;;
        v <- local_value sh aps rate ;;
        c <- gez_mul A com crate ;;
        payout <- a_sub A v c ;;
        cost <- a_mul A acbps sh ;;
        g <- a_sub A payout cost ;;
        Ok {| sc_sh := nsh; sc_all := nall; sc_acb := Some nacb; sc_gain := Some g |}
    end.

  Definition mk_delta (t : tx) (pre : status) (sh all : Qc) (acb : option Qc)
             (gain : option Qc) (sfl : option sflinfo) : delta :=
    {| d_tx := t; d_pre := pre;
       d_post := {| s_sh := sh; s_all := all; s_acb := acb |};
       d_gain := gain; d_sfl := sfl |}.

  (* all arms except Sell *)
  Definition delta_nonsell (t : tx) (pre : status) : res delta :=
    match t_act t with
    | Buy sh aps com rate crate =>
        nsh <- gez_add A (s_sh pre) sh ;;
        r <- all_after (s_all pre) (s_sh pre) nsh ;;
        nall <- gez_unwrap Site.buy_all r ;;
        match s_acb pre with
        | Some old =>
            v <- local_value sh aps rate ;;
            c <- gez_mul A com crate ;;
            price <- gez_add A v c ;;
            nacb <- gez_add A old price ;;
            Ok (mk_delta t pre nsh nall (Some nacb) None None)
        | None => Ok (mk_delta t pre nsh nall None None None)
        end
    | Roc aps rate =>
        match s_acb pre with
        | Some old =>
            if af_reg (t_af t) then Panic (PanicAssert Site.roc_assert) else
            v <- gez_mul A aps (s_sh pre) ;;
            red <- gez_mul A v rate ;;
            nacb <- a_sub A old red ;;
            if Qcltb nacb 0 then Rej RejRocExceeds
            else Ok (mk_delta t pre (s_sh pre) (s_all pre) (Some nacb) None None)
        | None =>
            if negb (af_reg (t_af t)) then Panic (PanicAssert Site.roc_assert)
            else Rej RejRocRegistered
        end
    | Sfla sh aps =>
        match s_acb pre with
        | Some old =>
            if af_reg (t_af t) then Panic (PanicAssert Site.sfla_assert) else
            m <- a_mul A sh aps ;;
            amt <- pos_unwrap Site.sfla_total m ;;
            nacb <- gez_add A old amt ;;
            Ok (mk_delta t pre (s_sh pre) (s_all pre) (Some nacb) None None)
        | None =>
            if negb (af_reg (t_af t)) then Panic (PanicAssert Site.sfla_assert)
            else Rej RejSflaRegistered
        end
    | Split post pre_ int_only =>
        m <- a_mul A (s_sh pre) post ;;
        qd <- a_div A m pre_ ;;
        nsh <- gez_unwrap Site.split_balance qd ;;
        nall <- all_after (s_all pre) (s_sh pre) nsh ;;
        if Qcltb nall 0 then Rej RejSplitAllNegative else
        if Qcltb post pre_ && int_only && negb (Qc_is_integer nsh) then Rej RejRevSplitFraction
        else Ok (mk_delta t pre nsh nall (s_acb pre) None None)
    | Sell _ _ _ _ _ _ => Rej (RejOther 0) (* not used: see DeltaList.delta_for_tx *)
    end.
End WithArith.
