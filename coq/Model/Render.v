(* portfolio/render.rs: render_tx_table_model, render_aggregate_capital_gains
   and the PrintHelper (curr_str / dollar_str / opt_dollar_str /
   curr_with_fx_str / plus_minus_dollar / plus_minus_opt_dollar), with
   util/decimal.rs dollar_precision_str, over the ledger model's deltas and
   gains record.  Definitions only (theorems: Proofs/RenderProps.v).

   The renderer computes figures itself (shares * amount, value * rate,
   cost base / balance * shares, cost base / balance, post - pre, v * -1):
   every such operation goes through the arithmetic record [A], so overflow
   and division by zero are explicit [Panic] outcomes; the guards
   is_positive(share_balance) are modelled as written.

   A cell is a structured value.  The only place where the precision mode
   ([full] = --print-full-values) acts is [curr_str], as in the Rust code: it
   returns the figure itself ([AFull q], printed by Decimal::to_string) or the
   TEXT of the figure rounded half away from zero to cents ([AText bytes],
   dollar_precision_str).  The text of a cent-rounded figure is a function of
   the VALUE only.  Decimal::to_string of a full-precision figure or of a
   share count depends on the display scale, which the value model does not
   carry: those are numeric leaves ([PNum] pieces) compared by value.

   Not modelled: the memo column's text and its wrapping (wrap_str_to_width),
   security / affiliate names (tokens), DISPLAY_OPT_NONE (a debugging
   environment variable; the checks run without it), the sign flag of a zero
   Decimal (a zero is printed without '-'). *)
From Coq Require Import List NArith ZArith QArith Qcanon Bool.
From ACB Require Import Model.CsvFields.
From ACB Require Import Base.Outcome Base.QcExtra Base.Fit Base.Arith Model.Tx Model.Ledger
     Model.DeltaList Model.App Model.Gains.
Import ListNotations.
Local Open Scope Qc_scope.

(* ------------------------------------------------------------------ text of a cent figure *)

(* round_dp_with_strategy(2, MidpointAwayFromZero), in cents *)
Definition round_cents (q : Qc) : Z := rha (Qnum (this q) * 100) (Qden (this q)).

(* the rounded Decimal: magnitude |round_cents|, scale 2; the result is built
   by Decimal::from_parts, which clears the sign of a zero magnitude: a value
   in (-0.005, 0) is printed "0.00", not "-0.00" *)
Definition cents_dec (q : Qc) : CsvFields.dec :=
  mk_dec (round_cents q <? 0)%Z (Z.to_N (Z.abs (round_cents q))) 2.

(* dollar_precision_str: format!("{:.2}", rounded) *)
Definition dollar2_text (q : Qc) : bytes := fmt_prec 2 (cents_dec q).

(* ------------------------------------------------------------------ cells *)

Inductive amount : Type :=
| AFull (q : Qc)          (* val.to_string() *)
| AText (s : bytes).      (* dollar_precision_str(&val) *)

Inductive sign : Type := SNeg | SPlus | SNone.
(* plus_minus_dollar: "-$" / "+$" / "$" then curr_str of the magnitude *)
Record pm : Type := { pm_sign : sign; pm_amt : amount }.

(* " *\n(SfL <amount><!>; <num>/<den><[1]>)" *)
Record sflnote : Type := {
  sn_amt : pm;            (* this sale's denied amount *)
  sn_forced : bool;       (* "!" : the user's value was forced *)
  sn_num : Qc;            (* ratio numerator *)
  sn_den : Qc;            (* ratio denominator *)
  sn_over : bool          (* "[1]" : potentially over-applied *)
}.

Inductive cell : Type :=
| CEmpty                                   (* "" *)
| CDash                                    (* "-" (str_for_none / unwrap_or("-")) *)
| CSec (s : N)                             (* tx.security *)
| CDate (d : Z)                            (* Date::to_string *)
| CAct (a : act)                           (* TxAction::pretty_str *)
| CAff (a : aff)                           (* tx.affiliate.name() *)
| CMemo (ri : N)                           (* wrapped memo of the row read at index ri: not modelled *)
| CShares (q : Qc)                         (* Decimal::to_string of a share count *)
| CDollar (a : amount)                     (* dollar_str *)
| CPm (p : pm)                             (* plus_minus_dollar *)
| CWithFx (loc frn : amount) (cur : bytes) (* "$loc\n(frn CUR)" *)
| CBalance (own : Qc) (all : option Qc) (factor : option Qc)
                                           (* "own" | "own / all", then " (xfactor)" for a split *)
| CGain (p : pm) (note : option sflnote).  (* capital gain and its superficial-loss suffix *)

Inductive label : Type := LTotal | LSince | LYear (y : Z).

(* render_tx_table_model's RenderTable (header is constant; errors are added
   by the caller) *)
Record table : Type := {
  tb_rows : list (list cell);
  tb_labels : list label;      (* footer[8], lines *)
  tb_values : list pm;         (* footer[9], lines *)
  tb_note_sfl : bool;          (* notes: " SfL = Superficial loss adjustment" *)
  tb_note_over : bool          (* notes: " [1] Superficial loss was potentially over-applied ..." *)
}.

(* column numbers *)
Definition col_security : nat := 0.
Definition col_trade : nat := 1.
Definition col_settle : nat := 2.
Definition col_tx : nat := 3.
Definition col_amount : nat := 4.
Definition col_shares : nat := 5.
Definition col_aps : nat := 6.
Definition col_acb : nat := 7.
Definition col_commission : nat := 8.
Definition col_gain : nat := 9.
Definition col_balance : nat := 10.
Definition col_acb_delta : nat := 11.
Definition col_new_acb : nat := 12.
Definition col_new_acb_share : nat := 13.
Definition col_affiliate : nat := 14.
Definition col_memo : nat := 15.

Definition site_render_year : N := 40.   (* render.rs:392 years_totals.get(&year).unwrap() *)

Definition act_of (a : action) : act :=
  match a with
  | Buy _ _ _ _ _ => ABuy | Sell _ _ _ _ _ _ => ASell | Roc _ _ => ARoc
  | Sfla _ _ => ASfla | Split _ _ _ => ASplit
  end.

(* TxDelta::is_superficial_loss *)
Definition is_superficial_loss (d : delta) : bool :=
  match d_sfl d with
  | Some i => negb (Qceqb (sf_amount i) 0)
  | None => false
  end.

(* capital_gains_year_totals_keys_sorted: the keys of the year map (a
   HashMap: no duplicates), ascending *)
Fixpoint insert_year (y : Z) (l : list Z) : list Z :=
  match l with
  | [] => [y]
  | h :: r => if (y =? h)%Z then l else if (y <? h)%Z then y :: l else h :: insert_year y r
  end.
Definition years_sorted (g : gains) : list Z := fold_right insert_year [] (map fst (g_years g)).

Record rstate : Type := {
  rs_rows : list (list cell);
  rs_sfl : bool;               (* saw_superficial_loss *)
  rs_over : bool               (* saw_over_applied_sfl *)
}.

Section WithArith.
  Variable A : arith.
  Variable full : bool.                   (* render_full_dollar_values *)
  (* currencies of a row: (transaction currency, commission currency as
     returned by commission_currency_and_rate()); the ledger model's rows
     carry only the rates *)
  Variable cur : tx -> bytes * bytes.

  (* PrintHelper *)
  Definition curr_str (v : Qc) : amount := if full then AFull v else AText (dollar2_text v).
  Definition dollar_str (v : Qc) : cell := CDollar (curr_str v).
  Definition opt_dollar_str (o : option Qc) : cell :=
    match o with Some v => dollar_str v | None => CDash end.
  Definition curr_with_fx (v rate : Qc) (c : bytes) : res cell :=
    if cur_is_default c then Ok (dollar_str v)
    else l <- a_mul A v rate ;; Ok (CWithFx (curr_str l) (curr_str v) c).
  Definition plus_minus (v : Qc) (show_plus : bool) : res pm :=
    if Qcltb v 0 then
      n <- a_mul A v (- (1)) ;; Ok {| pm_sign := SNeg; pm_amt := curr_str n |}
    else Ok {| pm_sign := if show_plus then SPlus else SNone; pm_amt := curr_str v |}.
  Definition plus_minus_opt (o : option Qc) (show_plus : bool) : res cell :=
    match o with
    | Some v => p <- plus_minus v show_plus ;; Ok (CPm p)
    | None => Ok CDash
    end.

  (* the first match of the loop body: the suffix of this row's capital gain *)
  Definition sfl_note (d : delta) : res (option sflnote) :=
    match t_act (d_tx d) with
    | Sell _ _ _ _ _ spec =>
        let forced := match spec with Some (_, f) => f | None => false end in
        if is_superficial_loss d then
          match d_sfl d with
          | Some i =>
              p <- plus_minus (sf_amount i) false ;;
              Ok (Some {| sn_amt := p; sn_forced := forced; sn_num := sf_num i;
                          sn_den := sf_den i; sn_over := sf_over i |})
          | None => Panic (PanicMissing 41)      (* d.sfl.as_ref().unwrap(): unreachable *)
          end
        else Ok None
    | _ => Ok None
    end.

  (* changing_new_share_balance_str *)
  Definition changing_balance (d : delta) (factor : option Qc) : cell :=
    let p := d_post d in
    CBalance (s_sh p) (if Qceqb (s_sh p) (s_all p) then None else Some (s_all p)) factor.

  Definition acb_of_sale (d : delta) (sh : Qc) : res cell :=
    if Qcltb 0 (s_sh (d_pre d)) then
      match s_acb (d_pre d) with
      | Some pre_total =>
          per_share <- a_div A pre_total (s_sh (d_pre d)) ;;
          v <- a_mul A per_share sh ;;
          Ok (dollar_str v)
      | None => Ok CDash
      end
    else Ok CDash.

  Definition gain_cell (d : delta) (note : option sflnote) : res cell :=
    match d_gain d with
    | Some g => p <- plus_minus g false ;; Ok (CGain p note)
    | None => Ok CDash
    end.

  Definition commission_cell (t : tx) (com crate : Qc) : res cell :=
    if Qceqb com 0 then Ok CDash else curr_with_fx com crate (snd (cur t)).

  Record rowparts : Type := {
    rp_amount : cell; rp_shares : Qc; rp_aps : cell; rp_acb : cell;
    rp_com : cell; rp_gain : cell; rp_bal : cell
  }.

  (* the second match of the loop body *)
  Definition row_parts (d : delta) (note : option sflnote) : res rowparts :=
    let t := d_tx d in
    match t_act t with
    | Buy sh aps com rate crate =>
        m <- a_mul A sh aps ;;
        amount <- curr_with_fx m rate (fst (cur t)) ;;
        apsc <- curr_with_fx aps rate (fst (cur t)) ;;
        comc <- commission_cell t com crate ;;
        Ok {| rp_amount := amount; rp_shares := sh; rp_aps := apsc; rp_acb := CDash;
              rp_com := comc; rp_gain := CDash; rp_bal := changing_balance d None |}
    | Sell sh aps com rate crate _ =>
        m <- a_mul A sh aps ;;
        amount <- curr_with_fx m rate (fst (cur t)) ;;
        apsc <- curr_with_fx aps rate (fst (cur t)) ;;
        acb <- acb_of_sale d sh ;;
        gain <- gain_cell d note ;;
        comc <- commission_cell t com crate ;;
        Ok {| rp_amount := amount; rp_shares := sh; rp_aps := apsc; rp_acb := acb;
              rp_com := comc; rp_gain := gain; rp_bal := changing_balance d None |}
    | Roc aps rate =>
        let shares := s_sh (d_pre d) in
        m <- a_mul A shares aps ;;
        amount <- curr_with_fx m rate (fst (cur t)) ;;
        apsc <- curr_with_fx aps rate (fst (cur t)) ;;
        Ok {| rp_amount := amount; rp_shares := shares; rp_aps := apsc; rp_acb := CDash;
              rp_com := CDash; rp_gain := CDash; rp_bal := CEmpty |}
    | Sfla sh aps =>
        m <- a_mul A sh aps ;;
        Ok {| rp_amount := dollar_str m; rp_shares := sh; rp_aps := dollar_str aps;
              rp_acb := CDash; rp_com := CDash; rp_gain := CDash; rp_bal := CEmpty |}
    | Split post pre _ =>
        shares <- a_sub A (s_sh (d_post d)) (s_sh (d_pre d)) ;;
        f <- split_factor A post pre ;;
        Ok {| rp_amount := CEmpty; rp_shares := shares; rp_aps := CEmpty; rp_acb := CDash;
              rp_com := CDash; rp_gain := CDash; rp_bal := changing_balance d (Some f) |}
    end.

  Definition acb_per_share (d : delta) : res cell :=
    if Qcltb 0 (s_sh (d_post d)) then
      match s_acb (d_post d) with
      | Some post_acb => v <- a_div A post_acb (s_sh (d_post d)) ;; Ok (dollar_str v)
      | None => Ok CDash
      end
    else Ok CDash.

  (* TxDelta::acb_delta, then plus_minus_opt_dollar(_, true) *)
  Definition acb_delta_cell (d : delta) : res cell :=
    match s_acb (d_pre d), s_acb (d_post d) with
    | Some pre, Some post => v <- a_sub A post pre ;; plus_minus_opt (Some v) true
    | _, _ => plus_minus_opt None true
    end.

  Definition render_row (d : delta) (note : option sflnote) : res (list cell) :=
    let t := d_tx d in
    p <- row_parts d note ;;
    aps <- acb_per_share d ;;
    dl <- acb_delta_cell d ;;
    Ok [CSec (t_sec t); CDate (t_td t); CDate (t_sd t); CAct (act_of (t_act t));
        rp_amount p; CShares (rp_shares p); rp_aps p; rp_acb p; rp_com p; rp_gain p; rp_bal p;
        dl; opt_dollar_str (s_acb (d_post d)); aps; CAff (t_af t); CMemo (t_ri t)].

  (* one iteration of `for d in deltas` *)
  Definition render_step (st : rstate) (d : delta) : res rstate :=
    note <- sfl_note d ;;
    let over := match note with Some n => sn_over n | None => false end in
    let st1 := match note with
               | Some n => {| rs_rows := rs_rows st; rs_sfl := true; rs_over := rs_over st || sn_over n |}
               | None => st
               end in
    row <- render_row d note ;;
    Ok {| rs_rows := rs_rows st1 ++ [row]; rs_sfl := rs_sfl st1; rs_over := rs_over st1 |}.

  Fixpoint render_loop (st : rstate) (ds : list delta) : res rstate :=
    match ds with
    | [] => Ok st
    | d :: r => st' <- render_step st d ;; render_loop st' r
    end.

  Fixpoint year_values (g : gains) (ys : list Z) : res (list pm) :=
    match ys with
    | [] => Ok []
    | y :: r =>
        v <- match zlookup y (g_years g) with
             | Some v => Ok v
             | None => Panic (PanicMissing site_render_year)
             end ;;
        p <- plus_minus v false ;;
        rest <- year_values g r ;;
        Ok (p :: rest)
    end.

  (* render_tx_table_model *)
  Definition render_table (ds : list delta) (g : gains) : res table :=
    st <- render_loop {| rs_rows := []; rs_sfl := false; rs_over := false |} ds ;;
    let years := years_sorted g in
    yv <- year_values g years ;;
    total <- plus_minus (g_total g) false ;;
    Ok {| tb_rows := rs_rows st;
          tb_labels := LTotal :: map LYear years;
          tb_values := total :: yv;
          tb_note_sfl := rs_sfl st;
          tb_note_over := rs_over st |}.

  (* render_aggregate_capital_gains: rows (label, figure) *)
  Definition render_aggregate (g : gains) : res (list (label * pm)) :=
    let years := years_sorted g in
    yv <- year_values g years ;;
    total <- plus_minus (g_total g) false ;;
    Ok (combine (map LYear years) yv ++ [(LSince, total)]).

  (* ---- run_acb_app_to_render_model after the ledger: per-security gains of
     the error-free securities, their aggregate (securities in sorted
     order), a table per security (the rows produced before an error are
     shown with empty totals), the aggregate table ---- *)
  Definition sec_result : Type := (N * (list delta * option stop))%type.

  Fixpoint first_panic (l : list sec_result) : option panic :=
    match l with
    | [] => None
    | (_, (_, Some (SPanic p))) :: _ => Some p
    | _ :: r => first_panic r
    end.

  Fixpoint all_sec_gains (l : list sec_result) : res (list (option gains)) :=
    match l with
    | [] => Ok []
    | (_, (ds, None)) :: r =>
        g <- security_gains A gains0 (gain_rows ds) ;;
        rest <- all_sec_gains r ;; Ok (Some g :: rest)
    | (_, (_, Some _)) :: r => rest <- all_sec_gains r ;; Ok (None :: rest)
    end.

  Definition some_gains (l : list (option gains)) : list gains :=
    flat_map (fun o => match o with Some g => [g] | None => [] end) l.

  Fixpoint render_tables (l : list sec_result) (gs : list (option gains))
    : res (list (N * option stop * table)) :=
    match l, gs with
    | (s, (ds, o)) :: r, g :: gr =>
        t <- render_table ds (match g with Some g' => g' | None => gains0 end) ;;
        rest <- render_tables r gr ;;
        Ok ((s, o, t) :: rest)
    | _, _ => Ok []
    end.

  Record report : Type := {
    rp_tables : list (N * option stop * table);
    rp_aggregate : list (label * pm)
  }.

  Definition render_results (secs : list sec_result) : res report :=
    match first_panic secs with
    | Some p => Panic p
    | None =>
        gs <- all_sec_gains secs ;;
        agg <- aggregate A gains0 (some_gains gs) ;;
        tabs <- render_tables secs gs ;;
        at_ <- render_aggregate agg ;;
        Ok {| rp_tables := tabs; rp_aggregate := at_ |}
    end.
End WithArith.

(* the whole pipeline: ledger -> gains -> render *)
Definition render_app (A : arith) (full : bool) (cur : tx -> bytes * bytes)
           (inits : list (N * status)) (rows : list tx) : res report :=
  secs <- run_app A inits rows ;;
  render_results A full cur secs.

(* ------------------------------------------------------------------ display rounding *)
(* what the default view shows for a full-precision cell *)
Definition round_amount (a : amount) : amount :=
  match a with AFull q => AText (dollar2_text q) | AText s => AText s end.
Definition round_pm (p : pm) : pm := {| pm_sign := pm_sign p; pm_amt := round_amount (pm_amt p) |}.
Definition round_note (n : sflnote) : sflnote :=
  {| sn_amt := round_pm (sn_amt n); sn_forced := sn_forced n; sn_num := sn_num n;
     sn_den := sn_den n; sn_over := sn_over n |}.
Definition round_cell (c : cell) : cell :=
  match c with
  | CDollar a => CDollar (round_amount a)
  | CPm p => CPm (round_pm p)
  | CWithFx l f c => CWithFx (round_amount l) (round_amount f) c
  | CGain p n => CGain (round_pm p) (option_map round_note n)
  | other => other
  end.
Definition round_table (t : table) : table :=
  {| tb_rows := map (map round_cell) (tb_rows t);
     tb_labels := tb_labels t;
     tb_values := map round_pm (tb_values t);
     tb_note_sfl := tb_note_sfl t;
     tb_note_over := tb_note_over t |}.
Definition round_aggregate (l : list (label * pm)) : list (label * pm) :=
  map (fun x => (fst x, round_pm (snd x))) l.
Definition round_report (r : report) : report :=
  {| rp_tables := map (fun x => (fst x, round_table (snd x))) (rp_tables r);
     rp_aggregate := round_aggregate (rp_aggregate r) |}.
Definition map_res {T U} (f : T -> U) (r : res T) : res U :=
  match r with Ok v => Ok (f v) | Rej e => Rej e | Panic p => Panic p end.

(* ------------------------------------------------------------------ text layout *)
(* A cell as a sequence of pieces: literal bytes (the format strings of
   render.rs and the cent texts) and numeric leaves printed by
   Decimal::to_string / i32::to_string. *)
Local Close Scope Qc_scope.
Local Open Scope N_scope.
Inductive piece : Type :=
| PLit (s : bytes)
| PNum (q : Qc)
| PSecName (s : N)
| PDay (d : Z)
| PAffName (a : N)
| PMemoOf (ri : N).

Definition amount_pieces (a : amount) : list piece :=
  match a with AFull q => [PNum q] | AText s => [PLit s] end.
Definition sign_text (s : sign) : bytes :=
  match s with
  | SNeg => [45; 36]    (* "-$" *)
  | SPlus => [43; 36]   (* "+$" *)
  | SNone => [36]       (* "$" *)
  end.
Definition pm_pieces (p : pm) : list piece := PLit (sign_text (pm_sign p)) :: amount_pieces (pm_amt p).

Definition s_total : bytes := [84; 111; 116; 97; 108].
Definition s_since : bytes := [83; 105; 110; 99; 101; 32; 105; 110; 99; 101; 112; 116; 105; 111; 110].
Definition label_pieces (l : label) : list piece :=
  match l with
  | LTotal => [PLit s_total]
  | LSince => [PLit s_since]
  | LYear y => [PNum (QcZ y)]
  end.

Definition note_pieces (n : sflnote) : list piece :=
  PLit [32; 42; 10; 40; 83; 102; 76; 32]           (* " *\n(SfL " *)
    :: pm_pieces (sn_amt n)
    ++ (if sn_forced n then [PLit [33]] else [])   (* "!" *)
    ++ [PLit [59; 32]; PNum (sn_num n); PLit [47]; PNum (sn_den n)]   (* "; " num "/" den *)
    ++ (if sn_over n then [PLit [91; 49; 93]] else [])                (* "[1]" *)
    ++ [PLit [41]].                                                   (* ")" *)

Definition cell_pieces (c : cell) : list piece :=
  match c with
  | CEmpty => []
  | CDash => [PLit [45]]
  | CSec s => [PSecName s]
  | CDate d => [PDay d]
  | CAct a => [PLit (show_act a)]
  | CAff a => [PAffName (af_id a)]
  | CMemo ri => [PMemoOf ri]
  | CShares q => [PNum q]
  | CDollar a => PLit [36] :: amount_pieces a
  | CPm p => pm_pieces p
  | CWithFx l f c =>
      PLit [36] :: amount_pieces l ++ [PLit [10; 40]] ++ amount_pieces f ++ [PLit [32]; PLit c; PLit [41]]
  | CBalance own all factor =>
      PNum own
        :: match all with Some a => [PLit [32; 47; 32]; PNum a] | None => [] end
        ++ match factor with Some f => [PLit [32; 40; 120]; PNum f; PLit [41]] | None => [] end
  | CGain p n => pm_pieces p ++ match n with Some n' => note_pieces n' | None => [] end
  end.

(* lines joined by "\n" *)
Fixpoint join_lines (l : list (list piece)) : list piece :=
  match l with
  | [] => []
  | [x] => x
  | x :: r => x ++ PLit [10] :: join_lines r
  end.

(* the 16 footer cells: empty except [8] (labels) and [9] (figures) *)
Definition footer_cells (t : table) : list (list piece) :=
  repeat [] 8 ++ [join_lines (map label_pieces (tb_labels t)); join_lines (map pm_pieces (tb_values t))]
    ++ repeat [] 6.

Definition note_sfl_text : bytes :=
  [32; 83; 102; 76; 32; 61; 32; 83; 117; 112; 101; 114; 102; 105; 99; 105; 97; 108; 32; 108; 111; 115;
   115; 32; 97; 100; 106; 117; 115; 116; 109; 101; 110; 116].
Definition note_over_text : bytes :=
  [32; 91; 49; 93; 32; 83; 117; 112; 101; 114; 102; 105; 99; 105; 97; 108; 32; 108; 111; 115; 115;
   32; 119; 97; 115; 32; 112; 111; 116; 101; 110; 116; 105; 97; 108; 108; 121; 32; 111; 118; 101;
   114; 45; 97; 112; 112; 108; 105; 101; 100; 44; 32; 114; 101; 115; 117; 108; 116; 105; 110; 103;
   32; 105; 110; 32; 97; 32; 108; 111; 119; 101; 114; 45; 116; 104; 97; 110; 45; 101; 120; 112;
   101; 99; 116; 101; 100; 32; 97; 108; 108; 111; 119; 97; 98; 108; 101; 32; 99; 97; 112; 105; 116;
   97; 108; 32; 108; 111; 115; 115; 46; 10; 32; 32; 32; 32; 32; 83; 101; 101; 32; 73; 46; 49; 32;
   118; 115; 32; 73; 46; 50; 32; 117; 110; 100; 101; 114; 32; 34; 73; 110; 116; 101; 114; 112; 114;
   101; 116; 97; 116; 105; 111; 110; 115; 32; 111; 102; 32; 65; 67; 66; 32; 100; 105; 115; 116;
   114; 105; 98; 117; 116; 105; 111; 110; 34; 32; 97; 116; 32; 104; 116; 116; 112; 115; 58; 47; 47;
   103; 105; 116; 104; 117; 98; 46; 99; 111; 109; 47; 116; 115; 105; 101; 109; 101; 110; 115; 47;
   97; 99; 98; 47; 119; 105; 107; 105; 47; 83; 117; 112; 101; 114; 102; 105; 99; 105; 97; 108; 45;
   76; 111; 115; 115; 101; 115].

Definition notes_of (t : table) : list bytes :=
  (if tb_note_sfl t then [note_sfl_text] else []) ++ (if tb_note_over t then [note_over_text] else []).
