(* cmd.rs command_main, the part property C16 speaks about: the
   --symbol-base values are parsed first; an Err ends the run before any
   reader exists; otherwise the map goes to run_acb_app_to_console unchanged
   (approot.rs looks the security names of the rows up in it).
   [read_and_run] (Model/Bridge.v) is the model of everything after that.
   Definitions only. *)
From Coq Require Import List NArith ZArith QArith Qcanon.
From ACB Require Import Base.Outcome Base.Arith Model.CsvFields Model.Tx Model.Ledger Model.Sfl Model.DeltaList
     Model.App Model.Bridge Model.InitSpec.
Import ListNotations.

(* PortfolioSecurityStatus { share_balance: shares, all_affiliate_share_balance: shares,
   total_acb: Some(acb) } *)
Definition spec_status (v : dec * dec) : status :=
  {| s_sh := dec_q (fst v); s_all := dec_q (fst v); s_acb := Some (dec_q (snd v)) |}.
Definition spec_inits (m : spec_map) : list (bytes * status) :=
  map (fun x => (fst x, spec_status (snd x))) m.

Definition cli_run (A : arith) (tbl : aftable) (specs : list bytes) (fs : list file)
  : res (list (N * (list delta * option stop))) :=
  m <- parse_initial_status specs ;;
  read_and_run A tbl (spec_inits m) fs.
