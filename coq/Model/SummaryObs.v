(* C10: the round trip with the idle expansion rows of a split for all
   affiliates left out of the comparison, and the class in which the strict
   comparison of Model/Summary.v fails for that reason.  Definitions only. *)
From Coq Require Import List NArith ZArith QArith Qcanon Bool.
From ACB Require Import Base.Outcome Base.QcExtra Base.Arith Model.Tx Model.Ledger Model.Sfl
     Model.DeltaList Model.App Model.Summary.
Import ListNotations.
Local Open Scope Z_scope.

Definition idle_split (d : delta) : bool :=
  is_split (t_act (d_tx d)) && Qceqb (s_sh (d_pre d)) 0 && Qceqb (s_sh (d_post d)) 0.
Definition K4_of (latest : Z) (ds : list delta) : bool :=
  existsb (fun d => (latest <? d_sd d) && idle_split d) ds.
Definition K_idle_split_expansion (A : arith) (latest : Z) (rows : list tx) : bool :=
  K4_of latest (fst (sec_run A rows)).

(* the round trip with the idle expansion rows left out of the comparison *)
Definition later_obs (latest : Z) (ds : list delta) : list delta :=
  filter (fun d => negb (idle_split d)) (later_deltas latest ds).
Definition roundtrip_obs_of (A : arith) (latest : Z) (annual : bool) (rows : list tx) (ds : list delta) : bool :=
  match make_summary A latest ds annual with
  | Ok sums =>
      let '(ds2, o2) := sec_run A (number_from 0 (through_csv sums ++ rows_after latest rows)) in
      match o2 with
      | None => same_reports (later_obs latest ds) (later_obs latest ds2)
      | Some _ => false
      end
  | _ => false
  end.
Definition roundtrip_obs_ok (A : arith) (latest : Z) (annual : bool) (rows : list tx) : bool :=
  roundtrip_obs_of A latest annual rows (fst (sec_run A rows)).

