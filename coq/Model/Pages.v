(* C20 (pages): src/peripheral/pdf.rs
     LazyPageTextVec::safe_page_chunks_with_remainder_pn   (pdf.rs:108-140)
     LazyPageTextVec::load_pages                           (pdf.rs:72-93)
     OptimizedPageIter::next                               (pdf.rs:182-224)
   Page numbers are N (u32 in the code; the u32 overflow of [num_pages + 1]
   at 2^32-1 pages is not modelled).  Page text is an abstract type.
   Definitions only. *)
From Coq Require Import List NArith ZArith Bool Arith.
From ACB Require Import Base.Outcome.
Import ListNotations.
Local Open Scope N_scope.

(* ---- safe_page_chunks_with_remainder_pn ---- *)
Definition page_ok (n p : N) : bool := (p <=? n) && (0 <? p).

Definition safe_chunk (n : N) (chunk : list N) : list N := filter (page_ok n) chunk.

(* chunks that become empty are dropped *)
Fixpoint safe_groups (n : N) (groups : list (list N)) : list (list N) :=
  match groups with
  | [] => []
  | c :: r =>
      match safe_chunk n c with
      | [] => safe_groups n r
      | s => s :: safe_groups n r
      end
  end.

Definition memN (p : N) (l : list N) : bool := existsb (N.eqb p) l.

(* found_pages.len() of the HashSet *)
Fixpoint distinct_count (l : list N) : nat :=
  match l with
  | [] => O
  | p :: r => if memN p r then distinct_count r else S (distinct_count r)
  end.

Definition pages_upto (n : N) : list N := map N.of_nat (seq 1 (N.to_nat n)).

Definition safe_page_chunks (n : N) (hints : list (list N)) : list (list N) :=
  let safe := safe_groups n hints in
  let found := concat safe in
  if Nat.eqb (distinct_count found) (N.to_nat n) then safe
  else safe ++ [filter (fun p => negb (memN p found)) (pages_upto n)].

(* ---- page cache and iterator ---- *)
Module PSite.
  Definition page_zero : N := 301.     (* pdf.rs:81/217 (page_num - 1) on page 0: u32 underflow *)
  Definition cache_index : N := 302.   (* pdf.rs:220 page_texts[next_idx]: index out of bounds *)
  Definition cache_unwrap : N := 303.  (* pdf.rs:220 .clone().unwrap() on an empty slot *)
  Definition empty_group : N := 304.   (* pdf.rs:216 unyielded_pages.pop_front().unwrap() *)
End PSite.

(* how load_pages sizes the cache before storing page p:
   [ResizeAlways] = `self.page_texts.resize(idx + 1, None)` (the code up to
   commit 90a5400: truncates when idx + 1 < len);
   [ResizeGrow]   = resize only when idx + 1 > len (the code after the fix). *)
Inductive resize_policy := ResizeAlways | ResizeGrow.

(* how an iteration ended *)
Inductive iter_end := IterDone | IterError | IterPanic (site : N).

Section Iter.
  Variable T : Type.
  (* text extraction of one page; None = extraction error *)
  Variable prov : N -> option T.
  Variable pol : resize_policy.

  Definition cache := list (option T).

  (* Vec::resize(len, None) *)
  Definition resize (c : cache) (len : nat) : cache :=
    firstn len c ++ repeat None (len - length c).

  Fixpoint set_nth (i : nat) (v : option T) (c : cache) {struct c} : cache :=
    match c, i with
    | [], _ => []
    | _ :: r, O => v :: r
    | x :: r, S k => x :: set_nth k v r
    end.

  Definition store (c : cache) (p : N) (t : T) : cache :=
    let idx := (N.to_nat p - 1)%nat in
    let c' := match pol with
              | ResizeAlways => resize c (idx + 1)
              | ResizeGrow => if Nat.ltb (length c) (idx + 1) then resize c (idx + 1) else c
              end in
    set_nth idx (Some t) c'.

  (* get_pages_text: all pages of the group or an error *)
  Fixpoint fetch (g : list N) : option (list T) :=
    match g with
    | [] => Some []
    | p :: r =>
        match prov p, fetch r with
        | Some t, Some ts => Some (t :: ts)
        | _, _ => None
        end
    end.

  (* the zip loop of load_pages; None = u32 underflow on page 0 *)
  Fixpoint store_all (c : cache) (g : list N) (ts : list T) : option cache :=
    match g, ts with
    | p :: r, t :: tr => if p =? 0 then None else store_all (store c p t) r tr
    | _, _ => Some c
    end.

  (* yielding the pages of a loaded group *)
  Fixpoint yield_group (c : cache) (g : list N) : list (N * T) * option N :=
    match g with
    | [] => ([], None)
    | p :: r =>
        if p =? 0 then ([], Some PSite.page_zero) else
        match nth_error c (N.to_nat p - 1) with
        | None => ([], Some PSite.cache_index)
        | Some None => ([], Some PSite.cache_unwrap)
        | Some (Some t) =>
            let '(ys, e) := yield_group c r in ((p, t) :: ys, e)
        end
    end.

  (* the whole iteration: pages yielded (in order), groups requested from the
     provider (in order), and how it ended *)
  Fixpoint run_iter (c : cache) (groups : list (list N))
    : list (N * T) * list (list N) * iter_end :=
    match groups with
    | [] => ([], [], IterDone)
    | g :: r =>
        match fetch g with
        | None => ([], [g], IterError)
        | Some ts =>
            match store_all c g ts with
            | None => ([], [g], IterPanic PSite.page_zero)
            | Some c' =>
                match g with
                | [] => ([], [g], IterPanic PSite.empty_group)
                | _ =>
                    match yield_group c' g with
                    | (ys, Some site) => (ys, [g], IterPanic site)
                    | (ys, None) =>
                        let '(ys', reqs, e) := run_iter c' r in
                        (ys ++ ys', g :: reqs, e)
                    end
                end
            end
        end
    end.
End Iter.
