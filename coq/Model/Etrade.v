(* stub: to be written by group Etrade *)
