(* Model of the matching core of etrade-plan-pdf-tx-extract
   (src/peripheral/etrade_plan_pdf_tx_extract_impl.rs: find_sell_to_cover_trade_set,
   amend_benefit_sales, txs_from_data; src/peripheral/broker/etrade.rs:
   BenefitEntry::sell_to_cover_data; src/peripheral/broker/broker_tx.rs: Into<CsvTx>;
   src/portfolio/model/tx.rs: Ord for CsvTx, Tx::try_from for Buy/Sell rows).

   Inputs are the abstract records the regex text layer produces: benefit
   entries and trade confirmations, in the order parse_pdfs appends them (files
   sorted by path, records in document order).  The text layer itself (regexes
   over the PDF text) is NOT modelled.

   Money and share counts are [Qc]; every arithmetic operation of the Rust
   code goes through the arithmetic record [A : arith] ([dec] = rust_decimal
   rounding, the code as it runs; [exact] = field arithmetic).  Dates are day
   numbers.  Securities, plan notes, sell notes are opaque tokens.

   Cost: [all_combos] enumerates every non-empty sub-list of the candidate
   trades (2^n - 1 of them, Proofs/EtradeProps.v all_combos_length): termination
   is structural, the cost is exponential in the number of candidate trades of
   one benefit, exactly as the itertools::combinations loops of the code.

   Definitions only; proofs are in Proofs/EtradeProps.v. *)
From Coq Require Import List NArith ZArith QArith Qcanon Bool.
From ACB Require Import Base.Outcome Base.QcExtra Base.Fit Base.Arith.
Import ListNotations.
Local Open Scope Z_scope.

Inductive act : Type := ABuy | ASell.
Definition act_eqb (a b : act) : bool :=
  match a, b with ABuy, ABuy => true | ASell, ASell => true | _, _ => false end.

(* BrokerTx as produced by the two trade-confirmation parsers: currency is
   always USD, memo always empty, exchange rate None, affiliate default. *)
Record trade : Type := {
  t_sec : N;
  t_td : Z;            (* trade_date *)
  t_sd : Z;            (* settlement_date *)
  t_act : act;
  t_price : Qc;        (* amount_per_share *)
  t_shares : Qc;       (* num_shares *)
  t_comm : Qc;         (* commission + fee *)
  t_tag : N            (* identity of the confirmation: file name, row number, account *)
}.

(* BenefitEntry *)
Record benefit : Type := {
  b_sec : N;
  b_date : Z;                  (* acquire_tx_date *)
  b_settle : Z;                (* acquire_settle_date *)
  b_price : Qc;                (* acquire_share_price: the FMV *)
  b_shares : Qc;               (* acquire_shares *)
  b_stc_td : option Z;         (* sell_to_cover_tx_date *)
  b_stc_sd : option Z;         (* sell_to_cover_settle_date *)
  b_stc_price : option Qc;
  b_stc_shares : option Qc;
  b_stc_fee : option Qc;
  b_note : N;                  (* plan_note *)
  b_sell_note : option N       (* sell_note *)
}.

Definition set_stc_dates (b : benefit) (td sd : Z) : benefit :=
  {| b_sec := b_sec b; b_date := b_date b; b_settle := b_settle b; b_price := b_price b;
     b_shares := b_shares b; b_stc_td := Some td; b_stc_sd := Some sd;
     b_stc_price := b_stc_price b; b_stc_shares := b_stc_shares b; b_stc_fee := b_stc_fee b;
     b_note := b_note b; b_sell_note := b_sell_note b |}.

(* Panic sites (file:line at the pinned commit 397bf4a) *)
Module ESite.
  Definition matched0 : N := 1901.      (* etrade_plan_pdf_tx_extract_impl.rs:470 matched_trades[0] *)
  Definition remove_idx : N := 1902.    (* :496 position(..).unwrap() / :502 Vec::remove *)
  Definition combos0 : N := 1903.       (* :402 trade_combos[0] *)
End ESite.
Definition rej_amend_errors : rej := RejOther 1901.     (* run_with_args: "Error: ..." lines, Err(()) *)
Definition rej_stc_incomplete : rej := RejOther 1902.   (* sell_to_cover_data: "Some, but not all, ..." *)

(* ------------------------------------------------------------------------
   Decimal sums: Iterator::sum::<Decimal>() is a left fold from ZERO.        *)
Section WithArith.
Variable A : arith.

Fixpoint sum_from {T} (f : T -> res Qc) (l : list T) (acc : Qc) : res Qc :=
  match l with
  | [] => Ok acc
  | x :: r => v <- f x ;; s <- a_add A acc v ;; sum_from f r s
  end.

Definition sum_shares (l : list trade) : res Qc :=
  sum_from (fun t => Ok (t_shares t)) l 0%Qc.
Definition sum_value (l : list trade) : res Qc :=
  sum_from (fun t => a_mul A (t_price t) (t_shares t)) l 0%Qc.

(* ------------------------------------------------------------------------
   itertools::combinations(n): sub-lists of length n in lexicographic order
   of positions.                                                              *)
Fixpoint combs {T} (n : nat) (l : list T) {struct l} : list (list T) :=
  match n, l with
  | O, _ => [[]]
  | S _, [] => []
  | S k, x :: r => map (cons x) (combs k r) ++ combs (S k) r
  end.

(* for n in (1..=len).rev() { for trades in combinations(n) {..} } *)
Definition all_combos {T} (l : list T) : list (list T) :=
  flat_map (fun n => combs n l) (rev (seq 1 (length l))).

(* A candidate is a trade together with its position in the pool of trade
   confirmations not yet consumed (the Rust code holds a reference into
   leftover_trade_confs). *)
Definition itrade : Type := (nat * trade)%type.
Definition trades_of (c : list itrade) : list trade := map snd c.

Definition same_security (b : benefit) (c : list itrade) : bool :=
  forallb (fun it => N.eqb (t_sec (snd it)) (b_sec b)) c.

(* Step 1 of find_sell_to_cover_trade_set *)
Fixpoint matching_combos (b : benefit) (sh : Qc) (cs : list (list itrade)) : res (list (list itrade)) :=
  match cs with
  | [] => Ok []
  | c :: r =>
      if same_security b c then
        n <- sum_shares (trades_of c) ;;
        rest <- matching_combos b sh r ;;
        Ok (if Qceqb n sh then c :: rest else rest)
      else matching_combos b sh r
  end.

(* Decimal::MAX, the "no price to compare with" sentinel *)
Definition dec_max : Qc := QcZ max_mant.

(* TradesCombination: (abs_difference_from_benefit_price, trades) *)
Definition score (b : benefit) (c : list itrade) : res (Qc * list itrade) :=
  total_val <- sum_value (trades_of c) ;;
  total_shares <- sum_shares (trades_of c) ;;
  avg <- a_div A total_val total_shares ;;
  match b_stc_price b with
  | Some p => d <- a_sub A p avg ;; Ok (Qcabs d, c)
  | None => Ok (dec_max, c)
  end.

Fixpoint map_res {T U} (f : T -> res U) (l : list T) : res (list U) :=
  match l with
  | [] => Ok []
  | x :: r => y <- f x ;; ys <- map_res f r ;; Ok (y :: ys)
  end.

(* slice::sort_by is stable: insertion keeps an earlier element before the
   later ones that compare equal. *)
Fixpoint insert_by {T} (le : T -> T -> bool) (x : T) (l : list T) : list T :=
  match l with
  | [] => [x]
  | y :: r => if le x y then x :: y :: r else y :: insert_by le x r
  end.
Definition sort_by {T} (le : T -> T -> bool) (l : list T) : list T :=
  fold_right (insert_by le) [] l.

Definition score_le (x y : Qc * list itrade) : bool := Qcleb (fst x) (fst y).

Inductive find_err : Type := NoMatch | Ambiguous.
Inductive found : Type := Found (m : list itrade) | NotFound (e : find_err).

Definition find_sell_to_cover_trade_set (b : benefit) (sh : Qc) (cands : list itrade) : res found :=
  ms <- matching_combos b sh (all_combos cands) ;;
  match ms with
  | [] => Ok (NotFound NoMatch)
  | [m] => Ok (Found m)
  | _ =>
      scored <- map_res (score b) ms ;;
      match sort_by score_le scored with
      | [] => Panic (PanicMissing ESite.combos0)
      | (d, m) :: _ => if Qceqb d dec_max then Ok (NotFound Ambiguous) else Ok (Found m)
      end
  end.

(* ------------------------------------------------------------------------
   amend_benefit_sales                                                        *)
Definition tag_from {T} (i : nat) (l : list T) : list (nat * T) := combine (seq i (length l)) l.
Definition tag {T} (l : list T) : list (nat * T) := tag_from 0 l.

Definition in_window (b : benefit) (it : itrade) : bool :=
  act_eqb (t_act (snd it)) ASell
  && Z.leb (b_date b) (t_td (snd it))
  && Z.leb (t_td (snd it)) (b_date b + 5).

Definition candidates (b : benefit) (left : list trade) : list itrade :=
  filter (in_window b) (tag left).

(* Vec::remove(i) *)
Fixpoint remove_at {T} (i : nat) (l : list T) : res (list T) :=
  match i, l with
  | _, [] => Panic (PanicMissing ESite.remove_idx)
  | O, _ :: r => Ok r
  | S k, x :: r => r' <- remove_at k r ;; Ok (x :: r')
  end.
Fixpoint remove_all {T} (idxs : list nat) (l : list T) : res (list T) :=
  match idxs with
  | [] => Ok l
  | i :: r => l' <- remove_at i l ;; remove_all r l'
  end.

(* number of warnings pushed for one matched set *)
Definition date_differs (t0 t : trade) : bool :=
  negb (Z.eqb (t_td t0) (t_td t)) || negb (Z.eqb (t_sd t0) (t_sd t)).

Inductive amend_err : Type := AmendErr (benefit_index : nat) (e : find_err).

Record amended : Type := {
  am_benefits : list benefit;        (* benefits with sell-to-cover dates filled in *)
  am_left : list trade;              (* other_trades *)
  am_warn : nat;                     (* number of warnings *)
  am_errs : list amend_err;          (* errors, in benefit order *)
  am_matched : list (list trade)     (* log: per benefit, the trades consumed by it *)
}.

Definition am_cons (b : benefit) (m : list trade) (w : nat) (e : list amend_err) (r : amended) : amended :=
  {| am_benefits := b :: am_benefits r; am_left := am_left r; am_warn := (w + am_warn r)%nat;
     am_errs := e ++ am_errs r; am_matched := m :: am_matched r |}.

Definition nat_leb_pair (x y : nat) : bool := Nat.leb x y.

Fixpoint amend_loop (i : nat) (bs : list benefit) (left : list trade) : res amended :=
  match bs with
  | [] => Ok {| am_benefits := []; am_left := left; am_warn := 0; am_errs := []; am_matched := [] |}
  | b :: r =>
      match b_stc_shares b with
      | None => rr <- amend_loop (S i) r left ;; Ok (am_cons b [] 0 [] rr)
      | Some sh =>
          f <- find_sell_to_cover_trade_set b sh (candidates b left) ;;
          match f with
          | NotFound e =>
              rr <- amend_loop (S i) r left ;; Ok (am_cons b [] 0 [AmendErr i e] rr)
          | Found m =>
              match m with
              | [] => Panic (PanicMissing ESite.matched0)
              | (_, t0) :: _ =>
                  let w := length (filter (date_differs t0) (trades_of m)) in
                  let b' := set_stc_dates b (t_td t0) (t_sd t0) in
                  (* indexes.sort(); for i in indexes.iter().rev() { remove(i) } *)
                  left' <- remove_all (rev (sort_by nat_leb_pair (map fst m))) left ;;
                  rr <- amend_loop (S i) r left' ;;
                  Ok (am_cons b' (trades_of m) w [] rr)
              end
          end
      end
  end.

Definition amend_benefit_sales (bs : list benefit) (ts : list trade) : res amended :=
  amend_loop 0 bs ts.

End WithArith.

(* ------------------------------------------------------------------------
   txs_from_data                                                              *)
Inductive memo : Type :=
| MemoPlan (note : N)                                (* "<plan_note>" *)
| MemoPlanSell (note : N) (sell_note : option N)     (* "<plan_note> <sell_note | sell-to-cover>" *)
| MemoManual.                                        (* "(manual trade)" *)

(* the CSV columns of an emitted row *)
Record rowc : Type := {
  c_sec : N; c_td : Z; c_sd : Z; c_act : act;
  c_shares : Qc; c_price : Qc; c_comm : Qc; c_memo : memo
}.
Record row : Type := { r_core : rowc; r_ri : nat (* read_index: sort tie-break only *) }.

(* BenefitEntry::sell_to_cover_data *)
Record stc_data : Type := { s_td : Z; s_sd : Z; s_price : Qc; s_shares : Qc; s_fee : Qc }.
Definition sell_to_cover_data (b : benefit) : res (option stc_data) :=
  match b_stc_td b, b_stc_sd b, b_stc_price b, b_stc_shares b, b_stc_fee b with
  | None, None, None, None, None => Ok None
  | Some td, Some sd, Some p, Some sh, Some f =>
      Ok (Some {| s_td := td; s_sd := sd; s_price := p; s_shares := sh; s_fee := f |})
  | _, _, _, _, _ => Rej rej_stc_incomplete
  end.

Definition buy_core (b : benefit) : rowc :=
  {| c_sec := b_sec b; c_td := b_date b; c_sd := b_settle b; c_act := ABuy;
     c_shares := b_shares b; c_price := b_price b; c_comm := 0%Qc; c_memo := MemoPlan (b_note b) |}.
Definition stc_core (b : benefit) (s : stc_data) : rowc :=
  {| c_sec := b_sec b; c_td := s_td s; c_sd := s_sd s; c_act := ASell;
     c_shares := s_shares s; c_price := s_price s; c_comm := s_fee s;
     c_memo := MemoPlanSell (b_note b) (b_sell_note b) |}.
Definition manual_core (t : trade) : rowc :=
  {| c_sec := t_sec t; c_td := t_td t; c_sd := t_sd t; c_act := t_act t;
     c_shares := t_shares t; c_price := t_price t; c_comm := t_comm t; c_memo := MemoManual |}.

Fixpoint benefit_rows (i : nat) (bs : list benefit) : res (list row) :=
  match bs with
  | [] => Ok []
  | b :: r =>
      s <- sell_to_cover_data b ;;
      rest <- benefit_rows (S i) r ;;
      Ok ({| r_core := buy_core b; r_ri := (2 * i)%nat |}
            :: match s with
               | Some s => [{| r_core := stc_core b s; r_ri := (2 * i + 1)%nat |}]
               | None => []
               end ++ rest)
  end.

Fixpoint manual_rows (base : nat) (ts : list trade) : list row :=
  match ts with
  | [] => []
  | t :: r => {| r_core := manual_core t; r_ri := base |} :: manual_rows (S base) r
  end.

(* Ord for CsvTx: settlement date, then read_index; Vec::sort is stable *)
Definition row_le (x y : row) : bool :=
  Z.ltb (c_sd (r_core x)) (c_sd (r_core y))
  || (Z.eqb (c_sd (r_core x)) (c_sd (r_core y)) && Nat.leb (r_ri x) (r_ri y)).

Definition txs_from_data (bs : list benefit) (left : list trade) : res (list row) :=
  brs <- benefit_rows 0 bs ;;
  Ok (sort_by row_le (brs ++ manual_rows (length brs) left)).

(* run_with_args without --extract-only, from parsed records to emitted rows *)
Definition extract (A : arith) (bs : list benefit) (ts : list trade) : res (list row) :=
  am <- amend_benefit_sales A bs ts ;;
  match am_errs am with
  | _ :: _ => Rej rej_amend_errors
  | [] => txs_from_data (am_benefits am) (am_left am)
  end.

(* ------------------------------------------------------------------------
   Tx::try_from(CsvTx) for the rows this tool emits (action Buy/Sell, all of
   security / dates / shares / amount/share / commission present, currency
   USD whose rate load_tx_rates supplies, no commission currency, no
   superficial-loss or split columns): what remains are the constrained
   decimals of buy_or_sell_common_attrs_from_csv_tx.                           *)
Definition acb_accepts (c : rowc) : bool :=
  Qcltb 0%Qc (c_shares c)        (* PosDecimal::try_from(shares) *)
  && Qcleb 0%Qc (c_price c)      (* GreaterEqualZeroDecimal::try_from(amount_per_share) *)
  && Qcleb 0%Qc (c_comm c).      (* GreaterEqualZeroDecimal::try_from(commission) *)
