(* Summary, additions: (1) the strong form of the annual class used by the
   entry-point theorem of the annual mode; (2) the application level: the
   summary of a history of several securities and its round trip
   (app/mod.rs run_acb_app_summary_to_model + portfolio/summary.rs, as
   Exec/CodecCsv.v all_summaries composes them).  Definitions only. *)
From Coq Require Import List NArith ZArith QArith Qcanon Bool.
From ACB Require Import Base.Outcome Base.QcExtra Base.Arith Model.Tx Model.Ledger Model.Sfl
     Model.DeltaList Model.App Model.Summary.
Import ListNotations.
Local Open Scope Z_scope.

Section WithArith.
  Variable A : arith.

  (* K_annual_row_in_window: ANY row, re-emitted or later (not only an
     acquisition, as in K_annual_sell_in_window), settles within 30 days after
     a generated 1-January sale that realises a loss.  The forward scan of the
     generated sale then runs over real later rows. *)
  Definition K2s_of (latest : Z) (annual : bool) (ds : list delta) : bool :=
    match summary_ranges latest ds, make_summary_parts A latest ds annual with
    | Some rg, Ok (gen, _) =>
        existsb (fun s => gen_loss_sell s
                          && existsb (fun d => within_after (t_sd s) (d_sd d)) (skipn (first_unsum rg) ds)) gen
    | _, _ => false
    end.
  Definition K_annual_row_in_window (latest : Z) (annual : bool) (rows : list tx) : bool :=
    K2s_of latest annual (fst (sec_run A rows)).
End WithArith.
