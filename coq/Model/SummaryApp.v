(* Summary, additions: (1) the strong form of the annual class used by the
   entry-point theorem of the annual mode; (2) the application level: the
   summary of a history of several securities and its round trip
   (app/mod.rs run_acb_app_summary_to_model + portfolio/summary.rs, as
   Exec/CodecCsv.v all_summaries composes them).  Definitions only. *)
From Coq Require Import List NArith ZArith QArith Qcanon Bool.
From ACB Require Import Base.Outcome Base.QcExtra Base.Arith Model.Tx Model.Ledger Model.Sfl
     Model.DeltaList Model.App Model.Summary Model.SummaryObs.
Import ListNotations.
Local Open Scope Z_scope.

Section WithArith.
  Variable A : arith.

  (* K_annual_row_in_window: ANY row, re-emitted or later (not only an
     acquisition, as in K_annual_sell_in_window), settles within 30 days after
     a generated 1-January sale that realises a loss.  The forward scan of the
     generated sale then runs over real later rows. *)
  Definition K2s_of (latest : Z) (annual : bool) (ds : list delta) : bool :=
    match summary_ranges latest ds, make_summary_parts A latest ds annual with
    | Some rg, Ok (gen, _) =>
        existsb (fun s => gen_loss_sell s
                          && existsb (fun d => within_after (t_sd s) (d_sd d)) (skipn (first_unsum rg) ds)) gen
    | _, _ => false
    end.
  Definition K_annual_row_in_window (latest : Z) (annual : bool) (rows : list tx) : bool :=
    K2s_of latest annual (fst (sec_run A rows)).

  (* ---- the application level (several securities) ----
     summary.rs make_aggregate_summary_txs over the per-security delta lists of
     run_acb_app_to_delta_models: securities in run_app's order (increasing
     number = name order), each security's summary rows appended *)
  Definition app_run : Type := list (N * (list delta * option stop)).
  Fixpoint all_summaries (latest : Z) (annual : bool) (secs : app_run) : res (list tx) :=
    match secs with
    | [] => Ok []
    | (_, (ds, _)) :: r =>
        one <- make_summary A latest ds annual ;;
        rest <- all_summaries latest annual r ;;
        Ok (one ++ rest)
    end.
  Definition app_stops (secs : app_run) : bool :=
    existsb (fun x => match snd (snd x) with Some _ => true | None => false end) secs.
  Definition sec_deltas (s : N) (secs : app_run) : list delta :=
    match find (fun x => N.eqb (fst x) s) secs with Some x => fst (snd x) | None => [] end.
  (* every security of the history is accepted *)
  Definition app_history_ok (rows : list tx) : bool :=
    match run_app A [] rows with Ok secs => negb (app_stops secs) | _ => false end.
  (* the summaries of all securities are produced; (their concatenation, through
     the CSV layer) ++ (rows after the date), renumbered, is accepted for every
     security; every security of the history reports its later rows as before
     ([obs]: expansion rows of a split over an affiliate holding nothing left
     out, as in roundtrip_obs_of) *)
  Definition app_roundtrip (obs : bool) (latest : Z) (annual : bool) (rows : list tx) : bool :=
    match run_app A [] rows with
    | Ok secs =>
        match all_summaries latest annual secs with
        | Ok sums =>
            match run_app A [] (number_from 0 (through_csv sums ++ rows_after latest rows)) with
            | Ok secs2 =>
                negb (app_stops secs2)
                && forallb (fun x =>
                     let later := if obs then SummaryObs.later_obs latest else later_deltas latest in
                     same_reports (later (fst (snd x))) (later (sec_deltas (fst x) secs2))) secs
            | _ => false
            end
        | _ => false
        end
    | _ => false
    end.
End WithArith.
