(* tx_csv.rs parse_tx_csv, header-driven cell selection (after csv
   tokenisation): header cells are normalised (lower-cased, trimmed) and
   looked up in the set of known column names; every non-blank cell of a row
   under a recognised header is stored under the column name, a later column
   with the same name overwriting an earlier one. *)
From Coq Require Import List NArith Bool.
From ACB Require Import Model.Tx.
Import ListNotations.

Section Header.
  Variable cell : Type.
  Variable recognise : cell -> option N.   (* normalised header cell -> known column *)
  Variable blank : cell -> bool.           (* trim().is_empty() *)
  Variable trim : cell -> cell.

  Definition col_names (header : list cell) : list (option N) := map recognise header.

  Definition put (m : list (N * cell)) (hc : option N * cell) : list (N * cell) :=
    match fst hc with
    | Some name => if blank (snd hc) then m else aupdate name (trim (snd hc)) m
    | None => m
    end.

  (* tx_values of one record *)
  Definition row_values (header : list cell) (row : list cell) : list (N * cell) :=
    fold_left put (combine (col_names header) row) [].

  Definition value_of (name : N) (header row : list cell) : option cell :=
    alookup name (row_values header row).
End Header.
