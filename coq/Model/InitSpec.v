(* The text layer of --symbol-base (property C16):
     src/app/input_parse.rs  parse_initial_status
     src/cmd.rs:110-116      parsed before any reader is created; an Err ends
                             the run ("Error parsing --symbol-base: ...")
     src/app/approot.rs      all_init_status.get(&sec) / contains_key(&sec):
                             the key is compared with the security name of
                             the CSV rows as a String (bytewise)
   over byte lists ([bytes] of Model/CsvFields.v; a Rust String is valid
   UTF-8, the functions below are total on any byte list).  Decimal::from_str
   is [parse_dec] of CsvFields.v (rust_decimal str.rs parse_str_radix_10; '_'
   separators are outside that model: [rej_unmodelled]); str::trim is [trim].
   Definitions only. *)
From Coq Require Import List NArith ZArith Bool Arith.
From ACB Require Import Base.Outcome Model.CsvFields.
Import ListNotations.
Local Open Scope N_scope.

Definition colon : N := 58.

(* str::split(":") collected: the pieces between the separators, always at
   least one ("" -> [""], ":" -> [""; ""], "a::b" -> ["a"; ""; "b"]) *)
Fixpoint split_on (sep : N) (s : bytes) : list bytes :=
  match s with
  | [] => [[]]
  | c :: r =>
      if c =? sep then [] :: split_on sep r
      else match split_on sep r with
           | h :: t => (c :: h) :: t
           | [] => [[c]]          (* unreachable: split_on is never empty *)
           end
  end.

(* one code per message of parse_initial_status *)
Definition rej_spec_parts : rej := RejOther 160.       (* "Invalid ACB format '{opt}'": not exactly three parts *)
Definition rej_spec_symbol : rej := RejOther 161.      (* "Symbol was empty" *)
Definition rej_spec_shares : rej := RejOther 162.      (* "Invalid shares format '{shares_str}'. {e}" *)
Definition rej_spec_shares_neg : rej := RejOther 163.  (* "Shares {shares} was negative" *)
Definition rej_spec_acb : rej := RejOther 164.         (* "Invalid ACB format '{acb_str}'. {e}" *)
Definition rej_spec_acb_neg : rej := RejOther 165.     (* "ACB {acb} was negative" *)

(* Decimal::from_str(s).map_err(fmt)?  then
   GreaterEqualZeroDecimal::try_from(d).map_err(neg)?   (the text is NOT trimmed) *)
Definition parse_amount (e_fmt e_neg : rej) (s : bytes) : res dec :=
  match parse_dec s with
  | Ok d => if dec_gez d then Ok d else Rej e_neg
  | Rej r => Rej (match r with RejOther _ => r | _ => e_fmt end)   (* RejOther = not modelled ('_') *)
  | Panic p => Panic p
  end.

(* the body of the loop: symbol, shares, total cost *)
Definition parse_spec (s : bytes) : res (bytes * dec * dec) :=
  match split_on colon s with
  | [a; b; d] =>
      let sym := trim a in
      if is_nil sym then Rej rej_spec_symbol else
      n <- parse_amount rej_spec_shares rej_spec_shares_neg b ;;
      c <- parse_amount rej_spec_acb rej_spec_acb_neg d ;;
      Ok (sym, n, c)
  | _ => Rej rej_spec_parts
  end.

(* HashMap<String, _> as an association list with unique keys:
   insert replaces the value of an equal key *)
Fixpoint al_insert {V : Type} (k : bytes) (v : V) (l : list (bytes * V)) : list (bytes * V) :=
  match l with
  | [] => [(k, v)]
  | (k', v') :: r => if beqb k' k then (k, v) :: r else (k', v') :: al_insert k v r
  end.
Fixpoint al_find {V : Type} (k : bytes) (l : list (bytes * V)) : option V :=
  match l with
  | [] => None
  | (k', v) :: r => if beqb k' k then Some v else al_find k r
  end.

(* value stored under the symbol: share_balance = all_affiliate_share_balance
   = shares, total_acb = Some(acb) *)
Definition spec_map : Type := list (bytes * (dec * dec)).

Fixpoint parse_specs (specs : list bytes) (acc : spec_map) : res spec_map :=
  match specs with
  | [] => Ok acc
  | s :: r =>
      x <- parse_spec s ;;
      parse_specs r (al_insert (fst (fst x)) (snd (fst x), snd x) acc)
  end.

Definition parse_initial_status (specs : list bytes) : res spec_map := parse_specs specs [].
