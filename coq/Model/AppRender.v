(* app/approot.rs, the part of run_acb_app_to_render_model after the ledger,
   seen from ONE security: what get_cumulative_capital_gains keeps for it,
   which table the loop over the securities builds for it, what it adds to
   the aggregate.  Definitions only (theorems: Proofs/C08Agg.v, C08Table.v).

   The whole composition (ledger result -> per-security gains -> aggregate ->
   tables) is Model/Render.v [render_results] / [render_app]; the functions
   here are its per-security components, and Proofs/C08Agg.v proves that
   [render_results] is exactly their composition.

     get_cumulative_capital_gains:
        for (sec, deltas_res) in deltas_by_sec {
            if let Ok(deltas) = &deltas_res.0 {
                security_gains.insert(sec, calc_security_cumulative_capital_gains(deltas)); } }
        aggregate_gains = calc_cumulative_capital_gains(&security_gains)
     => a security whose delta list ended with an error has NO entry: the
        rows computed before the error count neither in its own totals nor in
        the aggregate.

     run_acb_app_to_render_model, loop over the securities in sorted order:
        deltas = deltas_res.deltas_or_partial_deltas();
        table = render_tx_table_model(deltas,
                    gains.security_gains.get(sec).unwrap_or(&default_gains), full);
        if let Err(e) = &deltas_res.0 { table.errors.push(e.err_msg.clone()); }
     => the table of a failed security shows the rows computed so far, the
        footer of the EMPTY gains record ("Total $0", no years) and the error. *)
From Coq Require Import List NArith ZArith QArith Qcanon Bool.
From ACB Require Import Model.CsvFields.
From ACB Require Import Base.Outcome Base.QcExtra Base.Arith Model.Tx Model.Ledger
     Model.DeltaList Model.App Model.Gains Model.Render.
Import ListNotations.

(* what the ledger returns for one security: the deltas (all of them, or the
   ones before the failing row) and the error, if any *)
Definition outcome : Type := (list delta * option stop)%type.

(* the entry of the security in AllCumulativeCapitalGains.security_gains *)
Definition own_gains (A : arith) (r : outcome) : res (option gains) :=
  match snd r with
  | None => g <- security_gains A gains0 (gain_rows (fst r)) ;; Ok (Some g)
  | Some _ => Ok None
  end.

(* gains.security_gains.get(sec).unwrap_or(&default_gains) *)
Definition gains_or_default (o : option gains) : gains :=
  match o with Some g => g | None => gains0 end.

(* the figures in the footer of the security's table *)
Definition footer_gains (A : arith) (r : outcome) : res gains :=
  o <- own_gains A r ;; Ok (gains_or_default o).

(* the security's RenderTable without its errors *)
Definition own_table (A : arith) (full : bool) (cur : tx -> bytes * bytes) (r : outcome) : res table :=
  g <- footer_gains A r ;; render_table A full cur (fst r) g.

(* table.errors: the error of THIS security's delta list, nothing else *)
Definition own_errors (r : outcome) : list stop :=
  match snd r with Some e => [e] | None => [] end.

(* AllCumulativeCapitalGains.aggregate_gains of a ledger result *)
Definition app_aggregate (A : arith) (secs : list (N * outcome)) : res gains :=
  gs <- all_sec_gains A secs ;; aggregate A gains0 (some_gains gs).

(* the entry of security s in AppRenderResult.security_tables *)
Definition table_of (s : N) (rep : report) : option (option stop * table) :=
  match find (fun x => N.eqb (fst (fst x)) s) (rp_tables rep) with
  | Some x => Some (snd (fst x), snd x)
  | None => None
  end.

(* the memo cell (the last of the 16 columns) is the only cell that names the
   row's position in the input (its text - not modelled - is the row's own
   memo): a row / a table with that position replaced by a fixed token *)
Definition blank_memo_row (r : list cell) : list cell := firstn col_memo r ++ [CMemo 0].
Definition blank_memo (t : table) : table :=
  {| tb_rows := map blank_memo_row (tb_rows t);
     tb_labels := tb_labels t;
     tb_values := tb_values t;
     tb_note_sfl := tb_note_sfl t;
     tb_note_over := tb_note_over t |}.
