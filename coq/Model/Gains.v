(* cumulative_gains.rs: per-security yearly capital-gain totals and their
   aggregation over securities; dates.  A year map is an association list
   keyed by year (the Rust HashMap<i32, Decimal>). *)
From Coq Require Import List NArith ZArith QArith Qcanon Bool.
From ACB Require Import Base.Outcome Base.QcExtra Base.Arith Model.Tx.
Import ListNotations.
Local Open Scope Z_scope.

(* proleptic Gregorian year of a day number (day 1 = 0001-01-01, as
   Python's date.toordinal / time::Date ordinal arithmetic); Hinnant's
   civil_from_days *)
Definition year_of_day (d : Z) : Z :=
  let z := d - 1 + 306 in                     (* days since 0000-03-01 *)
  let era := z / 146097 in
  let doe := z - era * 146097 in
  let yoe := (doe - doe / 1460 + doe / 36524 - doe / 146096) / 365 in
  let y := yoe + era * 400 in
  let doy := doe - (365 * yoe + yoe / 4 - yoe / 100) in
  let mp := (5 * doy + 2) / 153 in
  if mp <? 10 then y else y + 1.

Fixpoint zlookup (k : Z) (l : list (Z * Qc)) : option Qc :=
  match l with [] => None | (k', v) :: r => if k =? k' then Some v else zlookup k r end.
Fixpoint zupdate (k : Z) (v : Qc) (l : list (Z * Qc)) : list (Z * Qc) :=
  match l with
  | [] => [(k, v)]
  | (k', v') :: r => if k =? k' then (k, v) :: r else (k', v') :: zupdate k v r
  end.

Record gains : Type := { g_total : Qc; g_years : list (Z * Qc) }.
Definition gains0 : gains := {| g_total := 0%Qc; g_years := [] |}.

Section WithArith.
  Variable A : arith.

  (* calc_security_cumulative_capital_gains, one row: (settlement day, gain) *)
  Definition add_gain (g : gains) (row : Z * option Qc) : res gains :=
    match snd row with
    | None => Ok g
    | Some c =>
        t <- a_add A (g_total g) c ;;
        let y := year_of_day (fst row) in
        let sofar := match zlookup y (g_years g) with Some v => v | None => 0%Qc end in
        yt <- a_add A sofar c ;;
        Ok {| g_total := t; g_years := zupdate y yt (g_years g) |}
    end.

  Fixpoint security_gains (g : gains) (rows : list (Z * option Qc)) : res gains :=
    match rows with
    | [] => Ok g
    | r :: rest => g' <- add_gain g r ;; security_gains g' rest
    end.

  (* calc_cumulative_capital_gains: one security's totals into the aggregate *)
  Fixpoint add_years (acc : list (Z * Qc)) (ys : list (Z * Qc)) : res (list (Z * Qc)) :=
    match ys with
    | [] => Ok acc
    | (y, v) :: rest =>
        let sofar := match zlookup y acc with Some w => w | None => 0%Qc end in
        s <- a_add A sofar v ;;
        add_years (zupdate y s acc) rest
    end.
  Definition add_security (g : gains) (s : gains) : res gains :=
    t <- a_add A (g_total g) (g_total s) ;;
    ys <- add_years (g_years g) (g_years s) ;;
    Ok {| g_total := t; g_years := ys |}.
  Fixpoint aggregate (g : gains) (secs : list gains) : res gains :=
    match secs with
    | [] => Ok g
    | s :: rest => g' <- add_security g s ;; aggregate g' rest
    end.
End WithArith.

Definition gain_rows (ds : list delta) : list (Z * option Qc) :=
  map (fun d => (t_sd (d_tx d), d_gain d)) ds.
