(* C18: src/peripheral/excel.rs (read_sheet_header, SheetReader),
   src/peripheral/broker/questrade.rs (sheet_to_txs) and the pipeline of
   src/peripheral/tx_export_convert_impl.rs (run_with_args: account
   verification / filter, security filter, --no-fx, --usd-exchange-rate,
   sort).
   The input is the sheet as the `office` crate decoded it (xlsx decoding is
   not modelled).  A Float cell carries the Decimal that Decimal::from_f64
   returns for it and its f64 Display text, both computed by the real code
   (f64 -> Decimal is not modelled).  Error cells are not modelled.
   Definitions only. *)
From Coq Require Import List NArith ZArith QArith Qcanon Bool.
From ACB Require Import Base.Outcome Base.QcExtra Base.Fit Base.Arith Model.QText Model.FxTracker.
Import ListNotations.
Local Open Scope N_scope.

Inductive cell :=
| CEmpty
| CStr (s : text)
| CInt (z : Z)
| CFloat (d : option Qc) (disp : text)
| CBool (b : bool).

Definition sheet := list (list cell).

(* ---- read_sheet_header ---- *)
(* [HeaderFiltered]: the code up to commit 749b190: non-string header cells
   are dropped BEFORE the column indices are assigned;
   [HeaderEnumerated]: the code after the fix: indices are assigned first. *)
Inductive header_policy := HeaderFiltered | HeaderEnumerated.

Definition cell_is (name : text) (c : cell) : bool :=
  match c with CStr s => text_eqb s name | _ => false end.
Definition is_str (c : cell) : bool := match c with CStr _ => true | _ => false end.

(* HashMap::from_iter: a later column of the same name wins *)
Fixpoint last_index (hdr : list cell) (name : text) : option nat :=
  match hdr with
  | [] => None
  | c :: r =>
      match last_index r name with
      | Some j => Some (S j)
      | None => if cell_is name c then Some O else None
      end
  end.

Definition header_index (pol : header_policy) (hdr : list cell) (name : text) : option nat :=
  match pol with
  | HeaderEnumerated => last_index hdr name
  | HeaderFiltered => last_index (filter is_str hdr) name
  end.

(* ---- SheetReader::get ---- *)
Inductive lookup := NoCol | OutOfRow | Cell (c : cell).

Definition get (pol : header_policy) (hdr row : list cell) (name : text) : lookup :=
  match header_index pol hdr name with
  | None => NoCol
  | Some i => match nth_error row i with Some c => Cell c | None => OutOfRow end
  end.

(* the cells of a row the converter can look at: one per named header *)
Record qrow := {
  q_action : lookup; q_tdate : lookup; q_sdate : lookup; q_accttype : lookup;
  q_acctnum : lookup; q_cur : lookup; q_net : lookup; q_symbol : lookup;
  q_price : lookup; q_qty : lookup; q_comm : lookup
}.

Definition h_Action : text := [65;99;116;105;111;110].
Definition h_TransactionDate : text := [84;114;97;110;115;97;99;116;105;111;110;32;68;97;116;101].
Definition h_SettlementDate : text := [83;101;116;116;108;101;109;101;110;116;32;68;97;116;101].
Definition h_AccountType : text := [65;99;99;111;117;110;116;32;84;121;112;101].
Definition h_AccountNum : text := [65;99;99;111;117;110;116;32;35].
Definition h_Currency : text := [67;117;114;114;101;110;99;121].
Definition h_NetAmount : text := [78;101;116;32;65;109;111;117;110;116].
Definition h_Symbol : text := [83;121;109;98;111;108].
Definition h_Price : text := [80;114;105;99;101].
Definition h_Quantity : text := [81;117;97;110;116;105;116;121].
Definition h_Commission : text := [67;111;109;109;105;115;115;105;111;110].

Definition used_headers : list text :=
  [h_Action; h_TransactionDate; h_SettlementDate; h_AccountType; h_AccountNum; h_Currency;
   h_NetAmount; h_Symbol; h_Price; h_Quantity; h_Commission].

Definition read_row (pol : header_policy) (hdr row : list cell) : qrow :=
  {| q_action := get pol hdr row h_Action; q_tdate := get pol hdr row h_TransactionDate;
     q_sdate := get pol hdr row h_SettlementDate; q_accttype := get pol hdr row h_AccountType;
     q_acctnum := get pol hdr row h_AccountNum; q_cur := get pol hdr row h_Currency;
     q_net := get pol hdr row h_NetAmount; q_symbol := get pol hdr row h_Symbol;
     q_price := get pol hdr row h_Price; q_qty := get pol hdr row h_Quantity;
     q_comm := get pol hdr row h_Commission |}.

(* the rows of the sheet below the header; None = "Sheet was empty" *)
Definition sheet_rows (pol : header_policy) (sh : sheet) : option (list qrow) :=
  match sh with
  | [] => None
  | hdr :: rows => Some (map (read_row pol hdr) rows)
  end.

(* ---- SheetReader::get_str / get_dec ---- *)
Module Col.
  Definition action : N := 1.  Definition tdate : N := 2.  Definition sdate : N := 3.
  Definition accttype : N := 4. Definition acctnum : N := 5. Definition cur : N := 6.
  Definition net : N := 7.     Definition symbol : N := 8. Definition price : N := 9.
  Definition qty : N := 10.    Definition comm : N := 11.
End Col.

Definition t_true : text := [116;114;117;101].
Definition t_false : text := [102;97;108;115;101].

(* value, row error, or the index panic of `self.row.unwrap().get(col).unwrap()` *)
Inductive got (T : Type) := GOk (v : T) | GErr (e : N) | GPanic.
Arguments GOk {T} v. Arguments GErr {T} e. Arguments GPanic {T}.

Definition get_str (col : N) (l : lookup) : got text :=
  match l with
  | NoCol => GErr (QErr.no_column col)
  | OutOfRow => GPanic
  | Cell c =>
      GOk (match c with
           | CStr s => s
           | CBool b => if b then t_true else t_false
           | CEmpty => []
           | CInt z => text_of_Z z
           | CFloat _ disp => disp
           end)
  end.

(* Decimal::from_str on the modelled grammar: [+-]? digits with at most one
   '.', at least one digit, scale <= 28 and mantissa <= 2^96-1.  Longer
   numerals (which the crate rounds) and '_' separators are a model gap. *)
Definition parse_dec_str (col : N) (s : text) : got Qc :=
  let '(neg, body) := match s with
                      | 45 :: r => (true, r)
                      | 43 :: r => (false, r)
                      | _ => (false, s)
                      end in
  if existsb (N.eqb 95) body then GErr (QErr.model_gap col)
  else if negb (forallb (fun c => is_digit c || is_dot c) body) then GErr (QErr.bad_number col)
  else if Nat.eqb (length (filter is_digit body)) 0 then GErr (QErr.bad_number col)
  else if negb (Nat.leb (count_dots body) 1) then GErr (QErr.bad_number col)
  else if Nat.leb (frac_len body) 28 && (Z.of_N (mantissa body) <=? max_mant)%Z then
    GOk (if neg then (- plain_num_value body)%Qc else plain_num_value body)
  else GErr (QErr.model_gap col).

Definition get_dec (col : N) (l : lookup) : got Qc :=
  match l with
  | NoCol => GErr (QErr.no_column col)
  | OutOfRow => GPanic
  | Cell c =>
      match c with
      | CInt z => GOk (QcZ z)
      | CFloat (Some d) _ => GOk d
      | CFloat None _ => GErr (QErr.float_unconvertible col)
      | CStr s => parse_dec_str col s
      | CBool _ => GErr (QErr.bool_value col)
      | CEmpty => GErr (QErr.empty_value col)
      end
  end.

(* ---- convert_date_str: ^\d{4}-\d{2}-\d{2} then Date::parse ---- *)
Definition is_leap (y : N) : bool :=
  ((y mod 4 =? 0) && negb (y mod 100 =? 0)) || (y mod 400 =? 0).
Definition days_in_month (y m : N) : N :=
  match m with
  | 2 => if is_leap y then 29 else 28
  | 4 | 6 | 9 | 11 => 30
  | _ => 31
  end.

Definition parse_date (s : text) : option date3 :=
  match s with
  | y1 :: y2 :: y3 :: y4 :: 45 :: m1 :: m2 :: 45 :: d1 :: d2 :: _ =>
      if forallb is_digit [y1; y2; y3; y4; m1; m2; d1; d2] then
        let y := digits_value [y1; y2; y3; y4] in
        let m := digits_value [m1; m2] in
        let d := digits_value [d1; d2] in
        if (1 <=? m) && (m <=? 12) && (1 <=? d) && (d <=? days_in_month y m)
        then Some (y, m, d) else None
      else None
  | _ => None
  end.

(* ---- action tables ---- *)
Definition t_BUY : text := [66;85;89].
Definition t_SELL : text := [83;69;76;76].
Definition t_DIS : text := [68;73;83].
Definition t_LIQ : text := [76;73;81].
Definition t_FXT : text := [70;88;84].
Definition t_DIV : text := [68;73;86].
Definition allowed_actions : list text := [t_BUY; t_SELL; t_DIS; t_LIQ; t_FXT; t_DIV].
Definition ignored_actions : list text :=
  [[66;82;87]; [84;70;73]; [84;70;54]; [77;71;82]; [68;69;80]; [78;65;67]; [67;79;78];
   [73;78;84]; [69;70;84]; [82;68;77]; []].
Definition mem_text (s : text) (l : list text) : bool := existsb (text_eqb s) l.

(* regex (?i)rrsp|tfsa|resp: ASCII case folding plus U+017F (long s) ~ s *)
Definition fold_c (c : N) : N := if c =? 383 then 115 else lower_c c.
Definition is_registered_type (account_type : text) : bool :=
  let t := map fold_c account_type in
  contains [114;114;115;112] t || contains [116;102;115;97] t || contains [114;101;115;112] t.

(* symbol alias table: H038778 -> DLR.TO *)
Definition t_H038778 : text := [72;48;51;56;55;55;56].
Definition t_DLR_TO : text := [68;76;82;46;84;79].
Definition alias_symbol (s : text) : text := if text_eqb s t_H038778 then t_DLR_TO else s.

(* ---- sheet_to_txs ---- *)
(* what one row does: trades pushed to `txs`, transactions added to the
   FxTracker, the tracker's pending conversion row afterwards, and the error
   of the row (both vectors are only appended to by the code) *)
Record effect := {
  e_trades : list btx; e_fx : list btx; e_adj : option fxt_row; e_err : option N
}.
Definition eff (t f : list btx) (a : option fxt_row) (e : option N) : res effect :=
  Ok {| e_trades := t; e_fx := f; e_adj := a; e_err := e |}.

Section Convert.
  Variable A : arith.

  Definition gbind {T} (g : got T) (adj : option fxt_row) (k : T -> res effect) : res effect :=
    match g with
    | GOk v => k v
    | GErr e => eff [] [] adj (Some e)
    | GPanic => Panic (PanicMissing 320)      (* excel.rs:39 *)
    end.

  Definition row_effect (n : N) (q : qrow) (adj : option fxt_row) : res effect :=
    gbind (get_str Col.action (q_action q)) adj (fun raw =>
    let act := upper raw in
    if negb (mem_text act allowed_actions) && negb (mem_text act ignored_actions) then
      eff [] [] adj (Some QErr.unrecognized_action)
    else if mem_text act ignored_actions then eff [] [] adj None
    else
    gbind (get_str Col.tdate (q_tdate q)) adj (fun tdt =>
    match parse_date tdt with
    | None => eff [] [] adj (Some (QErr.bad_date Col.tdate))
    | Some td =>
    gbind (get_str Col.sdate (q_sdate q)) adj (fun sdt =>
    match parse_date sdt with
    | None => eff [] [] adj (Some (QErr.bad_date Col.sdate))
    | Some sd =>
    gbind (get_str Col.accttype (q_accttype q)) adj (fun atype =>
    gbind (get_str Col.acctnum (q_acctnum q)) adj (fun anum =>
    let acct := {| ac_type := atype; ac_num := anum |} in
    let reg := is_registered_type atype in
    if text_eqb act t_FXT then
      gbind (get_str Col.cur (q_cur q)) adj (fun curs =>
      gbind (get_dec Col.net (q_net q)) adj (fun amount =>
      '(adj', fx, e) <- add_fxt_row A adj {| fr_row := n; fr_cur := currency_of curs; fr_reg := reg;
                                            fr_td := td; fr_tdt := tdt; fr_amount := amount;
                                            fr_acct := acct |} ;;
      eff [] fx adj' e))
    else
    gbind (get_str Col.symbol (q_symbol q)) adj (fun sym =>
    match sym with
    | [] => eff [] [] adj (Some QErr.symbol_empty)
    | _ =>
    if text_eqb act t_DIV then
      gbind (get_str Col.cur (q_cur q)) adj (fun curs =>
      if text_eqb (upper curs) t_USD then
        gbind (get_dec Col.net (q_net q)) adj (fun amount =>
        match fx_tx t_USD td tdt amount reg n acct None with
        | inl e => eff [] [] adj (Some e)
        | inr t => eff [] [t] adj None
        end)
      else eff [] [] adj None)
    else
      let buy := text_eqb act t_BUY || text_eqb act t_DIS in
      gbind (get_dec Col.price (q_price q)) adj (fun price =>
      gbind (get_dec Col.qty (q_qty q)) adj (fun qty =>
      gbind (get_dec Col.comm (q_comm q)) adj (fun comm =>
      gbind (get_str Col.cur (q_cur q)) adj (fun curs =>
      let t := {| b_sec := alias_symbol sym; b_td := td; b_sd := sd; b_tdt := tdt; b_sdt := sdt;
                  b_buy := buy; b_price := price; b_shares := Qcabs qty; b_comm := Qcabs comm;
                  b_cur := currency_of curs; b_rate := None; b_reg := reg; b_row := n;
                  b_acct := acct; b_tb := None |} in
      if cur_is_default (b_cur t) then eff [t] [] adj None
      else
        '(fx, e) <- add_implicit_fxt A t ;;
        eff [t] fx adj e))))
    end)))
    end)
    end)).

  (* the rows below the header, numbered from 2: trades, FX transactions,
     the pending conversion row at the end, row errors *)
  Fixpoint convert_rows (n : N) (rows : list qrow) (adj : option fxt_row)
    : res (list btx * list btx * option fxt_row * list (N * N)) :=
    match rows with
    | [] => Ok ([], [], adj, [])
    | q :: r =>
        e <- row_effect n q adj ;;
        '(ts, fs, adj', errs) <- convert_rows (n + 1) r (e_adj e) ;;
        Ok (e_trades e ++ ts, e_fx e ++ fs, adj',
            match e_err e with Some c => [(n, c)] | None => [] end ++ errs)
    end.

  (* sheet_to_txs: all transactions (trades, then the FX transactions) and
     the row errors (the "Unpaired FXT" error last) *)
  Definition convert (rows : list qrow) : res (list btx * list (N * N)) :=
    '(ts, fs, adj, errs) <- convert_rows 2 rows None ;;
    Ok (ts ++ fs, errs ++ unpaired_error adj).
End Convert.

(* ---- run_with_args ---- *)
Record opts := {
  o_account : option (text -> bool);    (* --account: regex on "{type} {num}" *)
  o_security : option (text -> bool);   (* --security: regex on the security *)
  o_no_fx : bool;
  o_no_sort : bool;
  o_rate : option Qc                    (* --usd-exchange-rate *)
}.

Inductive run_result :=
| RunFatal (errs : list (N * N))                 (* no output: header could not be read *)
| RunAccounts                                    (* no output: several accounts, no --account *)
| RunOut (rows : list btx) (errs : list (N * N)). (* CSV rows; exit status Err iff errs <> [] *)

Fixpoint distinct_accounts (l : list account) : list account :=
  match l with
  | [] => []
  | a :: r => if existsb (account_eqb a) r then distinct_accounts r else a :: distinct_accounts r
  end.

Definition is_fx_security (s : text) : bool := ends_with t_dotFX s.

Definition apply_rate (r : option Qc) (t : btx) : btx :=
  match r with
  | Some x =>
      if text_eqb (b_cur t) t_USD then
        {| b_sec := b_sec t; b_td := b_td t; b_sd := b_sd t; b_tdt := b_tdt t; b_sdt := b_sdt t;
           b_buy := b_buy t; b_price := b_price t; b_shares := b_shares t; b_comm := b_comm t;
           b_cur := b_cur t; b_rate := Some x; b_reg := b_reg t; b_row := b_row t;
           b_acct := b_acct t; b_tb := b_tb t |}
      else t
  | None => t
  end.

Definition post_process (o : opts) (txs : list btx) : option (list btx) :=
  let filtered :=
    match o_account o with
    | Some f => Some (filter (fun t => f (account_str (b_acct t))) txs)
    | None =>
        if Nat.ltb 1 (length (distinct_accounts (map b_acct txs))) then None else Some txs
    end in
  match filtered with
  | None => None
  | Some t1 =>
      let t2 := match o_security o with Some f => filter (fun t => f (b_sec t)) t1 | None => t1 end in
      let t3 := if o_no_fx o then filter (fun t => negb (is_fx_security (b_sec t))) t2 else t2 in
      let t4 := map (apply_rate (o_rate o)) t3 in
      Some (if o_no_sort o then t4 else sort_btx t4)
  end.

Definition run (A : arith) (pol : header_policy) (o : opts) (sh : sheet) : res run_result :=
  match sheet_rows pol sh with
  | None => Ok (RunFatal [(1, 0)])
  | Some rows =>
      '(txs, errs) <- convert A rows ;;
      match post_process o txs with
      | None => Ok RunAccounts
      | Some out => Ok (RunOut out errs)
      end
  end.
