(* Bridge between the byte-level CSV reader model (CsvFields.v, CsvTable.v:
   cells -> CsvTx -> Tx, the [ctx] records) and the bookkeeping model (Tx.v ...
   App.v, rows [tx] over Qc with numbered securities and affiliates).

   approot.rs run_acb_app_to_delta_models, per file:
     parse_tx_csv (global read index continues over the files);
     load_tx_rates (tx_loader.rs: a row without a trade date is an error; a
       foreign currency without a rate needs the rate loader);
     Tx::try_from on every row;
   then everything downstream reads of a Tx only
     shares / amount / commission (Decimal values),
     tx_currency_and_rate.exchange_rate,
     commission_currency_and_rate().exchange_rate
       (= separate_commission_currency.unwrap_or(tx_currency_and_rate)),
     the split ratio (post, pre, reverse_integer_only),
     affiliate id() (compared and sorted as strings), registered(), is_global(),
     security (compared as strings), dates (compared, subtracted), read_index.
   [abs_tx] computes exactly these.  Definitions only. *)
From Coq Require Import List NArith ZArith QArith Qcanon Bool Arith.
From ACB Require Import Base.Outcome Base.QcExtra Base.Arith Model.CsvFields Model.CsvTable
     Model.Tx Model.Ledger Model.Sfl Model.DeltaList Model.App.
Import ListNotations.
Local Open Scope N_scope.

(* ---- numbers ---- *)
Fixpoint pos10 (n : nat) : positive :=
  match n with O => 1%positive | S k => (10 * pos10 k)%positive end.
(* the value of a rust_decimal Decimal *)
Definition dec_q (d : dec) : Qc :=
  Qcfrac (if d_neg d then (- Z.of_N (d_mant d))%Z else Z.of_N (d_mant d)) (pos10 (d_scale d)).

(* ---- dates: time::Date -> day number (proleptic Gregorian ordinal, day 1 =
   0001-01-01; only differences and order are used downstream) ---- *)
Definition day_number (d : date) : Z :=
  let y := Z.of_N (dt_y d) in
  let m := Z.of_N (dt_m d) in
  let dd := Z.of_N (dt_d d) in
  let y' := (if m <=? 2 then y - 1 else y)%Z in
  let era := (y' / 400)%Z in
  let yoe := (y' - era * 400)%Z in
  let mp := (if m <=? 2 then m + 9 else m - 3)%Z in
  let doy := ((153 * mp + 2) / 5 + dd - 1)%Z in
  let doe := (yoe * 365 + yoe / 4 - yoe / 100 + doy)%Z in
  (era * 146097 + doe - 305)%Z.

(* ---- names: String's Ord is the bytewise lexicographic order ---- *)
Fixpoint bltb (a b : bytes) : bool :=
  match a, b with
  | _, [] => false
  | [], _ :: _ => true
  | x :: a', y :: b' => (x <? y) || ((x =? y) && bltb a' b')
  end.
Definition bmem (s : bytes) (l : list bytes) : bool := existsb (beqb s) l.
Fixpoint dedup (l : list bytes) : list bytes :=
  match l with
  | [] => []
  | s :: r => if bmem s r then dedup r else s :: dedup r
  end.
(* number of distinct listed names that sort before [s]: for a listed name,
   its position in the sorted list of distinct names *)
Definition rank (names : list bytes) (s : bytes) : N :=
  N.of_nat (length (filter (fun x => bltb x s) (dedup names))).

Record naming : Type := { nm_secs : list bytes; nm_affs : list bytes }.
Definition sec_num (nm : naming) (s : bytes) : N := rank (nm_secs nm) s.
(* affiliate ids are numbered by rank, shifted so that "default" is
   [default_id] = 1000 (the convention of the bookkeeping model) *)
Definition aff_num (nm : naming) (id : bytes) : N :=
  Z.to_N (Z.of_N default_id + Z.of_N (rank (nm_affs nm) id) - Z.of_N (rank (nm_affs nm) s_default_id)).
(* the shift does not underflow and "default" is listed *)
Definition names_ok (nm : naming) : bool :=
  bmem s_default_id (nm_affs nm) && (rank (nm_affs nm) s_default_id <=? default_id).

(* Affiliate::is_default(): exactly "default" or "default (R)" *)
Definition id_is_default (id : bytes) : bool :=
  beqb id s_default_id || beqb id (s_default_id ++ s_reg_suffix).

Definition abs_aff (nm : naming) (a : affdata) : aff :=
  {| af_id := aff_num nm (a_id a); af_reg := a_reg a; af_dflt := id_is_default (a_id a) |}.

(* commission_currency_and_rate() *)
Definition com_car (cr : car) (ccr : option car) : car :=
  match ccr with Some c => c | None => cr end.

Definition abs_act (a : cact) : action :=
  match a with
  | XBuy sh aps com cr ccr =>
      Buy (dec_q sh) (dec_q aps) (dec_q com) (dec_q (c_rate cr)) (dec_q (c_rate (com_car cr ccr)))
  | XSell sh aps com cr ccr sfl =>
      Sell (dec_q sh) (dec_q aps) (dec_q com) (dec_q (c_rate cr)) (dec_q (c_rate (com_car cr ccr)))
           (option_map (fun v => (dec_q (sf_val v), sf_force v)) sfl)
  | XRoc aps cr => Roc (dec_q aps) (dec_q (c_rate cr))
  | XSfla sh aps => Sfla (dec_q sh) (dec_q aps)
  | XSplit r => Split (dec_q (r_post r)) (dec_q (r_pre r)) (r_rio r)
  end.

Definition abs_tx (nm : naming) (t : ctx) : tx :=
  {| t_sec := sec_num nm (x_sec t);
     t_td := day_number (x_td t);
     t_sd := day_number (x_sd t);
     t_act := abs_act (x_act t);
     t_af := abs_aff nm (x_af t);
     t_glob := aff_is_global (x_af t);
     t_ri := x_ri t |}.

(* the names occurring in an input: securities of the opening positions and
   of the rows; affiliate ids of the rows that are not addressed to the
   pseudo-affiliate, and "default" *)
Definition naming_of (init_secs : list bytes) (txs : list ctx) : naming :=
  {| nm_secs := init_secs ++ map x_sec txs;
     nm_affs := s_default_id
                  :: map (fun t => a_id (x_af t)) (filter (fun t => negb (aff_is_global (x_af t))) txs) |}.

(* ---- load_tx_rates (tx_loader.rs), without a rate source ---- *)
Definition rej_no_trade_date : rej := RejParse 30.
Definition rej_rate_required : rej := RejParse 31.   (* foreign, not USD, no rate given *)
Definition rej_remote_rate : rej := RejOther 98.     (* USD without a rate: rate loader, not modelled here *)
Definition s_usd : bytes := [85; 83; 68].
Definition rate_needed (cur : option bytes) (fx : option dec) : res unit :=
  match fx with
  | Some _ => Ok tt
  | None =>
      match cur with
      | None => Ok tt
      | Some c => if cur_is_default c then Ok tt
                  else if beqb c s_usd then Rej rej_remote_rate else Rej rej_rate_required
      end
  end.
Definition load_rates_row (v : csvtx) : res unit :=
  match v_td v with
  | None => Rej rej_no_trade_date
  | Some _ => _ <- rate_needed (v_cur v) (v_fx v) ;; rate_needed (v_ccur v) (v_cfx v)
  end.
Fixpoint load_rates (vs : list csvtx) : res unit :=
  match vs with
  | [] => Ok tt
  | v :: r => _ <- load_rates_row v ;; load_rates r
  end.

(* one file: header cells and the cells of every record *)
Definition file : Type := (list bytes * list (list bytes))%type.
Definition read_file (tbl : aftable) (f : file) (ri0 : N) : res (list ctx * aftable) :=
  '(vs, tbl1) <- parse_table tbl (fst f) (snd f) ri0 ;;
  _ <- load_rates vs ;;
  txs_try_from tbl1 vs.
Fixpoint read_files (tbl : aftable) (fs : list file) (ri0 : N) : res (list ctx * aftable) :=
  match fs with
  | [] => Ok ([], tbl)
  | f :: r =>
      '(txs, tbl1) <- read_file tbl f ri0 ;;
      '(rest, tbl2) <- read_files tbl1 r (ri0 + N.of_nat (length txs)) ;;
      Ok (txs ++ rest, tbl2)
  end.

(* opening positions: security name, status *)
Definition abs_inits (nm : naming) (inits : list (bytes * status)) : list (N * status) :=
  map (fun x => (sec_num nm (fst x), snd x)) inits.

Definition abs_rows (inits : list (bytes * status)) (txs : list ctx) : naming * list tx :=
  let nm := naming_of (map fst inits) txs in (nm, map (abs_tx nm) txs).

(* cells of the files -> report per security *)
Definition read_and_run (A : arith) (tbl : aftable) (inits : list (bytes * status)) (fs : list file)
  : res (list (N * (list delta * option stop))) :=
  '(txs, _) <- read_files tbl fs 0 ;;
  let '(nm, rows) := abs_rows inits txs in
  run_app A (abs_inits nm inits) rows.
