(* Text helpers shared by the Questrade models (C18, C20).  Text is a list of
   Unicode scalar values (N).  Character classes:
     is_space = Unicode White_Space (Rust char::is_whitespace, str::trim, regex \s)
     is_digit = ASCII 0-9 ([0-9]; the regex class \d also contains the non-ASCII
                decimal digits, which are NOT modelled)
     upper/lower = ASCII case mapping (Rust to_uppercase/to_lowercase also map
                non-ASCII letters, NOT modelled)
   Definitions only. *)
From Coq Require Import List NArith ZArith QArith Qcanon Bool.
From ACB Require Import Base.QcExtra Base.Fit.
Import ListNotations.
Local Open Scope N_scope.

Definition text := list N.

Definition is_space (c : N) : bool :=
  ((9 <=? c) && (c <=? 13)) || (c =? 32) || (c =? 133) || (c =? 160) || (c =? 5760)
  || ((8192 <=? c) && (c <=? 8202)) || (c =? 8232) || (c =? 8233) || (c =? 8239)
  || (c =? 8287) || (c =? 12288).

Definition is_digit (c : N) : bool := (48 <=? c) && (c <=? 57).

Definition upper_c (c : N) : N := if (97 <=? c) && (c <=? 122) then c - 32 else c.
Definition lower_c (c : N) : N := if (65 <=? c) && (c <=? 90) then c + 32 else c.
Definition upper (s : text) : text := map upper_c s.
Definition lower (s : text) : text := map lower_c s.

Fixpoint text_eqb (a b : text) : bool :=
  match a, b with
  | [], [] => true
  | x :: a', y :: b' => (x =? y) && text_eqb a' b'
  | _, _ => false
  end.

(* byte-wise / code-point-wise lexicographic comparison (Rust String::cmp) *)
Fixpoint text_cmp (a b : text) : comparison :=
  match a, b with
  | [], [] => Eq
  | [], _ :: _ => Lt
  | _ :: _, [] => Gt
  | x :: a', y :: b' =>
      match N.compare x y with
      | Eq => text_cmp a' b'
      | c => c
      end
  end.

(* [strip_prefix p s] = Some rest when s = p ++ rest *)
Fixpoint strip_prefix (p s : text) : option text :=
  match p, s with
  | [], _ => Some s
  | x :: p', y :: s' => if x =? y then strip_prefix p' s' else None
  | _ :: _, [] => None
  end.

Definition starts_with (p s : text) : bool :=
  match strip_prefix p s with Some _ => true | None => false end.

Fixpoint contains (sub s : text) : bool :=
  starts_with sub s ||
  match s with
  | [] => false
  | _ :: r => contains sub r
  end.

Definition ends_with (suf s : text) : bool := starts_with (rev suf) (rev s).

Fixpoint skip_spaces (s : text) : text :=
  match s with
  | c :: r => if is_space c then skip_spaces r else s
  | [] => []
  end.

(* maximal prefix of non-space characters, and the rest *)
Fixpoint span_nonspace (s : text) : text * text :=
  match s with
  | c :: r =>
      if is_space c then ([], s)
      else let '(t, rest) := span_nonspace r in (c :: t, rest)
  | [] => ([], [])
  end.

Fixpoint span_digits (s : text) : text * text :=
  match s with
  | c :: r =>
      if is_digit c then let '(t, rest) := span_digits r in (c :: t, rest)
      else ([], s)
  | [] => ([], [])
  end.

Definition trim (s : text) : text := rev (skip_spaces (rev (skip_spaces s))).
Definition is_blank (s : text) : bool := forallb is_space s.

(* value of a digit string (non-digits count as 0..: callers check) *)
Definition digit_val (c : N) : N := c - 48.
Definition digits_value (s : text) : N :=
  fold_left (fun acc c => acc * 10 + digit_val c) s 0.

(* N as decimal digits (i64::to_string on a non-negative value) *)
Fixpoint digits_of_pos_fuel (fuel : nat) (n : N) (acc : text) : text :=
  match fuel with
  | O => acc
  | S f =>
      let acc' := (48 + n mod 10) :: acc in
      if n / 10 =? 0 then acc' else digits_of_pos_fuel f (n / 10) acc'
  end.
Definition digits_of_N (n : N) : text := digits_of_pos_fuel (S (N.to_nat (N.log2 n))) n [].
Definition text_of_Z (z : Z) : text :=
  match z with
  | Zneg p => 45 :: digits_of_N (Npos p)
  | _ => digits_of_N (Z.to_N z)
  end.

(* ---- decimal numerals ---- *)
(* a numeral made of digits and '.' only: at most one '.', scale <= 28,
   mantissa <= 2^96-1 (Decimal::from_str_exact); the mantissa is all the
   digits, the scale the number of digits after the point *)
Definition is_dot (c : N) : bool := c =? 46.
Definition count_dots (s : text) : nat := length (filter is_dot s).
Fixpoint frac_len (s : text) : nat :=
  match s with
  | [] => O
  | c :: r => if is_dot c then length (filter is_digit r) else frac_len r
  end.
Definition mantissa (s : text) : N := digits_value (filter is_digit s).

Definition plain_num_ok (s : text) : bool :=
  forallb (fun c => is_digit c || is_dot c) s
  && negb (Nat.eqb (length (filter is_digit s)) 0)
  && Nat.leb (count_dots s) 1
  && Nat.leb (frac_len s) 28
  && (Z.of_N (mantissa s) <=? max_mant)%Z.

Definition plain_num_value (s : text) : Qc :=
  Qcfrac (Z.of_N (mantissa s)) (p10 (frac_len s)).

(* parse_large_decimal: remove ',' then from_str_exact *)
Definition is_comma (c : N) : bool := c =? 44.
Definition strip_commas (s : text) : text := filter (fun c => negb (is_comma c)) s.

(* ASCII text literals *)
Definition t_ALLOCATION : text := [65; 76; 76; 79; 67; 65; 84; 73; 79; 78].
Definition c_bullet : N := 9632.   (* U+25A0 BLACK SQUARE *)
