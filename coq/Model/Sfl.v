(* superficial_loss.rs: get_superficial_loss_info (the two window scans),
   calc_superficial_loss_ratio; and delta_list.rs:62-195
   get_delta_superficial_loss_info.  The transaction vector indexed by [idx]
   is represented as a zipper: [bef] = rows before the sale, most recent
   first; [aft] = rows after the sale, in order. *)
From Coq Require Import List NArith ZArith QArith Qcanon Bool.
From ACB Require Import Base.Outcome Base.QcExtra Base.Fit Base.Arith Model.Tx Model.Ledger.
Import ListNotations.
Local Open Scope Qc_scope.

Record scan : Type := {
  sc_eop : Qc;                 (* all_aff_spladj_shares_at_end_of_period *)
  sc_acq : Qc;                 (* total_aquired_spladj_shares_in_period *)
  sc_buyers : list aff;        (* buying_affiliates *)
  sc_active : list (N * Qc)    (* active_affiliate_spladj_shares_at_eop *)
}.

Fixpoint add_aff (a : aff) (l : list aff) : list aff :=
  match l with
  | [] => [a]
  | b :: r => if aff_eqb a b then l else b :: add_aff a r
  end.

(* insertion sort of affiliates by id (acb_adjust_affiliates.sort_by id) *)
Fixpoint ins_aff (a : aff) (l : list aff) : list aff :=
  match l with
  | [] => [a]
  | b :: r => if N.leb (af_id a) (af_id b) then a :: l else b :: ins_aff a r
  end.
Definition sort_affs (l : list aff) : list aff := fold_right ins_aff [] l.

Definition window_days : Z := 30.

Record sflratio : Type := {
  sr_num : Qc;                         (* sfl_ratio numerator *)
  sr_den : Qc;                         (* sfl_ratio denominator = sold shares *)
  sr_portions : list (aff * (Qc * Qc)); (* acb_adjust_affiliate_ratios: (eop shares, total) *)
  sr_over : bool                       (* fewer_remaining_shares_than_sfl_shares *)
}.

(* LessEqualZeroDecimal::try_from(d).unwrap() (decimal.rs: is_sign_negative || is_zero) *)
Definition lez_unwrap (site : N) (q : Qc) : res Qc :=
  if Qcltb 0 q then Panic (PanicConstraint site) else Ok q.

Section WithArith.
  Variable A : arith.

  Definition adj_of (af : aff) (adj : list (N * Qc)) : Qc :=
    match alookup (af_id af) adj with Some v => v | None => 1 end.

  (* the rows after the sale: [adj] holds, per affiliate, the cumulative
     pre-to-post factor of the splits passed so far; share counts are DIVIDED
     by it (since the fix "divide later share counts by the cumulative split
     factor": dividing by 1.5 is exact where multiplying by a rounded 1/1.5
     is not) *)
  Fixpoint fwd_scan (last : Z) (dflt : aff -> Qc) (aft : list tx)
           (adj : list (N * Qc)) (s : scan) : res scan :=
    match aft with
    | [] => Ok s
    | t :: r =>
        if Z.ltb last (t_sd t) then Ok s else
        let af := t_af t in
        let sa := adj_of af adj in
        match t_act t with
        | Buy sh _ _ _ _ =>
            b <- gez_div A sh sa ;;
            eop <- gez_add A (sc_eop s) b ;;
            let old := match alookup (af_id af) (sc_active s) with
                       | Some d => d | None => dflt af end in
            na <- gez_add A old b ;;
            acq <- gez_add A (sc_acq s) b ;;
            fwd_scan last dflt r adj
              {| sc_eop := eop; sc_acq := acq;
                 sc_buyers := add_aff af (sc_buyers s);
                 sc_active := aupdate (af_id af) na (sc_active s) |}
        | Sell sh _ _ _ _ _ =>
            b <- gez_div A sh sa ;;
            eop <- a_sub A (sc_eop s) b ;;
            if Qcltb eop 0 then Rej RejAheadAllNegative else
            let old := match alookup (af_id af) (sc_active s) with
                       | Some d => d | None => dflt af end in
            na <- a_sub A old b ;;
            if Qcltb na 0 then Rej RejAheadAfNegative else
            fwd_scan last dflt r adj
              {| sc_eop := eop; sc_acq := sc_acq s;
                 sc_buyers := sc_buyers s;
                 sc_active := aupdate (af_id af) na (sc_active s) |}
        | Split post pre _ =>
            f <- split_factor A post pre ;;
            nsa <- pos_mul A sa f ;;
            fwd_scan last dflt r (aupdate (af_id af) nsa adj) s
        | Roc _ _ | Sfla _ _ => fwd_scan last dflt r adj s
        end
    end.

  Fixpoint bwd_scan (first : Z) (dflt : aff -> Qc) (bef : list tx)
           (adj : list (N * Qc)) (s : scan) : res scan :=
    match bef with
    | [] => Ok s
    | t :: r =>
        if Z.ltb (t_sd t) first then Ok s else
        let af := t_af t in
        let sa := adj_of af adj in
        match t_act t with
        | Buy sh _ _ _ _ =>
            b <- pos_mul A sh sa ;;
            acq <- gez_add A (sc_acq s) b ;;
            let active := if amem (af_id af) (sc_active s) then sc_active s
                          else aupdate (af_id af) (dflt af) (sc_active s) in
            bwd_scan first dflt r adj
              {| sc_eop := sc_eop s; sc_acq := acq;
                 sc_buyers := add_aff af (sc_buyers s);
                 sc_active := active |}
        | Split post pre _ =>
            f <- split_factor A post pre ;;
            nsa <- pos_mul A sa f ;;
            bwd_scan first dflt r (aupdate (af_id af) nsa adj) s
        | Sell _ _ _ _ _ _ | Roc _ _ | Sfla _ _ => bwd_scan first dflt r adj s
        end
    end.

  (* get_superficial_loss_info: None = NotSuperficial *)
  Definition sfl_info (bef : list tx) (t : tx) (sold : Qc) (aft : list tx) (st : pstate)
    : res (option scan) :=
    let dflt := fun af => match latest_for st af with Some s => s_sh s | None => 0 end in
    all0 <- a_sub A (s_all (latest_post_status st)) sold ;;
    if Qcltb all0 0 then Rej RejScanAllLess else
    af0 <- a_sub A (dflt (t_af t)) sold ;;
    if Qcltb af0 0 then Rej RejScanAfLess else
    let s0 := {| sc_eop := all0; sc_acq := 0; sc_buyers := [];
                 sc_active := [(af_id (t_af t), af0)] |} in
    s1 <- fwd_scan (t_sd t + window_days) dflt aft [] s0 ;;
    if negb (Qcltb 0 (sc_eop s1)) then Ok None else
    s2 <- bwd_scan (t_sd t - window_days) dflt bef [] s1 ;;
    if Qcltb 0 (sc_acq s2) then Ok (Some s2) else Ok None.

  (* constrained_min over [sold; acquired; eop] *)
  Definition min3 (a b c : Qc) : Qc :=
    let m := if Qcltb b a then b else a in
    if Qcltb c m then c else m.

  Fixpoint sum_buyers (active : list (N * Qc)) (l : list aff) (acc : Qc) : res Qc :=
    match l with
    | [] => Ok acc
    | af :: r =>
        let v := match alookup (af_id af) active with Some d => d | None => 0 end in
        acc' <- gez_add A acc v ;;
        sum_buyers active r acc'
    end.

  Fixpoint portions (active : list (N * Qc)) (total : Qc) (l : list aff)
    : res (list (aff * (Qc * Qc))) :=
    match l with
    | [] => Ok []
    | af :: r =>
        match alookup (af_id af) active with
        | None => Panic (PanicMissing Site.eop_missing)
        | Some d => rest <- portions active total r ;; Ok ((af, (d, total)) :: rest)
        end
    end.

  Definition sfl_ratio (sold : Qc) (ms : option scan) : res (option sflratio) :=
    match ms with
    | None => Ok None
    | Some s =>
        let num := min3 sold (sc_acq s) (sc_eop s) in
        match sc_buyers s with
        | [] => Panic (PanicAssert Site.no_buyers)
        | _ =>
            total <- sum_buyers (sc_active s) (sort_affs (sc_buyers s)) 0 ;;
            ps <- (if Qcltb 0 total then portions (sc_active s) total (sort_affs (sc_buyers s))
                   else Ok []) ;;
            Ok (Some {| sr_num := num; sr_den := sold; sr_portions := ps;
                        sr_over := Qcltb total num |})
        end
    end.

  (* maybe_round_to_effective_cent *)
  Definition eff_cent (d : Qc) : res Qc :=
    let r := round2 d in
    diff <- a_sub A r d ;;
    if Qcltb (Qcabs diff) (Qcfrac 1 10000000000) then Ok r else Ok d.

  (* generated SfLA rows, affiliates sorted by id *)
  Fixpoint gen_sfla (t : tx) (loss : Qc) (ps : list (aff * (Qc * Qc))) : res (list tx) :=
    match ps with
    | [] => Ok []
    | (af, (n, d)) :: r =>
        if negb (Qceqb n 0) && negb (af_reg af) then
          q <- a_div A n d ;;
          q1 <- gez_unwrap Site.ratio_to_gez q ;;
          q2 <- pos_unwrap Site.af_ratio_pos q1 ;;
          m <- neg_mul A (-(1)) loss ;;
          amt <- pos_mul A m q2 ;;
          rest <- gen_sfla t loss r ;;
          Ok ({| t_sec := t_sec t; t_td := t_td t; t_sd := t_sd t;
                 t_act := Sfla 1 amt; t_af := af; t_glob := false; t_ri := t_ri t |} :: rest)
        else gen_sfla t loss r
    end.

  (* get_delta_superficial_loss_info; cap_loss < 0.  Since the fix "treat a
     superficial loss that rounds to zero effective cents as no superficial
     loss": the rounded product goes into a LessEqualZeroDecimal (site
     eff_cent is now that try_from(..).unwrap()), and a zero calculated amount
     with no user-specified value means no superficial loss. *)
  Definition delta_sfl (bef : list tx) (t : tx) (sold : Qc) (spec : option (Qc * bool))
             (aft : list tx) (st : pstate) (cap_loss : Qc)
    : res (option (sflinfo * list tx)) :=
    info <- sfl_info bef t sold aft st ;;
    m <- sfl_ratio sold info ;;
    calc <- match m with
            | Some r =>
                q <- a_div A (sr_num r) (sr_den r) ;;
                q1 <- pos_unwrap Site.ratio_to_pos q ;;
                l <- neg_mul_pos A cap_loss q1 ;;
                c <- eff_cent l ;;
                lez_unwrap Site.eff_cent c
            | None => Ok 0
            end ;;
    match spec with
    | Some (sv, force) =>
        chk <- (if force then Ok tt else
                  d <- a_sub A calc sv ;;
                  if Qcltb (Qcfrac 1 1000) (Qcabs d) then Rej RejSflMismatch else Ok tt) ;;
        if negb (Qcltb sv 0) then Ok None else
        q <- neg_div A sv cap_loss ;;
        n <- pos_mul A q sold ;;
        Ok (Some ({| sf_amount := sv; sf_num := n; sf_den := sold; sf_over := false |}, []))
    | None =>
        match m with
        | Some r =>
            if negb (Qcltb calc 0) then Ok None else
            txs <- gen_sfla t calc (sr_portions r) ;;
            Ok (Some ({| sf_amount := calc; sf_num := sr_num r; sf_den := sr_den r;
                         sf_over := sr_over r |}, txs))
        | None => Ok None
        end
    end.
End WithArith.
