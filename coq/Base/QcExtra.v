(* Small toolkit over canonical rationals [Qc]: boolean comparisons with
   reflection lemmas, abs/min, and a tactic moving order goals to [lra]. *)
From Coq Require Import QArith Qcanon ZArith Lia Lqa Qround Qabs Bool.
Local Open Scope Qc_scope.

Definition Qcleb (a b : Qc) : bool := Qle_bool a b.
Definition Qcltb (a b : Qc) : bool := negb (Qle_bool b a).
Definition Qceqb (a b : Qc) : bool := Qeq_bool a b.

Lemma Qcleb_spec a b : reflect (a <= b) (Qcleb a b).
Proof.
  unfold Qcleb, Qcle. destruct (Qle_bool a b) eqn:E; constructor.
  - apply Qle_bool_iff; exact E.
  - intros H. apply Qle_bool_iff in H. congruence.
Qed.

Lemma Qcltb_spec a b : reflect (a < b) (Qcltb a b).
Proof.
  unfold Qcltb, Qclt. destruct (Qle_bool b a) eqn:E; cbn; constructor.
  - apply Qle_bool_iff in E. apply Qle_not_lt; exact E.
  - apply Qnot_le_lt. intros H. apply Qle_bool_iff in H. congruence.
Qed.

Lemma Qceqb_spec a b : reflect (a = b) (Qceqb a b).
Proof.
  unfold Qceqb. destruct (Qeq_bool a b) eqn:E; constructor.
  - apply Qc_is_canon. apply Qeq_bool_iff; exact E.
  - intros ->. assert (Qeq_bool b b = true) by (apply Qeq_bool_iff; reflexivity). congruence.
Qed.

Lemma Qcleb_true a b : Qcleb a b = true <-> a <= b.
Proof. destruct (Qcleb_spec a b); split; intros; try reflexivity; try assumption; try discriminate; contradiction. Qed.
Lemma Qcleb_false a b : Qcleb a b = false <-> b < a.
Proof.
  destruct (Qcleb_spec a b) as [H|H]; split; intros H'; try reflexivity; try discriminate.
  - exfalso. apply (Qcle_not_lt _ _ H H').
  - apply Qcnot_le_lt; exact H.
Qed.
Lemma Qcltb_true a b : Qcltb a b = true <-> a < b.
Proof. destruct (Qcltb_spec a b); split; intros; try reflexivity; try assumption; try discriminate; contradiction. Qed.
Lemma Qcltb_false a b : Qcltb a b = false <-> b <= a.
Proof.
  destruct (Qcltb_spec a b) as [H|H]; split; intros H'; try reflexivity; try discriminate.
  - exfalso. apply (Qcle_not_lt _ _ H' H).
  - apply Qcnot_lt_le; exact H.
Qed.
Lemma Qceqb_true a b : Qceqb a b = true <-> a = b.
Proof. destruct (Qceqb_spec a b); split; intros; try reflexivity; try assumption; try discriminate; contradiction. Qed.
Lemma Qceqb_false a b : Qceqb a b = false <-> a <> b.
Proof. destruct (Qceqb_spec a b); split; intros; try reflexivity; try assumption; try discriminate; contradiction. Qed.

Definition Qcabs (a : Qc) : Qc := if Qcleb 0 a then a else - a.
Definition Qcmin (a b : Qc) : Qc := if Qcltb b a then b else a.
Definition Qcmax (a b : Qc) : Qc := if Qcltb a b then b else a.

Definition QcZ (z : Z) : Qc := Q2Qc (inject_Z z).
Definition Qcfrac (n : Z) (d : positive) : Qc := Q2Qc (Qmake n d).

(* An integer valued rational: canonical denominator 1. *)
Definition Qc_is_integer (a : Qc) : bool := Pos.eqb (Qden (this a)) 1.

(* Moving (in)equalities over Qc to Q and calling lra.  Equalities between
   Qc terms are first turned into Qeq.  *)
Lemma Qc_eq_Qeq (a b : Qc) : a = b <-> (this a == this b)%Q.
Proof. split; [intros ->; reflexivity | apply Qc_is_canon]. Qed.

Ltac qc_unfold :=
  unfold Qcle, Qclt, Qcdiv, Qcminus in *; unfold Qcplus, Qcopp, Qcmult, Qcinv in *; unfold Q2Qc in *;
  cbn [this] in *; rewrite ?Qred_correct in *.

Ltac qc_lra :=
  repeat match goal with
         | H : @eq Qc _ _ |- _ => apply Qc_eq_Qeq in H
         | |- @eq Qc _ _ => apply Qc_eq_Qeq
         | H : ~ (@eq Qc _ _) |- _ => rewrite Qc_eq_Qeq in H
         end;
  qc_unfold; lra.

Ltac qc_bool :=
  repeat match goal with
         | H : Qcleb _ _ = true |- _ => apply Qcleb_true in H
         | H : Qcleb _ _ = false |- _ => apply Qcleb_false in H
         | H : Qcltb _ _ = true |- _ => apply Qcltb_true in H
         | H : Qcltb _ _ = false |- _ => apply Qcltb_false in H
         | H : Qceqb _ _ = true |- _ => apply Qceqb_true in H
         | H : Qceqb _ _ = false |- _ => apply Qceqb_false in H
         end.

Lemma Qcabs_nonneg a : 0 <= Qcabs a.
Proof. unfold Qcabs. destruct (Qcleb 0 a) eqn:E; qc_bool; qc_lra. Qed.

Lemma Qcmin_le_l a b : Qcmin a b <= a.
Proof. unfold Qcmin. destruct (Qcltb b a) eqn:E; qc_bool; qc_lra. Qed.
Lemma Qcmin_le_r a b : Qcmin a b <= b.
Proof. unfold Qcmin. destruct (Qcltb b a) eqn:E; qc_bool; qc_lra. Qed.
Lemma Qcmin_case a b : Qcmin a b = a \/ Qcmin a b = b.
Proof. unfold Qcmin. destruct (Qcltb b a); auto. Qed.

Lemma Qcmul_nonneg a b : 0 <= a -> 0 <= b -> 0 <= a * b.
Proof. intros Ha Hb. qc_unfold. apply Qmult_le_0_compat; assumption. Qed.
Lemma Qcmul_pos a b : 0 < a -> 0 < b -> 0 < a * b.
Proof. intros Ha Hb. qc_unfold. apply Qmult_lt_0_compat; assumption. Qed.
Lemma Qcinv_pos a : 0 < a -> 0 < / a.
Proof.
  intros H. unfold Qcinv. qc_unfold. apply Qinv_lt_0_compat. exact H.
Qed.
Lemma Qcdiv_nonneg a b : 0 <= a -> 0 < b -> 0 <= a / b.
Proof.
  intros Ha Hb. unfold Qcdiv. apply Qcmul_nonneg; [assumption|].
  apply Qclt_le_weak, Qcinv_pos, Hb.
Qed.
Lemma Qcdiv_pos a b : 0 < a -> 0 < b -> 0 < a / b.
Proof. intros Ha Hb. unfold Qcdiv. apply Qcmul_pos; [assumption|]. apply Qcinv_pos, Hb. Qed.
Lemma Qclt_not_eq' (a : Qc) : 0 < a -> a <> 0.
Proof. intros H E. subst. apply (Qclt_not_eq 0 0 H). reflexivity. Qed.
