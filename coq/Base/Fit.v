(* The rounding operator modelling rust_decimal 1.35 arithmetic:
   every + - * / returns the exact rational result rounded half-to-even at the
   largest scale s <= 28 for which the mantissa fits 96 bits, and fails
   (overflow) when no scale fits.  This file contains definitions only; the
   lemmas are in Proofs/FitProps.v.  The idealisation is re-validated against
   the real crate on every check (harness mode "arith"). *)
From Coq Require Import QArith Qcanon ZArith Lia.
From ACB Require Import Base.QcExtra.
Local Open Scope Z_scope.

Definition max_mant : Z := 79228162514264337593543950335. (* 2^96 - 1 *)

(* round half to even of n/d, d > 0 *)
Definition rhe (n : Z) (d : positive) : Z :=
  let q := Z.div n (Zpos d) in
  let r := Z.modulo n (Zpos d) in
  match Z.compare (2 * r) (Zpos d) with
  | Lt => q
  | Gt => q + 1
  | Eq => if Z.even q then q else q + 1
  end.

(* round half away from zero of n/d, d > 0 *)
Definition rha (n : Z) (d : positive) : Z :=
  let a := Z.abs n in
  let q := Z.div a (Zpos d) in
  let r := Z.modulo a (Zpos d) in
  let m := if Z.leb (Zpos d) (2 * r) then q + 1 else q in
  if Z.ltb n 0 then - m else m.

Definition pow10 (s : nat) : positive := Pos.pow 10 (Pos.of_nat s).
Definition p10 (s : nat) : positive :=
  match s with O => 1%positive | _ => pow10 s end.

Fixpoint fit_from (s : nat) (n : Z) (d : positive) : option Qc :=
  let m := rhe (n * Zpos (p10 s)) d in
  if Z.leb (Z.abs m) max_mant then Some (Qcfrac m (p10 s))
  else match s with
       | O => None
       | S s' => fit_from s' n d
       end.

Definition fit (q : Qc) : option Qc := fit_from 28 (Qnum (this q)) (Qden (this q)).

(* round_dp_with_strategy(2, MidpointAwayFromZero) *)
Definition round2 (q : Qc) : Qc :=
  Qcfrac (rha (Qnum (this q) * 100) (Qden (this q))) 100.

(* rounding to dp decimals, half away from zero *)
Definition round_dp (dp : nat) (q : Qc) : Qc :=
  Qcfrac (rha (Qnum (this q) * Zpos (p10 dp)) (Qden (this q))) (p10 dp).
