(* Arithmetic records: the model is written once over [A : arith];
   [exact] is field arithmetic of Qc (never fails except division by zero),
   [dec] rounds like rust_decimal after every operation. *)
From Coq Require Import QArith Qcanon ZArith.
From ACB Require Import Base.Outcome Base.QcExtra Base.Fit.
Local Open Scope Qc_scope.

Record arith : Type := {
  a_add : Qc -> Qc -> res Qc;
  a_sub : Qc -> Qc -> res Qc;
  a_mul : Qc -> Qc -> res Qc;
  a_div : Qc -> Qc -> res Qc;
  a_exact : bool
}.

Definition exact : arith := {|
  a_add a b := Ok (a + b);
  a_sub a b := Ok (a - b);
  a_mul a b := Ok (a * b);
  a_div a b := if Qceqb b 0 then Panic PanicDivZero else Ok (a / b);
  a_exact := true
|}.

Definition fit_res (q : Qc) : res Qc :=
  match fit q with Some r => Ok r | None => Panic PanicOverflow end.

Definition dec : arith := {|
  a_add a b := fit_res (a + b);
  a_sub a b := fit_res (a - b);
  a_mul a b := fit_res (a * b);
  a_div a b := if Qceqb b 0 then Panic PanicDivZero else fit_res (a / b);
  a_exact := false
|}.

(* Constrained-decimal constructors: ConstrainedDecimal::<C>::try_from(d).unwrap() *)
Definition gez_unwrap (site : N) (q : Qc) : res Qc :=
  if Qcleb 0 q then Ok q else Panic (PanicConstraint site).
Definition pos_unwrap (site : N) (q : Qc) : res Qc :=
  if Qcltb 0 q then Ok q else Panic (PanicConstraint site).
Definition neg_unwrap (site : N) (q : Qc) : res Qc :=
  if Qcltb q 0 then Ok q else Panic (PanicConstraint site).

Section Ops.
  Variable A : arith.
  (* GEZ + GEZ, GEZ * GEZ, GEZ.div(Pos), Pos * Pos, Pos / Pos *)
  Definition gez_add (a b : Qc) : res Qc := r <- a_add A a b ;; gez_unwrap Site.gez_add r.
  Definition gez_mul (a b : Qc) : res Qc := r <- a_mul A a b ;; gez_unwrap Site.gez_mul r.
  Definition gez_div (a b : Qc) : res Qc := r <- a_div A a b ;; gez_unwrap Site.gez_div r.
  Definition pos_mul (a b : Qc) : res Qc := r <- a_mul A a b ;; pos_unwrap Site.pos_mul r.
  Definition pos_div (a b : Qc) : res Qc := r <- a_div A a b ;; pos_unwrap Site.pos_div r.
  Definition neg_mul (a b : Qc) : res Qc := r <- a_mul A a b ;; pos_unwrap Site.neg_mul r.
  Definition neg_div (a b : Qc) : res Qc := r <- a_div A a b ;; pos_unwrap Site.neg_div r.
  Definition neg_mul_pos (a b : Qc) : res Qc := r <- a_mul A a b ;; neg_unwrap Site.neg_mul_pos r.
End Ops.
