(* Outcome monad of the model: every modelled Rust function that can stop
   returns [Ok v], [Rej class] (an error message attributed to a row /
   security: the Rust [Err(String)]) or [Panic site] (an unwrap / assert /
   arithmetic overflow of the modelled code). *)
From Coq Require Import List NArith ZArith.
Import ListNotations.

Inductive rej : Type :=
| RejSanityAllLower        (* sanity_check_ptfs: all-affiliate balance < affiliate balance *)
| RejSanityRegAcb          (* sanity_check_ptfs: ACB on registered affiliate *)
| RejSanityNoAcb           (* sanity_check_ptfs: no ACB on non-registered affiliate *)
| RejOversale              (* sale of more shares than the affiliate holds *)
| RejOversaleAll           (* sale of more shares than all affiliates hold *)
| RejRocExceeds            (* return of capital larger than the cost base *)
| RejRocRegistered         (* return of capital on a registered affiliate *)
| RejSflaRegistered        (* cost-base adjustment on a registered affiliate *)
| RejSplitAllNegative      (* split made the all-affiliate balance negative *)
| RejRevSplitFraction      (* whole-number reverse split leaves a fraction *)
| RejSflNoLoss             (* superficial loss declared on a sale with no loss *)
| RejSflMismatch           (* declared superficial loss contradicts the computed one *)
| RejScanAllLess           (* sfl scan: latest all-affiliate balance < sold shares *)
| RejScanAfLess            (* sfl scan: latest affiliate balance < sold shares *)
| RejAheadAllNegative      (* sfl scan: total went below zero in the 30 days after *)
| RejAheadAfNegative       (* sfl scan: affiliate went below zero in the 30 days after *)
| RejGlobalSplitNear       (* replace_global_security_splits sanity check *)
| RejParse (col : N)       (* a row does not parse; col identifies the reason class *)
| RejOther (n : N).

Inductive panic : Type :=
| PanicOverflow            (* rust_decimal operator overflow *)
| PanicDivZero             (* rust_decimal division by zero *)
| PanicConstraint (site : N) (* ConstrainedDecimal::try_from(..).unwrap() failed *)
| PanicAssert (site : N)   (* assert!/assert_eq! failed *)
| PanicMissing (site : N). (* map index / Option::unwrap on a missing entry *)

Inductive res (A : Type) : Type :=
| Ok (a : A)
| Rej (r : rej)
| Panic (p : panic).
Arguments Ok {A} a.
Arguments Rej {A} r.
Arguments Panic {A} p.

Definition bind {A B} (m : res A) (f : A -> res B) : res B :=
  match m with
  | Ok a => f a
  | Rej r => Rej r
  | Panic p => Panic p
  end.

Declare Scope res_scope.
Delimit Scope res_scope with res.
Notation "x <- m ;; k" := (bind m (fun x => k))
  (at level 100, m at next level, right associativity) : res_scope.
Notation "' p <- m ;; k" := (bind m (fun x => match x with p => k end))
  (at level 100, p pattern, m at next level, right associativity) : res_scope.
Open Scope res_scope.

Definition is_ok {A} (m : res A) : bool := match m with Ok _ => true | _ => false end.
Definition is_panic {A} (m : res A) : bool := match m with Panic _ => true | _ => false end.

Lemma bind_ok {A B} (m : res A) (f : A -> res B) b :
  bind m f = Ok b -> exists a, m = Ok a /\ f a = Ok b.
Proof. destruct m; cbn; intros H; try discriminate; eauto. Qed.

(* Panic sites (numbers used in PanicConstraint / PanicAssert / PanicMissing);
   file:line at the pinned commit 397bf4a. *)
Module Site.
  Definition gez_add : N := 1.        (* decimal.rs:179 GEZ + GEZ *)
  Definition gez_mul : N := 2.        (* decimal.rs:194 GEZ * GEZ *)
  Definition gez_div : N := 3.        (* decimal.rs:214 GEZ.div(Pos) *)
  Definition pos_mul : N := 4.        (* decimal.rs:223 Pos * Pos *)
  Definition pos_div : N := 5.        (* decimal.rs:231 Pos / Pos *)
  Definition neg_mul : N := 6.        (* decimal.rs:260 Neg * Neg *)
  Definition neg_div : N := 7.        (* decimal.rs:269 Neg / Neg *)
  Definition neg_mul_pos : N := 8.    (* decimal.rs:280 Neg.mul_pos *)
  Definition ratio_to_pos : N := 9.   (* math.rs:24 PosDecimalRatio::to_posdecimal *)
  Definition ratio_to_gez : N := 10.  (* math.rs:30 GezDecimalRatio::to_gezdecimal *)
  Definition eff_cent : N := 11.      (* math.rs:93 c_maybe_round_to_effective_cent *)
  Definition sfl_neg : N := 12.       (* delta_list.rs:142 NegDecimal::try_from(calculated).unwrap *)
  Definition af_ratio_pos : N := 13.  (* delta_list.rs:155 PosDecimal::try_from(ratio).unwrap *)
  Definition sfla_total : N := 14.    (* tx.rs:351 SflaTxSpecifics::total_amount *)
  Definition split_balance : N := 15. (* delta_list.rs Split arm: GEZ::try_from(balance * post / pre).unwrap *)
  Definition buy_all : N := 16.       (* delta_list.rs Buy arm: GEZ::try_from(all_affiliates_share_balance_after(..)).unwrap *)
  Definition set_latest_acb : N := 20.   (* portfolio_status.rs:92 *)
  Definition set_latest_all : N := 21.   (* portfolio_status.rs:100 *)
  Definition init_balance : N := 22.     (* portfolio_status.rs:40 *)
  Definition roc_assert : N := 23.       (* delta_list.rs:324/339 *)
  Definition sfla_assert : N := 24.      (* delta_list.rs:349/353 *)
  Definition no_buyers : N := 25.        (* superficial_loss.rs:374 *)
  Definition eop_missing : N := 26.      (* superficial_loss.rs:392 *)
  Definition ratio_missing : N := 27.    (* delta_list.rs:152 *)
End Site.
