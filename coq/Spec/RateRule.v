(* L0 specification of the exchange-rate look-up (C12) and the no-cache
   reference of the cache property (C13).

   A publication calendar is a function [pub : Z -> option Qc]: the USD/CAD
   rate the Bank of Canada published for a day (day numbers), if any.  Nothing
   else is assumed about it: weekends, holidays, closures of any length and
   year ends are all just days where [pub] is [None]. *)
From Coq Require Import List NArith ZArith QArith Qcanon Bool.
From ACB Require Import Base.QcExtra Model.Rates Model.RatesCache.
Import ListNotations.
Local Open Scope Z_scope.

Definition calendar : Type := Z -> option Qc.

(* ---- the rule (declarative) ---- *)
(* the look-up of trade date d answers with the rate r of day x *)
Definition rule_ok (pub : calendar) (today d x : Z) (r : Qc) : Prop :=
  (pub d <> None \/ d < today) /\
  d - 7 <= x <= d /\
  pub x = Some r /\
  (forall z, x < z <= d -> pub z = None).
(* the run stops: the trade date is today or later and has no rate yet *)
Definition rule_not_yet (pub : calendar) (today d : Z) : Prop :=
  pub d = None /\ today <= d.
(* the run stops: a past trade date with nothing published in [d-7, d] *)
Definition rule_none7 (pub : calendar) (today d : Z) : Prop :=
  d < today /\ forall z, d - 7 <= z <= d -> pub z = None.

(* ---- what the Bank of Canada returns for a year, after parsing ---- *)
Fixpoint obs_in (pub : calendar) (from : Z) (n : nat) : list drate :=
  match n with
  | O => []
  | S k =>
      match pub from with
      | Some r => (from, r) :: obs_in pub (from + 1) k
      | None => obs_in pub (from + 1) k
      end
  end.
(* the observations of year y, ascending *)
Definition pubrates (pub : calendar) (y : Z) : list drate :=
  obs_in pub (jan1 y) (Z.to_nat (year_len y)).

(* what is published before day [avail] *)
Definition restrict (pub : calendar) (avail : Z) : calendar :=
  fun x => if x <? avail then pub x else None.

(* ---- the look-up without any cache or loader state (reference of C13) ---- *)
Section Ref.
  Variable rem : Z -> list drate.   (* parsed remote data per year *)
  Variable today : Z.

  Definition refmap (y : Z) : list drate := fill (rem y) y today.

  Definition exact_ref (d : Z) : sum lerr (option drate) :=
    match mget d (refmap (year_of d)) with
    | Some r => if Qceqb r 0%Qc then inr None else inr (Some (d, r))
    | None => if today <=? d then inl LNotYet else inr None
    end.

  Fixpoint lookback_ref (n : nat) (d : Z) : sum lerr drate :=
    match n with
    | O => inl LNone7
    | S k =>
        match exact_ref (d - 1) with
        | inl e => inl (LLookback e)
        | inr (Some x) => inr x
        | inr None => lookback_ref k (d - 1)
        end
    end.

  Definition effective_ref (d : Z) : sum lerr drate :=
    match exact_ref d with
    | inl e => inl e
    | inr (Some x) => inr x
    | inr None => lookback_ref 7 d
    end.
End Ref.
