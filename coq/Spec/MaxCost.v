(* L0 specification of the total-cost tables (property C17): declarative
   definitions over the list of deltas, no maps, no loops over days.

   A delta counts when it belongs to the default (non-registered) affiliate,
   i.e. its affiliate is "default" and it carries a cost base.  For a day d
   and a security s:
     - the highest cost base after any counted row of s settling on d;
     - else the cost base after the latest earlier counted row of s
       (rows of a security are in chronological order: the last one in list
       order among those with an earlier day);
     - else the opening cost base of s (before its first counted row).
   A table row is a day with a counted row; its total is the sum of the
   figures of all securities having a counted row; the yearly table shows for
   each year with a row a day of that year whose total is the highest (the
   earliest such day); every other delta is listed as ignored, in order. *)
From Coq Require Import List NArith ZArith QArith Qcanon Bool Sorting.Sorted.
From ACB Require Import Base.Outcome Base.QcExtra Model.Tx Model.Costs.
Import ListNotations.
Local Open Scope Z_scope.

Definition is_some {T} (o : option T) : bool := match o with Some _ => true | None => false end.

Definition counted (d : cdelta) : bool := N.eqb (cd_af d) default_id && is_some (cd_post d).
Definition post_of (d : cdelta) : Qc := match cd_post d with Some p => p | None => 0%Qc end.
Definition pre_of (d : cdelta) : Qc := match cd_pre d with Some p => p | None => 0%Qc end.

(* counted rows of security s, in list order *)
Definition rows_of (ds : list cdelta) (s : N) : list cdelta :=
  filter (fun d => counted d && N.eqb (cd_sec d) s) ds.

Definition qmax_list (l : list Qc) : option Qc :=
  match l with
  | [] => None
  | x :: r => Some (fold_left Qcmax r x)
  end.

Fixpoint last_opt {X : Type} (l : list X) : option X :=
  match l with
  | [] => None
  | [x] => Some x
  | _ :: r => last_opt r
  end.

Definition spec_cost (ds : list cdelta) (d : Z) (s : N) : Qc :=
  let rows := rows_of ds s in
  match qmax_list (map post_of (filter (fun c => cd_day c =? d) rows)) with
  | Some m => m
  | None =>
      match last_opt (filter (fun c => cd_day c <? d) rows) with
      | Some c => post_of c
      | None => match rows with c :: _ => pre_of c | [] => 0%Qc end
      end
  end.

(* first occurrences *)
Fixpoint zdedup (l : list Z) : list Z :=
  match l with
  | [] => []
  | x :: r => x :: filter (fun y => negb (Z.eqb y x)) (zdedup r)
  end.
Fixpoint ndedup (l : list N) : list N :=
  match l with
  | [] => []
  | x :: r => x :: filter (fun y => negb (N.eqb y x)) (ndedup r)
  end.

Definition spec_days (ds : list cdelta) : list Z := zsort (zdedup (map cd_day (filter counted ds))).
Definition spec_secs (ds : list cdelta) : list N := nsort (ndedup (map cd_sec (filter counted ds))).

Definition qsum (l : list Qc) : Qc := fold_right Qcplus 0%Qc l.

Definition spec_costs (ds : list cdelta) (d : Z) : list Qc := map (spec_cost ds d) (spec_secs ds).
Definition spec_total (ds : list cdelta) (d : Z) : Qc := qsum (spec_costs ds d).
Definition spec_row (ds : list cdelta) (d : Z) : trow := (d, spec_total ds d, spec_costs ds d).
Definition spec_table (ds : list cdelta) : list trow := map (spec_row ds) (spec_days ds).

Definition note_of (d : cdelta) : note :=
  match cd_post d with
  | None => NoteReg (cd_day d) (cd_sec d)
  | Some _ => NoteAf (cd_day d) (cd_sec d) (cd_af d)
  end.
Definition spec_notes (ds : list cdelta) : list note :=
  map note_of (filter (fun d => negb (counted d)) ds).

Definition spec_years (ds : list cdelta) : list Z := zsort (zdedup (map year_of (spec_days ds))).

(* a yearly row is right when it is the table row of a day of that year and
   every other day of the year has a lower total, or the same total and is
   not earlier *)
Definition yrow_ok (ds : list cdelta) (r : yrow) : Prop :=
  let '(y, d, t, cs) := r in
  In d (spec_days ds) /\ year_of d = y /\ (d, t, cs) = spec_row ds d /\
  forall d', In d' (spec_days ds) -> year_of d' = y ->
             (spec_total ds d' < t)%Qc \/ (spec_total ds d' = t /\ d <= d').
Definition yearly_ok (ds : list cdelta) (yr : list yrow) : Prop :=
  map (fun r : yrow => fst (fst (fst r))) yr = spec_years ds /\ Forall (yrow_ok ds) yr.

(* executable counterpart used as the oracle of the correspondence check:
   the earliest day of year y with the highest total *)
Definition best_day (ds : list cdelta) (y : Z) : option Z :=
  fold_left (fun acc d =>
               if Z.eqb (year_of d) y then
                 match acc with
                 | None => Some d
                 | Some b => if Qcltb (spec_total ds b) (spec_total ds d) then Some d else Some b
                 end
               else acc) (spec_days ds) None.
Definition spec_yearly (ds : list cdelta) : list yrow :=
  flat_map (fun y => match best_day ds y with
                     | Some d => [(y, d, spec_total ds d, spec_costs ds d)]
                     | None => []
                     end) (spec_years ds).

(* ---- preconditions of the refinement theorem ---- *)
(* cost bases are never negative (GreaterEqualZeroDecimal) and a counted row
   has a cost base before it *)
Definition valid_delta (d : cdelta) : Prop :=
  counted d = true ->
  (exists p, cd_post d = Some p /\ (0 <= p)%Qc) /\ (exists q, cd_pre d = Some q /\ (0 <= q)%Qc).
(* the code's is_default() flag singles out the default affiliate *)
Definition faithful_delta (d : cdelta) : Prop :=
  cd_post d <> None -> cd_dflt d = N.eqb (cd_af d) default_id.
(* rows of one security are in chronological order (delta lists are) *)
Definition chronological (ds : list cdelta) : Prop :=
  forall s, StronglySorted (fun a b => cd_day a <= cd_day b) (rows_of ds s).
