(* L0 specification for C01: the average-cost rules in exact arithmetic.
   One clause per action, exactly as the property reads.  No all-affiliate
   field, no window scans, no row injection: the specification is given the
   effective rows (input rows plus generated adjustments) and, for every
   sale, the denied (superficial) amount as data; C02 owns how those are
   determined. *)
From Coq Require Import List NArith ZArith QArith Qcanon Bool.
From ACB Require Import Base.QcExtra Model.Tx.
Import ListNotations.
Local Open Scope Qc_scope.

(* what an affiliate holds: shares and, unless registered, total cost *)
Definition holding : Type := (Qc * option Qc)%type.
Definition holdings : Type := list (N * holding).

Definition default_holding (af : aff) : holding := (0, if af_reg af then None else Some 0).
Definition held (hs : holdings) (af : aff) : holding :=
  match alookup (af_id af) hs with Some h => h | None => default_holding af end.

(* new holding and reported gain for one row; [denied] is the (non-positive)
   superficial part of the loss of a sale, 0 otherwise *)
Definition avg_cost_rule (h : holding) (a : action) (denied : Qc) : holding * option Qc :=
  let '(sh, acb) := h in
  match a with
  | Buy n price com rate crate =>
      ((sh + n, option_map (fun c => c + (n * price * rate + com * crate)) acb), None)
  | Sell n price com rate crate _ =>
      ((sh - n, option_map (fun c => c - c * n / sh) acb),
       option_map (fun c => (n * price * rate - com * crate - c * n / sh) - denied) acb)
  | Roc amount rate =>
      ((sh, option_map (fun c => c - amount * sh * rate) acb), None)
  | Sfla n amount =>
      ((sh, option_map (fun c => c + n * amount) acb), None)
  | Split post pre _ =>
      ((sh * (post / pre), acb), None)
  end.

(* observable of a report row: share balance, total cost, capital gain *)
Definition row_obs : Type := (Qc * option Qc * option Qc)%type.

Fixpoint spec_rows (hs : holdings) (rows : list (tx * Qc)) : list row_obs :=
  match rows with
  | [] => []
  | (t, denied) :: r =>
      let '(h', gain) := avg_cost_rule (held hs (t_af t)) (t_act t) denied in
      (fst h', snd h', gain) :: spec_rows (aupdate (af_id (t_af t)) h' hs) r
  end.

Definition spec_init (init : option status) : holdings :=
  match init with
  | None => []
  | Some s => [(default_id, (s_sh s, s_acb s))]
  end.

Definition obs_of (d : delta) : row_obs := (s_sh (d_post d), s_acb (d_post d), d_gain d).
Definition denied_of (d : delta) : Qc :=
  match d_sfl d with Some i => sf_amount i | None => 0 end.
Definition effective (ds : list delta) : list (tx * Qc) := map (fun d => (d_tx d, denied_of d)) ds.
