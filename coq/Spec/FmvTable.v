(* C20: the documented layout of the "Securities Owned Combined in (CAD)"
   allocation table as a data type, its rendering to page text, its content
   (what the extractor should return) and the executable well-formedness
   predicate of theorem C20_table_roundtrip.

     ALLOCATION (%) MARKET VALUE ($)          <- header line
     <U+25A0> SEC A DESCRIPTION 80.0 800,000.0     <- numbers at the end of the last
       or                                        description line ...
     <U+25A0> SEC B DESCRIPTION
     MAY CONTINUE (digits 5.00% 2024 allowed)
     20.0 200,000.0                           <- ... or on a line of their own
     100.0 1,000,000.0                        <- total row
*)
From Coq Require Import List NArith ZArith QArith Qcanon Bool.
From ACB Require Import Base.Outcome Base.QcExtra Base.Fit Model.QText Model.Fmv.
Import ListNotations.
Local Open Scope N_scope.

Record sec_lay := {
  sl_lines : list text;   (* description lines; the first follows the bullet *)
  sl_alloc : text;        (* allocation as printed, e.g. 80.0 *)
  sl_fmv : text;          (* market value as printed, e.g. 800,000.0 *)
  sl_own : bool;          (* numbers on a line of their own *)
  sl_blank : bool         (* an empty line before the security *)
}.

Record table_lay := {
  tl_indent : nat;        (* every line is indented by this many spaces *)
  tl_pre : list text;     (* lines before the header *)
  tl_header : text;
  tl_secs : list sec_lay;
  tl_total : text;        (* table total as printed *)
  tl_total00 : bool       (* total row starts with 100.00 instead of 100.0 *)
}.

Definition join_sp (ls : list text) : text :=
  match ls with
  | [] => []
  | x :: r => x ++ concat (map (cons 32) r)
  end.

Definition nums (s : sec_lay) : text := sl_alloc s ++ 32 :: sl_fmv s.

Fixpoint attach_inline (dl : list text) (n : text) : list text :=
  match dl with
  | [] => [n]
  | [x] => [x ++ 32 :: n]
  | x :: r => x :: attach_inline r n
  end.

(* the text lines of a security (without bullet and indentation) *)
Definition sec_lines (s : sec_lay) : list text :=
  if sl_own s then sl_lines s ++ [nums s] else attach_inline (sl_lines s) (nums s).

Definition indent (t : table_lay) : text := repeat 32 (tl_indent t).

Definition render_sec (ind : text) (s : sec_lay) : list text :=
  (if sl_blank s then [[]] else []) ++
  match sec_lines s with
  | [] => []
  | h :: r => (ind ++ c_bullet :: 32 :: h) :: map (app ind) r
  end.

Definition t_100_0 : text := [49; 48; 48; 46; 48].
Definition total_line (t : table_lay) : text :=
  t_100_0 ++ (if tl_total00 t then [48] else []) ++ 32 :: tl_total t.

Definition render_lines (t : table_lay) : list text :=
  map (app (indent t)) (tl_pre t) ++ [indent t ++ tl_header t]
  ++ flat_map (render_sec (indent t)) (tl_secs t) ++ [indent t ++ total_line t].

Definition render_table (t : table_lay) : text :=
  concat (map (fun l => l ++ [10]) (render_lines t)).

(* what the extractor is expected to return *)
Definition sec_content (s : sec_lay) : fmv :=
  {| f_desc := join_sp (sl_lines s);
     f_alloc := plain_num_value (sl_alloc s);
     f_fmv := plain_num_value (strip_commas (sl_fmv s)) |}.

Definition content (t : table_lay) : list fmv * Qc :=
  (map sec_content (tl_secs t), plain_num_value (strip_commas (tl_total t))).

(* ---- well-formedness ---- *)
Definition no_nl (l : text) : bool := forallb (fun c => negb (c =? 10)) l.
(* a line that survives str::lines unchanged *)
Definition plain_line (l : text) : bool := no_nl l && negb (last l 0 =? 13).
(* a description line: non-empty, no surrounding white space, no newline *)
Definition desc_line_ok (l : text) : bool :=
  match l with
  | [] => false
  | c :: _ => negb (is_space c) && negb (is_space (last l 32)) && no_nl l
  end.
Definition not_bullet_first (l : text) : bool :=
  match l with c :: _ => negb (c =? c_bullet) | [] => true end.

Definition sec_layout_ok (s : sec_lay) : bool :=
  match sl_lines s with
  | [] => false
  | _ :: more =>
      forallb desc_line_ok (sl_lines s) && forallb not_bullet_first more
      && alloc_tok_ok (sl_alloc s) && plain_num_ok (sl_alloc s)
      && fmv_tok_ok (sl_fmv s) && plain_num_ok (strip_commas (sl_fmv s))
  end.

(* no rendered line contains a newline or ends in a carriage return (so that
   str::lines gives back exactly the rendered lines); nothing before the
   header mentions ALLOCATION; the header does *)
Definition layout_ok (t : table_lay) : bool :=
  forallb plain_line (render_lines t)
  && forallb (fun l => negb (contains t_ALLOCATION (indent t ++ l))) (tl_pre t)
  && contains t_ALLOCATION (indent t ++ tl_header t)
  && negb (is_blank (indent t ++ tl_header t))
  && forallb sec_layout_ok (tl_secs t)
  && total_tok_ok (tl_total t) && plain_num_ok (strip_commas (tl_total t)).

(* The parser decides that the securities are finished when it meets a line
   of the shape of the total row while the text gathered so far for the
   current security already ends in two numbers.  A continuation line (in
   practice: the numbers line "100.0 x" of a single 100% holding) that has
   the shape of the total row is therefore ambiguous when the description
   before it ends in two number-like tokens. *)
Definition finalize_ok (acc : text) : bool := is_ok (security_text_to_fmv acc).

Fixpoint unamb (ind : text) (acc : text) (conts : list text) : bool :=
  match conts with
  | [] => true
  | l :: r =>
      (negb (is_total (ind ++ l)) || negb (finalize_ok acc)) && unamb ind (acc ++ 32 :: l) r
  end.

Definition sec_unambiguous (ind : text) (s : sec_lay) : bool :=
  match sec_lines s with
  | [] => true
  | h :: r => unamb ind h r
  end.

Definition unambiguous (t : table_lay) : bool :=
  forallb (sec_unambiguous (indent t)) (tl_secs t).

(* the known class of C20: a laid-out table with an ambiguous total-like line *)
Definition ambiguous (t : table_lay) : bool := layout_ok t && negb (unambiguous t).

Definition well_formed (t : table_lay) : bool := layout_ok t && unambiguous t.
