(* L0 specification for C02: the superficial-loss rule, declaratively.
   The transaction list of a security is seen from a sale [t]: [bef] are the
   rows before it (most recent first), [aft] the rows after it (in order).
   No scans with early exits, no running maps: sums over the rows whose
   settlement date lies within 30 days of the sale's, with share counts
   expressed in the split period of the sale. *)
From Coq Require Import List NArith ZArith QArith Qcanon Bool.
From ACB Require Import Base.QcExtra Model.Tx.
Import ListNotations.
Local Open Scope Qc_scope.

Definition split_factor_of (t : tx) : Qc :=
  match t_act t with Split post pre _ => post / pre | _ => 1 end.
Definition split_of (id : N) (t : tx) : bool :=
  is_split (t_act t) && N.eqb (af_id (t_af t)) id.

(* adjustment for affiliate [id] of a share count lying beyond the rows
   [seen] (rows between the sale and the count), for rows AFTER the sale:
   later shares are divided by the split factors in between *)
Fixpoint fadj (id : N) (seen : list tx) : Qc :=
  match seen with
  | [] => 1
  | s :: r => (if split_of id s then / split_factor_of s else 1) * fadj id r
  end.
(* and for rows BEFORE the sale: earlier shares are multiplied *)
Fixpoint badj (id : N) (seen : list tx) : Qc :=
  match seen with
  | [] => 1
  | s :: r => (if split_of id s then split_factor_of s else 1) * badj id r
  end.

Definition buy_shares (t : tx) : Qc := match t_act t with Buy sh _ _ _ _ => sh | _ => 0 end.
Definition sell_shares (t : tx) : Qc := match t_act t with Sell sh _ _ _ _ _ => sh | _ => 0 end.

(* sums over a window, each row adjusted by the splits between it and the sale;
   [seen] = rows already passed (nearest the sale first in time order) *)
Fixpoint acq_after (seen w : list tx) : Qc :=
  match w with
  | [] => 0
  | x :: r => buy_shares x * fadj (af_id (t_af x)) seen + acq_after (seen ++ [x]) r
  end.
Fixpoint sold_after (seen w : list tx) : Qc :=
  match w with
  | [] => 0
  | x :: r => sell_shares x * fadj (af_id (t_af x)) seen + sold_after (seen ++ [x]) r
  end.
Fixpoint acq_before (seen w : list tx) : Qc :=
  match w with
  | [] => 0
  | x :: r => buy_shares x * badj (af_id (t_af x)) seen + acq_before (seen ++ [x]) r
  end.

Definition sfl_window : Z := 30.
Definition in_window_after (sale : tx) (x : tx) : bool := Z.leb (t_sd x) (t_sd sale + sfl_window).
Definition in_window_before (sale : tx) (x : tx) : bool := Z.leb (t_sd sale - sfl_window) (t_sd x).

(* The rule.  [all_after_sale] = shares held by all affiliates right after the sale. *)
Definition rule_acquired (bef : list tx) (sale : tx) (aft : list tx) : Qc :=
  acq_after [] (filter (in_window_after sale) aft) + acq_before [] (filter (in_window_before sale) bef).
Definition rule_held_end (all_after_sale : Qc) (sale : tx) (aft : list tx) : Qc :=
  let w := filter (in_window_after sale) aft in
  all_after_sale + acq_after [] w - sold_after [] w.
Definition rule_superficial (bef : list tx) (sale : tx) (aft : list tx) (all_after_sale : Qc) : Prop :=
  0 < rule_acquired bef sale aft /\ 0 < rule_held_end all_after_sale sale aft.
Definition rule_ratio (sold acquired held : Qc) : Qc := Qcmin sold (Qcmin acquired held) / sold.

(* share ledger of one affiliate (shares do not depend on money) *)
Definition step_shares (id : N) (b : Qc) (x : tx) : Qc :=
  if N.eqb (af_id (t_af x)) id then
    match t_act x with
    | Buy sh _ _ _ _ => b + sh
    | Sell sh _ _ _ _ _ => b - sh
    | Split _ _ _ => b * split_factor_of x
    | _ => b
    end
  else b.
Definition shares_after (id : N) (b : Qc) (w : list tx) : Qc := fold_left (step_shares id) w b.
