(* L0 specification for C04 "rejected exactly when impossible".
   A declarative walk over a security's history that never touches the
   ledger model (no pstate, no all-affiliate field, no window scans with
   early exits, no running maps, no outcome monad): it carries the
   affiliates' holdings of Spec/AvgCost.v (shares and cost base, updated by
   [avg_cost_rule]) and judges every row against the classes the property
   lists.  For a sale at a loss the superficial part is the rule of
   Spec/SflRule.v (sums over the rows settled within 30 days of the sale),
   rounded to the effective cent as the code does, and distributed over the
   buying affiliates in proportion to what each holds at the end of the
   window.

   [walk] returns the effective rows it passed, grouped by input row (the row
   with its denied amount, followed by the cost-base adjustments generated for
   it), and the class of the first impossible transaction if there is one;
   the number of groups is the index of that transaction. *)
From Coq Require Import List NArith ZArith QArith Qcanon Bool.
From ACB Require Import Base.QcExtra Base.Fit Model.Tx Spec.AvgCost Spec.SflRule.
Import ListNotations.
Local Open Scope Qc_scope.

Inductive offence : Type :=
| OverSale            (* sale of more shares than the affiliate holds *)
| RocExceeds          (* return of capital larger than the cost base *)
| RocRegistered       (* return of capital on a registered affiliate *)
| SflaRegistered      (* cost-base adjustment on a registered affiliate *)
| RevSplitFraction    (* whole-number reverse split leaving fractional shares *)
| SflNoLoss           (* declared superficial loss on a sale with no loss *)
| SflMismatch.        (* declared superficial loss contradicting the computed one *)

(* shares held by all affiliates together *)
Fixpoint all_shares (hs : holdings) : Qc :=
  match hs with
  | [] => 0
  | (_, h) :: r => fst h + all_shares r
  end.

(* maybe_round_to_effective_cent: a value within 1e-10 of a whole cent is
   that cent *)
Definition effective_cent (x : Qc) : Qc :=
  let r := round2 x in if Qcltb (Qcabs (r - x)) (Qcfrac 1 10000000000) then r else x.

(* the affiliates that bought within the window, each once, by increasing id *)
Fixpoint add_once (a : aff) (l : list aff) : list aff :=
  match l with
  | [] => [a]
  | b :: r => if aff_eqb a b then l else b :: add_once a r
  end.
Fixpoint ins_by_id (a : aff) (l : list aff) : list aff :=
  match l with
  | [] => [a]
  | b :: r => if N.leb (af_id a) (af_id b) then a :: l else b :: ins_by_id a r
  end.
Definition buyers_in (w : list tx) (acc : list aff) : list aff :=
  fold_left (fun acc x => if is_buy (t_act x) then add_once (t_af x) acc else acc) w acc.
Definition buyers (w : list tx) : list aff := fold_right ins_by_id [] (buyers_in w []).

Fixpoint sum_affs (f : aff -> Qc) (l : list aff) : Qc :=
  match l with
  | [] => 0
  | a :: r => f a + sum_affs f r
  end.

(* the cost-base adjustments generated for the sale [t]: the denied loss
   [loss] (< 0) goes to the non-registered buying affiliates in proportion to
   their holdings [eop] at the end of the window *)
Fixpoint adjustments (t : tx) (loss total : Qc) (eop : aff -> Qc) (l : list aff) : list tx :=
  match l with
  | [] => []
  | af :: r =>
      if negb (Qceqb (eop af) 0) && negb (af_reg af) then
        {| t_sec := t_sec t; t_td := t_td t; t_sd := t_sd t;
           t_act := Sfla 1 (- (1) * loss * (eop af / total));
           t_af := af; t_glob := false; t_ri := t_ri t |} :: adjustments t loss total eop r
      else adjustments t loss total eop r
  end.

(* verdict on one row: impossible (with its class), or possible with the
   denied amount of the sale and the generated adjustments *)
Inductive verdict : Type :=
| Offends (c : offence)
| Goes (denied : Qc) (adj : list tx).

(* A sale of [n] shares by [t_af t] at a loss [g] < 0, holdings [hs] BEFORE
   the sale, rows [bef] before it (most recent first) and [aft] after it. *)
Definition judge_loss (hs : holdings) (bef : list tx) (t : tx) (n g : Qc)
           (declared : option (Qc * bool)) (aft : list tx) : verdict :=
  let wf := filter (in_window_after t) aft in
  let wb := filter (in_window_before t) bef in
  let all0 := all_shares hs - n in
  let acquired := rule_acquired bef t aft in
  let held_end := rule_held_end all0 t aft in
  let superficial := Qcltb 0 acquired && Qcltb 0 held_end in
  let computed :=
    if superficial then effective_cent (g * (Qcmin n (Qcmin acquired held_end) / n)) else 0 in
  match declared with
  | Some (sv, force) =>
      if negb force && Qcltb (Qcfrac 1 1000) (Qcabs (computed - sv)) then Offends SflMismatch
      else Goes (if Qcltb sv 0 then sv else 0) []
  | None =>
      (* a denied amount that rounds to zero effective cents is no
         superficial loss: nothing is denied, no adjustment is generated *)
      if superficial && Qcltb computed 0 then
        (* holdings of an affiliate at the end of the window, in the split
           period of the sale *)
        let eop := fun af : aff =>
          shares_after (af_id af)
            (fst (held hs af) - (if N.eqb (af_id af) (af_id (t_af t)) then n else 0)) wf
          * fadj (af_id af) wf in
        let bs := buyers (wf ++ wb) in
        let total := sum_affs eop bs in
        Goes computed (if Qcltb 0 total then adjustments t computed total eop bs else [])
      else Goes 0 []
  end.

Definition judge (hs : holdings) (bef : list tx) (t : tx) (aft : list tx) : verdict :=
  let sh := fst (held hs (t_af t)) in
  let acb := snd (held hs (t_af t)) in
  match t_act t with
  | Buy _ _ _ _ _ => Goes 0 []
  | Roc amount rate =>
      match acb with
      | None => Offends RocRegistered
      | Some c => if Qcltb (c - amount * sh * rate) 0 then Offends RocExceeds else Goes 0 []
      end
  | Sfla _ _ =>
      match acb with
      | None => Offends SflaRegistered
      | Some _ => Goes 0 []
      end
  | Split post pre int_only =>
      if Qcltb post pre && int_only && negb (Qc_is_integer (sh * post / pre))
      then Offends RevSplitFraction else Goes 0 []
  | Sell n price com rate crate declared =>
      if Qcltb sh n then Offends OverSale else
      match acb with
      | None => Goes 0 []           (* registered: no cost base, no gain, nothing checked *)
      | Some c =>
          let g := n * price * rate - com * crate - c * n / sh in
          if Qcltb g 0 then judge_loss hs bef t n g declared aft
          else match declared with
               | Some _ => Offends SflNoLoss
               | None => Goes 0 []
               end
      end
  end.

(* holdings after one effective row *)
Definition record (hs : holdings) (t : tx) (denied : Qc) : holdings :=
  aupdate (af_id (t_af t)) (fst (avg_cost_rule (held hs (t_af t)) (t_act t) denied)) hs.
Definition record_all (hs : holdings) (adj : list tx) : holdings :=
  fold_left (fun h a => record h a 0) adj hs.

Fixpoint walk (hs : holdings) (bef : list tx) (aft : list tx)
  : list (list (tx * Qc)) * option offence :=
  match aft with
  | [] => ([], None)
  | t :: rest =>
      match judge hs bef t rest with
      | Offends c => ([], Some c)
      | Goes denied adj =>
          let '(gs, o) := walk (record_all (record hs t denied) adj) (rev adj ++ t :: bef) rest in
          (((t, denied) :: map (fun a => (a, 0)) adj) :: gs, o)
      end
  end.

(* index (in the input rows) and class of the first impossible transaction *)
Definition first_offence (init : option status) (txs : list tx) : option (nat * offence) :=
  let '(gs, o) := walk (spec_init init) [] txs in
  option_map (fun c => (length gs, c)) o.

(* the effective rows (with denied amounts) before the first impossible
   transaction; all of them when the history is possible *)
Definition possible_rows (init : option status) (txs : list tx) : list (tx * Qc) :=
  concat (fst (walk (spec_init init) [] txs)).

(* the effective rows of the first [i] input rows (each input row followed by
   the adjustments generated for it) *)
Definition rows_before (init : option status) (txs : list tx) (i : nat) : list (tx * Qc) :=
  concat (firstn i (fst (walk (spec_init init) [] txs))).
