(* C19 (text layer): the SUPPORTED text layouts of the five E*TRADE document
   kinds as Gallina renderers over "layout records" (every field as printed),
   the records the parsers must return for them, and the executable
   well-formedness classes of the round-trip theorems.

   The literal chunks (Spec/EtradeLayoutChunks.v) are generated from the
   templates of lib/etrade.py, which were derived from tests/data/etrade_scenarios
   and the SAMPLE_* / unit-test texts of src/peripheral/broker/etrade.rs;
   style false = pypdf-like spacing, style true = lopdf-like spacing.  The check
   of C19 compares [render_*] (extracted) with the Python renderers on every
   generated document.  Definitions only. *)
From Coq Require Import List NArith ZArith QArith Qcanon Bool.
From ACB Require Import Base.Outcome Base.QcExtra Base.Fit Base.Arith Model.QText Model.Etrade
  Model.EtradeText Spec.EtradeLayoutChunks.
Import ListNotations.
Local Open Scope N_scope.

Definition date_t : Type := (text * text * text)%type.      (* month, day, year as printed *)
Definition sty (st : bool) (a b : text) : text := if st then b else a.
Definition opt_line (pre : text) (o : option text) (post : text) : text :=
  match o with Some v => pre ++ v ++ post | None => [] end.
Definition nl : text := [10].

(* ---------------------------------------------------------------- RSU *)
Record rsu_lay : Type := {
  rl_sym : text; rl_date : date_t; rl_award : text (* the digits after "R" *);
  rl_released : text; rl_sold : text; rl_issued : text; rl_fmv : text; rl_sale : text; rl_fee : text
}.
Definition render_rsu (st : bool) (r : rsu_lay) : text :=
  sty st rsu0_0 rsu1_0 ++ rl_sym r ++ sty st rsu0_1 rsu1_1 ++ rl_sym r ++ sty st rsu0_2 rsu1_2
  ++ 82 :: rl_award r ++ sty st rsu0_3 rsu1_3 ++ date_text 45 (rl_date r) ++ sty st rsu0_4 rsu1_4
  ++ rl_released r ++ sty st rsu0_5 rsu1_5 ++ rl_fmv r ++ sty st rsu0_6 rsu1_6
  ++ rl_sale r ++ sty st rsu0_7 rsu1_7 ++ rl_released r ++ sty st rsu0_8 rsu1_8
  ++ rl_sold r ++ sty st rsu0_9 rsu1_9 ++ rl_issued r ++ sty st rsu0_10 rsu1_10
  ++ rl_fee r ++ sty st rsu0_11 rsu1_11 ++ rl_sym r ++ sty st rsu0_12 rsu1_12.

(* value of a printed decimal / date *)
Definition dval (t : text) : Qc := plain_num_value (strip_commas t).
Definition date_ord (d : date_t) : Z :=
  let '(m, dd, y) := d in ordinal (digits_value y) (digits_value m) (digits_value dd).
Definition date_ord_short (d : date_t) : Z :=
  let '(m, dd, y) := d in ordinal (2000 + digits_value y) (digits_value m) (digits_value dd).

Definition rsu_record (r : rsu_lay) : tbenefit :=
  {| tb_sec := rl_sym r; tb_date := date_ord (rl_date r); tb_settle := date_ord (rl_date r);
     tb_price := dval (rl_fmv r); tb_shares := dval (rl_released r);
     tb_stc_td := None; tb_stc_sd := None; tb_stc_price := Some (dval (rl_sale r));
     tb_stc_shares := Some (dval (rl_sold r)); tb_stc_fee := Some (dval (rl_fee r));
     tb_note := k_RSU_ ++ 82 :: rl_award r; tb_sell_note := None |}.

(* ---------------------------------------------------------------- ESPP *)
Record espp_lay : Type := {
  el_sym : text; el_date : date_t; el_purchased : text; el_fmv : text;
  el_sold : option text; el_sale : option text; el_fee : option text
}.
Definition render_espp (st : bool) (r : espp_lay) : text :=
  sty st espp0_0 espp1_0 ++ el_sym r ++ sty st espp0_1 espp1_1 ++ el_sym r ++ sty st espp0_2 espp1_2
  ++ date_text 45 (el_date r) ++ sty st espp0_3 espp1_3 ++ el_purchased r ++ sty st espp0_4 espp1_4
  ++ el_purchased r ++ sty st espp0_5 espp1_5 ++ el_purchased r ++ sty st espp0_6 espp1_6
  ++ opt_line espp_sold_pre (el_sold r) nl ++ sty st espp0_7 espp1_7 ++ el_fmv r ++ sty st espp0_8 espp1_8
  ++ opt_line espp_sale_pre (el_sale r) nl ++ sty st espp0_between espp1_between
  ++ opt_line (sty st espp0_feepre espp1_feepre) (el_fee r) espp_fee_post
  ++ (match el_sold r with Some _ => espp_tail_stc | None => [] end)
  ++ sty st espp0_after espp1_after ++ el_sym r ++ sty st espp0_11 espp1_11.

Definition espp_record (r : espp_lay) : tbenefit :=
  {| tb_sec := el_sym r; tb_date := date_ord (el_date r); tb_settle := date_ord (el_date r);
     tb_price := dval (el_fmv r); tb_shares := dval (el_purchased r);
     tb_stc_td := None; tb_stc_sd := None; tb_stc_price := option_map dval (el_sale r);
     tb_stc_shares := option_map dval (el_sold r); tb_stc_fee := option_map dval (el_fee r);
     tb_note := k_ESPP; tb_sell_note := None |}.

(* commission + fee as the code adds them: rust_decimal addition (exact whenever the exact sum has at most
   28 significant digits; the round-trip classes require the addition not to overflow) *)
Definition dec_sum (a b : Qc) : Qc := match a_add dec a b with Ok v => v | _ => 0%Qc end.

(* ---------------------------------------------------------------- ESO *)
Record grant_lay : Type := { gl_num : text; gl_fmv : text; gl_shares : text; gl_sale : text; gl_fee : text }.
Record eso_lay : Type := {
  ol_sym : text; ol_date : date_t; ol_type : text; ol_sold : text; ol_grants : list grant_lay
}.
Definition render_grant (st : bool) (i : nat) (g : grant_lay) : text :=
  sty st eso0_ind eso1_ind ++ k_Grant_ ++ digits_of_N (N.of_nat i) ++ sty st eso0_g1 eso1_g1 ++ gl_num g
  ++ sty st eso0_g2 eso1_g2 ++ gl_fmv g ++ sty st eso0_g3 eso1_g3 ++ gl_shares g
  ++ sty st eso0_g4 eso1_g4 ++ gl_sale g ++ sty st eso0_g5 eso1_g5 ++ gl_fee g ++ sty st eso0_g6 eso1_g6.
Fixpoint render_grants (st : bool) (i : nat) (gs : list grant_lay) : text :=
  match gs with
  | [] => []
  | g :: r => render_grant st i g ++ render_grants st (S i) r
  end.
Definition render_eso (st : bool) (r : eso_lay) : text :=
  sty st eso0_0 eso1_0 ++ ol_sym r ++ sty st eso0_1 eso1_1 ++ ol_sym r ++ sty st eso0_2 eso1_2
  ++ ol_type r ++ sty st eso0_3 eso1_3 ++ ol_sold r ++ sty st eso0_4 eso1_4
  ++ render_grants st 1 (ol_grants r)
  ++ sty st eso0_9 eso1_9 ++ date_text 47 (ol_date r) ++ sty st eso0_10 eso1_10 ++ ol_sym r
  ++ sty st eso0_11 eso1_11.

(* the per-grant fees added as the code adds them (left fold of rust_decimal additions from 0) *)
Fixpoint dec_sum_from (acc : Qc) (l : list Qc) : Qc :=
  match l with [] => acc | x :: r => dec_sum_from (dec_sum acc x) r end.
Fixpoint eso_records_aux (r : eso_lay) (fees : Qc) (gs : list grant_lay) : list tbenefit :=
  match gs with
  | [] => []
  | g :: rest =>
      let is_last := match rest with [] => true | _ => false end in
      let d := date_ord (ol_date r) in
      {| tb_sec := ol_sym r; tb_date := d; tb_settle := d;
         tb_price := dval (gl_fmv g); tb_shares := dval (gl_shares g);
         tb_stc_td := if is_last then Some d else None; tb_stc_sd := if is_last then Some d else None;
         tb_stc_price := if is_last then Some (dval (gl_sale g)) else None;
         tb_stc_shares := if is_last then Some (dval (ol_sold r)) else None;
         tb_stc_fee := if is_last then Some fees else None;
         tb_note := k_option_grant_ ++ digits_of_N (digits_value (gl_num g));
         tb_sell_note := Some (ol_type r) |} :: eso_records_aux r fees rest
  end.
Definition eso_records (r : eso_lay) : list tbenefit :=
  eso_records_aux r (dec_sum_from 0%Qc (map (fun g => dval (gl_fee g)) (ol_grants r))) (ol_grants r).

(* ---------------------------------------------------------------- pre-2023 trade confirmations *)
Record pre_row_lay : Type := {
  pl_td : date_t; pl_sd : date_t (* two-digit years *); pl_sym : text; pl_act : text; pl_qty : text;
  pl_price : text; pl_comm : option text; pl_fee : option text
}.
Record pre_lay : Type := { pr_acct : text; pr_rows : list pre_row_lay }.
Definition k_COMMISSION_d : text := 32 :: k_COMMISSION ++ [32; 36].   (* " COMMISSION $" *)
Definition k_FEE_d : text := 32 :: k_FEE ++ [32; 36].                 (* " FEE $" *)
Definition k_nl_FEE_d : text := 10 :: k_FEE ++ [32; 36].              (* "\nFEE $" *)
Definition render_pre_row (st : bool) (t : pre_row_lay) : text :=
  date_text 47 (pl_td t) ++ [32] ++ date_text 47 (pl_sd t) ++ sty st prerow0_mkt prerow1_mkt
  ++ pl_sym t ++ [32] ++ pl_act t ++ [32] ++ pl_qty t ++ [32; 36] ++ pl_price t ++ prerow_rest
  ++ pl_sym t ++ sty st prerow0_desc prerow1_desc
  ++ (match pl_comm t with
      | Some c => k_COMMISSION_d ++ c ++ opt_line k_nl_FEE_d (pl_fee t) []
      | None => k_FEE_d ++ match pl_fee t with Some f => f | None => [] end
      end)
  ++ sty st prerow0_end prerow1_end.
Definition render_tc_pre (st : bool) (r : pre_lay) : text :=
  sty st pre0_0 pre1_0 ++ pr_acct r ++ sty st pre0_1 pre1_1 ++ pr_acct r ++ sty st pre0_2 pre1_2
  ++ flat_map (render_pre_row st) (pr_rows r) ++ sty st pre0_foot pre1_foot.

Definition opt_dval (o : option text) : Qc := match o with Some t => dval t | None => 0%Qc end.
Definition sell_or_buy (t : text) : action5 :=
  match action_of t with Ok a => a | _ => XSell end.
Fixpoint pre_records (acct : text) (row : nat) (l : list pre_row_lay) : list ttrade :=
  match l with
  | [] => []
  | t :: r =>
      {| tt_sec := pl_sym t; tt_td := date_ord_short (pl_td t); tt_sd := date_ord_short (pl_sd t);
         tt_td_text := date_text 47 (pl_td t); tt_sd_text := date_text 47 (pl_sd t);
         tt_act := sell_or_buy (pl_act t); tt_price := dval (pl_price t); tt_shares := dval (pl_qty t);
         tt_comm := dec_sum (opt_dval (pl_comm t)) (opt_dval (pl_fee t)); tt_row := row; tt_acct := acct |}
      :: pre_records acct (S row) r
  end.

(* ---------------------------------------------------------------- post-2023 trade confirmation *)
Record post_lay : Type := {
  po_acct : text; po_td : date_t; po_sd : date_t; po_qty : text; po_price : text; po_type : text;
  po_sym : text; po_comm : option text; po_fee : option text
}.
Definition render_tc_post (st : bool) (r : post_lay) : text :=
  sty st post0_0 post1_0 ++ po_acct r ++ sty st post0_1 post1_1 ++ date_text 47 (po_td r)
  ++ sty st post0_2 post1_2 ++ date_text 47 (po_sd r) ++ sty st post0_3 post1_3 ++ po_qty r
  ++ sty st post0_4 post1_4 ++ po_price r ++ sty st post0_5 post1_5 ++ po_type r
  ++ sty st post0_6 post1_6 ++ po_sym r ++ sty st post0_7 post1_7 ++ po_sym r ++ sty st post0_8 post1_8
  ++ opt_line post_com_pre (po_comm r) nl ++ opt_line post_fee_pre (po_fee r) nl
  ++ sty st post0_10 post1_10.
Definition post_record (r : post_lay) : ttrade :=
  {| tt_sec := po_sym r; tt_td := date_ord (po_td r); tt_sd := date_ord (po_sd r);
     tt_td_text := date_text 47 (po_td r); tt_sd_text := date_text 47 (po_sd r);
     tt_act := sell_or_buy (po_type r); tt_price := dval (po_price r); tt_shares := dval (po_qty r);
     tt_comm := dec_sum (opt_dval (po_comm r)) (opt_dval (po_fee r)); tt_row := 1; tt_acct := po_acct r |}.
