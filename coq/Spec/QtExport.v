(* C18: what a Questrade export means, read off the cells found under the
   named headers (Model/Questrade.qrow), independently of the conversion's
   control flow: the trade a row stands for, the USD cash a row moves, the
   currency conversions, and when acb accepts an emitted row. *)
From Coq Require Import List NArith ZArith QArith Qcanon Bool.
From ACB Require Import Base.Outcome Base.QcExtra Base.Fit Base.Arith Model.QText
     Model.FxTracker Model.Questrade.
Import ListNotations.
Local Open Scope N_scope.

Definition str_of (col : N) (l : lookup) : option text :=
  match get_str col l with GOk s => Some s | _ => None end.
Definition dec_of (col : N) (l : lookup) : option Qc :=
  match get_dec col l with GOk v => Some v | _ => None end.
Definition dec_or0 (col : N) (l : lookup) : Qc :=
  match dec_of col l with Some v => v | None => 0%Qc end.
Definition date_of (col : N) (l : lookup) : option date3 :=
  match str_of col l with Some s => parse_date s | None => None end.

Definition action_of (q : qrow) : text :=
  match str_of Col.action (q_action q) with Some s => upper s | None => [] end.
Definition is_buy_action (a : text) : bool := text_eqb a t_BUY || text_eqb a t_DIS.
Definition is_sell_action (a : text) : bool := text_eqb a t_SELL || text_eqb a t_LIQ.
Definition is_trade_action (a : text) : bool := is_buy_action a || is_sell_action a.
Definition row_currency (q : qrow) : text :=
  match str_of Col.cur (q_cur q) with Some s => currency_of s | None => [] end.

(* The output row a BUY / SELL / DIS / LIQ activity stands for: its dates, the
   absolute quantity, the price, the absolute commission, the currency, the
   affiliate derived from the account type.  None when one of the cells the
   row needs cannot be read. *)
Definition trade_of_row (n : N) (q : qrow) : option btx :=
  if is_trade_action (action_of q) then
    match str_of Col.tdate (q_tdate q), date_of Col.tdate (q_tdate q),
          str_of Col.sdate (q_sdate q), date_of Col.sdate (q_sdate q),
          str_of Col.accttype (q_accttype q), str_of Col.acctnum (q_acctnum q),
          str_of Col.symbol (q_symbol q) with
    | Some tdt, Some td, Some sdt, Some sd, Some atype, Some anum, Some (c :: s) =>
        match dec_of Col.price (q_price q), dec_of Col.qty (q_qty q),
              dec_of Col.comm (q_comm q), str_of Col.cur (q_cur q) with
        | Some price, Some qty, Some comm, Some curs =>
            Some {| b_sec := alias_symbol (c :: s); b_td := td; b_sd := sd; b_tdt := tdt; b_sdt := sdt;
                    b_buy := is_buy_action (action_of q); b_price := price;
                    b_shares := Qcabs qty; b_comm := Qcabs comm; b_cur := currency_of curs;
                    b_rate := None; b_reg := is_registered_type atype; b_row := n;
                    b_acct := {| ac_type := atype; ac_num := anum |}; b_tb := None |}
        | _, _, _, _ => None
        end
    | _, _, _, _, _, _, _ => None
    end
  else None.

Fixpoint expected_trades (n : N) (rows : list qrow) : list btx :=
  match rows with
  | [] => []
  | q :: r => match trade_of_row n q with Some t => [t] | None => [] end ++ expected_trades (n + 1) r
  end.

(* USD cash moved by a row: a purchase pays price * |quantity| and the
   commission, a sale receives price * |quantity| less the commission, a USD
   dividend and the USD leg of a conversion move their net amount *)
Definition row_usd_flow (q : qrow) : Qc :=
  let a := action_of q in
  let usd := text_eqb (row_currency q) t_USD in
  let gross := (dec_or0 Col.price (q_price q) * Qcabs (dec_or0 Col.qty (q_qty q)))%Qc in
  let comm := Qcabs (dec_or0 Col.comm (q_comm q)) in
  if is_buy_action a then (if usd then (- gross - comm)%Qc else 0%Qc)
  else if is_sell_action a then (if usd then (gross - comm)%Qc else 0%Qc)
  else if text_eqb a t_DIV || text_eqb a t_FXT then
    (if usd then dec_or0 Col.net (q_net q) else 0%Qc)
  else 0%Qc.

Definition usd_flow (rows : list qrow) : Qc :=
  fold_right (fun q acc => (row_usd_flow q + acc)%Qc) 0%Qc rows.

(* signed USD.FX shares of the emitted FX transactions *)
Definition signed_shares (t : btx) : Qc := if b_buy t then b_shares t else (- b_shares t)%Qc.
Definition signed_sum (l : list btx) : Qc :=
  fold_right (fun t acc => (signed_shares t + acc)%Qc) 0%Qc l.

Definition is_fx (t : btx) : bool := match b_tb t with Some _ => true | None => false end.
Definition is_trade (t : btx) : bool := negb (is_fx t).

(* Currency conversions: the FXT rows, paired in order of appearance; each
   pair has a CAD leg and a USD leg.  A conversion is (|USD leg|,
   |CAD leg / USD leg|, row number of the second row). *)
Definition is_fxt_row (q : qrow) : bool := text_eqb (action_of q) t_FXT.

Fixpoint conversions (pend : option (text * Qc)) (n : N) (rows : list qrow)
  : list (Qc * Qc * N) :=
  match rows with
  | [] => []
  | q :: r =>
      if is_fxt_row q then
        let cur := row_currency q in
        let amt := dec_or0 Col.net (q_net q) in
        match pend with
        | None => conversions (Some (cur, amt)) (n + 1) r
        | Some (c0, a0) =>
            let '(cad, usd) := if text_eqb c0 t_CAD then (a0, amt) else (amt, a0) in
            (Qcabs usd, Qcabs (cad / usd), n) :: conversions None (n + 1) r
        end
      else conversions pend (n + 1) r
  end.

Definition rated (l : list btx) : list (Qc * Qc * N) :=
  flat_map (fun t => match b_rate t with Some r => [(b_shares t, r, b_row t)] | None => [] end) l.

(* ---- accepted by acb ----
   Tx::try_from(CsvTx) for a Buy / Sell row produced by Into<CsvTx> for
   BrokerTx (src/portfolio/model/tx.rs:430-498, 500-631): shares positive,
   amount/share and commission not negative, security not empty, and the
   currency / rate pair valid.  A USD row without a rate is given the day's
   rate by load_tx_rates before the conversion (src/portfolio/io/tx_loader.rs),
   any other foreign currency without a rate is an error there. *)
Definition acb_accepts (t : btx) : bool :=
  Qcltb 0 (b_shares t) && Qcleb 0 (b_price t) && Qcleb 0 (b_comm t)
  && negb (match b_sec t with [] => true | _ => false end)
  && match b_rate t with
     | None => text_eqb (b_cur t) t_CAD || text_eqb (b_cur t) t_USD
     | Some r => if text_eqb (b_cur t) t_CAD then Qceqb r 1 else Qcltb 0 r
     end.

(* what makes the amounts of a row meaningful: a traded quantity is not
   zero, a price is not negative, a trade is in CAD or USD, a USD dividend
   and the legs of a conversion are not zero *)
Definition row_sane (q : qrow) : bool :=
  let a := action_of q in
  if is_trade_action a then
    negb (Qceqb (dec_or0 Col.qty (q_qty q)) 0) && Qcleb 0 (dec_or0 Col.price (q_price q))
    && (text_eqb (row_currency q) t_CAD || text_eqb (row_currency q) t_USD)
  else if text_eqb a t_FXT then negb (Qceqb (dec_or0 Col.net (q_net q)) 0)
  else if text_eqb a t_DIV then
    negb (text_eqb (row_currency q) t_USD) || negb (Qceqb (dec_or0 Col.net (q_net q)) 0)
  else true.
