(* Executable interface of the declarative walk of Spec/Possible.v
   (extraction group "possible"): the same case encoding as entry "core" of
   Exec/Codec.v (arith selector ignored: the walk is exact), the application's
   own sorting / per-security split / global-split expansion (Model/App.v),
   then [walk] per security.  Output per security: number, status of the
   global-split expansion (0 ok, 1 rejected), first offence (flag, class code
   as in Codec.orej), the groups of effective rows before it. *)
From Coq Require Import List NArith ZArith QArith Qcanon Bool.
From ACB Require Import Base.Outcome Base.QcExtra Model.Tx Model.App Spec.AvgCost Spec.Possible
     Exec.Codec.
Import ListNotations.
Local Open Scope Z_scope.

Definition ooff (c : offence) : Z :=
  match c with
  | OverSale => 4 | RocExceeds => 6 | RocRegistered => 7 | SflaRegistered => 8
  | RevSplitFraction => 10 | SflNoLoss => 11 | SflMismatch => 12
  end.

Definition orow (x : tx * Qc) : list Z :=
  [oact (t_act (fst x)); Z.of_N (af_id (t_af (fst x)))] ++ oQ (snd x)
  ++ match t_act (fst x) with
     | Sfla sh aps => oQ sh ++ oQ aps
     | _ => [0; 1; 0; 1]
     end.

Definition osec_possible (inits : list (N * status)) (all : list tx) (s : N) : list Z :=
  let init := init_for inits s in
  match replace_global_splits (match init with Some _ => true | None => false end) (txs_of_sec s all) with
  | Ok l =>
      let '(gs, o) := walk (spec_init init) [] l in
      Z.of_N s :: 0 :: (match o with Some c => [1; ooff c] | None => [0; 0] end)
      ++ Z.of_nat (length gs) :: flat_map (fun g => Z.of_nat (length g) :: flat_map orow g) gs
  | Rej _ => [Z.of_N s; 1; 0; 0; 0]
  | Panic _ => [Z.of_N s; 2; 0; 0; 0]
  end.

Definition run_possible : P (list Z) :=
  a <~ pZ ;; inits <~ plist pinit ;; rows <~ plist ptx ;;
  let sorted := sort_txs rows in
  let secs := securities sorted in
  pret (Z.of_nat (length secs) :: flat_map (osec_possible inits sorted) secs).

Definition dispatch (l : list Z) : list Z :=
  match l with
  | mode :: r =>
      let p := match mode with
               | 0 => run_possible
               | _ => fun _ => None
               end in
      match p r with
      | Some (out, []) => 1 :: out
      | Some (_, _ :: _) => [-1]
      | None => [-2]
      end
  | [] => [-3]
  end.
