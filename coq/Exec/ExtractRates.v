From Coq Require Import Extraction ExtrOcamlBasic.
From ACB Require Import Exec.CodecRates.
Extraction Language OCaml.
Extraction "extracted/rates.ml" dispatch.
