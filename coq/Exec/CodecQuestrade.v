(* Executable interface of group "questrade" (C18, C20): cases are flat lists
   of integers, results are flat lists of integers.  Text travels as a length
   followed by Unicode scalar values; rationals as numerator, denominator. *)
From Coq Require Import List NArith ZArith QArith Qcanon Bool.
From ACB Require Import Base.Outcome Base.QcExtra Base.Fit Base.Arith
     Model.QText Model.Pages Model.Fmv Spec.FmvTable Model.FxTracker Model.Questrade.
Import ListNotations.
Local Open Scope Z_scope.

Definition P (T : Type) : Type := list Z -> option (T * list Z).
Definition pret {T} (v : T) : P T := fun l => Some (v, l).
Definition pbind {T U} (p : P T) (f : T -> P U) : P U :=
  fun l => match p l with Some (v, r) => f v r | None => None end.
Notation "x <~ p ;; k" := (pbind p (fun x => k)) (at level 100, p at next level, right associativity).

Definition pZ : P Z := fun l => match l with z :: r => Some (z, r) | [] => None end.
Definition pN : P N := z <~ pZ ;; pret (Z.to_N z).
Definition pbool : P bool := z <~ pZ ;; pret (negb (z =? 0)).
Definition pQ : P Qc := n <~ pZ ;; d <~ pZ ;; pret (Qcfrac n (Z.to_pos d)).

Fixpoint prep {T} (n : nat) (p : P T) : P (list T) :=
  match n with
  | O => pret []
  | S k => x <~ p ;; r <~ prep k p ;; pret (x :: r)
  end.
Definition plist {T} (p : P T) : P (list T) :=
  fun l => match l with
           | z :: r => prep (Z.to_nat z) p r
           | [] => None
           end.
Definition ptext : P text := plist pN.
Definition popt {T} (p : P T) : P (option T) :=
  b <~ pbool ;; (if b then x <~ p ;; pret (Some x) else pret None).

(* ---- output ---- *)
Definition oQ (q : Qc) : list Z := [Qnum (this q); Zpos (Qden (this q))].
Definition obool (b : bool) : Z := if b then 1 else 0.
Definition otext (t : text) : list Z := Z.of_nat (length t) :: map Z.of_N t.
Definition olist {T} (f : T -> list Z) (l : list T) : list Z :=
  Z.of_nat (length l) :: flat_map f l.
Definition oNs (l : list N) : list Z := olist (fun p => [Z.of_N p]) l.

Definition orej (r : rej) : Z :=
  match r with
  | RejOther n => Z.of_N n
  | RejParse c => 100000 + Z.of_N c
  | _ => 99999
  end.
Definition opanic (p : panic) : Z :=
  match p with
  | PanicOverflow => 1 | PanicDivZero => 2
  | PanicConstraint s => 1000 + Z.of_N s | PanicAssert s => 2000 + Z.of_N s
  | PanicMissing s => 3000 + Z.of_N s
  end.
(* res: 0 payload | 1 class | 2 site *)
Definition ores {T} (f : T -> list Z) (r : res T) : list Z :=
  match r with
  | Ok v => 0 :: f v
  | Rej e => [1; orej e]
  | Panic p => [2; opanic p]
  end.

(* ===== C18 ===== *)
Definition pcell : P cell :=
  tag <~ pZ ;;
  match tag with
  | 0 => pret CEmpty
  | 1 => s <~ ptext ;; pret (CStr s)
  | 2 => z <~ pZ ;; pret (CInt z)
  | 3 => d <~ popt pQ ;; disp <~ ptext ;; pret (CFloat d disp)
  | _ => b <~ pbool ;; pret (CBool b)
  end.

(* filters are literal substrings here (the theorems hold for any predicate) *)
Definition popts : P opts :=
  acc <~ popt ptext ;; sec <~ popt ptext ;; nofx <~ pbool ;; nosort <~ pbool ;; rate <~ popt pQ ;;
  pret {| o_account := option_map (fun lit => contains lit) acc;
          o_security := option_map (fun lit => contains lit) sec;
          o_no_fx := nofx; o_no_sort := nosort; o_rate := rate |}.

Definition odate (d : date3) : list Z := let '(y, m, dd) := d in [Z.of_N y; Z.of_N m; Z.of_N dd].
Definition ooptQ (o : option Qc) : list Z := match o with Some q => 1 :: oQ q | None => [0] end.
Definition obtx (t : btx) : list Z :=
  otext (b_sec t) ++ odate (b_td t) ++ odate (b_sd t) ++ otext (b_tdt t) ++ otext (b_sdt t)
  ++ [obool (b_buy t)] ++ oQ (b_price t) ++ oQ (b_shares t) ++ oQ (b_comm t) ++ otext (b_cur t)
  ++ ooptQ (b_rate t) ++ [obool (b_reg t); Z.of_N (b_row t)]
  ++ otext (ac_type (b_acct t)) ++ otext (ac_num (b_acct t))
  ++ match b_tb t with Some x => [Z.of_N x] | None => [0] end.
Definition oerrs (l : list (N * N)) : list Z := olist (fun e => [Z.of_N (fst e); Z.of_N (snd e)]) l.

Definition run_qt : P (list Z) :=
  a <~ pZ ;; pol <~ pZ ;; o <~ popts ;; sh <~ plist (plist pcell) ;;
  pret (ores (fun r => match r with
                       | RunFatal e => 0 :: oerrs e
                       | RunAccounts => [1]
                       | RunOut rows e => 2 :: olist obtx rows ++ oerrs e
                       end)
             (run (if a =? 0 then exact else dec)
                  (if pol =? 0 then HeaderFiltered else HeaderEnumerated) o sh)).

(* ===== C20 ===== *)
Definition run_pages : P (list Z) :=
  n <~ pN ;; hints <~ plist (plist pN) ;;
  pret (olist oNs (safe_page_chunks n hints)).

Definition oend (e : iter_end) : list Z :=
  match e with IterDone => [0; 0] | IterError => [1; 0] | IterPanic s => [2; Z.of_N s] end.

(* iterator: policy (0 = resize always, 1 = grow only), page count, whether to
   sanitise the groups first, groups, pages whose extraction fails *)
Definition run_iter_case : P (list Z) :=
  pol <~ pZ ;; n <~ pN ;; safe <~ pbool ;; groups <~ plist (plist pN) ;; fail <~ plist pN ;;
  let prov := fun p => if page_ok n p && negb (memN p fail) then Some p else None in
  let gs := if safe then safe_page_chunks n groups else groups in
  let '(ys, reqs, e) := run_iter N prov (if pol =? 0 then ResizeAlways else ResizeGrow) [] gs in
  pret (olist oNs gs ++ olist (fun y => [Z.of_N (fst y); Z.of_N (snd y)]) ys
        ++ olist oNs reqs ++ oend e).

Definition ocaps (o : option (list text)) : list Z :=
  match o with
  | None => [0]
  | Some l => 1 :: olist otext l
  end.

Definition run_regex : P (list Z) :=
  which <~ pZ ;; s <~ ptext ;;
  pret (match which with
        | 0 => ocaps (option_map (fun c => [c]) (match_first_row s))
        | 1 => ocaps (option_map (fun '(d, a, f) => [d; a; f]) (match_data s))
        | _ => ocaps (option_map (fun c => [c]) (match_total s))
        end).

Definition ofmv (f : fmv) : list Z := otext (f_desc f) ++ oQ (f_alloc f) ++ oQ (f_fmv f).

Definition run_page : P (list Z) :=
  s <~ ptext ;;
  pret (ores (fun '(fs, t) => olist ofmv fs ++ oQ t) (parse_page s)).

Definition run_stmt : P (list Z) :=
  pages <~ plist ptext ;;
  pret (ores (fun st => let '(y, m, d) := st_month st in
                        [Z.of_N y; Z.of_N m; Z.of_N d] ++ olist ofmv (st_fmvs st) ++ oQ (st_total st))
             (parse_statement_text pages)).

(* sanitised groups -> iterator -> parse_statement_text, as parse_statement does *)
Definition run_stmt_iter : P (list Z) :=
  pages <~ plist ptext ;; hints <~ plist (plist pN) ;;
  let n := N.of_nat (length pages) in
  let prov := fun p => if page_ok n p then nth_error pages (N.to_nat p - 1) else None in
  let gs := safe_page_chunks n hints in
  let '(ys, reqs, e) := run_iter text prov ResizeGrow [] gs in
  pret (match e with
        | IterPanic s => [2; 3000 + Z.of_N s]
        | _ => ores (fun st => let '(y, m, d) := st_month st in
                        [Z.of_N y; Z.of_N m; Z.of_N d] ++ olist ofmv (st_fmvs st) ++ oQ (st_total st))
                    (parse_statement_text (map snd ys))
        end).

Definition psec : P sec_lay :=
  ls <~ plist ptext ;; a <~ ptext ;; f <~ ptext ;; own <~ pbool ;; bl <~ pbool ;;
  pret {| sl_lines := ls; sl_alloc := a; sl_fmv := f; sl_own := own; sl_blank := bl |}.
Definition ptable : P table_lay :=
  ind <~ pN ;; pre <~ plist ptext ;; h <~ ptext ;; secs <~ plist psec ;; tot <~ ptext ;; t00 <~ pbool ;;
  pret {| tl_indent := N.to_nat ind; tl_pre := pre; tl_header := h; tl_secs := secs;
          tl_total := tot; tl_total00 := t00 |}.

(* a laid-out table: rendering, class predicates, expected content, and the
   parse of the rendering followed by [post] *)
Definition run_table : P (list Z) :=
  t <~ ptable ;; post <~ ptext ;;
  let '(fs, tot) := content t in
  pret (otext (render_table t) ++ [obool (layout_ok t); obool (unambiguous t)]
        ++ olist ofmv fs ++ oQ tot
        ++ ores (fun '(fs, t) => olist ofmv fs ++ oQ t) (parse_page (render_table t ++ post))).

Definition dispatch (l : list Z) : list Z :=
  match l with
  | mode :: r =>
      let p := match mode with
               | 10 => run_qt
               | 20 => run_pages
               | 21 => run_iter_case
               | 22 => run_regex
               | 23 => run_page
               | 24 => run_stmt
               | 25 => run_stmt_iter
               | 26 => run_table
               | _ => fun _ => None
               end in
      match p r with
      | Some (out, []) => 1 :: out
      | Some (_, _ :: _) => [-1]       (* trailing input *)
      | None => [-2]                   (* malformed input *)
      end
  | [] => [-3]
  end.
