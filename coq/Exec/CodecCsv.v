(* Executable interface of the csv group (C11, C10): cases are flat lists of
   integers, results flat lists of integers.  Byte strings travel as
   length :: codes; decimals as sign, mantissa, scale. *)
From Coq Require Import List NArith ZArith QArith Qcanon Bool.
From ACB Require Import Base.Outcome Base.QcExtra Base.Fit Base.Arith Model.Tx Model.Ledger Model.Sfl
     Model.DeltaList Model.App Model.CsvFields Model.CsvTable Model.Summary Model.SummaryObs Model.SummaryApp Exec.Codec.
Import ListNotations.
Local Open Scope Z_scope.

(* the parser combinators, [ptx], [oapp] ... are those of Exec/Codec.v *)
Definition pnat : P nat := z <~ pZ ;; pret (Z.to_nat z).
Definition popt {T} (p : P T) : P (option T) :=
  b <~ pbool ;; (if b then x <~ p ;; pret (Some x) else pret None).
Definition pbytes : P bytes := plist pN.
Definition pdec : P dec := n <~ pbool ;; m <~ pN ;; s <~ pnat ;; pret (mk_dec n m s).
Definition pdate : P date := y <~ pN ;; m <~ pN ;; d <~ pN ;; pret {| dt_y := y; dt_m := m; dt_d := d |}.
Definition pcar : P car := c <~ pbytes ;; r <~ pdec ;; pret {| c_cur := c; c_rate := r |}.
Definition psfl : P sflin := v <~ pdec ;; f <~ pbool ;; pret {| sf_val := v; sf_force := f |}.

Definition pcact : P cact :=
  tag <~ pZ ;;
  match tag with
  | 0 => sh <~ pdec ;; aps <~ pdec ;; com <~ pdec ;; cr <~ pcar ;; ccr <~ popt pcar ;;
         pret (XBuy sh aps com cr ccr)
  | 1 => sh <~ pdec ;; aps <~ pdec ;; com <~ pdec ;; cr <~ pcar ;; ccr <~ popt pcar ;;
         sfl <~ popt psfl ;; pret (XSell sh aps com cr ccr sfl)
  | 2 => aps <~ pdec ;; cr <~ pcar ;; pret (XRoc aps cr)
  | 3 => sh <~ pdec ;; aps <~ pdec ;; pret (XSfla sh aps)
  | _ => post <~ pdec ;; pre <~ pdec ;; rio <~ pbool ;;
         pret (XSplit {| r_post := post; r_pre := pre; r_rio := rio |})
  end.

(* a transaction whose affiliate is still a spelling *)
Definition pctx0 : P (ctx * bytes) :=
  sec <~ pbytes ;; td <~ pdate ;; sd <~ pdate ;; memo <~ pbytes ;; af <~ pbytes ;; ri <~ pN ;;
  a <~ pcact ;;
  pret ({| x_sec := sec; x_td := td; x_sd := sd; x_act := a; x_memo := memo;
           x_af := from_strep_data af; x_ri := ri |}, af).

(* ---- output ---- *)
Definition obytes (b : bytes) : list Z := Z.of_nat (length b) :: map Z.of_N b.
Definition odec (d : dec) : list Z := [obool (d_neg d); Z.of_N (d_mant d); Z.of_nat (d_scale d)].
Definition odate (d : date) : list Z := [Z.of_N (dt_y d); Z.of_N (dt_m d); Z.of_N (dt_d d)].
Definition ooptl {T} (f : T -> list Z) (o : option T) : list Z :=
  match o with Some v => 1 :: f v | None => [0] end.
Definition ocar (c : car) : list Z := obytes (c_cur c) ++ odec (c_rate c).
Definition osfl (v : sflin) : list Z := odec (sf_val v) ++ [obool (sf_force v)].
Definition oaff (a : affdata) : list Z := obytes (a_id a) ++ obytes (a_name a) ++ [obool (a_reg a)].
Definition ocact (a : cact) : list Z :=
  match a with
  | XBuy sh aps com cr ccr => 0 :: odec sh ++ odec aps ++ odec com ++ ocar cr ++ ooptl ocar ccr
  | XSell sh aps com cr ccr sfl =>
      1 :: odec sh ++ odec aps ++ odec com ++ ocar cr ++ ooptl ocar ccr ++ ooptl osfl sfl
  | XRoc aps cr => 2 :: odec aps ++ ocar cr
  | XSfla sh aps => 3 :: odec sh ++ odec aps
  | XSplit r => 4 :: odec (r_post r) ++ odec (r_pre r) ++ [obool (r_rio r)]
  end.
Definition octx (t : ctx) : list Z :=
  obytes (x_sec t) ++ odate (x_td t) ++ odate (x_sd t) ++ obytes (x_memo t) ++ oaff (x_af t)
    ++ [Z.of_N (x_ri t)] ++ ocact (x_act t).
Definition orejc (r : rej) : list Z :=
  match r with
  | RejParse c => [1; Z.of_N c]
  | RejOther n => [2; Z.of_N n]
  | _ => [3; 0]
  end.
Definition ores {T} (f : T -> list Z) (r : res T) : list Z :=
  match r with
  | Ok v => 0 :: f v
  | Rej e => 1 :: orejc e
  | Panic _ => [2]
  end.
Definition otable (t : list bytes * list (list bytes)) : list Z :=
  let '(h, rows) := t in
  Z.of_nat (length h) :: flat_map obytes h
    ++ Z.of_nat (length rows) :: flat_map (fun r => flat_map obytes r) rows.

(* ---- entry points ---- *)
(* 10: decimal rendering: Display with precision p (p < 0: to_string), and
   to_string_min_precision k *)
Definition run_dec_show : P (list Z) :=
  d <~ pdec ;; p <~ pZ ;; k <~ pnat ;;
  let pp := if p <? 0 then d_scale d else Z.to_nat p in
  pret (obool (fmt_panics pp d || fmt_panics (Nat.max (trimmed_prec d) k) d)
          :: obytes (fmt_prec pp d) ++ obytes (tsmp k d)).

(* 11: field parsers: kind, text *)
Definition run_field_parse : P (list Z) :=
  kind <~ pZ ;; s <~ pbytes ;;
  pret (match kind with
        | 0 => ores odec (parse_dec s)
        | 1 => ores odec (parse_dec_exact s)
        | 2 => ores odate (parse_date s)
        | 3 => ores (fun a => [match a with ABuy => 0 | ASell => 1 | ARoc => 2 | ASfla => 3 | ASplit => 4 end])
                    (parse_act s)
        | 4 => ores osfl (parse_sfl s)
        | 5 => ores (fun r => odec (r_post r) ++ odec (r_pre r) ++ [obool (r_rio r)]) (parse_ratio s)
        | 6 => 0 :: obytes (currency_new s)
        | _ => 0 :: obytes (trim s)
        end).

(* 12: AffiliateDedupTable::new() + deduped_affiliate on each spelling in turn *)
Fixpoint intern_all (t : aftable) (l : list bytes) : list affdata * aftable :=
  match l with
  | [] => ([], t)
  | s :: r => let '(a, t1) := intern t s in let '(as_, t2) := intern_all t1 r in (a :: as_, t2)
  end.
Definition run_aff_seq : P (list Z) :=
  l <~ plist pbytes ;;
  pret (flat_map oaff (fst (intern_all [] l))).

(* 13: the C11 round trip on cells.  The process table starts with the
   spellings in [pre] interned (the harness interns "" and "(R)" at start-up),
   then the affiliates of the transactions in order. *)
Fixpoint intern_txs (t : aftable) (l : list (ctx * bytes)) : list ctx * aftable :=
  match l with
  | [] => ([], t)
  | (x, s) :: r =>
      let '(a, t1) := intern t s in
      let '(xs, t2) := intern_txs t1 r in
      ({| x_sec := x_sec x; x_td := x_td x; x_sd := x_sd x; x_act := x_act x;
          x_memo := x_memo x; x_af := a; x_ri := x_ri x |} :: xs, t2)
  end.
Definition run_roundtrip : P (list Z) :=
  pre <~ plist pbytes ;; l <~ plist pctx0 ;;
  let tbl0 := snd (intern_all [] pre) in
  let '(txs, tbl) := intern_txs tbl0 l in
  let valid := forallb (valid_tx tbl) txs in
  let '(tab, tbl1) := write_table tbl txs in
  let rd := read_table tbl1 (fst tab) (snd tab) in
  pret (obool valid :: flat_map (fun t => oaff (x_af t)) txs
          ++ otable tab
          ++ match rd with
             | Ok (txs', tbl2) =>
                 0 :: Z.of_nat (length txs') :: flat_map octx txs'
                   ++ [obool (forall2b (tx_same (no_named_affiliate txs)) txs txs')]
                   ++ otable (fst (write_table tbl2 txs'))
             | Rej e => 1 :: orejc e
             | Panic _ => [2]
             end).

(* 14: read a table of cells (header + rows) with the start-up table *)
Definition run_read_cells : P (list Z) :=
  pre <~ plist pbytes ;; h <~ plist pbytes ;; rows <~ plist (plist pbytes) ;;
  let tbl0 := snd (intern_all [] pre) in
  pret (ores (fun x => Z.of_nat (length (fst x)) :: flat_map octx (fst x)) (read_table tbl0 h rows)).

(* ---- C10: summary mode ---- *)
Definition oaction (a : action) : list Z :=
  match a with
  | Buy sh aps com rate crate => 0 :: oQ sh ++ oQ aps ++ oQ com ++ oQ rate ++ oQ crate
  | Sell sh aps com rate crate sfl =>
      1 :: oQ sh ++ oQ aps ++ oQ com ++ oQ rate ++ oQ crate
        ++ match sfl with Some (v, f) => 1 :: oQ v ++ [obool f] | None => [0] end
  | Roc aps rate => 2 :: oQ aps ++ oQ rate
  | Sfla sh aps => 3 :: oQ sh ++ oQ aps
  | Split post pre io => 4 :: oQ post ++ oQ pre ++ [obool io]
  end.
Definition otx (t : tx) : list Z :=
  [Z.of_N (t_sec t); t_td t; t_sd t; Z.of_N (af_id (t_af t)); obool (af_reg (t_af t));
   obool (af_dflt (t_af t)); obool (t_glob t); Z.of_N (t_ri t)] ++ oaction (t_act t).

(* make_aggregate_summary_txs: Model/SummaryApp.v all_summaries (securities in name order) *)

(* 20: arith, annual, date, rows ->
   status of the summary, summary rows, re-run of (summary rows ++ rows after
   the date), full run *)
Definition run_summary : P (list Z) :=
  a <~ pZ ;; annual <~ pbool ;; latest <~ pZ ;; rows <~ plist ptx ;;
  let A := arith_of a in
  let full := run_app A [] rows in
  pret (match full with
        | Ok secs =>
            if existsb (fun x => match snd (snd x) with Some _ => true | None => false end) secs
            then [1] ++ oapp full
            else match all_summaries A latest annual secs with
                 | Ok sums =>
                     let rerun := run_app A [] (number_from 0 (through_csv sums ++ rows_after latest rows)) in
                     let ds0 := match secs with (_, (ds, _)) :: _ => ds | [] => [] end in
                     [0; obool (K1_of A latest annual ds0); obool (K2_of A latest annual ds0);
                      obool (K3_of latest ds0); obool (K4_of latest ds0); obool (roundtrip_of A latest annual rows ds0);
                      obool (roundtrip_obs_of A latest annual rows ds0);
                      obool (app_roundtrip A true latest annual rows);
                      Z.of_nat (length sums)] ++ flat_map otx sums ++ Z.of_nat (length (oapp rerun)) :: oapp rerun ++ oapp full
                 | Rej e => [2; orej e]
                 | Panic p => 3 :: opanic p
                 end
        | Rej e => [4; orej e]
        | Panic p => 5 :: opanic p
        end).

Definition dispatch (l : list Z) : list Z :=
  match l with
  | mode :: r =>
      let p := match mode with
               | 10 => run_dec_show
               | 11 => run_field_parse
               | 12 => run_aff_seq
               | 13 => run_roundtrip
               | 14 => run_read_cells
               | 20 => run_summary
               | _ => fun _ => None
               end in
      match p r with
      | Some (out, []) => 1 :: out
      | Some (_, _ :: _) => [-1]       (* trailing input *)
      | None => [-2]                   (* malformed input *)
      end
  | [] => [-3]
  end.
