(* Extraction of the declarative walk (group "possible"). *)
From Coq Require Import Extraction ExtrOcamlBasic.
From ACB Require Import Exec.CodecPossible.
Extraction Language OCaml.
Extraction "extracted/possible.ml" dispatch.
