(* Extraction of the --symbol-base text layer (group "initspec"). *)
From Coq Require Import Extraction ExtrOcamlBasic.
From ACB Require Import Exec.CodecInitSpec.
Extraction Language OCaml.
Extraction "extracted/initspec.ml" dispatch.
