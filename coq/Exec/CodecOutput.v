(* Executable interface of the output-layer model (group "output").
   entry 0: an AppRenderResult given literally (the implementation's own
            render model: every string one literal piece, or texts with
            numeric leaves) and an output mode;
   entry 1: the whole pipeline on a core case (same integers as entry 0 of
            Exec/CodecRender.v) followed by the precision mode, the
            securities' names, their error messages and the costs tables:
            ledger -> gains -> render -> writers.
   mode 0: --csv-output-dir, started on a given directory (file name ->
           records | partial | blocked); mode 1: text; mode 2: CSV stream.
   Texts travel as piece lists as in Exec/CodecRender.v. *)
From Coq Require Import List NArith ZArith QArith Qcanon Bool.
From ACB Require Import Model.CsvFields.
From ACB Require Import Base.Outcome Base.QcExtra Base.Fit Base.Arith Model.Tx Model.Ledger
     Model.DeltaList Model.App Model.Gains Model.Render Model.Output Exec.Codec Exec.CodecRender.
Import ListNotations.
Local Open Scope Z_scope.

(* ---- input ---- *)
Definition ppiece : P piece :=
  tag <~ pZ ;;
  match tag with
  | 0 => s <~ pbytes ;; pret (PLit s)
  | 1 => q <~ pQ ;; pret (PNum q)
  | 2 => s <~ pN ;; pret (PSecName s)
  | 3 => d <~ pZ ;; pret (PDay d)
  | 4 => a <~ pN ;; pret (PAffName a)
  | _ => r <~ pN ;; pret (PMemoOf r)
  end.
Definition ptext : P text := plist ppiece.
Definition precord : P record := plist ptext.
Definition prtable : P rtable :=
  h <~ plist ptext ;; rows <~ plist precord ;; f <~ plist ptext ;; n <~ plist ptext ;; e <~ plist ptext ;;
  pret {| rt_header := h; rt_rows := rows; rt_footer := f; rt_notes := n; rt_errors := e |}.
Definition pcosts : P (option (rtable * rtable)) :=
  t <~ pbool ;;
  (if t then a <~ prtable ;; b <~ prtable ;; pret (Some (a, b)) else pret None).
Definition papp : P app_result :=
  secs <~ plist (n <~ pbytes ;; t <~ prtable ;; pret (n, t)) ;;
  agg <~ prtable ;; c <~ pcosts ;;
  pret {| ar_secs := secs; ar_agg := agg; ar_costs := c |}.
Definition pentry : P (bytes * entry) :=
  n <~ pbytes ;; tag <~ pZ ;;
  match tag with
  | 0 => recs <~ plist precord ;; pret (n, EFile recs)
  | 1 => pret (n, EPartial)
  | _ => pret (n, EBlocked)
  end.
Definition pdir : P dir := plist pentry.

(* ---- output ---- *)
Definition otext (t : text) : list Z := opieces t.
Definition olist {T} (f : T -> list Z) (l : list T) : list Z := Z.of_nat (length l) :: flat_map f l.
Definition orecord (r : record) : list Z := olist otext r.
Definition orecords (l : list record) : list Z := olist orecord l.
Definition oot (ot : out_type) : Z :=
  match ot with OTransactions => 0 | OAggregateGains => 1 | OCosts => 2 | ORaw => 3 end.
Definition ofail (f : option fail) : list Z :=
  match f with
  | None => [0]
  | Some (FWrite ot name c) => 1 :: oot ot :: obytes name ++ [match c with CCreate => 0 | CRecord => 1 end]
  | Some (FPanic p) => 2 :: opanic p
  end.
Definition oentry (x : bytes * entry) : list Z :=
  obytes (fst x) ++ match snd x with
                    | EFile recs => 0 :: orecords recs
                    | EPartial => [1]
                    | EBlocked => [2]
                    end.
Definition oitem (i : titem) : list Z :=
  match i with TLine t => 0 :: otext t | TTable recs => 1 :: orecords recs end.
Definition osection (s : section) : list Z :=
  olist otext (sc_errors s) ++ otext (sc_title s) ++ orecords (sc_block s) ++ olist otext (sc_notes s).
Definition ohead {W} (o : run_out W) : list Z := ofail (ro_fail o) ++ olist obytes (ro_errsecs o).

Definition run_mode (mode : Z) (d0 : dir) (r : app_result) : list Z :=
  match mode with
  | 0 => let o := csv_dir_output d0 r in
         ohead o ++ olist oentry (ro_state o) ++ olist obytes (write_log r) ++ olist oitem (csv_dir_stdout d0 r)
  | 1 => let o := text_output r in
         ohead o ++ olist osection (ro_state o) ++ olist oitem (text_stdout r)
  | _ => let o := csv_stream_output r in
         ohead o ++ olist orecords (ro_state o)
  end.

Definition pmode : P (Z * dir) :=
  m <~ pZ ;; (if m =? 0 then d <~ pdir ;; pret (m, d) else pret (m, [])).

Definition run_literal : P (list Z) :=
  md <~ pmode ;; r <~ papp ;; pret (run_mode (fst md) (snd md) r).

Definition run_pipeline_out : P (list Z) :=
  md <~ pmode ;;
  a <~ pZ ;; inits <~ plist pinit ;; rows <~ plist ptx ;; curs <~ pcurs ;;
  full <~ pbool ;; names <~ plist pbytes ;; errs <~ plist ptext ;; costs <~ pcosts ;;
  let A := arith_of a in
  let secname (s : N) := nth (N.to_nat s) names [] in
  let errmsg (s : N) := nth (N.to_nat s) errs [] in
  pret (match render_app A full (cur_of curs) inits rows with
        | Ok rep => 0 :: run_mode (fst md) (snd md) (app_of_report secname errmsg costs rep)
        | Rej e => [1; orej e]
        | Panic p => 2 :: opanic p
        end).

Definition dispatch (l : list Z) : list Z :=
  match l with
  | entry :: r =>
      let p := match entry with
               | 0 => run_literal
               | 1 => run_pipeline_out
               | _ => fun _ => None
               end in
      match p r with
      | Some (out, []) => 1 :: out
      | Some (_, _ :: _) => [-1]
      | None => [-2]
      end
  | [] => [-3]
  end.
