(* Extraction of the executable render model (ExtrOcamlBasic only). *)
From Coq Require Import Extraction ExtrOcamlBasic.
From ACB Require Import Exec.CodecRender.
Extraction Language OCaml.
Extraction "extracted/renderm.ml" dispatch.
