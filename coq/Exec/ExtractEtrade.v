From Coq Require Import Extraction ExtrOcamlBasic.
From ACB Require Import Exec.CodecEtrade.
Extraction Language OCaml.
Extraction "extracted/etrade.ml" dispatch.
