(* Executable interface of the model for the correspondence check: cases are
   flat lists of integers (written by /verif/bin tooling), results are flat
   lists of integers.  Rationals travel as numerator, denominator. *)
From Coq Require Import List NArith ZArith QArith Qcanon Bool.
From ACB Require Import Base.Outcome Base.QcExtra Base.Fit Base.Arith Model.Tx Model.Ledger
     Model.Sfl Model.DeltaList Model.App Model.Gains Spec.AvgCost.
Import ListNotations.
Local Open Scope Z_scope.

Definition P (T : Type) : Type := list Z -> option (T * list Z).
Definition pret {T} (v : T) : P T := fun l => Some (v, l).
Definition pbind {T U} (p : P T) (f : T -> P U) : P U :=
  fun l => match p l with Some (v, r) => f v r | None => None end.
Notation "x <~ p ;; k" := (pbind p (fun x => k)) (at level 100, p at next level, right associativity).

Definition pZ : P Z := fun l => match l with z :: r => Some (z, r) | [] => None end.
Definition pN : P N := z <~ pZ ;; pret (Z.to_N z).
Definition pbool : P bool := z <~ pZ ;; pret (negb (z =? 0)).
Definition pQ : P Qc :=
  n <~ pZ ;; d <~ pZ ;; pret (Qcfrac n (Z.to_pos d)).

Fixpoint prep {T} (n : nat) (p : P T) : P (list T) :=
  match n with
  | O => pret []
  | S k => x <~ p ;; r <~ prep k p ;; pret (x :: r)
  end.
Definition plist {T} (p : P T) : P (list T) :=
  fun l => match l with
           | z :: r => prep (Z.to_nat z) p r
           | [] => None
           end.

Definition paff : P aff :=
  i <~ pN ;; r <~ pbool ;; d <~ pbool ;; pret {| af_id := i; af_reg := r; af_dflt := d |}.

Definition paction : P action :=
  tag <~ pZ ;;
  match tag with
  | 0 => sh <~ pQ ;; aps <~ pQ ;; com <~ pQ ;; rate <~ pQ ;; crate <~ pQ ;;
         pret (Buy sh aps com rate crate)
  | 1 => sh <~ pQ ;; aps <~ pQ ;; com <~ pQ ;; rate <~ pQ ;; crate <~ pQ ;;
         st <~ pZ ;;
         (if st =? 0 then pret (Sell sh aps com rate crate None)
          else v <~ pQ ;; f <~ pbool ;; pret (Sell sh aps com rate crate (Some (v, f))))
  | 2 => aps <~ pQ ;; rate <~ pQ ;; pret (Roc aps rate)
  | 3 => sh <~ pQ ;; aps <~ pQ ;; pret (Sfla sh aps)
  | _ => post <~ pQ ;; pre <~ pQ ;; io <~ pbool ;; pret (Split post pre io)
  end.

Definition ptx : P tx :=
  sec <~ pN ;; td <~ pZ ;; sd <~ pZ ;; af <~ paff ;; g <~ pbool ;; ri <~ pN ;; a <~ paction ;;
  pret {| t_sec := sec; t_td := td; t_sd := sd; t_act := a; t_af := af; t_glob := g; t_ri := ri |}.

Definition pinit : P (N * status) :=
  sec <~ pN ;; sh <~ pQ ;; acb <~ pQ ;;
  pret (sec, {| s_sh := sh; s_all := sh; s_acb := Some acb |}).

(* ---- output ---- *)
Definition oQ (q : Qc) : list Z := [Qnum (this q); Zpos (Qden (this q))].
Definition oopt (o : option Qc) : list Z :=
  match o with Some q => 1 :: oQ q | None => [0; 0; 1] end.
Definition obool (b : bool) : Z := if b then 1 else 0.

Definition orej (r : rej) : Z :=
  match r with
  | RejSanityAllLower => 1 | RejSanityRegAcb => 2 | RejSanityNoAcb => 3
  | RejOversale => 4 | RejOversaleAll => 5 | RejRocExceeds => 6 | RejRocRegistered => 7
  | RejSflaRegistered => 8 | RejSplitAllNegative => 9 | RejRevSplitFraction => 10
  | RejSflNoLoss => 11 | RejSflMismatch => 12 | RejScanAllLess => 13 | RejScanAfLess => 14
  | RejAheadAllNegative => 15 | RejAheadAfNegative => 16 | RejGlobalSplitNear => 17
  | RejParse c => 100 + Z.of_N c | RejOther n => 1000 + Z.of_N n
  end.
Definition opanic (p : panic) : list Z :=
  match p with
  | PanicOverflow => [1; 0] | PanicDivZero => [2; 0]
  | PanicConstraint s => [3; Z.of_N s] | PanicAssert s => [4; Z.of_N s]
  | PanicMissing s => [5; Z.of_N s]
  end.
Definition ostop (o : option stop) : list Z :=
  match o with
  | None => [0; 0; 0]
  | Some (SRej r) => [1; orej r; 0]
  | Some (SPanic p) => 2 :: opanic p
  end.

Definition oact (a : action) : Z :=
  match a with Buy _ _ _ _ _ => 0 | Sell _ _ _ _ _ _ => 1 | Roc _ _ => 2 | Sfla _ _ => 3
          | Split _ _ _ => 4 end.

Definition ostatus (s : status) : list Z := oQ (s_sh s) ++ oQ (s_all s) ++ oopt (s_acb s).

Definition odelta (d : delta) : list Z :=
  [oact (t_act (d_tx d)); Z.of_N (af_id (t_af (d_tx d))); t_sd (d_tx d)]
    ++ ostatus (d_pre d) ++ ostatus (d_post d) ++ oopt (d_gain d)
    ++ match d_sfl d with
       | Some i => 1 :: oQ (sf_amount i) ++ oQ (sf_num i) ++ oQ (sf_den i) ++ [obool (sf_over i)]
       | None => [0; 0; 1; 0; 1; 0; 1; 0]
       end
    ++ match t_act (d_tx d) with
       | Sfla sh aps => oQ sh ++ oQ aps
       | _ => [0; 1; 0; 1]
       end.

Definition osec (x : N * (list delta * option stop)) : list Z :=
  let '(s, (ds, o)) := x in
  Z.of_N s :: ostop o ++ Z.of_nat (length ds) :: flat_map odelta ds.

Definition oapp (r : res (list (N * (list delta * option stop)))) : list Z :=
  match r with
  | Ok l => 0 :: Z.of_nat (length l) :: flat_map osec l
  | Rej e => [1; orej e]
  | Panic p => 2 :: opanic p
  end.

Definition arith_of (z : Z) : arith := if z =? 0 then exact else dec.

(* entry point "core": arith selector, opening positions, rows *)
Definition run_core : P (list Z) :=
  a <~ pZ ;; inits <~ plist pinit ;; rows <~ plist ptx ;;
  pret (oapp (run_app (arith_of a) inits rows)).

(* entry point "arith": op a b -> result *)
Definition run_arith : P (list Z) :=
  op <~ pZ ;; a <~ pQ ;; b <~ pQ ;;
  pret (match op with
        | 0 => match fit (a + b)%Qc with Some r => 1 :: oQ r | None => [0] end
        | 1 => match fit (a - b)%Qc with Some r => 1 :: oQ r | None => [0] end
        | 2 => match fit (a * b)%Qc with Some r => 1 :: oQ r | None => [0] end
        | 3 => if Qceqb b 0%Qc then [0] else
               match fit (a / b)%Qc with Some r => 1 :: oQ r | None => [0] end
        | _ => 1 :: oQ (round2 a)
        end).

(* entry point "spec": the L0 average-cost rules applied to effective rows
   (one security): opening position, rows with their denied amounts *)
Definition pinit1 : P (option status) :=
  h <~ pbool ;;
  (if h then sh <~ pQ ;; acb <~ pQ ;; pret (Some {| s_sh := sh; s_all := sh; s_acb := Some acb |})
   else pret None).
Definition prow : P (tx * Qc) := t <~ ptx ;; d <~ pQ ;; pret (t, d).
Definition oobs (o : row_obs) : list Z :=
  let '(sh, acb, g) := o in oQ sh ++ oopt acb ++ oopt g.
Definition run_spec : P (list Z) :=
  init <~ pinit1 ;; rows <~ plist prow ;;
  pret (Z.of_nat (length rows) :: flat_map oobs (spec_rows (spec_init init) rows)).

(* entry point "gains": arith selector, securities (each a list of
   (settlement day, optional gain)) -> per-security totals / year maps and
   the aggregate, in the given order *)
Definition pgrow : P (Z * option Qc) :=
  d <~ pZ ;; t <~ pbool ;; g <~ pQ ;; pret (d, if t then Some g else None).
Definition ogains (g : gains) : list Z :=
  oQ (g_total g) ++ Z.of_nat (length (g_years g)) :: flat_map (fun yv => fst yv :: oQ (snd yv)) (g_years g).
Definition ores_gains (r : res gains) : list Z :=
  match r with Ok g => 1 :: ogains g | _ => [0] end.
Definition run_gains : P (list Z) :=
  a <~ pZ ;; secs <~ plist (plist pgrow) ;;
  let A := arith_of a in
  let per := map (security_gains A gains0) secs in
  let oks := flat_map (fun r => match r with Ok g => [g] | _ => [] end) per in
  pret (Z.of_nat (length per) :: flat_map ores_gains per ++ ores_gains (aggregate A gains0 oks)
        ++ Z.of_nat (length secs) :: flat_map (fun rows => Z.of_nat (length rows) :: map (fun r => year_of_day (fst r)) rows) secs).

Definition dispatch (l : list Z) : list Z :=
  match l with
  | mode :: r =>
      let p := match mode with
               | 0 => run_core
               | 1 => run_arith
               | 2 => run_spec
               | 3 => run_gains
               | _ => fun _ => None
               end in
      match p r with
      | Some (out, []) => 1 :: out
      | Some (_, _ :: _) => [-1]       (* trailing input *)
      | None => [-2]                   (* malformed input *)
      end
  | [] => [-3]
  end.
