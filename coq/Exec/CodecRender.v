(* Executable interface of the render model (group "render").
   entry 0: the whole pipeline on a core case (same integers as entry 0 of
            Exec/Codec.v: arith selector, opening positions, rows), followed
            by the currencies of the rows (by read index): ledger -> gains ->
            render, both precision modes;
   entry 1: render_tx_table_model / render_aggregate_capital_gains on a given
            delta list and gains record (the implementation's own deltas, or
            hand-made ones), both precision modes;
   entry 2: the cent text of one figure (dollar_precision_str).
   Cells travel as piece lists (Model/Render.v cell_pieces). *)
From Coq Require Import List NArith ZArith QArith Qcanon Bool.
From ACB Require Import Model.CsvFields.
From ACB Require Import Base.Outcome Base.QcExtra Base.Fit Base.Arith Model.Tx Model.Ledger
     Model.DeltaList Model.App Model.Gains Model.Render Exec.Codec.
Import ListNotations.
Local Open Scope Z_scope.

Definition pbytes : P bytes := plist pN.
Definition pcurs : P (list (bytes * bytes)) :=
  plist (a <~ pbytes ;; b <~ pbytes ;; pret (a, b)).
Definition popt : P (option Qc) := t <~ pbool ;; q <~ pQ ;; pret (if t then Some q else None).

Definition s_cad_pair : bytes * bytes := (s_cad, s_cad).
Definition cur_of (tab : list (bytes * bytes)) (t : tx) : bytes * bytes :=
  nth (N.to_nat (t_ri t)) tab s_cad_pair.

Definition pstatus : P status :=
  sh <~ pQ ;; all <~ pQ ;; acb <~ popt ;; pret {| s_sh := sh; s_all := all; s_acb := acb |}.
Definition psfl : P (option sflinfo) :=
  t <~ pbool ;; amt <~ pQ ;; num <~ pQ ;; den <~ pQ ;; over <~ pbool ;;
  pret (if t then Some {| sf_amount := amt; sf_num := num; sf_den := den; sf_over := over |} else None).
Definition pdelta : P delta :=
  t <~ ptx ;; pre <~ pstatus ;; post <~ pstatus ;; g <~ popt ;; s <~ psfl ;;
  pret {| d_tx := t; d_pre := pre; d_post := post; d_gain := g; d_sfl := s |}.
Definition pyear : P (Z * Qc) := y <~ pZ ;; v <~ pQ ;; pret (y, v).
Definition pgains : P gains :=
  t <~ pQ ;; ys <~ plist pyear ;; pret {| g_total := t; g_years := ys |}.

(* ---- output ---- *)
Definition obytes (s : bytes) : list Z := Z.of_nat (length s) :: map Z.of_N s.
Definition opiece (p : piece) : list Z :=
  match p with
  | PLit s => 0 :: obytes s
  | PNum q => 1 :: oQ q
  | PSecName s => [2; Z.of_N s]
  | PDay d => [3; d]
  | PAffName a => [4; Z.of_N a]
  | PMemoOf ri => [5; Z.of_N ri]
  end.
Definition opieces (l : list piece) : list Z := Z.of_nat (length l) :: flat_map opiece l.
Definition orow (r : list cell) : list Z :=
  Z.of_nat (length r) :: flat_map (fun c => opieces (cell_pieces c)) r.
Definition otable (t : table) : list Z :=
  Z.of_nat (length (tb_rows t)) :: flat_map orow (tb_rows t)
    ++ Z.of_nat (length (footer_cells t)) :: flat_map opieces (footer_cells t)
    ++ Z.of_nat (length (notes_of t)) :: flat_map obytes (notes_of t).
Definition oaggregate (l : list (label * pm)) : list Z :=
  Z.of_nat (length l) :: flat_map (fun x => opieces (label_pieces (fst x)) ++ opieces (pm_pieces (snd x))) l.
Definition ores {T} (f : T -> list Z) (r : res T) : list Z :=
  match r with
  | Ok v => 0 :: f v
  | Rej e => [1; orej e]
  | Panic p => 2 :: opanic p
  end.
Definition oreport (r : report) : list Z :=
  Z.of_nat (length (rp_tables r))
    :: flat_map (fun x => let '(s, o, t) := x in Z.of_N s :: ostop o ++ otable t) (rp_tables r)
    ++ oaggregate (rp_aggregate r).

Definition run_pipeline : P (list Z) :=
  a <~ pZ ;; inits <~ plist pinit ;; rows <~ plist ptx ;; curs <~ pcurs ;;
  let A := arith_of a in
  pret (match run_app A inits rows with
        | Ok secs =>
            0 :: ores oreport (render_results A true (cur_of curs) secs)
              ++ ores oreport (render_results A false (cur_of curs) secs)
        | Rej e => [1; orej e]
        | Panic p => 2 :: opanic p
        end).

Definition run_direct : P (list Z) :=
  a <~ pZ ;; ds <~ plist pdelta ;; g <~ pgains ;; curs <~ pcurs ;;
  let A := arith_of a in
  pret (ores otable (render_table A true (cur_of curs) ds g)
        ++ ores otable (render_table A false (cur_of curs) ds g)
        ++ ores oaggregate (render_aggregate A true g)
        ++ ores oaggregate (render_aggregate A false g)).

Definition run_text : P (list Z) :=
  q <~ pQ ;; pret (round_cents q :: obytes (dollar2_text q)).

Definition dispatch (l : list Z) : list Z :=
  match l with
  | mode :: r =>
      let p := match mode with
               | 0 => run_pipeline
               | 1 => run_direct
               | 2 => run_text
               | _ => fun _ => None
               end in
      match p r with
      | Some (out, []) => 1 :: out
      | Some (_, _ :: _) => [-1]
      | None => [-2]
      end
  | [] => [-3]
  end.
