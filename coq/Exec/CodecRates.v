(* stub: executable interface of group Rates *)
From Coq Require Import List ZArith.
Import ListNotations.
Definition dispatch (l : list Z) : list Z := [(-9)%Z].
