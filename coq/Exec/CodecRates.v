(* Executable interface of the "rates" model for the correspondence check:
   cases are flat lists of integers, results are flat lists of integers;
   rationals travel as numerator, denominator. *)
From Coq Require Import List NArith ZArith QArith Qcanon Bool.
From ACB Require Import Base.Outcome Base.QcExtra Base.Fit Base.Arith
     Model.Rates Model.RatesCache Model.CrashFs Model.RatesFail Model.RatesJson.
Import ListNotations.
Local Open Scope Z_scope.

Definition P (T : Type) : Type := list Z -> option (T * list Z).
Definition pret {T} (v : T) : P T := fun l => Some (v, l).
Definition pbind {T U} (p : P T) (f : T -> P U) : P U :=
  fun l => match p l with Some (v, r) => f v r | None => None end.
Notation "x <~ p ;; k" := (pbind p (fun x => k)) (at level 100, p at next level, right associativity).

Definition pZ : P Z := fun l => match l with z :: r => Some (z, r) | [] => None end.
Definition pbool : P bool := z <~ pZ ;; pret (negb (z =? 0)).
Definition pnat : P nat := z <~ pZ ;; pret (Z.to_nat z).
Definition pQ : P Qc := n <~ pZ ;; d <~ pZ ;; pret (Qcfrac n (Z.to_pos d)).
Fixpoint prep {T} (n : nat) (p : P T) : P (list T) :=
  match n with
  | O => pret []
  | S k => x <~ p ;; r <~ prep k p ;; pret (x :: r)
  end.
Definition plist {T} (p : P T) : P (list T) :=
  fun l => match l with z :: r => prep (Z.to_nat z) p r | [] => None end.
Definition popt {T} (p : P T) : P (option T) :=
  h <~ pbool ;; (if h then x <~ p ;; pret (Some x) else pret None).

Definition oQ (q : Qc) : list Z := [Qnum (this q); Zpos (Qden (this q))].

(* ---- observations: filter day, date option, noon, daily ---- *)
Definition pjval : P jval :=
  t <~ pZ ;;
  match t with
  | 0 => pret JAbsent
  | 1 => pret JBad
  | _ => q <~ pQ ;; pret (JGood q)
  end.
Definition pobs : P (Z * obs) :=
  day <~ pZ ;; d <~ popt pZ ;; n <~ pjval ;; dl <~ pjval ;;
  pret (day, {| o_date := d; o_noon := n; o_daily := dl |}).

(* the remote of a run: observations of the requested year published before avail *)
Definition remote_of (truth : list (Z * obs)) (avail : Z) (y : Z) : list obs :=
  map snd (filter (fun x => (year_of (fst x) =? y) && (fst x <? avail)) truth).

Definition pdrate : P drate := d <~ pZ ;; q <~ pQ ;; pret (d, q).
Definition pyear : P (Z * list drate) := y <~ pZ ;; l <~ plist pdrate ;; pret (y, l).

Record prun : Type := { pr_today : Z; pr_avail : Z; pr_force : bool; pr_lookups : list Z }.
Definition prun_p : P prun :=
  t <~ pZ ;; a <~ pZ ;; f <~ pbool ;; l <~ plist pZ ;;
  pret {| pr_today := t; pr_avail := a; pr_force := f; pr_lookups := l |}.

Fixpoint olerr (e : lerr) : Z :=
  match e with
  | LNotYet => 1 | LCacheMissing => 2 | LNone7 => 3
  | LLookback x => 10 + olerr x
  end.
Definition oanswer (a : sum lerr drate) : list Z :=
  match a with
  | inr (d, r) => 1 :: d :: oQ r
  | inl e => [0; olerr e]
  end.
Definition odrates (l : list drate) : list Z :=
  Z.of_nat (length l) :: flat_map (fun x => fst x :: oQ (snd x)) l.

Definition env_of (truth : list (Z * obs)) (r : prun) : env :=
  {| e_today := pr_today r; e_force := pr_force r; e_remote := remote_of truth (pr_avail r) |}.

(* entry 0: history.  reval, truth, seed cache, years to dump, runs *)
Definition run_hist : P (list Z) :=
  reval <~ pbool ;; truth <~ plist pobs ;; seed <~ plist pyear ;; years <~ plist pZ ;;
  runs <~ plist prun_p ;;
  let s0 := {| s_years := []; s_fresh := []; s_cache := seed; s_dl := [] |} in
  pret (match history reval s0 (map (fun r => (env_of truth r, pr_lookups r)) runs) with
        | Ok (s, outs) =>
            1 :: Z.of_nat (length outs)
              :: flat_map (fun o =>
                             (Z.of_nat (length (fst o)) :: flat_map oanswer (fst o))
                               ++ (Z.of_nat (length (snd o))
                                     :: flat_map (fun y => [y; if series_daily y then 1 else 0]) (rev (snd o))))
                          outs
              ++ flat_map (fun y => match aget y (s_cache s) with
                                    | Some l => 1 :: odrates l
                                    | None => [0]
                                    end) years
        | Rej _ => [0]
        | Panic _ => [2]
        end).

(* entry 1: rows of one file through the application path *)
Definition pcur : P (option currency) :=
  t <~ pZ ;;
  pret (match t with
        | 0 => None | 1 => Some CAD | 2 => Some USD | _ => Some (OtherCur (Z.to_N t))
        end).
Definition prow : P row :=
  td <~ pZ ;; c <~ pcur ;; fx <~ popt pQ ;; cc <~ pcur ;; cfx <~ popt pQ ;;
  pret {| r_td := td; r_cur := c; r_fx := fx; r_ccur := cc; r_cfx := cfx |}.
Definition orow_err (e : row_err) : Z :=
  match e with
  | ENoAuto => 1 | EFxWithoutCurr => 2 | ECurrWithoutFx => 3 | ENotPositive => 4 | ECadNotOne => 5
  end.
Definition run_rows : P (list Z) :=
  truth <~ plist pobs ;; today <~ pZ ;; avail <~ pZ ;; rows <~ plist prow ;;
  let e := {| e_today := today; e_force := false; e_remote := remote_of truth avail |} in
  pret (match app_rows true e rows with
        | Ok (inr l) => 1 :: Z.of_nat (length l) :: flat_map (fun x => oQ (fst x) ++ oQ (snd x)) l
        | Ok (inl (RRate c err)) => [0; 0; if c then 1 else 0; olerr err]
        | Ok (inl (RRow c err)) => [0; 1; if c then 1 else 0; orow_err err]
        | Rej _ => [3]
        | Panic _ => [2]
        end).

(* entry 2: calendar *)
Definition run_dates : P (list Z) :=
  days <~ plist pZ ;;
  pret (flat_map (fun d => let '(y, m, dd) := civil d in [year_of d; y; m; dd]) days).

(* entry 3: the cache reader on a file content *)
Definition pbytes : P bytes := l <~ plist pZ ;; pret (map Z.to_N l).
Definition obytes (b : bytes) : list Z := Z.of_nat (length b) :: map Z.of_N b.
Definition run_parsecsv : P (list Z) :=
  c <~ pbytes ;; pret (odrates (parse_csv c)).

(* entry 4: crash states of a write procedure *)
Definition prow_t : P row_t := d <~ pZ ;; m <~ pZ ;; s <~ pnat ;; pret (d, (m, s)).
Definition oobytes (o : option bytes) : list Z :=
  match o with Some b => 1 :: obytes b | None => [0] end.
Definition run_crash : P (list Z) :=
  kind <~ pZ ;; old <~ popt (plist prow_t) ;; tmp <~ popt pbytes ;; new <~ plist prow_t ;;
  n <~ pnat ;; cut <~ pnat ;;
  let proc := if kind =? 0 then inplace_proc new else rename_proc new in
  let '(live, t) := crash_at proc (fs_of old tmp) n cut in
  pret (Z.of_nat (length proc) :: oobytes live ++ oobytes t).

(* entry 6: the steps of the modelled write procedure (kind per step:
   1 create live, 2 create tmp, 3 append live, 4 append tmp, 5 flush,
   6 sync live, 7 sync tmp, 8 rename tmp->live, 9 other rename) *)
Definition ostep (st : step) : Z :=
  match st with
  | Create Live => 1 | Create Tmp => 2
  | Append Live _ => 3 | Append Tmp _ => 4
  | Flush => 5
  | Sync Live => 6 | Sync Tmp => 7
  | Rename Tmp Live => 8 | Rename _ _ => 9
  end.
Definition run_proc : P (list Z) :=
  kind <~ pZ ;; new <~ plist prow_t ;;
  pret (map ostep (if kind =? 0 then inplace_proc new else rename_proc new)).

(* entry 5: rust_decimal division *)
Definition run_div : P (list Z) :=
  a <~ pQ ;; b <~ pQ ;;
  pret (match a_div dec a b with Ok r => 1 :: oQ r | _ => [0] end).

(* entry 7: history under a failure script (Model/RatesFail.v).
   truth, seed cache, years to dump, runs; a run: today, avail, force,
   look-ups, damage [(year, mask)], cache read script, cache write script,
   request script (events beyond the end of a script: nothing fails) *)
Definition prd_ev : P rd_ev :=
  t <~ pZ ;;
  match t with
  | 1 => pret RdErr
  | 2 => pret RdNone
  | 3 => m <~ plist pbool ;; pret (RdKeep m)
  | _ => pret (RdKeep [])
  end.
Definition prq_ev : P rq_ev :=
  t <~ pZ ;; pret (match t with 1 => RqHttp | 2 => RqDoc | _ => RqOk end).
Record pfrun : Type := { pf_run : prun; pf_damage : list (Z * list bool);
                         pf_rd : list rd_ev; pf_wr : list bool; pf_rq : list rq_ev }.
Definition pfrun_p : P pfrun :=
  r <~ prun_p ;; dm <~ plist (y <~ pZ ;; m <~ plist pbool ;; pret (y, m)) ;;
  rd <~ plist prd_ev ;; wr <~ plist pbool ;; rq <~ plist prq_ev ;;
  pret {| pf_run := r; pf_damage := dm; pf_rd := rd; pf_wr := wr; pf_rq := rq |}.
Definition frun_of (truth : list (Z * obs)) (r : pfrun) : frun :=
  {| fr_damage := pf_damage r;
     fr_env := {| fe_env := env_of truth (pf_run r);
                  fe_rd := fun n => nth n (pf_rd r) (RdKeep []);
                  fe_wr := fun n => nth n (pf_wr r) false;
                  fe_rq := fun n => nth n (pf_rq r) RqOk |};
     fr_lookups := pr_lookups (pf_run r) |}.
Fixpoint oferr (e : ferr) : Z :=
  match e with
  | FNotYet => 1 | FCacheMissing => 2 | FNone7 => 3 | FHttp => 4 | FDoc => 5 | FCacheRead => 6
  | FLookback x => 10 + oferr x
  end.
Definition olog (l : list (Z * bool)) : list Z :=
  Z.of_nat (length l)
    :: flat_map (fun x : Z * bool => [fst x; if series_daily (fst x) then 1 else 0; if snd x then 1 else 0]) (rev l).
Definition oanswerF (a : sum ferr drate * list (Z * bool)) : list Z :=
  (match fst a with
   | inr (d, r) => 1 :: d :: oQ r
   | inl e => [0; oferr e]
   end) ++ olog (snd a).
Definition run_histf : P (list Z) :=
  truth <~ plist pobs ;; seed <~ plist pyear ;; years <~ plist pZ ;;
  runs <~ plist pfrun_p ;;
  let s0 := fstate_of {| s_years := []; s_fresh := []; s_cache := seed; s_dl := [] |} in
  pret (match historyF s0 (map (frun_of truth) runs) with
        | Ok (s, outs) =>
            1 :: Z.of_nat (length outs)
              :: flat_map (fun o =>
                             (Z.of_nat (length (fo_answers o)) :: flat_map oanswerF (fo_answers o))
                               ++ olog (fo_log o)
                               ++ [Z.of_nat (fo_nrd o); Z.of_nat (fo_nwr o)])
                          outs
              ++ flat_map (fun y => match aget y (s_cache (f_s s)) with
                                    | Some l => 1 :: odrates l
                                    | None => [0]
                                    end) years
        | Rej _ => [0]
        | Panic _ => [2]
        end).

(* entry 8: a JSON document (tree: 0 null | 1 bool | 2 number token | 3 string |
   4 array | 5 object with members in document order) through parse_doc.
   entry 9: a number token: parts, Display text, Decimal *)
Fixpoint pjv (fuel : nat) : P jv :=
  match fuel with
  | O => fun _ => None
  | S k =>
      t <~ pZ ;;
      match t with
      | 0 => pret JNull
      | 1 => b <~ pbool ;; pret (JBool b)
      | 2 => s <~ pbytes ;; pret (JNum s)
      | 3 => s <~ pbytes ;; pret (JStr s)
      | 4 => l <~ plist (pjv k) ;; pret (JArr l)
      | _ => l <~ plist (key <~ pbytes ;; v <~ pjv k ;; pret (key, v)) ;; pret (JObj l)
      end
  end.
Definition run_doc : P (list Z) :=
  fun l =>
    (v <~ pjv (length l) ;;
     pret (match parse_doc v with
           | None => [0]
           | Some (Ok rs) => 1 :: odrates rs
           | Some (Rej _) => [2]
           | Some (Panic _) => [3]
           end)) l.
Definition run_num : P (list Z) :=
  t <~ pbytes ;;
  pret (match lex_number t with
        | None => [0]
        | Some (neg, n, e) =>
            [1; if neg then 1 else 0; n; e]
              ++ (match number_text neg n e with None => [0] | Some s => 1 :: obytes s end)
              ++ (match to_decimal (JNum t) with None => [0] | Some q => 1 :: oQ q end)
        end).

Definition dispatch (l : list Z) : list Z :=
  match l with
  | mode :: r =>
      let p := match mode with
               | 0 => run_hist
               | 1 => run_rows
               | 2 => run_dates
               | 3 => run_parsecsv
               | 4 => run_crash
               | 5 => run_div
               | 6 => run_proc
               | 7 => run_histf
               | 8 => run_doc
               | 9 => run_num
               | _ => fun _ => None
               end in
      match p r with
      | Some (out, []) => 1 :: out
      | Some (_, _ :: _) => [-1]
      | None => [-2]
      end
  | [] => [-3]
  end.
