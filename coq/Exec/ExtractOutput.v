(* Extraction of the executable output-layer model (ExtrOcamlBasic only). *)
From Coq Require Import Extraction ExtrOcamlBasic.
From ACB Require Import Exec.CodecOutput.
Extraction Language OCaml.
Extraction "extracted/outputm.ml" dispatch.
