(* Executable interface of the bridge (group "e2e"): the tokenised cells of
   every CSV file and the opening positions in, the report of the bookkeeping
   model (same encoding as entry "core" of Exec/Codec.v) out - preceded by the
   numbering of the names and the abstracted rows, so that the check can
   canonicalise the implementation's output with the model's own tables. *)
From Coq Require Import List NArith ZArith QArith Qcanon Bool.
From ACB Require Import Base.Outcome Base.QcExtra Base.Fit Base.Arith Model.Tx Model.Ledger Model.Sfl
     Model.DeltaList Model.App Model.CsvFields Model.CsvTable Model.Bridge Exec.Codec Exec.CodecCsv.
Import ListNotations.
Local Open Scope Z_scope.

Definition pinit_named : P (bytes * status) :=
  sec <~ pbytes ;; sh <~ pQ ;; acb <~ pQ ;;
  pret (sec, {| s_sh := sh; s_all := sh; s_acb := Some acb |}).
Definition pfile : P file :=
  h <~ plist pbytes ;; rows <~ plist (plist pbytes) ;; pret (h, rows).

Definition otable_names (num : bytes -> N) (l : list bytes) : list Z :=
  let d := dedup l in
  Z.of_nat (length d) :: flat_map (fun s => obytes s ++ [Z.of_N (num s)]) d.

(* 30: arith, opening positions, files *)
Definition run_e2e : P (list Z) :=
  a <~ pZ ;; inits <~ plist pinit_named ;; fs <~ plist pfile ;;
  pret (match read_files [] fs 0 with
        | Ok (txs, _) =>
            let '(nm, rows) := abs_rows inits txs in
            0 :: otable_names (sec_num nm) (nm_secs nm) ++ otable_names (aff_num nm) (nm_affs nm)
              ++ [obool (names_ok nm)]
              ++ Z.of_nat (length rows) :: flat_map otx rows
              ++ oapp (run_app (arith_of a) (abs_inits nm inits) rows)
        | Rej e => 1 :: orejc e
        | Panic _ => [2]
        end).

(* 31: the reader alone: header + rows -> the recognised columns of the
   header and, per row, the value found for each column (code, bytes) *)
Definition ocol (c : col) : Z :=
  match c with
  | KSec => 0 | KTd => 1 | KSd => 2 | KAct => 3 | KSh => 4 | KAps => 5 | KCom => 6 | KCur => 7
  | KFx => 8 | KCcur => 9 | KCfx => 10 | KSfl => 11 | KRatio => 12 | KAf => 13 | KMemo => 14
  | KLegacy => 15
  end.
Definition run_cells : P (list Z) :=
  f <~ pfile ;;
  let hdr := header_cols (fst f) in
  pret (Z.of_nat (length hdr) :: map (fun h => match h with Some c => ocol c | None => -1 end) hdr
          ++ Z.of_nat (length (snd f))
          :: flat_map (fun r => flat_map (fun c => match lookup c (row_values hdr r) with
                                                   | Some v => 1 :: obytes v
                                                   | None => [0]
                                                   end) all_cols) (snd f)).

Definition dispatch (l : list Z) : list Z :=
  match l with
  | mode :: r =>
      let p := match mode with
               | 30 => run_e2e
               | 31 => run_cells
               | _ => fun _ => None
               end in
      match p r with
      | Some (out, []) => 1 :: out
      | Some (_, _ :: _) => [-1]       (* trailing input *)
      | None => [-2]                   (* malformed input *)
      end
  | [] => [-3]
  end.
