(* Executable interface of the representable arithmetic (extraction group
   "dectransfer", used by the check of C01): the same case encoding and the
   same output encoding as entry "core" (0) of Exec/Codec.v, the arithmetic
   being [rep] of Proofs/DecTransfer.v (the selector of the case is ignored):
   exact arithmetic that stops with PanicOverflow at the first result that is
   not a decimal with at most 28 places and a 96-bit mantissa.  By
   C01_app_dec_equals_exact_when_representable a report of this entry without
   an operator failure IS the report of entry 0 under both arithmetics. *)
From Coq Require Import List NArith ZArith QArith Qcanon Bool.
From ACB Require Import Base.Outcome Base.QcExtra Base.Fit Base.Arith Model.Tx Model.Ledger
     Model.Sfl Model.DeltaList Model.App Proofs.DecTransfer Exec.Codec.
Import ListNotations.
Local Open Scope Z_scope.

Definition run_rep : P (list Z) :=
  a <~ pZ ;; inits <~ plist pinit ;; rows <~ plist ptx ;;
  pret (oapp (run_app rep inits rows)).

Definition dispatch (l : list Z) : list Z :=
  match l with
  | mode :: r =>
      let p := match mode with
               | 0 => run_rep
               | _ => fun _ => None
               end in
      match p r with
      | Some (out, []) => 1 :: out
      | Some (_, _ :: _) => [-1]
      | None => [-2]
      end
  | [] => [-3]
  end.
