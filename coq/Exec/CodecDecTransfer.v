(* Executable interface of the representable arithmetic (extraction group
   "dectransfer", used by the check of C01): the same case encoding and the
   same output encoding as entry "core" (0) of Exec/Codec.v, the arithmetic
   being [rep] of Proofs/DecTransfer.v (the selector of the case is ignored):
   exact arithmetic that stops with PanicOverflow at the first result that is
   not a decimal with at most 28 places and a 96-bit mantissa.  By
   C01_app_dec_equals_exact_when_representable a report of this entry without
   an operator failure IS the report of entry 0 under both arithmetics. *)
From Coq Require Import List NArith ZArith QArith Qcanon Bool.
From ACB Require Import Base.Outcome Base.QcExtra Base.Fit Base.Arith Model.Tx Model.Ledger
     Model.Sfl Model.DeltaList Model.App Proofs.DecTransfer Proofs.DecScan Exec.Codec
     Proofs.DecRowError Proofs.DecAccumulate.
Import ListNotations.
Local Open Scope Z_scope.

Definition run_rep : P (list Z) :=
  a <~ pZ ;; inits <~ plist pinit ;; rows <~ plist ptx ;;
  pret (oapp (run_app rep inits rows)).

(* entry 1 (used by the check of C02): the ledger loop of Model/DeltaList.v under
   the ROUNDED arithmetic, replayed with a probe at every Sell row: the index
   its row has in the report, the hypothesis of
   C02_dec_scan_exact_without_splits evaluated on the very arguments the scan
   gets there ([scan_inputs_small bef t sold aft st], st = the state of the
   rounded run), and the scan in EXACT arithmetic from that state.  Same case
   encoding as entry 0. *)
Fixpoint probe_loop (bef : list tx) (st : pstate) (aft : list tx) (n : nat)
  : list (nat * bool * res (option scan)) :=
  match aft with
  | [] => []
  | t :: rest =>
      let here := match t_act t with
                  | Sell sh _ _ _ _ _ =>
                      [(n, scan_inputs_small bef t sh rest st, sfl_info exact bef t sh rest st)]
                  | _ => []
                  end in
      match delta_for_tx dec bef t rest st with
      | Ok (d, inj) =>
          match set_latest dec st (t_af t) (d_post d) with
          | Ok st1 =>
              let '(dsi, bef', st2, o) := run_injected dec (t :: bef) st1 inj rest in
              match o with
              | None => here ++ probe_loop bef' st2 rest (n + 1 + length dsi)
              | Some _ => here
              end
          | _ => here
          end
      | _ => here
      end
  end.

Definition probe (init : option status) (txs : list tx) : list (nat * bool * res (option scan)) :=
  match txs with
  | [] => []
  | _ => match init_state dec init with Ok st => probe_loop [] st txs 0 | _ => [] end
  end.

Definition oprobe (x : nat * bool * res (option scan)) : list Z :=
  let '(n, b, r) := x in
  Z.of_nat n :: obool b ::
  match r with
  | Ok None => [0; 0; 1; 0; 1]
  | Ok (Some s) => 1 :: oQ (sc_acq s) ++ oQ (sc_eop s)
  | Rej e => [2; orej e; 1; 0; 1]
  | Panic _ => [3; 0; 1; 0; 1]
  end.

Definition osec_probe (inits : list (N * status)) (all : list tx) (s : N) : list Z :=
  let init := init_for inits s in
  let ps := match replace_global_splits (match init with Some _ => true | None => false end) (txs_of_sec s all) with
            | Ok l => probe init l
            | _ => []
            end in
  Z.of_N s :: Z.of_nat (length ps) :: flat_map oprobe ps.

Definition run_probe : P (list Z) :=
  a <~ pZ ;; inits <~ plist pinit ;; rows <~ plist ptx ;;
  let sorted := sort_txs rows in
  let secs := securities sorted in
  pret (Z.of_nat (length secs) :: flat_map (osec_probe inits sorted) secs).

(* entry 2 (used by the check of C01): the class of C01_rounding_error_accumulates
   evaluated on a case.  Per security: the rounded and the exact ledger are run,
   the smallest k <= 13 with [in_class k dsd dse] (and every row valid) is
   searched; output: security, 1, k (or -1), the per-row constant [cR k], the
   number n of rows both runs report, and for each of these rows the EXACT
   ledger's balances, cost base and gain.  Same case encoding as entry 0. *)
Fixpoint min_class (fuel k : nat) (dsd dse : list delta) : option nat :=
  match fuel with
  | O => None
  | S f => if in_class k dsd dse then Some k else min_class f (S k) dsd dse
  end.

Definition oerr_row (de : delta) : list Z := ostatus (d_post de) ++ oopt (d_gain de).

Definition osec_err (inits : list (N * status)) (all : list tx) (s : N) : list Z :=
  let init := init_for inits s in
  match replace_global_splits (match init with Some _ => true | None => false end) (txs_of_sec s all) with
  | Ok l =>
      let '(dsd, _) := run dec init l in
      let '(dse, _) := run exact init l in
      let n := Nat.min (length dsd) (length dse) in
      let mk := if forallb valid_tx l then min_class 14 0 dsd dse else None in
      Z.of_N s :: 1 ::
      (match mk with Some k => Z.of_nat k :: oQ (cR k) | None => [-1; 0; 1] end)
      ++ Z.of_nat n :: flat_map oerr_row (firstn n dse)
  | _ => [Z.of_N s; 0; -1; 0; 1; 0]
  end.

Definition run_errclass : P (list Z) :=
  a <~ pZ ;; inits <~ plist pinit ;; rows <~ plist ptx ;;
  let sorted := sort_txs rows in
  let secs := securities sorted in
  pret (Z.of_nat (length secs) :: flat_map (osec_err inits sorted) secs).

Definition dispatch (l : list Z) : list Z :=
  match l with
  | mode :: r =>
      let p := match mode with
               | 0 => run_rep
               | 1 => run_probe
               | 2 => run_errclass
               | _ => fun _ => None
               end in
      match p r with
      | Some (out, []) => 1 :: out
      | Some (_, _ :: _) => [-1]
      | None => [-2]
      end
  | [] => [-3]
  end.
