From Coq Require Import Extraction ExtrOcamlBasic.
From ACB Require Import Exec.CodecE2E.
Extraction Language OCaml.
Extraction "extracted/e2e.ml" dispatch.
