(* Executable interface of group "costs": cases and results are flat lists of
   integers (rationals as numerator, denominator). *)
From Coq Require Import List NArith ZArith QArith Qcanon Bool.
From ACB Require Import Base.Outcome Base.QcExtra Base.Fit Base.Arith Model.Tx Model.Costs
     Model.HashSites Spec.MaxCost.
Import ListNotations.
Local Open Scope Z_scope.

Definition P (T : Type) : Type := list Z -> option (T * list Z).
Definition pret {T} (v : T) : P T := fun l => Some (v, l).
Definition pbind {T U} (p : P T) (f : T -> P U) : P U :=
  fun l => match p l with Some (v, r) => f v r | None => None end.
Notation "x <~ p ;; k" := (pbind p (fun x => k)) (at level 100, p at next level, right associativity).

Definition pZ : P Z := fun l => match l with z :: r => Some (z, r) | [] => None end.
Definition pN : P N := z <~ pZ ;; pret (Z.to_N z).
Definition pbool : P bool := z <~ pZ ;; pret (negb (z =? 0)).
Definition pQ : P Qc := n <~ pZ ;; d <~ pZ ;; pret (Qcfrac n (Z.to_pos d)).
Definition poptQ : P (option Qc) := t <~ pbool ;; q <~ pQ ;; pret (if t then Some q else None).

Fixpoint prep {T} (n : nat) (p : P T) : P (list T) :=
  match n with
  | O => pret []
  | S k => x <~ p ;; r <~ prep k p ;; pret (x :: r)
  end.
Definition plist {T} (p : P T) : P (list T) :=
  fun l => match l with
           | z :: r => prep (Z.to_nat z) p r
           | [] => None
           end.

Definition pdelta : P cdelta :=
  sec <~ pN ;; day <~ pZ ;; af <~ pN ;; dflt <~ pbool ;; pre <~ poptQ ;; post <~ poptQ ;;
  pret {| cd_sec := sec; cd_day := day; cd_af := af; cd_dflt := dflt; cd_pre := pre; cd_post := post |}.

(* ---- output ---- *)
Definition oQ (q : Qc) : list Z := [Qnum (this q); Zpos (Qden (this q))].
Definition olist {T} (f : T -> list Z) (l : list T) : list Z := Z.of_nat (length l) :: flat_map f l.
Definition opanic (p : panic) : list Z :=
  match p with
  | PanicOverflow => [1; 0] | PanicDivZero => [2; 0]
  | PanicConstraint s => [3; Z.of_N s] | PanicAssert s => [4; Z.of_N s]
  | PanicMissing s => [5; Z.of_N s]
  end.
Definition onote (n : note) : list Z :=
  match n with
  | NoteReg d s => [0; d; Z.of_N s; 0]
  | NoteAf d s a => [1; d; Z.of_N s; Z.of_N a]
  end.
Definition otrow (r : trow) : list Z :=
  let '(d, t, cs) := r in d :: oQ t ++ flat_map oQ cs.
Definition oyrow (r : yrow) : list Z :=
  let '(y, d, t, cs) := r in y :: d :: oQ t ++ flat_map oQ cs.
Definition otables (t : ctables) : list Z :=
  olist (fun s => [Z.of_N s]) (ct_secs t) ++ olist otrow (ct_total t) ++ olist oyrow (ct_yearly t)
        ++ olist onote (ct_notes t).
Definition ores (r : res ctables) : list Z :=
  match r with
  | Ok t => 0 :: otables t
  | Rej _ => [1]
  | Panic p => 2 :: opanic p
  end.

Definition arith_of (z : Z) : arith := if z =? 0 then exact else dec.
Definition sec_order_of (z : Z) : list N -> list N :=
  if z =? 0 then nsort else if z =? 1 then (fun l => l) else (fun l => rev (nsort l)).
Definition day_order_of (z : Z) : list Z -> list Z :=
  if z =? 0 then zsort else if z =? 1 then (fun l => l) else (fun l => rev (zsort l)).

(* entry point 0: the tables of the model; arith, carry mode (0 = closing cost,
   the code as it is; 1 = the day's maximum), iteration orders (0 = sorted,
   the code as it is; 1 = insertion order; 2 = descending), deltas *)
Definition run_costs : P (list Z) :=
  a <~ pZ ;; cm <~ pZ ;; so <~ pZ ;; dor <~ pZ ;; ds <~ plist pdelta ;;
  pret (ores (costs_with (arith_of a) (if cm =? 0 then CarryClosing else CarryMax)
                         (sec_order_of so) (day_order_of dor) ds)).

(* entry point 1: the L0 tables *)
Definition run_spec : P (list Z) :=
  ds <~ plist pdelta ;;
  pret (otables {| ct_secs := spec_secs ds; ct_total := spec_table ds;
                   ct_yearly := spec_yearly ds; ct_notes := spec_notes ds |}).

(* entry point 2: years of day numbers *)
Definition run_years : P (list Z) := ds <~ plist pZ ;; pret (map year_of ds).

(* entry point 3: a decimal sum in the given order (C09 sum sites);
   arith, values *)
Definition run_sum : P (list Z) :=
  a <~ pZ ;; vs <~ plist pQ ;;
  pret (match sum_in_order (arith_of a) vs with
        | Ok q => 0 :: oQ q
        | Rej _ => [1]
        | Panic p => 2 :: opanic p
        end).

(* entry point 5: aggregate capital gains (cumulative_gains.rs): arith, order
   over the securities (0 = sorted, the code as it is; 1 = as given;
   2 = descending), per security its deltas' (year, gain) *)
Definition pyg : P (Z * Qc) := y <~ pZ ;; g <~ pQ ;; pret (y, g).
Definition psecg : P (N * list (Z * Qc)) := s <~ pN ;; l <~ plist pyg ;; pret (s, l).
Definition korder_of {V} (z : Z) : list (N * V) -> list (N * V) :=
  if z =? 0 then ksort else if z =? 1 then (fun l => l) else (fun l => rev (ksort l)).
Definition run_gains : P (list Z) :=
  a <~ pZ ;; o <~ pZ ;; m <~ plist psecg ;;
  let A := arith_of a in
  pret (match (per <- mmap (fun e => g <- sec_gains A (snd e) ;; Ok (fst e, g)) m ;;
               gains_out A (korder_of o per)) with
        | Ok (t, ys) => 0 :: oQ t ++ olist (fun x => fst x :: oQ (snd x)) ys
        | Rej _ => [1]
        | Panic p => 2 :: opanic p
        end).

(* entry point 4: one rust_decimal operation (validation of Base/Fit.v) *)
Definition run_arith : P (list Z) :=
  op <~ pZ ;; a <~ pQ ;; b <~ pQ ;;
  pret (match op with
        | 0 => match fit (a + b)%Qc with Some r => 1 :: oQ r | None => [0] end
        | 1 => match fit (a - b)%Qc with Some r => 1 :: oQ r | None => [0] end
        | 2 => match fit (a * b)%Qc with Some r => 1 :: oQ r | None => [0] end
        | 3 => if Qceqb b 0%Qc then [0] else
               match fit (a / b)%Qc with Some r => 1 :: oQ r | None => [0] end
        | _ => 1 :: oQ (round2 a)
        end).

Definition dispatch (l : list Z) : list Z :=
  match l with
  | mode :: r =>
      let p := match mode with
               | 0 => run_costs
               | 1 => run_spec
               | 2 => run_years
               | 3 => run_sum
               | 4 => run_arith
               | 5 => run_gains
               | _ => fun _ => None
               end in
      match p r with
      | Some (out, []) => 1 :: out
      | Some (_, _ :: _) => [-1]       (* trailing input *)
      | None => [-2]                   (* malformed input *)
      end
  | [] => [-3]
  end.
