From Coq Require Import Extraction ExtrOcamlBasic.
From ACB Require Import Exec.CodecQuestrade.
Extraction Language OCaml.
Extraction "extracted/questrade.ml" dispatch.
