(* Executable interface of the E*TRADE text-layer model (auxiliary group
   "etradetext", used by the check of C19).
   Case:   1 :: chars                      parse_text on the text (one integer per character)
           2 :: kind :: style :: record    render a record (see below) -> text
   Result of 1:
           0 :: 0 :: n :: n * benefit      BenefitConfirmation
             benefit = text sec; date; settle; q price; q shares; opt td; opt sd;
                       optq price; optq shares; optq fee; text note; flag; text sell_note
           0 :: 1 :: n :: n * trade        TradeConfirmation
             trade = text sec; td; sd; text td_text; text sd_text; act(0 buy,1 sell,2 roc,3 sfla,4 split);
                     q price; q shares; q comm; row; text acct
           2 :: code                       Err (code of Model/EtradeText.TErr)
           3 :: kind :: site               panic
           (-1)                            malformed case
     text = len :: chars      q = num :: den      opt x = flag :: x      optq = flag :: num :: den
   Result of 2: 0 :: text, or (-1). *)
From Coq Require Import List NArith ZArith QArith Qcanon Bool.
From ACB Require Import Base.Outcome Base.QcExtra Base.Fit Base.Arith Model.QText Model.Etrade Model.EtradeText
  Spec.EtradeLayout.
Import ListNotations.
Local Open Scope Z_scope.

Definition oQ (q : Qc) : list Z := [Qnum (this q); Zpos (Qden (this q))].
Definition otext (t : text) : list Z := Z.of_nat (length t) :: map Z.of_N t.
Definition ooptZ (o : option Z) : list Z := match o with Some z => [1; z] | None => [0; 0] end.
Definition ooptQ (o : option Qc) : list Z := match o with Some q => 1 :: oQ q | None => [0; 0; 1] end.
Definition oopttext (o : option text) : list Z := match o with Some t => 1 :: otext t | None => [0; 0] end.
Definition oact5 (a : action5) : Z :=
  match a with XBuy => 0 | XSell => 1 | XRoc => 2 | XSfla => 3 | XSplit => 4 end.

Definition opanic (p : panic) : list Z :=
  match p with
  | PanicOverflow => [1; 0] | PanicDivZero => [2; 0]
  | PanicConstraint s => [3; Z.of_N s] | PanicAssert s => [4; Z.of_N s]
  | PanicMissing s => [5; Z.of_N s]
  end.
Definition orej (r : rej) : Z := match r with RejOther n => Z.of_N n | _ => 0 end.

Definition obenefit (b : tbenefit) : list Z :=
  otext (tb_sec b) ++ [tb_date b; tb_settle b] ++ oQ (tb_price b) ++ oQ (tb_shares b)
    ++ ooptZ (tb_stc_td b) ++ ooptZ (tb_stc_sd b) ++ ooptQ (tb_stc_price b) ++ ooptQ (tb_stc_shares b)
    ++ ooptQ (tb_stc_fee b) ++ otext (tb_note b) ++ oopttext (tb_sell_note b).
Definition otrade (t : ttrade) : list Z :=
  otext (tt_sec t) ++ [tt_td t; tt_sd t] ++ otext (tt_td_text t) ++ otext (tt_sd_text t)
    ++ [oact5 (tt_act t)] ++ oQ (tt_price t) ++ oQ (tt_shares t) ++ oQ (tt_comm t)
    ++ [Z.of_nat (tt_row t)] ++ otext (tt_acct t).
Definition olist {T} (f : T -> list Z) (l : list T) : list Z := Z.of_nat (length l) :: flat_map f l.

Definition ocontent (r : res content) : list Z :=
  match r with
  | Ok (Benefits bs) => 0 :: 0 :: olist obenefit bs
  | Ok (Trades ts) => 0 :: 1 :: olist otrade ts
  | Rej e => [2; orej e]
  | Panic p => 3 :: opanic p
  end.

(* ---- decoding of records for the renderers ---- *)
Definition P (T : Type) : Type := list Z -> option (T * list Z).
Definition pret {T} (v : T) : P T := fun l => Some (v, l).
Definition pbind {T U} (p : P T) (f : T -> P U) : P U :=
  fun l => match p l with Some (v, r) => f v r | None => None end.
Notation "x <~ p ;; k" := (pbind p (fun x => k)) (at level 100, p at next level, right associativity).
Definition pZ : P Z := fun l => match l with z :: r => Some (z, r) | [] => None end.
Fixpoint prep {T} (n : nat) (p : P T) : P (list T) :=
  match n with
  | O => pret []
  | S k => x <~ p ;; r <~ prep k p ;; pret (x :: r)
  end.
Definition plist {T} (p : P T) : P (list T) := n <~ pZ ;; prep (Z.to_nat n) p.
Definition ptext : P text := l <~ plist pZ ;; pret (map Z.to_N l).
Definition popt {T} (p : P T) : P (option T) :=
  f <~ pZ ;; if f =? 0 then pret None else (v <~ p ;; pret (Some v)).
Definition pbool : P bool := z <~ pZ ;; pret (negb (z =? 0)).

Definition prsu : P rsu_lay :=
  sym <~ ptext ;; m <~ ptext ;; d <~ ptext ;; y <~ ptext ;; aw <~ ptext ;; rel <~ ptext ;; sold <~ ptext ;;
  iss <~ ptext ;; fmv <~ ptext ;; sale <~ ptext ;; fee <~ ptext ;;
  pret {| rl_sym := sym; rl_date := (m, d, y); rl_award := aw; rl_released := rel; rl_sold := sold;
          rl_issued := iss; rl_fmv := fmv; rl_sale := sale; rl_fee := fee |}.
Definition pespp : P espp_lay :=
  sym <~ ptext ;; m <~ ptext ;; d <~ ptext ;; y <~ ptext ;; pur <~ ptext ;; fmv <~ ptext ;;
  sold <~ popt ptext ;; sale <~ popt ptext ;; fee <~ popt ptext ;;
  pret {| el_sym := sym; el_date := (m, d, y); el_purchased := pur; el_fmv := fmv;
          el_sold := sold; el_sale := sale; el_fee := fee |}.
Definition pgrant : P grant_lay :=
  num <~ ptext ;; fmv <~ ptext ;; sh <~ ptext ;; sale <~ ptext ;; fee <~ ptext ;;
  pret {| gl_num := num; gl_fmv := fmv; gl_shares := sh; gl_sale := sale; gl_fee := fee |}.
Definition peso : P eso_lay :=
  sym <~ ptext ;; m <~ ptext ;; d <~ ptext ;; y <~ ptext ;; ty <~ ptext ;; sold <~ ptext ;; gs <~ plist pgrant ;;
  pret {| ol_sym := sym; ol_date := (m, d, y); ol_type := ty; ol_sold := sold; ol_grants := gs |}.
Definition prow : P pre_row_lay :=
  m1 <~ ptext ;; d1 <~ ptext ;; y1 <~ ptext ;; m2 <~ ptext ;; d2 <~ ptext ;; y2 <~ ptext ;;
  sym <~ ptext ;; act <~ ptext ;; qty <~ ptext ;; price <~ ptext ;; c <~ popt ptext ;; f <~ popt ptext ;;
  pret {| pl_td := (m1, d1, y1); pl_sd := (m2, d2, y2); pl_sym := sym; pl_act := act; pl_qty := qty;
          pl_price := price; pl_comm := c; pl_fee := f |}.
Definition ppre : P pre_lay :=
  acct <~ ptext ;; rows <~ plist prow ;; pret {| pr_acct := acct; pr_rows := rows |}.
Definition ppost : P post_lay :=
  acct <~ ptext ;; m1 <~ ptext ;; d1 <~ ptext ;; y1 <~ ptext ;; m2 <~ ptext ;; d2 <~ ptext ;; y2 <~ ptext ;;
  qty <~ ptext ;; price <~ ptext ;; ty <~ ptext ;; sym <~ ptext ;; c <~ popt ptext ;; f <~ popt ptext ;;
  pret {| po_acct := acct; po_td := (m1, d1, y1); po_sd := (m2, d2, y2); po_qty := qty; po_price := price;
          po_type := ty; po_sym := sym; po_comm := c; po_fee := f |}.

Definition run_render {T} (p : P T) (f : T -> text) (l : list Z) : list Z :=
  match p l with
  | Some (r, []) => 0 :: otext (f r)
  | _ => [-1]
  end.

Definition dispatch (l : list Z) : list Z :=
  match l with
  | 1 :: chars => ocontent (parse_text (map Z.to_N chars))
  | 2 :: 0 :: st :: rest => run_render prsu (render_rsu (negb (st =? 0))) rest
  | 2 :: 1 :: st :: rest => run_render pespp (render_espp (negb (st =? 0))) rest
  | 2 :: 2 :: st :: rest => run_render peso (render_eso (negb (st =? 0))) rest
  | 2 :: 3 :: st :: rest => run_render ppre (render_tc_pre (negb (st =? 0))) rest
  | 2 :: 4 :: st :: rest => run_render ppost (render_tc_post (negb (st =? 0))) rest
  | _ => [-1]
  end.
