(* Executable interface of the per-security components of the report
   (Model/AppRender.v), group "c08agg", used by the check of C08.
   entry 0: a core case (same integers as entry 0 of Exec/Codec.v: arith
            selector, opening positions, rows) followed by the currencies of
            the rows (as entry 0 of Exec/CodecRender.v).  Output: the report
            assembled from the COMPONENTS (own_table per security with its own
            error, render_aggregate of app_aggregate), both precision modes, in
            the format of Exec/CodecRender.v; then, as numbers, footer_gains of
            every security and app_aggregate.
   entry 1: the same for the case with the rows of one security taken out
            ([without t]), t given in front: the run C08_error_is_local
            compares with. *)
From Coq Require Import List NArith ZArith QArith Qcanon Bool.
From ACB Require Import Model.CsvFields.
From ACB Require Import Base.Outcome Base.QcExtra Base.Fit Base.Arith Model.Tx Model.Ledger
     Model.DeltaList Model.App Model.Gains Model.Render Model.AppRender Exec.Codec Exec.CodecRender
     Proofs.SortLayout Proofs.C08Agg.
Import ListNotations.
Local Open Scope Z_scope.

Section Components.
  Variable A : arith.
  Variable full : bool.
  Variable cur : tx -> bytes * bytes.

  Fixpoint own_tables (l : list (N * outcome)) : res (list (N * option stop * table)) :=
    match l with
    | [] => Ok []
    | (s, r) :: rest =>
        t <- own_table A full cur r ;; ts <- own_tables rest ;; Ok ((s, snd r, t) :: ts)
    end.

  Definition component_report (secs : list (N * outcome)) : res report :=
    match first_panic secs with
    | Some p => Panic p
    | None =>
        tabs <- own_tables secs ;;
        agg <- app_aggregate A secs ;;
        at_ <- render_aggregate A full agg ;;
        Ok {| rp_tables := tabs; rp_aggregate := at_ |}
    end.
End Components.

Definition ogains' (g : gains) : list Z :=
  oQ (g_total g) ++ Z.of_nat (length (g_years g)) :: flat_map (fun yv => fst yv :: oQ (snd yv)) (g_years g).

Definition components (A : arith) (curs : list (bytes * bytes)) (inits : list (N * status)) (rows : list tx) : list Z :=
  match run_app A inits rows with
  | Ok secs =>
      0 :: ores oreport (component_report A true (cur_of curs) secs)
        ++ ores oreport (component_report A false (cur_of curs) secs)
        ++ Z.of_nat (length secs)
        :: flat_map (fun x : N * outcome => Z.of_N (fst x) :: ores ogains' (footer_gains A (snd x))) secs
        ++ ores ogains' (app_aggregate A secs)
  | Rej e => [1; orej e]
  | Panic p => 2 :: opanic p
  end.

Definition run_components : P (list Z) :=
  a <~ pZ ;; inits <~ plist pinit ;; rows <~ plist ptx ;; curs <~ pcurs ;;
  pret (components (arith_of a) curs inits rows).

(* the rows keep the read indices (and so the currencies) they have in the
   whole input: [without] after numbering *)
Definition run_without : P (list Z) :=
  t <~ pN ;; a <~ pZ ;; inits <~ plist pinit ;; rows <~ plist ptx ;; curs <~ pcurs ;;
  pret (components (arith_of a) curs inits (without t rows)).

Definition dispatch (l : list Z) : list Z :=
  match l with
  | mode :: r =>
      let p := match mode with
               | 0 => run_components
               | 1 => run_without
               | _ => fun _ => None
               end in
      match p r with
      | Some (out, []) => 1 :: out
      | Some (_, _ :: _) => [-1]
      | None => [-2]
      end
  | [] => [-3]
  end.
