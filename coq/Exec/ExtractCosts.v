From Coq Require Import Extraction ExtrOcamlBasic.
From ACB Require Import Exec.CodecCosts.
Extraction Language OCaml.
Extraction "extracted/costs.ml" dispatch.
