From Coq Require Import Extraction ExtrOcamlBasic.
From ACB Require Import Exec.CodecCsv.
Extraction Language OCaml.
Extraction "extracted/csvm.ml" dispatch.
