(* Executable interface of the --symbol-base text layer (extraction group
   "initspec", used by the check of C16).
   Input : 0 :: number of specifications :: for each: length :: bytes.
   Output: 1 :: 0 :: number of entries :: for each entry (order of first
             appearance): length :: symbol bytes ++ shares ++ cost, a decimal
             being sign flag :: mantissa :: scale (value mantissa / 10^scale);
           1 :: 1 :: code       for a rejection (RejOther n -> n, RejParse n -> 1000 + n);
           1 :: 2               for a panic (none exists: C16_malformed_rejected_first);
           -1 / -3              malformed case encoding. *)
From Coq Require Import List NArith ZArith Bool.
From ACB Require Import Base.Outcome Model.CsvFields Model.InitSpec.
Import ListNotations.
Local Open Scope Z_scope.

Fixpoint take_bytes (n : nat) (l : list Z) : option (bytes * list Z) :=
  match n with
  | O => Some ([], l)
  | S k =>
      match l with
      | [] => None
      | x :: r =>
          match take_bytes k r with
          | Some (b, rest) => Some (Z.to_N x :: b, rest)
          | None => None
          end
      end
  end.

Fixpoint take_specs (n : nat) (l : list Z) : option (list bytes * list Z) :=
  match n with
  | O => Some ([], l)
  | S k =>
      match l with
      | [] => None
      | len :: r =>
          match take_bytes (Z.to_nat len) r with
          | Some (b, rest) =>
              match take_specs k rest with
              | Some (bs, rest') => Some (b :: bs, rest')
              | None => None
              end
          | None => None
          end
      end
  end.

Definition odec (d : dec) : list Z :=
  [if d_neg d then 1 else 0; Z.of_N (d_mant d); Z.of_nat (d_scale d)].
Definition orej (r : rej) : Z :=
  match r with
  | RejOther n => Z.of_N n
  | RejParse n => 1000 + Z.of_N n
  | _ => -1
  end.
Definition oentry (x : bytes * (dec * dec)) : list Z :=
  Z.of_nat (length (fst x)) :: map Z.of_N (fst x) ++ odec (fst (snd x)) ++ odec (snd (snd x)).

Definition run_specs (l : list Z) : list Z :=
  match l with
  | n :: r =>
      match take_specs (Z.to_nat n) r with
      | Some (specs, []) =>
          match parse_initial_status specs with
          | Ok m => 0 :: Z.of_nat (length m) :: flat_map oentry m
          | Rej e => [1; orej e]
          | Panic _ => [2]
          end
      | _ => [-1]
      end
  | [] => [-1]
  end.

Definition dispatch (l : list Z) : list Z :=
  match l with
  | 0 :: r => 1 :: run_specs r
  | _ => [-3]
  end.
