(* Extraction of the ledger under the representable arithmetic (group "dectransfer"). *)
From Coq Require Import Extraction ExtrOcamlBasic.
From ACB Require Import Exec.CodecDecTransfer.
Extraction Language OCaml.
Extraction "extracted/dectransfer.ml" dispatch.
