(* Executable interface of the E*TRADE matching model (group etrade, C19).
   Case:   1 :: arith :: benefits :: trades        (arith: 0 exact, 1 dec)
     benefits = n :: n * [sec; date; settle; price(n,d); shares(n,d);
                          opt td; opt sd; optq price; optq shares; optq fee;
                          note; opt sell_note]
       opt x  = flag :: x        optq q = flag :: num :: den
     trades   = n :: n * [sec; td; sd; act(0 buy,1 sell); price(n,d); shares(n,d); comm(n,d); tag]
   Result: 0 :: warnings :: rows :: matched      rows emitted
             rows    = n :: n * [sec; td; sd; act; shares(n,d); price(n,d); comm(n,d);
                                 memo kind; memo note; sell-note flag; sell note; read_index; acb_accepts]
             matched = n :: n * (k :: k * tag)     per benefit the tags of the trades it consumed
           1 :: n :: n * [benefit index; kind(0 no match, 1 ambiguous)]     amend errors
           2 :: code        other error (code 1902: incomplete sell-to-cover data)
           3 :: panic(kind, site)
           (-1)             malformed case *)
From Coq Require Import List NArith ZArith QArith Qcanon Bool.
From ACB Require Import Base.Outcome Base.QcExtra Base.Fit Base.Arith Model.Etrade.
Import ListNotations.
Local Open Scope Z_scope.

Definition P (T : Type) : Type := list Z -> option (T * list Z).
Definition pret {T} (v : T) : P T := fun l => Some (v, l).
Definition pbind {T U} (p : P T) (f : T -> P U) : P U :=
  fun l => match p l with Some (v, r) => f v r | None => None end.
Notation "x <~ p ;; k" := (pbind p (fun x => k)) (at level 100, p at next level, right associativity).

Definition pZ : P Z := fun l => match l with z :: r => Some (z, r) | [] => None end.
Definition pN : P N := z <~ pZ ;; pret (Z.to_N z).
Definition pbool : P bool := z <~ pZ ;; pret (negb (z =? 0)).
Definition pQ : P Qc := n <~ pZ ;; d <~ pZ ;; pret (Qcfrac n (Z.to_pos d)).
Definition popt {T} (p : P T) : P (option T) :=
  f <~ pbool ;; v <~ p ;; pret (if f then Some v else None).

Fixpoint prep {T} (n : nat) (p : P T) : P (list T) :=
  match n with
  | O => pret []
  | S k => x <~ p ;; r <~ prep k p ;; pret (x :: r)
  end.
Definition plist {T} (p : P T) : P (list T) :=
  fun l => match l with
           | z :: r => prep (Z.to_nat z) p r
           | [] => None
           end.

Definition pact : P act := z <~ pZ ;; pret (if z =? 0 then ABuy else ASell).

Definition pbenefit : P benefit :=
  sec <~ pN ;; d <~ pZ ;; s <~ pZ ;; pr <~ pQ ;; sh <~ pQ ;;
  std <~ popt pZ ;; ssd <~ popt pZ ;; spr <~ popt pQ ;; ssh <~ popt pQ ;; sfee <~ popt pQ ;;
  note <~ pN ;; sn <~ popt pN ;;
  pret {| b_sec := sec; b_date := d; b_settle := s; b_price := pr; b_shares := sh;
          b_stc_td := std; b_stc_sd := ssd; b_stc_price := spr; b_stc_shares := ssh;
          b_stc_fee := sfee; b_note := note; b_sell_note := sn |}.

Definition ptrade : P trade :=
  sec <~ pN ;; td <~ pZ ;; sd <~ pZ ;; a <~ pact ;; pr <~ pQ ;; sh <~ pQ ;; cm <~ pQ ;; tg <~ pN ;;
  pret {| t_sec := sec; t_td := td; t_sd := sd; t_act := a; t_price := pr; t_shares := sh;
          t_comm := cm; t_tag := tg |}.

Definition oQ (q : Qc) : list Z := [Qnum (this q); Zpos (Qden (this q))].
Definition obool (b : bool) : Z := if b then 1 else 0.
Definition oact (a : act) : Z := match a with ABuy => 0 | ASell => 1 end.

Definition opanic (p : panic) : list Z :=
  match p with
  | PanicOverflow => [1; 0] | PanicDivZero => [2; 0]
  | PanicConstraint s => [3; Z.of_N s] | PanicAssert s => [4; Z.of_N s]
  | PanicMissing s => [5; Z.of_N s]
  end.
Definition orej (r : rej) : Z :=
  match r with RejOther n => Z.of_N n | _ => 0 end.

Definition omemo (m : memo) : list Z :=
  match m with
  | MemoPlan n => [0; Z.of_N n; 0; 0]
  | MemoPlanSell n None => [1; Z.of_N n; 0; 0]
  | MemoPlanSell n (Some s) => [1; Z.of_N n; 1; Z.of_N s]
  | MemoManual => [2; 0; 0; 0]
  end.

Definition orow (r : row) : list Z :=
  let c := r_core r in
  [Z.of_N (c_sec c); c_td c; c_sd c; oact (c_act c)]
    ++ oQ (c_shares c) ++ oQ (c_price c) ++ oQ (c_comm c) ++ omemo (c_memo c)
    ++ [Z.of_nat (r_ri r); obool (acb_accepts c)].

Definition olist {T} (f : T -> list Z) (l : list T) : list Z :=
  Z.of_nat (length l) :: flat_map f l.

Definition oerr (e : amend_err) : list Z :=
  match e with AmendErr i k => [Z.of_nat i; match k with NoMatch => 0 | Ambiguous => 1 end] end.

Definition run_case (A : arith) (bs : list benefit) (ts : list trade) : list Z :=
  match amend_benefit_sales A bs ts with
  | Panic p => 3 :: opanic p
  | Rej r => [2; orej r]
  | Ok am =>
      match am_errs am with
      | _ :: _ => 1 :: olist oerr (am_errs am)
      | [] =>
          match txs_from_data (am_benefits am) (am_left am) with
          | Panic p => 3 :: opanic p
          | Rej r => [2; orej r]
          | Ok rows =>
              [0; Z.of_nat (am_warn am)] ++ olist orow rows
                ++ olist (fun m => olist (fun t => [Z.of_N (t_tag t)]) m) (am_matched am)
          end
      end
  end.

Definition dispatch (l : list Z) : list Z :=
  match l with
  | 1 :: a :: rest =>
      match (bs <~ plist pbenefit ;; ts <~ plist ptrade ;; pret (bs, ts)) rest with
      | Some ((bs, ts), []) => run_case (if a =? 0 then exact else dec) bs ts
      | _ => [-1]
      end
  | _ => [-1]
  end.
