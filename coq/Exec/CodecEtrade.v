(* stub: executable interface of group Etrade *)
From Coq Require Import List ZArith.
Import ListNotations.
Definition dispatch (l : list Z) : list Z := [(-9)%Z].
