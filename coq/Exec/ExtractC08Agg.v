(* Extraction of the per-security report components (ExtrOcamlBasic only). *)
From Coq Require Import Extraction ExtrOcamlBasic.
From ACB Require Import Exec.CodecC08Agg.
Extraction Language OCaml.
Extraction "extracted/c08agg.ml" dispatch.
