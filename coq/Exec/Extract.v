(* Extraction of the executable model.  Only ExtrOcamlBasic is used: Z, N,
   positive, nat and Qc stay the extracted inductive types. *)
From Coq Require Import Extraction ExtrOcamlBasic.
From ACB Require Import Exec.Codec.
Extraction Language OCaml.
Extraction "extracted/model.ml" dispatch.
