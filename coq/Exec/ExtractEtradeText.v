From Coq Require Import Extraction ExtrOcamlBasic.
From ACB Require Import Exec.CodecEtradeText.
Extraction Language OCaml.
Extraction "extracted/etradetext.ml" dispatch.
