(* C07 - Results do not depend on how the input rows are laid out. *)
From Coq Require Import List NArith ZArith QArith Qcanon Bool Permutation.
From ACB Require Import Base.Outcome Base.QcExtra Base.Arith Model.Tx Model.Ledger Model.Sfl
     Model.DeltaList Model.App Model.Header Proofs.EraseRi Proofs.SortLayout Proofs.Layout
     Proofs.HeaderProps.
Import ListNotations.

(* Rows: two inputs (rows numbered by position in the concatenated input)
   in which the rows of security s that settle on any given date appear in the
   same relative order produce the same report for s (up to read indices):
   any file partition and any admissible row permutation is an instance.
   Any arithmetic; every outcome. *)
Theorem C07_rows : forall (A : arith) init s l l',
  (forall k, filter (on_day k) (txs_of_sec s (map erase l))
             = filter (on_day k) (txs_of_sec s (map erase l'))) ->
  erase_result (sec_result_of A init (txs_of_sec s (sort_txs (number l))))
  = erase_result (sec_result_of A init (txs_of_sec s (sort_txs (number l')))).
Proof. exact Layout.layout_invariance. Qed.
Check C07_rows : forall (A : arith) init s l l',
  (forall k, filter (on_day k) (txs_of_sec s (map erase l))
             = filter (on_day k) (txs_of_sec s (map erase l'))) ->
  erase_result (sec_result_of A init (txs_of_sec s (sort_txs (number l))))
  = erase_result (sec_result_of A init (txs_of_sec s (sort_txs (number l')))).
Print Assumptions C07_rows.

(* Processing order: per security, settlement-date order, ties broken by
   position in the concatenated input. *)
Theorem C07_processing_order : forall s l,
  map erase (txs_of_sec s (sort_txs (number l))) = sort_sd (txs_of_sec s (map erase l)).
Proof. exact SortLayout.sec_rows_spec. Qed.
Check C07_processing_order : forall s l,
  map erase (txs_of_sec s (sort_txs (number l))) = sort_sd (txs_of_sec s (map erase l)).
Print Assumptions C07_processing_order.

(* Files: numbering the concatenation is numbering each file with a running
   global index. *)
Theorem C07_files : forall k f1 f2,
  number_from k (f1 ++ f2) = number_from k f1 ++ number_from (k + N.of_nat (length f1)) f2.
Proof. exact SortLayout.number_from_app. Qed.
Check C07_files : forall k f1 f2,
  number_from k (f1 ++ f2) = number_from k f1 ++ number_from (k + N.of_nat (length f1)) f2.
Print Assumptions C07_files.

(* Columns: permuting the columns (header and cells together) leaves the
   value read for every known column unchanged, provided no known column
   occurs twice among the non-blank cells (with duplicates the last non-blank
   cell wins and the statement is false; see design.d/C07.md). *)
Theorem C07_columns : forall (cell : Type) (recognise : cell -> option N) (blank : cell -> bool)
                             (trim : cell -> cell) (l1 l2 : list (option N * cell)) (name : N),
  Permutation l1 l2 -> NoDup (map fst (known cell blank trim l1)) ->
  alookup name (fold_left (put cell blank trim) l1 []) = alookup name (fold_left (put cell blank trim) l2 []).
Proof. intros cell recognise. exact (HeaderProps.value_perm cell). Qed.
Check C07_columns : forall (cell : Type) (recognise : cell -> option N) (blank : cell -> bool)
                             (trim : cell -> cell) (l1 l2 : list (option N * cell)) (name : N),
  Permutation l1 l2 -> NoDup (map fst (known cell blank trim l1)) ->
  alookup name (fold_left (put cell blank trim) l1 []) = alookup name (fold_left (put cell blank trim) l2 []).
Print Assumptions C07_columns.

(* Unrecognised columns are ignored; header spelling matters only through
   the recognised column name. *)
Theorem C07_unknown_columns : forall (cell : Type) (blank : cell -> bool) (trim : cell -> cell)
                                     (l : list (option N * cell)),
  fold_left (put cell blank trim) l []
  = fold_left (put cell blank trim)
              (filter (fun hc => match fst hc with Some _ => true | None => false end) l) [].
Proof. exact HeaderProps.unknown_columns_ignored. Qed.
Check C07_unknown_columns : forall (cell : Type) (blank : cell -> bool) (trim : cell -> cell)
                                     (l : list (option N * cell)),
  fold_left (put cell blank trim) l []
  = fold_left (put cell blank trim)
              (filter (fun hc => match fst hc with Some _ => true | None => false end) l) [].
Print Assumptions C07_unknown_columns.

Theorem C07_header_spelling : forall (cell : Type) (recognise : cell -> option N) (blank : cell -> bool)
                                     (trim : cell -> cell) (header header' row : list cell),
  map recognise header = map recognise header' ->
  row_values cell recognise blank trim header row = row_values cell recognise blank trim header' row.
Proof. exact HeaderProps.header_spelling. Qed.
Check C07_header_spelling : forall (cell : Type) (recognise : cell -> option N) (blank : cell -> bool)
                                     (trim : cell -> cell) (header header' row : list cell),
  map recognise header = map recognise header' ->
  row_values cell recognise blank trim header row = row_values cell recognise blank trim header' row.
Print Assumptions C07_header_spelling.

(* Non-vacuity: swapping two rows of different settlement dates satisfies the
   premise of C07_rows and both orders give the same two-row report. *)
Local Open Scope Z_scope.
Definition q (n : Z) (d : positive) := Qcfrac n d.
Definition mk sd a :=
  {| t_sec := 0; t_td := sd; t_sd := sd; t_act := a; t_af := default_aff; t_glob := false; t_ri := 0 |}.
Definition r1 := mk 10 (Buy (q 5 1) (q 2 1) (q 0 1) (q 1 1) (q 1 1)).
Definition r2 := mk 20 (Sell (q 2 1) (q 3 1) (q 0 1) (q 1 1) (q 1 1) None).
Example C07_nonvacuous :
  (forall k, filter (on_day k) (txs_of_sec 0 (map erase [r1; r2]))
             = filter (on_day k) (txs_of_sec 0 (map erase [r2; r1]))) /\
  length (fst (sec_result_of exact None (txs_of_sec 0 (sort_txs (number [r2; r1]))))) = 2%nat.
Proof.
  split.
  - intros k.
    replace (txs_of_sec 0 (map erase [r1; r2])) with [erase r1; erase r2] by (vm_compute; reflexivity).
    replace (txs_of_sec 0 (map erase [r2; r1])) with [erase r2; erase r1] by (vm_compute; reflexivity).
    cbn [filter]. unfold on_day.
    change (t_sd (erase r1)) with 10. change (t_sd (erase r2)) with 20.
    destruct (Z.eqb_spec 10 k) as [E1|E1]; destruct (Z.eqb_spec 20 k) as [E2|E2]; try reflexivity.
    exfalso. rewrite <- E1 in E2. discriminate E2.
  - vm_compute. reflexivity.
Qed.

(* ================================================================== *)
(* The header theorems for the CONCRETE reader: parse_table of
   Model/CsvTable.v (= parse_tx_csv after csv tokenisation: header cells
   lower-cased (ASCII) and trimmed (str::trim, Unicode White_Space on UTF-8
   bytes), looked up among the 16 column names; every record's non-blank
   trimmed cells stored under the recognised column, a later one replacing an
   earlier one; every field parsed).  The result compared is the whole
   outcome: the CsvTx list, the affiliate table, or the rejection. *)
From ACB Require Import Model.CsvFields Model.CsvTable Model.Bridge Proofs.BridgeProps.
Local Open Scope N_scope.

(* Columns.  header' / rows' have the columns of header / rows in another
   order: for every record the zipped columns (header cell, cell) are a
   permutation of each other.  Guard (as for C07_columns): no record has two
   non-blank cells under headers recognised as the same column. *)
Theorem C07_columns_concrete : forall tbl header header' rows rows' ri0,
  Permutation header header' ->
  Forall2 (fun r r' => cols_permuted header header' r r' /\ no_dup_column header r) rows rows' ->
  parse_table tbl header' rows' ri0 = parse_table tbl header rows ri0.
Proof. exact BridgeProps.columns_concrete. Qed.
Check C07_columns_concrete : forall tbl header header' rows rows' ri0,
  Permutation header header' ->
  Forall2 (fun r r' => cols_permuted header header' r r' /\ no_dup_column header r) rows rows' ->
  parse_table tbl header' rows' ri0 = parse_table tbl header rows ri0.
Print Assumptions C07_columns_concrete.

(* the instance "one permutation of the column positions applied to the
   header and to every record" *)
Theorem C07_columns_same_permutation : forall tbl header rows ri0 p,
  Permutation p (seq 0 (length header)) ->
  Forall (fun r => length r = length header /\ no_dup_column header r) rows ->
  parse_table tbl (permute p header) (map (permute p) rows) ri0 = parse_table tbl header rows ri0.
Proof. exact BridgeProps.columns_same_permutation. Qed.
Check C07_columns_same_permutation : forall tbl header rows ri0 p,
  Permutation p (seq 0 (length header)) ->
  Forall (fun r => length r = length header /\ no_dup_column header r) rows ->
  parse_table tbl (permute p header) (map (permute p) rows) ri0 = parse_table tbl header rows ri0.
Print Assumptions C07_columns_same_permutation.

(* Unrecognised columns: deleting every column whose header cell is not
   recognised changes nothing; hence two tables that agree on their
   recognised columns (unrecognised columns inserted anywhere, any content)
   are read the same.  Records as long as the header (the csv crate rejects
   other records before acb sees them: RejParse 20). *)
Theorem C07_unknown_columns_concrete : forall tbl header rows ri0,
  Forall (fun r => length r = length header) rows ->
  parse_table tbl (keep_known header header) (map (keep_known header) rows) ri0
  = parse_table tbl header rows ri0.
Proof. exact BridgeProps.unknown_columns_concrete. Qed.
Check C07_unknown_columns_concrete : forall tbl header rows ri0,
  Forall (fun r => length r = length header) rows ->
  parse_table tbl (keep_known header header) (map (keep_known header) rows) ri0
  = parse_table tbl header rows ri0.
Print Assumptions C07_unknown_columns_concrete.

Theorem C07_unknown_columns_insert : forall tbl h1 rows1 h2 rows2 ri0,
  Forall (fun r => length r = length h1) rows1 -> Forall (fun r => length r = length h2) rows2 ->
  keep_known h1 h1 = keep_known h2 h2 ->
  map (keep_known h1) rows1 = map (keep_known h2) rows2 ->
  parse_table tbl h1 rows1 ri0 = parse_table tbl h2 rows2 ri0.
Proof. exact BridgeProps.unknown_columns_insert. Qed.
Check C07_unknown_columns_insert : forall tbl h1 rows1 h2 rows2 ri0,
  Forall (fun r => length r = length h1) rows1 -> Forall (fun r => length r = length h2) rows2 ->
  keep_known h1 h1 = keep_known h2 h2 ->
  map (keep_known h1) rows1 = map (keep_known h2) rows2 ->
  parse_table tbl h1 rows1 ri0 = parse_table tbl h2 rows2 ri0.
Print Assumptions C07_unknown_columns_insert.

(* Header spelling: the header enters only through the column each cell is
   recognised as, recognise h = col_of_name (trim (lower h)); and ASCII case
   and padding with ASCII blanks do not change the normal form trim (lower h). *)
Theorem C07_header_spelling_concrete : forall tbl header header' rows ri0,
  map recognise header = map recognise header' ->
  parse_table tbl header' rows ri0 = parse_table tbl header rows ri0.
Proof. exact BridgeProps.header_spelling_concrete. Qed.
Check C07_header_spelling_concrete : forall tbl header header' rows ri0,
  map recognise header = map recognise header' ->
  parse_table tbl header' rows ri0 = parse_table tbl header rows ri0.
Print Assumptions C07_header_spelling_concrete.

Theorem C07_header_norm_case_padding : forall h h' a b,
  forallb is_ascii_ws a = true -> forallb is_ascii_ws b = true -> lower h' = lower h ->
  norm (a ++ h' ++ b) = norm h.
Proof. exact BridgeProps.header_norm_case_padding. Qed.
Check C07_header_norm_case_padding : forall h h' a b,
  forallb is_ascii_ws a = true -> forallb is_ascii_ws b = true -> lower h' = lower h ->
  norm (a ++ h' ++ b) = norm h.
Print Assumptions C07_header_norm_case_padding.

(* Non-vacuity: an 11-column table with an unrecognised column, a respelt and
   a padded header cell, foreign currency, registered affiliate: the guards
   hold, both rows parse, and the permuted / reduced tables are different
   tables. *)
Example C07_concrete_nonvacuous :
  let header := HeaderExample.header in
  let rows := [HeaderExample.row1; HeaderExample.row2] in
  let p := HeaderExample.perm in
  Permutation p (seq 0 (length header)) /\
  Forall (fun r => length r = length header /\ no_dup_column header r) rows /\
  (exists vs tbl, parse_table [] header rows 0 = Ok (vs, tbl) /\ length vs = 2%nat /\ length tbl = 1%nat) /\
  permute p header <> header /\ keep_known header header <> header /\
  map recognise header
  = [Some KSec; Some KTd; None; Some KSd; Some KAct; Some KSh; Some KAps; Some KCom; Some KCur; Some KFx; Some KAf].
Proof.
  cbv zeta. split; [|split; [|split; [|split; [|split]]]].
  - unfold HeaderExample.perm. cbn [length HeaderExample.header seq].
    apply (Permutation_trans (l' := [0; 4; 10; 2; 9; 1; 3; 8; 5; 7; 6]%nat)); [apply perm_swap|].
    apply perm_skip.
    apply (Permutation_trans (l' := [1; 4; 10; 2; 9; 3; 8; 5; 7; 6]%nat)).
    { apply Permutation_sym. apply (Permutation_middle [4; 10; 2; 9]%nat [3; 8; 5; 7; 6]%nat 1%nat). }
    apply perm_skip.
    apply (Permutation_trans (l' := [2; 4; 10; 9; 3; 8; 5; 7; 6]%nat)).
    { apply Permutation_sym. apply (Permutation_middle [4; 10]%nat [9; 3; 8; 5; 7; 6]%nat 2%nat). }
    apply perm_skip.
    apply (Permutation_trans (l' := [3; 4; 10; 9; 8; 5; 7; 6]%nat)).
    { apply Permutation_sym. apply (Permutation_middle [4; 10; 9]%nat [8; 5; 7; 6]%nat 3%nat). }
    apply perm_skip. apply perm_skip.
    apply (Permutation_trans (l' := [5; 10; 9; 8; 7; 6]%nat)).
    { apply Permutation_sym. apply (Permutation_middle [10; 9; 8]%nat [7; 6]%nat 5%nat). }
    apply perm_skip.
    apply (Permutation_trans (l' := [6; 10; 9; 8; 7]%nat)).
    { apply Permutation_sym. apply (Permutation_middle [10; 9; 8; 7]%nat []%nat 6%nat). }
    apply perm_skip.
    apply (Permutation_trans (l' := [7; 10; 9; 8]%nat)).
    { apply Permutation_sym. apply (Permutation_middle [10; 9; 8]%nat []%nat 7%nat). }
    apply perm_skip.
    apply (Permutation_trans (l' := [8; 10; 9]%nat)).
    { apply Permutation_sym. apply (Permutation_middle [10; 9]%nat []%nat 8%nat). }
    apply perm_skip. apply perm_swap.
  - constructor; [split; [reflexivity|]|constructor; [split; [reflexivity|]|constructor]];
      unfold no_dup_column; vm_compute;
      repeat (constructor; [cbn; intuition discriminate|]); constructor.
  - eexists. eexists. split; [vm_compute; reflexivity|]. split; reflexivity.
  - vm_compute. discriminate.
  - vm_compute. discriminate.
  - vm_compute. reflexivity.
Qed.

(* ================================================================== *)
(* The bridge (Model/Bridge.v): cells of the files --parse_table, load_rates,
   tx_try_from--> Tx records --abs_tx--> ledger rows.  Rows that parse satisfy
   the hypotheses the ledger theorems assume of their rows:
     valid_tx (C05 vtx; positive / non-negative quantities and rates),
     af_reg (t_af r) = regof (af_id (t_af r)) with regof default_id = false
       (C04_only_listed_rejections, C05 row_ok', C15 goodaf),
   for every row not addressed to the pseudo-affiliate "__global__" (those
   are replaced by replace_global_splits before the ledger runs).
   [tbl_wf tbl]: the affiliate table of the process at the start ([] in the
   check) holds only entries whose registered flag agrees with their id;
   [names_ok]: at most 1000 distinct affiliate ids sort before "default"
   (the numbering puts "default" at 1000 and the bookkeeping model uses N). *)
Theorem C07_valid_rows_after_parse : forall tbl fs ri0 txs tbl' inits,
  tbl_wf tbl -> read_files tbl fs ri0 = Ok (txs, tbl') ->
  let nm := naming_of inits txs in
  names_ok nm = true ->
  Forall (fun r => Tx.valid_tx r = true) (map (abs_tx nm) txs)
  /\ regof nm default_id = false
  /\ Forall (fun r => t_glob r = false -> af_reg (t_af r) = regof nm (af_id (t_af r))) (map (abs_tx nm) txs).
Proof. exact BridgeProps.valid_rows_after_parse. Qed.
Check C07_valid_rows_after_parse : forall tbl fs ri0 txs tbl' inits,
  tbl_wf tbl -> read_files tbl fs ri0 = Ok (txs, tbl') ->
  let nm := naming_of inits txs in
  names_ok nm = true ->
  Forall (fun r => Tx.valid_tx r = true) (map (abs_tx nm) txs)
  /\ regof nm default_id = false
  /\ Forall (fun r => t_glob r = false -> af_reg (t_af r) = regof nm (af_id (t_af r))) (map (abs_tx nm) txs).
Print Assumptions C07_valid_rows_after_parse.

(* The numbering of the affiliate ids preserves the order of the Rust id()
   strings (bytewise lexicographic = String's Ord), with "default" at
   default_id; the numbering of the securities is injective. *)
Theorem C07_affiliate_order : forall nm a b,
  names_ok nm = true -> In a (nm_affs nm) -> In b (nm_affs nm) ->
  (aff_num nm a < aff_num nm b <-> bltb a b = true).
Proof. exact BridgeProps.aff_num_order. Qed.
Check C07_affiliate_order : forall nm a b,
  names_ok nm = true -> In a (nm_affs nm) -> In b (nm_affs nm) ->
  (aff_num nm a < aff_num nm b <-> bltb a b = true).
Print Assumptions C07_affiliate_order.

Theorem C07_default_affiliate_number : forall nm,
  names_ok nm = true -> aff_num nm s_default_id = default_id.
Proof. exact BridgeProps.aff_num_default. Qed.
Check C07_default_affiliate_number : forall nm,
  names_ok nm = true -> aff_num nm s_default_id = default_id.
Print Assumptions C07_default_affiliate_number.

Theorem C07_security_numbering_injective : forall nm a b,
  In a (nm_secs nm) -> In b (nm_secs nm) -> sec_num nm a = sec_num nm b -> a = b.
Proof. exact BridgeProps.sec_num_inj. Qed.
Check C07_security_numbering_injective : forall nm a b,
  In a (nm_secs nm) -> In b (nm_secs nm) -> sec_num nm a = sec_num nm b -> a = b.
Print Assumptions C07_security_numbering_injective.

(* Non-vacuity: the example table is read into two ledger rows (a USD purchase
   by "spouse (R)", numbered 1001 and registered, at rate 1.31 for the shares
   and the commission; a sale by the default affiliate, 1000) and the ledger
   runs on them. *)
Example C07_bridge_nonvacuous :
  exists txs tbl',
    read_files [] [(HeaderExample.header, [HeaderExample.row1; HeaderExample.row2])] 0 = Ok (txs, tbl') /\
    names_ok (naming_of [] txs) = true /\
    map (fun r => (af_id (t_af r), af_reg (t_af r), t_ri r)) (map (abs_tx (naming_of [] txs)) txs)
    = [(1001, true, 0); (1000, false, 1)] /\
    map (fun r => match t_act r with
                  | Buy sh aps com rate crate => [this sh; this aps; this com; this rate; this crate]
                  | Sell sh aps com rate crate _ => [this sh; this aps; this com; this rate; this crate]
                  | _ => []
                  end) (map (abs_tx (naming_of [] txs)) txs)
    = [[10 # 1; 3 # 2; 0 # 1; 131 # 100; 131 # 100]; [4 # 1; 2 # 1; 99 # 100; 1 # 1; 1 # 1]]%Q /\
    is_ok (read_and_run exact [] [] [(HeaderExample.header, [HeaderExample.row1; HeaderExample.row2])]) = true.
Proof.
  eexists. eexists. split; [vm_compute; reflexivity|].
  split; [vm_compute; reflexivity|]. split; [vm_compute; reflexivity|].
  split; [vm_compute; reflexivity|]. vm_compute. reflexivity.
Qed.

(* The rows the ledger is actually run on: for every security, the rows that
   App.replace_global_splits hands to [run] (splits for all affiliates expanded
   over the holders) all satisfy valid_tx and the registered-flag hypothesis -
   provided no row other than a split names the pseudo-affiliate "__global__"
   in its affiliate cell. *)
Theorem C07_run_rows_ok : forall tbl fs ri0 txs tbl' inits s hi l,
  tbl_wf tbl -> read_files tbl fs ri0 = Ok (txs, tbl') ->
  let nm := naming_of inits txs in
  names_ok nm = true -> only_splits_global txs ->
  replace_global_splits hi (txs_of_sec s (sort_txs (map (abs_tx nm) txs))) = Ok l ->
  Forall (fun r => Tx.valid_tx r = true /\ af_reg (t_af r) = regof nm (af_id (t_af r))) l.
Proof. exact BridgeProps.run_rows_ok. Qed.
Check C07_run_rows_ok : forall tbl fs ri0 txs tbl' inits s hi l,
  tbl_wf tbl -> read_files tbl fs ri0 = Ok (txs, tbl') ->
  let nm := naming_of inits txs in
  names_ok nm = true -> only_splits_global txs ->
  replace_global_splits hi (txs_of_sec s (sort_txs (map (abs_tx nm) txs))) = Ok l ->
  Forall (fun r => Tx.valid_tx r = true /\ af_reg (t_af r) = regof nm (af_id (t_af r))) l.
Print Assumptions C07_run_rows_ok.
