(* C07 - Results do not depend on how the input rows are laid out. *)
From Coq Require Import List NArith ZArith QArith Qcanon Bool Permutation.
From ACB Require Import Base.Outcome Base.QcExtra Base.Arith Model.Tx Model.Ledger Model.Sfl
     Model.DeltaList Model.App Model.Header Proofs.EraseRi Proofs.SortLayout Proofs.Layout
     Proofs.HeaderProps.
Import ListNotations.

(* Rows: two inputs (rows numbered by position in the concatenated input)
   in which the rows of security s that settle on any given date appear in the
   same relative order produce the same report for s (up to read indices):
   any file partition and any admissible row permutation is an instance.
   Any arithmetic; every outcome. *)
Theorem C07_rows : forall (A : arith) init s l l',
  (forall k, filter (on_day k) (txs_of_sec s (map erase l))
             = filter (on_day k) (txs_of_sec s (map erase l'))) ->
  erase_result (sec_result_of A init (txs_of_sec s (sort_txs (number l))))
  = erase_result (sec_result_of A init (txs_of_sec s (sort_txs (number l')))).
Proof. exact Layout.layout_invariance. Qed.
Check C07_rows : forall (A : arith) init s l l',
  (forall k, filter (on_day k) (txs_of_sec s (map erase l))
             = filter (on_day k) (txs_of_sec s (map erase l'))) ->
  erase_result (sec_result_of A init (txs_of_sec s (sort_txs (number l))))
  = erase_result (sec_result_of A init (txs_of_sec s (sort_txs (number l')))).
Print Assumptions C07_rows.

(* Processing order: per security, settlement-date order, ties broken by
   position in the concatenated input. *)
Theorem C07_processing_order : forall s l,
  map erase (txs_of_sec s (sort_txs (number l))) = sort_sd (txs_of_sec s (map erase l)).
Proof. exact SortLayout.sec_rows_spec. Qed.
Check C07_processing_order : forall s l,
  map erase (txs_of_sec s (sort_txs (number l))) = sort_sd (txs_of_sec s (map erase l)).
Print Assumptions C07_processing_order.

(* Files: numbering the concatenation is numbering each file with a running
   global index. *)
Theorem C07_files : forall k f1 f2,
  number_from k (f1 ++ f2) = number_from k f1 ++ number_from (k + N.of_nat (length f1)) f2.
Proof. exact SortLayout.number_from_app. Qed.
Check C07_files : forall k f1 f2,
  number_from k (f1 ++ f2) = number_from k f1 ++ number_from (k + N.of_nat (length f1)) f2.
Print Assumptions C07_files.

(* Columns: permuting the columns (header and cells together) leaves the
   value read for every known column unchanged, provided no known column
   occurs twice among the non-blank cells (with duplicates the last non-blank
   cell wins and the statement is false; see design.d/C07.md). *)
Theorem C07_columns : forall (cell : Type) (recognise : cell -> option N) (blank : cell -> bool)
                             (trim : cell -> cell) (l1 l2 : list (option N * cell)) (name : N),
  Permutation l1 l2 -> NoDup (map fst (known cell blank trim l1)) ->
  alookup name (fold_left (put cell blank trim) l1 []) = alookup name (fold_left (put cell blank trim) l2 []).
Proof. intros cell recognise. exact (HeaderProps.value_perm cell). Qed.
Check C07_columns : forall (cell : Type) (recognise : cell -> option N) (blank : cell -> bool)
                             (trim : cell -> cell) (l1 l2 : list (option N * cell)) (name : N),
  Permutation l1 l2 -> NoDup (map fst (known cell blank trim l1)) ->
  alookup name (fold_left (put cell blank trim) l1 []) = alookup name (fold_left (put cell blank trim) l2 []).
Print Assumptions C07_columns.

(* Unrecognised columns are ignored; header spelling matters only through
   the recognised column name. *)
Theorem C07_unknown_columns : forall (cell : Type) (blank : cell -> bool) (trim : cell -> cell)
                                     (l : list (option N * cell)),
  fold_left (put cell blank trim) l []
  = fold_left (put cell blank trim)
              (filter (fun hc => match fst hc with Some _ => true | None => false end) l) [].
Proof. exact HeaderProps.unknown_columns_ignored. Qed.
Check C07_unknown_columns : forall (cell : Type) (blank : cell -> bool) (trim : cell -> cell)
                                     (l : list (option N * cell)),
  fold_left (put cell blank trim) l []
  = fold_left (put cell blank trim)
              (filter (fun hc => match fst hc with Some _ => true | None => false end) l) [].
Print Assumptions C07_unknown_columns.

Theorem C07_header_spelling : forall (cell : Type) (recognise : cell -> option N) (blank : cell -> bool)
                                     (trim : cell -> cell) (header header' row : list cell),
  map recognise header = map recognise header' ->
  row_values cell recognise blank trim header row = row_values cell recognise blank trim header' row.
Proof. exact HeaderProps.header_spelling. Qed.
Check C07_header_spelling : forall (cell : Type) (recognise : cell -> option N) (blank : cell -> bool)
                                     (trim : cell -> cell) (header header' row : list cell),
  map recognise header = map recognise header' ->
  row_values cell recognise blank trim header row = row_values cell recognise blank trim header' row.
Print Assumptions C07_header_spelling.

(* Non-vacuity: swapping two rows of different settlement dates satisfies the
   premise of C07_rows and both orders give the same two-row report. *)
Local Open Scope Z_scope.
Definition q (n : Z) (d : positive) := Qcfrac n d.
Definition mk sd a :=
  {| t_sec := 0; t_td := sd; t_sd := sd; t_act := a; t_af := default_aff; t_glob := false; t_ri := 0 |}.
Definition r1 := mk 10 (Buy (q 5 1) (q 2 1) (q 0 1) (q 1 1) (q 1 1)).
Definition r2 := mk 20 (Sell (q 2 1) (q 3 1) (q 0 1) (q 1 1) (q 1 1) None).
Example C07_nonvacuous :
  (forall k, filter (on_day k) (txs_of_sec 0 (map erase [r1; r2]))
             = filter (on_day k) (txs_of_sec 0 (map erase [r2; r1]))) /\
  length (fst (sec_result_of exact None (txs_of_sec 0 (sort_txs (number [r2; r1]))))) = 2%nat.
Proof.
  split.
  - intros k.
    replace (txs_of_sec 0 (map erase [r1; r2])) with [erase r1; erase r2] by (vm_compute; reflexivity).
    replace (txs_of_sec 0 (map erase [r2; r1])) with [erase r2; erase r1] by (vm_compute; reflexivity).
    cbn [filter]. unfold on_day.
    change (t_sd (erase r1)) with 10. change (t_sd (erase r2)) with 20.
    destruct (Z.eqb_spec 10 k) as [E1|E1]; destruct (Z.eqb_spec 20 k) as [E2|E2]; try reflexivity.
    exfalso. rewrite <- E1 in E2. discriminate E2.
  - vm_compute. reflexivity.
Qed.
