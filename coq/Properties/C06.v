(* C06 - Every total equals the sum of the rows it summarises; rounding is display-only. *)
From Coq Require Import List NArith ZArith QArith Qcanon Bool Permutation.
From ACB Require Import Base.Outcome Base.QcExtra Base.Arith Model.Tx Model.Gains Proofs.GainsProps.
Import ListNotations.

(* Per security (exact arithmetic): the table total is the sum of the capital
   gains of its rows, the figure of year y is the sum of the gains of the rows
   whose SETTLEMENT year is y, and the total is the sum of the yearly figures
   (over any duplicate-free list of years covering the rows). *)
Theorem C06_security_totals : forall rows g,
  security_gains exact gains0 rows = Ok g ->
  g_total g = sum_all rows /\
  (forall y, year_val y (g_years g) = sum_year y rows) /\
  (forall ys, NoDup ys -> (forall r, In r rows -> snd r <> None -> In (year_of_day (fst r)) ys) ->
              sum_years ys (fun y => year_val y (g_years g)) = g_total g).
Proof. exact GainsProps.security_totals. Qed.
Check C06_security_totals : forall rows g,
  security_gains exact gains0 rows = Ok g ->
  g_total g = sum_all rows /\
  (forall y, year_val y (g_years g) = sum_year y rows) /\
  (forall ys, NoDup ys -> (forall r, In r rows -> snd r <> None -> In (year_of_day (fst r)) ys) ->
              sum_years ys (fun y => year_val y (g_years g)) = g_total g).
Print Assumptions C06_security_totals.

(* Aggregate table: yearly figures and 'Since inception' are the sums over
   the (error-free) securities ... *)
Theorem C06_aggregate_totals : forall secs g,
  aggregate exact gains0 secs = Ok g ->
  Forall (fun s => NoDup (map fst (g_years s))) secs ->
  g_total g = sum_secs g_total secs /\
  forall y, year_val y (g_years g) = sum_secs (fun s => year_val y (g_years s)) secs.
Proof. exact GainsProps.aggregate_totals. Qed.
Check C06_aggregate_totals : forall secs g,
  aggregate exact gains0 secs = Ok g ->
  Forall (fun s => NoDup (map fst (g_years s))) secs ->
  g_total g = sum_secs g_total secs /\
  forall y, year_val y (g_years g) = sum_secs (fun s => year_val y (g_years s)) secs.
Print Assumptions C06_aggregate_totals.

(* ... whatever the iteration order of the security map. *)
Theorem C06_aggregate_order_independent : forall secs secs' g g',
  Permutation secs secs' ->
  Forall (fun s => NoDup (map fst (g_years s))) secs ->
  aggregate exact gains0 secs = Ok g -> aggregate exact gains0 secs' = Ok g' ->
  g_total g = g_total g' /\ forall y, year_val y (g_years g) = year_val y (g_years g').
Proof. exact GainsProps.aggregate_order_independent. Qed.
Check C06_aggregate_order_independent : forall secs secs' g g',
  Permutation secs secs' ->
  Forall (fun s => NoDup (map fst (g_years s))) secs ->
  aggregate exact gains0 secs = Ok g -> aggregate exact gains0 secs' = Ok g' ->
  g_total g = g_total g' /\ forall y, year_val y (g_years g) = year_val y (g_years g').
Print Assumptions C06_aggregate_order_independent.

(* The year used is the civil year of the settlement date: for every day from
   1900-01-01 to 2100-12-31 (complete sweep of the 73 414 days by vm_compute,
   lifted with all_days_spec) year_of_day d is the year whose 1 January is the
   latest one not after d. *)
Theorem C06_year_is_civil_year : forall d,
  (jan1 1900 <= d < jan1 2101)%Z ->
  (jan1 (year_of_day d) <= d < jan1 (year_of_day d + 1))%Z.
Proof. exact GainsProps.year_of_day_civil. Qed.
Check C06_year_is_civil_year : forall d,
  (jan1 1900 <= d < jan1 2101)%Z ->
  (jan1 (year_of_day d) <= d < jan1 (year_of_day d + 1))%Z.
Print Assumptions C06_year_is_civil_year.

Local Open Scope Z_scope.
Definition q (n : Z) (d : positive) := Qcfrac n d.
(* 2019-12-31 = day 737424, 2020-01-01 = day 737425 *)
Example C06_nonvacuous :
  year_of_day 737424 = 2019 /\ year_of_day 737425 = 2020 /\
  match security_gains exact gains0 [(737424, Some (q 5 2)); (737425, Some (q (-1) 3)); (737425, None)] with
  | Ok g => Qnum (this (g_total g)) = 13 /\ Qden (this (g_total g)) = 6%positive
  | _ => False
  end.
Proof. vm_compute. repeat split. Qed.

(* ======================================================================
   The report renderer (portfolio/render.rs) inside the model:
   Model/Render.v, proofs in Proofs/RenderProps.v.
   ====================================================================== *)
From ACB Require Import Model.CsvFields Proofs.CsvDigits.
From ACB Require Import Model.Ledger Model.DeltaList Model.App Model.Render Proofs.RenderProps.
Local Close Scope Z_scope.
Local Open Scope Qc_scope.

(* Rounding is display-only.  With default options the table is the
   cell-wise cent rounding of the table printed by --print-full-values, for
   every arithmetic, delta list, gains record and currency assignment (also
   when rendering panics: then both do): no rounded figure is an input of any
   other figure. *)
Theorem C06_display_only : forall (A : arith) cur ds g,
  render_table A false cur ds g = map_res round_table (render_table A true cur ds g).
Proof. exact RenderProps.render_table_display_only. Qed.
Check C06_display_only : forall (A : arith) cur ds g,
  render_table A false cur ds g = map_res round_table (render_table A true cur ds g).
Print Assumptions C06_display_only.

(* the same for the whole report of a run (ledger -> gains -> every security
   table and the aggregate table) *)
Theorem C06_display_only_report : forall (A : arith) cur inits rows,
  render_app A false cur inits rows = map_res round_report (render_app A true cur inits rows).
Proof. exact RenderProps.render_app_display_only. Qed.
Check C06_display_only_report : forall (A : arith) cur inits rows,
  render_app A false cur inits rows = map_res round_report (render_app A true cur inits rows).
Print Assumptions C06_display_only_report.

(* round_cents q is the integer nearest to 100 q, the one away from zero on a
   tie; it is the only such integer *)
Theorem C06_round_cents_spec : forall (q : Qc),
  ((0 <= q -> QcZ (round_cents q) - Qcfrac 1 2 <= q * QcZ 100 /\ q * QcZ 100 < QcZ (round_cents q) + Qcfrac 1 2) /\
   (q < 0 -> QcZ (round_cents q) - Qcfrac 1 2 < q * QcZ 100 /\ q * QcZ 100 <= QcZ (round_cents q) + Qcfrac 1 2)) /\
  (forall n : Z,
     (0 <= q -> QcZ n - Qcfrac 1 2 <= q * QcZ 100 /\ q * QcZ 100 < QcZ n + Qcfrac 1 2) ->
     (q < 0 -> QcZ n - Qcfrac 1 2 < q * QcZ 100 /\ q * QcZ 100 <= QcZ n + Qcfrac 1 2) ->
     n = round_cents q).
Proof. intros q. split; [exact (RenderProps.round_cents_spec q) | exact (RenderProps.round_cents_unique q)]. Qed.
Check C06_round_cents_spec : forall (q : Qc),
  ((0 <= q -> QcZ (round_cents q) - Qcfrac 1 2 <= q * QcZ 100 /\ q * QcZ 100 < QcZ (round_cents q) + Qcfrac 1 2) /\
   (q < 0 -> QcZ (round_cents q) - Qcfrac 1 2 < q * QcZ 100 /\ q * QcZ 100 <= QcZ (round_cents q) + Qcfrac 1 2)) /\
  (forall n : Z,
     (0 <= q -> QcZ n - Qcfrac 1 2 <= q * QcZ 100 /\ q * QcZ 100 < QcZ n + Qcfrac 1 2) ->
     (q < 0 -> QcZ n - Qcfrac 1 2 < q * QcZ 100 /\ q * QcZ 100 <= QcZ n + Qcfrac 1 2) ->
     n = round_cents q).
Print Assumptions C06_round_cents_spec.

(* the text of a cent figure (dollar_precision_str): optional '-', at least
   one whole digit, '.', exactly two decimals; the digits spell |round_cents q|
   and the '-' is there iff the ROUNDED figure is negative *)
Theorem C06_dollar_text_shape : forall (q : Qc),
  exists (w : list N) (d1 d2 : N),
    dollar2_text q = (if (round_cents q <? 0)%Z then [45%N] else []) ++ chars w ++ [46%N] ++ chars [d1; d2]
    /\ Forall (fun d => (d < 10)%N) w /\ w <> [] /\ (d1 < 10)%N /\ (d2 < 10)%N
    /\ Z.of_N (val w * 100 + d1 * 10 + d2) = Z.abs (round_cents q).
Proof. exact RenderProps.dollar2_text_shape. Qed.
Check C06_dollar_text_shape : forall (q : Qc),
  exists (w : list N) (d1 d2 : N),
    dollar2_text q = (if (round_cents q <? 0)%Z then [45%N] else []) ++ chars w ++ [46%N] ++ chars [d1; d2]
    /\ Forall (fun d => (d < 10)%N) w /\ w <> [] /\ (d1 < 10)%N /\ (d2 < 10)%N
    /\ Z.of_N (val w * 100 + d1 * 10 + d2) = Z.abs (round_cents q).
Print Assumptions C06_dollar_text_shape.

(* reading the text back (the model of Decimal::from_str used for C11) gives
   the rounded figure: same sign, same value round_cents q / 100 *)
Theorem C06_dollar_text_roundtrip : forall (q : Qc),
  (Z.abs (round_cents q) <= Z.of_N CsvFields.max_mant)%Z ->
  exists d', parse_dec (dollar2_text q) = Ok d' /\ dec_same (cents_dec q) d' /\
             d_scale (cents_dec q) = 2%nat /\
             (if d_neg (cents_dec q) then - Z.of_N (d_mant (cents_dec q)) else Z.of_N (d_mant (cents_dec q)))%Z
             = round_cents q.
Proof.
  intros q H. destruct (RenderProps.dollar2_text_parses q H) as [d' [H1 H2]].
  destruct (RenderProps.cents_dec_value q) as [H3 H4]. exists d'. auto.
Qed.
Check C06_dollar_text_roundtrip : forall (q : Qc),
  (Z.abs (round_cents q) <= Z.of_N CsvFields.max_mant)%Z ->
  exists d', parse_dec (dollar2_text q) = Ok d' /\ dec_same (cents_dec q) d' /\
             d_scale (cents_dec q) = 2%nat /\
             (if d_neg (cents_dec q) then - Z.of_N (d_mant (cents_dec q)) else Z.of_N (d_mant (cents_dec q)))%Z
             = round_cents q.
Print Assumptions C06_dollar_text_roundtrip.

(* The footer: "Total" first, then the years of the gains record, ascending,
   each once; the figures are the record's total and yearly totals. *)
Theorem C06_footer_is_gains : forall (A : arith) full cur ds g tb,
  render_table A full cur ds g = Ok tb ->
  tb_labels tb = LTotal :: map LYear (years_sorted g) /\
  Sorted.StronglySorted Z.lt (years_sorted g) /\
  (forall y, In y (years_sorted g) <-> In y (map fst (g_years g))) /\
  exists total yv,
    tb_values tb = total :: yv /\
    plus_minus A full (g_total g) false = Ok total /\
    Forall2 (fun y p => plus_minus A full (year_val y (g_years g)) false = Ok p) (years_sorted g) yv.
Proof. exact RenderProps.footer_is_gains. Qed.
Check C06_footer_is_gains : forall (A : arith) full cur ds g tb,
  render_table A full cur ds g = Ok tb ->
  tb_labels tb = LTotal :: map LYear (years_sorted g) /\
  Sorted.StronglySorted Z.lt (years_sorted g) /\
  (forall y, In y (years_sorted g) <-> In y (map fst (g_years g))) /\
  exists total yv,
    tb_values tb = total :: yv /\
    plus_minus A full (g_total g) false = Ok total /\
    Forall2 (fun y p => plus_minus A full (year_val y (g_years g)) false = Ok p) (years_sorted g) yv.
Print Assumptions C06_footer_is_gains.

(* with C06_security_totals: in exact arithmetic the footer of a security
   table shows the sum of the capital gains of its rows and, per settlement
   year, the sum of the gains of the rows settled in that year *)
Theorem C06_footer_shows_row_sums : forall full cur ds g tb,
  security_gains exact gains0 (gain_rows ds) = Ok g ->
  render_table exact full cur ds g = Ok tb ->
  tb_labels tb = LTotal :: map LYear (years_sorted g) /\
  tb_values tb = pm_value full (sum_all (gain_rows ds)) false
                   :: map (fun y => pm_value full (sum_year y (gain_rows ds)) false) (years_sorted g).
Proof. exact RenderProps.footer_shows_row_sums. Qed.
Check C06_footer_shows_row_sums : forall full cur ds g tb,
  security_gains exact gains0 (gain_rows ds) = Ok g ->
  render_table exact full cur ds g = Ok tb ->
  tb_labels tb = LTotal :: map LYear (years_sorted g) /\
  tb_values tb = pm_value full (sum_all (gain_rows ds)) false
                   :: map (fun y => pm_value full (sum_year y (gain_rows ds)) false) (years_sorted g).
Print Assumptions C06_footer_shows_row_sums.

(* the aggregate table: the years ascending, then "Since inception" *)
Theorem C06_aggregate_is_gains : forall (A : arith) full g rows,
  render_aggregate A full g = Ok rows ->
  exists total yv,
    rows = combine (map LYear (years_sorted g)) yv ++ [(LSince, total)] /\
    length yv = length (years_sorted g) /\
    plus_minus A full (g_total g) false = Ok total /\
    Forall2 (fun y p => plus_minus A full (year_val y (g_years g)) false = Ok p) (years_sorted g) yv.
Proof. exact RenderProps.aggregate_is_gains. Qed.
Check C06_aggregate_is_gains : forall (A : arith) full g rows,
  render_aggregate A full g = Ok rows ->
  exists total yv,
    rows = combine (map LYear (years_sorted g)) yv ++ [(LSince, total)] /\
    length yv = length (years_sorted g) /\
    plus_minus A full (g_total g) false = Ok total /\
    Forall2 (fun y p => plus_minus A full (year_val y (g_years g)) false = Ok p) (years_sorted g) yv.
Print Assumptions C06_aggregate_is_gains.

(* Rendering is total (C05 flavour).  For ANY arithmetic that reports a
   division by zero only for a zero divisor, rendering never divides by zero
   (every division is guarded by a positive divisor; split ratios are
   PosDecimal) and never returns an error; in exact arithmetic it always
   produces a table; under rust_decimal rounding it can stop only by overflow
   or because the factor post/pre of a split rounds to zero
   (PosDecimal::try_from(..).unwrap() in SplitRatio::pre_to_post_factor). *)
Theorem C06_render_total : forall full cur ds g,
  forallb split_ok ds = true ->
  (forall A, arith_ok (fun p => p <> PanicDivZero) A ->
     render_table A full cur ds g <> Panic PanicDivZero /\
     (forall e, render_table A full cur ds g <> Rej e) /\
     render_aggregate A full g <> Panic PanicDivZero) /\
  (exists tb, render_table exact full cur ds g = Ok tb) /\
  match render_table Arith.dec full cur ds g with
  | Ok _ => True
  | Rej _ => False
  | Panic p => p = PanicOverflow \/ p = PanicConstraint Site.pos_div
  end.
Proof.
  intros full cur ds g H. split; [|split].
  - intros A HA. exact (RenderProps.render_no_div_by_zero A full cur ds g HA H).
  - exact (RenderProps.render_exact_total full cur ds g H).
  - exact (RenderProps.render_dec_panics full cur ds g H).
Qed.
Check C06_render_total : forall full cur ds g,
  forallb split_ok ds = true ->
  (forall A, arith_ok (fun p => p <> PanicDivZero) A ->
     render_table A full cur ds g <> Panic PanicDivZero /\
     (forall e, render_table A full cur ds g <> Rej e) /\
     render_aggregate A full g <> Panic PanicDivZero) /\
  (exists tb, render_table exact full cur ds g = Ok tb) /\
  match render_table Arith.dec full cur ds g with
  | Ok _ => True
  | Rej _ => False
  | Panic p => p = PanicOverflow \/ p = PanicConstraint Site.pos_div
  end.
Print Assumptions C06_render_total.

(* Row i of the table is a function of delta i only (row_of); the table has
   one row per delta, each of 16 cells; the two legend flags are the only
   state carried across rows. *)
Theorem C06_row_local : forall (A : arith) full cur ds g tb,
  render_table A full cur ds g = Ok tb ->
  length (tb_rows tb) = length ds /\
  (forall i d, nth_error ds i = Some d ->
     exists row, nth_error (tb_rows tb) i = Some row /\ row_of A full cur d = Ok row /\ length row = 16%nat) /\
  tb_note_sfl tb = existsb row_sfl ds /\ tb_note_over tb = existsb row_over ds.
Proof.
  intros A full cur ds g tb H. split; [exact (RenderProps.render_table_length A full cur ds g tb H)|].
  split.
  - intros i d Hi. destruct (RenderProps.render_table_row_local A full cur ds g tb i d H Hi) as [row [H1 H2]].
    exists row. split; [exact H1|]. split; [exact H2|]. exact (RenderProps.row_has_16_cells A full cur d row H2).
  - exact (proj2 (RenderProps.render_table_rows A full cur ds g tb H)).
Qed.
Check C06_row_local : forall (A : arith) full cur ds g tb,
  render_table A full cur ds g = Ok tb ->
  length (tb_rows tb) = length ds /\
  (forall i d, nth_error ds i = Some d ->
     exists row, nth_error (tb_rows tb) i = Some row /\ row_of A full cur d = Ok row /\ length row = 16%nat) /\
  tb_note_sfl tb = existsb row_sfl ds /\ tb_note_over tb = existsb row_over ds.
Print Assumptions C06_row_local.

(* "New ACB/Share" of row i: the post-status cost base of delta i divided by
   the post-status share balance OF THE ROW'S AFFILIATE (s_sh, not the
   all-affiliate balance s_all) when that balance is positive; "-" otherwise
   and for a registered affiliate. *)
Theorem C06_new_acb_per_share : forall (A : arith) full cur ds g tb i d,
  render_table A full cur ds g = Ok tb -> nth_error ds i = Some d ->
  exists row, nth_error (tb_rows tb) i = Some row /\
    match s_acb (d_post d) with
    | Some acb =>
        if Qcltb 0 (s_sh (d_post d)) then
          exists v, a_div A acb (s_sh (d_post d)) = Ok v /\ cell_at row col_new_acb_share = dollar_str full v
        else cell_at row col_new_acb_share = CDash
    | None => cell_at row col_new_acb_share = CDash
    end.
Proof.
  intros A full cur ds g tb i d H Hi.
  destruct (RenderProps.render_table_row_local A full cur ds g tb i d H Hi) as [row [H1 H2]].
  exists row. split; [exact H1 | exact (RenderProps.new_acb_per_share_cell A full cur d row H2)].
Qed.
Check C06_new_acb_per_share : forall (A : arith) full cur ds g tb i d,
  render_table A full cur ds g = Ok tb -> nth_error ds i = Some d ->
  exists row, nth_error (tb_rows tb) i = Some row /\
    match s_acb (d_post d) with
    | Some acb =>
        if Qcltb 0 (s_sh (d_post d)) then
          exists v, a_div A acb (s_sh (d_post d)) = Ok v /\ cell_at row col_new_acb_share = dollar_str full v
        else cell_at row col_new_acb_share = CDash
    | None => cell_at row col_new_acb_share = CDash
    end.
Print Assumptions C06_new_acb_per_share.

(* "ACB" (cost of the shares sold) of row i: the PRE-status cost base of
   delta i per share of the affiliate times the shares sold; "-" when the
   affiliate's pre-balance is not positive, for a registered affiliate, and
   on every row that is not a sale. *)
Theorem C06_acb_of_sale : forall (A : arith) full cur ds g tb i d,
  render_table A full cur ds g = Ok tb -> nth_error ds i = Some d ->
  exists row, nth_error (tb_rows tb) i = Some row /\
    match t_act (d_tx d) with
    | Sell sh _ _ _ _ _ =>
        match s_acb (d_pre d) with
        | Some acb =>
            if Qcltb 0 (s_sh (d_pre d)) then
              exists per v, a_div A acb (s_sh (d_pre d)) = Ok per /\ a_mul A per sh = Ok v /\
                            cell_at row col_acb = dollar_str full v
            else cell_at row col_acb = CDash
        | None => cell_at row col_acb = CDash
        end
    | _ => cell_at row col_acb = CDash
    end.
Proof.
  intros A full cur ds g tb i d H Hi.
  destruct (RenderProps.render_table_row_local A full cur ds g tb i d H Hi) as [row [H1 H2]].
  exists row. split; [exact H1 | exact (RenderProps.acb_of_sale_cell A full cur d row H2)].
Qed.
Check C06_acb_of_sale : forall (A : arith) full cur ds g tb i d,
  render_table A full cur ds g = Ok tb -> nth_error ds i = Some d ->
  exists row, nth_error (tb_rows tb) i = Some row /\
    match t_act (d_tx d) with
    | Sell sh _ _ _ _ _ =>
        match s_acb (d_pre d) with
        | Some acb =>
            if Qcltb 0 (s_sh (d_pre d)) then
              exists per v, a_div A acb (s_sh (d_pre d)) = Ok per /\ a_mul A per sh = Ok v /\
                            cell_at row col_acb = dollar_str full v
            else cell_at row col_acb = CDash
        | None => cell_at row col_acb = CDash
        end
    | _ => cell_at row col_acb = CDash
    end.
Print Assumptions C06_acb_of_sale.

(* "Cap. Gain" of row i: the capital gain of delta i; the suffix
   " * (SfL ...)" is present iff THIS delta is a sale with a superficial loss,
   and shows this delta's denied amount and ratio, "!" iff the user's value
   was forced, "[1]" iff potentially over-applied.  No row shows a suffix of
   another row. *)
Theorem C06_gain_suffix : forall (A : arith) full cur ds g tb i d,
  render_table A full cur ds g = Ok tb -> nth_error ds i = Some d ->
  exists row, nth_error (tb_rows tb) i = Some row /\
    match t_act (d_tx d), d_gain d with
    | Sell _ _ _ _ _ _, Some gn =>
        exists p, plus_minus A full gn false = Ok p /\
          cell_at row col_gain =
          CGain p (if row_sfl d then
                     match d_sfl d with
                     | Some i =>
                         match plus_minus A full (sf_amount i) false with
                         | Ok a => Some {| sn_amt := a; sn_forced := row_forced d; sn_num := sf_num i;
                                           sn_den := sf_den i; sn_over := sf_over i |}
                         | _ => None
                         end
                     | None => None
                     end
                   else None)
    | _, _ => cell_at row col_gain = CDash
    end.
Proof.
  intros A full cur ds g tb i d H Hi.
  destruct (RenderProps.render_table_row_local A full cur ds g tb i d H Hi) as [row [H1 H2]].
  exists row. split; [exact H1 | exact (RenderProps.gain_cell_spec A full cur d row H2)].
Qed.
Check C06_gain_suffix : forall (A : arith) full cur ds g tb i d,
  render_table A full cur ds g = Ok tb -> nth_error ds i = Some d ->
  exists row, nth_error (tb_rows tb) i = Some row /\
    match t_act (d_tx d), d_gain d with
    | Sell _ _ _ _ _ _, Some gn =>
        exists p, plus_minus A full gn false = Ok p /\
          cell_at row col_gain =
          CGain p (if row_sfl d then
                     match d_sfl d with
                     | Some i =>
                         match plus_minus A full (sf_amount i) false with
                         | Ok a => Some {| sn_amt := a; sn_forced := row_forced d; sn_num := sf_num i;
                                           sn_den := sf_den i; sn_over := sf_over i |}
                         | _ => None
                         end
                     | None => None
                     end
                   else None)
    | _, _ => cell_at row col_gain = CDash
    end.
Print Assumptions C06_gain_suffix.

(* Legends.  For the deltas of a ledger run (any arithmetic): the notes
   contain the SfL legend iff some row of the table shows the suffix, and the
   [1] legend iff some row shows the [1]. *)
Theorem C06_notes_iff_suffix : forall (A : arith) full cur init txs ds o g tb,
  run A init txs = (ds, o) -> render_table A full cur ds g = Ok tb ->
  tb_note_sfl tb = existsb (fun row => cell_has_suffix (cell_at row col_gain)) (tb_rows tb) /\
  tb_note_over tb = existsb (fun row => cell_has_over (cell_at row col_gain)) (tb_rows tb).
Proof. exact RenderProps.ledger_notes_iff_suffix. Qed.
Check C06_notes_iff_suffix : forall (A : arith) full cur init txs ds o g tb,
  run A init txs = (ds, o) -> render_table A full cur ds g = Ok tb ->
  tb_note_sfl tb = existsb (fun row => cell_has_suffix (cell_at row col_gain)) (tb_rows tb) /\
  tb_note_over tb = existsb (fun row => cell_has_over (cell_at row col_gain)) (tb_rows tb).
Print Assumptions C06_notes_iff_suffix.

(* for ANY delta list: a row showing the suffix / the [1] implies the legend *)
Theorem C06_suffix_implies_note : forall (A : arith) full cur ds g tb i row,
  render_table A full cur ds g = Ok tb -> nth_error (tb_rows tb) i = Some row ->
  (cell_has_suffix (cell_at row col_gain) = true -> tb_note_sfl tb = true) /\
  (cell_has_over (cell_at row col_gain) = true -> tb_note_over tb = true).
Proof. exact RenderProps.suffix_implies_note. Qed.
Check C06_suffix_implies_note : forall (A : arith) full cur ds g tb i row,
  render_table A full cur ds g = Ok tb -> nth_error (tb_rows tb) i = Some row ->
  (cell_has_suffix (cell_at row col_gain) = true -> tb_note_sfl tb = true) /\
  (cell_has_over (cell_at row col_gain) = true -> tb_note_over tb = true).
Print Assumptions C06_suffix_implies_note.

(* What the code does with a negative figure that rounds to zero: the sign is
   taken from the unrounded value, so -0.001 is shown as "-$0.00". *)
Theorem C06_negative_zero_shown :
  plus_minus exact false (Qcfrac (-1) 1000) false
  = Ok {| pm_sign := SNeg; pm_amt := AText [48%N; 46%N; 48%N; 48%N] |}.
Proof. exact RenderProps.negative_zero_is_shown. Qed.
Check C06_negative_zero_shown :
  plus_minus exact false (Qcfrac (-1) 1000) false
  = Ok {| pm_sign := SNeg; pm_amt := AText [48%N; 46%N; 48%N; 48%N] |}.
Print Assumptions C06_negative_zero_shown.

(* ---- non-vacuity ---- *)
Definition ex_cur (t : tx) : bytes * bytes := (s_cad, s_cad).
Definition ex_aff : aff := {| af_id := 1001; af_reg := false; af_dflt := false |}.
(* a sale of 3 of the affiliate's 4 shares (100 over all affiliates), cost
   base 10, with a forced, over-applied superficial loss of -3.004 (2/3) and
   a remaining capital gain of -0.005 *)
Definition ex_sale : delta :=
  {| d_tx := {| t_sec := 0; t_td := 737424%Z; t_sd := 737425%Z;
                t_act := Sell (QcZ 3) (Qcfrac 2005 1000) 0 1 1 (Some (Qcfrac (-3004) 1000, true));
                t_af := ex_aff; t_glob := false; t_ri := 0 |};
     d_pre := {| s_sh := QcZ 4; s_all := QcZ 100; s_acb := Some (QcZ 10) |};
     d_post := {| s_sh := QcZ 1; s_all := QcZ 97; s_acb := Some (Qcfrac 25 10) |};
     d_gain := Some (Qcfrac (-5) 1000);
     d_sfl := Some {| sf_amount := Qcfrac (-3004) 1000; sf_num := QcZ 2; sf_den := QcZ 3; sf_over := true |} |}.
(* a later sale without a superficial loss *)
Definition ex_sale2 : delta :=
  {| d_tx := {| t_sec := 0; t_td := 737500%Z; t_sd := 737502%Z;
                t_act := Sell (QcZ 1) (QcZ 3) 0 1 1 None;
                t_af := ex_aff; t_glob := false; t_ri := 1 |};
     d_pre := {| s_sh := QcZ 1; s_all := QcZ 97; s_acb := Some (Qcfrac 25 10) |};
     d_post := {| s_sh := 0; s_all := QcZ 96; s_acb := Some 0 |};
     d_gain := Some (Qcfrac 5 10);
     d_sfl := None |}.
Definition ex_gains : gains :=
  {| g_total := Qcfrac 495 1000; g_years := [(2020%Z, Qcfrac 495 1000)] |}.
Definition txt (c : cell) : option bytes :=
  match c with CDollar (AText s) => Some s | CGain p _ => match pm_amt p with AText s => Some s | _ => None end
          | _ => None end.

Example C06_render_nonvacuous :
  forallb split_ok [ex_sale; ex_sale2] = true /\
  match render_table exact false ex_cur [ex_sale; ex_sale2] ex_gains with
  | Ok tb =>
      match tb_rows tb with
      | [r1; r2] =>
          (* 2.5 / 1, not 2.5 / 97 *)
          txt (cell_at r1 col_new_acb_share) = Some [50; 46; 53; 48]%N /\
          (* 10 / 4 * 3 from the pre-status *)
          txt (cell_at r1 col_acb) = Some [55; 46; 53; 48]%N /\
          (* -0.005 rounds away from zero: "-$0.01", with suffix "SfL -$3.00!; 2/3[1]" *)
          txt (cell_at r1 col_gain) = Some [48; 46; 48; 49]%N /\
          option_map sn_forced (cell_suffix (cell_at r1 col_gain)) = Some true /\
          option_map sn_over (cell_suffix (cell_at r1 col_gain)) = Some true /\
          option_map (fun n => pm_amt (sn_amt n)) (cell_suffix (cell_at r1 col_gain))
            = Some (AText [51; 46; 48; 48]%N) /\
          (* the later sale carries no suffix; no balance left: "-" *)
          cell_suffix (cell_at r2 col_gain) = None /\
          cell_at r2 col_new_acb_share = CDash /\
          txt (cell_at r2 col_acb) = Some [50; 46; 53; 48]%N
      | _ => False
      end /\
      tb_note_sfl tb = true /\ tb_note_over tb = true /\
      tb_labels tb = [LTotal; LYear 2020%Z] /\
      map pm_sign (tb_values tb) = [SNone; SNone] /\
      map pm_amt (tb_values tb) = [AText [48; 46; 53; 48]%N; AText [48; 46; 53; 48]%N]
  | _ => False
  end.
Proof. vm_compute. repeat split. Qed.

Example C06_round_cents_nonvacuous :
  round_cents (Qcfrac 1005 1000) = 101%Z /\ round_cents (Qcfrac (-1005) 1000) = (-101)%Z /\
  round_cents (Qcfrac 1004999 1000000) = 100%Z /\ round_cents (Qcfrac (-1) 1000) = 0%Z /\
  dollar2_text (Qcfrac (-1) 1000) = [48; 46; 48; 48]%N /\
  dollar2_text (Qcfrac 123456785 1000) = [49; 50; 51; 52; 53; 54; 46; 55; 57]%N /\
  dollar2_text (Qcfrac (-5) 1000) = [45; 48; 46; 48; 49]%N.
Proof. vm_compute. repeat split. Qed.

(* rendering under rust_decimal rounding does stop by overflow, and a split
   whose factor rounds to zero stops it too *)
Definition ex_split : delta :=
  {| d_tx := {| t_sec := 0; t_td := 737424%Z; t_sd := 737425%Z;
                t_act := Split (Qcfrac 1 100000000000000) (QcZ 1000000000000000) false;
                t_af := ex_aff; t_glob := false; t_ri := 0 |};
     d_pre := {| s_sh := 0; s_all := 0; s_acb := Some 0 |};
     d_post := {| s_sh := 0; s_all := 0; s_acb := Some 0 |};
     d_gain := None; d_sfl := None |}.
Example C06_render_total_nonvacuous :
  forallb split_ok [ex_split] = true /\
  render_table Arith.dec false ex_cur [ex_split] gains0 = Panic (PanicConstraint Site.pos_div) /\
  is_ok (render_table exact false ex_cur [ex_split] gains0) = true /\
  render_aggregate Arith.dec false {| g_total := QcZ (-79228162514264337593543950335); g_years := [] |}
    = Ok [(LSince, {| pm_sign := SNeg;
                      pm_amt := AText [55; 57; 50; 50; 56; 49; 54; 50; 53; 49; 52; 50; 54; 52; 51; 51; 55; 53; 57;
                                       51; 53; 52; 51; 57; 53; 48; 51; 51; 53; 46; 48; 48]%N |})].
Proof. vm_compute. repeat split. Qed.

(* The whole report (ledger output -> gains -> tables), exact arithmetic: in
   every security table the Total is the sum of the capital gains of ITS rows
   and each year's figure the sum of the gains of its rows settled in that
   year (the years shown: ascending, exactly the settlement years with a
   gain); a rejected security shows its partial rows with "Total $0". *)
Theorem C06_report_totals : forall full cur secs rep,
  render_results exact full cur secs = Ok rep ->
  Forall2 (fun (x : sec_result) (y : N * option stop * table) =>
             fst (fst y) = fst x /\
             let rows := gain_rows (fst (snd x)) in
             match snd (snd x) with
             | None =>
                 exists g, security_gains exact gains0 rows = Ok g /\
                   tb_labels (snd y) = LTotal :: map LYear (years_sorted g) /\
                   tb_values (snd y) = pm_value full (sum_all rows) false
                                         :: map (fun yr => pm_value full (sum_year yr rows) false) (years_sorted g)
             | Some _ =>
                 tb_labels (snd y) = [LTotal] /\ tb_values (snd y) = [pm_value full 0 false]
             end)
          secs (rp_tables rep).
Proof. exact RenderProps.report_totals_are_row_sums. Qed.
Check C06_report_totals : forall full cur secs rep,
  render_results exact full cur secs = Ok rep ->
  Forall2 (fun (x : sec_result) (y : N * option stop * table) =>
             fst (fst y) = fst x /\
             let rows := gain_rows (fst (snd x)) in
             match snd (snd x) with
             | None =>
                 exists g, security_gains exact gains0 rows = Ok g /\
                   tb_labels (snd y) = LTotal :: map LYear (years_sorted g) /\
                   tb_values (snd y) = pm_value full (sum_all rows) false
                                         :: map (fun yr => pm_value full (sum_year yr rows) false) (years_sorted g)
             | Some _ =>
                 tb_labels (snd y) = [LTotal] /\ tb_values (snd y) = [pm_value full 0 false]
             end)
          secs (rp_tables rep).
Print Assumptions C06_report_totals.

(* the pipeline on two rows: buy 2 at 10.005 on 2019-12-30, sell 1 at 12 settling
   2020-01-02: gain 1.995 in 2020, shown "$2.00" (tie away from zero) *)
Definition ex_tx (day : Z) (ri : N) (a : action) : tx :=
  {| t_sec := 0; t_td := day; t_sd := day; t_act := a; t_af := default_aff; t_glob := false; t_ri := ri |}.
Example C06_report_nonvacuous :
  match render_app exact false ex_cur []
          [ex_tx 737423 0 (Buy (QcZ 2) (Qcfrac 10005 1000) 0 1 1);
           ex_tx 737426 1 (Sell (QcZ 1) (QcZ 12) 0 1 1 None)] with
  | Ok rep =>
      match rp_tables rep with
      | [(s, None, tb)] =>
          s = 0%N /\ length (tb_rows tb) = 2%nat /\ tb_labels tb = [LTotal; LYear 2020%Z] /\
          map pm_amt (tb_values tb) = [AText [50; 46; 48; 48]%N; AText [50; 46; 48; 48]%N] /\
          map (fun r => txt (cell_at r col_new_acb_share)) (tb_rows tb)
            = [Some [49; 48; 46; 48; 49]%N; Some [49; 48; 46; 48; 49]%N]
      | _ => False
      end /\
      map (fun x => (fst x, pm_amt (snd x))) (rp_aggregate rep)
        = [(LYear 2020%Z, AText [50; 46; 48; 48]%N); (LSince, AText [50; 46; 48; 48]%N)]
  | _ => False
  end.
Proof. vm_compute. repeat split. Qed.

(* Every dollar figure of the default view (rows and footer) is a cent text,
   i.e. dollar2_text of some figure: byte-for-byte determined by values. *)
Theorem C06_default_view_is_cent_text : forall (A : arith) cur ds g tb,
  render_table A false cur ds g = Ok tb ->
  Forall (Forall (fun c => forallb is_text (cell_amounts c) = true)) (tb_rows tb) /\
  Forall (fun p => is_text (pm_amt p) = true) (tb_values tb).
Proof. exact RenderProps.default_view_is_cent_text. Qed.
Check C06_default_view_is_cent_text : forall (A : arith) cur ds g tb,
  render_table A false cur ds g = Ok tb ->
  Forall (Forall (fun c => forallb is_text (cell_amounts c) = true)) (tb_rows tb) /\
  Forall (fun p => is_text (pm_amt p) = true) (tb_values tb).
Print Assumptions C06_default_view_is_cent_text.

(* ==== The output layer: the writers copy the render model ====================
   (Model/Output.v, Proofs/OutputProps.v; hypotheses about File::create and the
   csv crate: design.d/C04-output.md) *)
From ACB Require Import Model.Output Proofs.OutputProps.
Local Open Scope N_scope.

(* The records the csv writer is handed for a table are accepted exactly when
   the table is rectangular (rows and non-empty footer as long as the header;
   a table without columns has no notes or errors), and then they are
   table_records t = header :: rows ++ [footer if non-empty] ++ one record per
   note ++ one record per error ("[!] " ++ e), nothing else *)
Theorem C06_csv_records_iff_rectangular : forall t,
  (rectangular t -> csv_table_records t = Ok (table_records t)) /\
  (forall recs, csv_table_records t = Ok recs -> rectangular t /\ recs = table_records t).
Proof. intros t. split; [exact (OutputProps.csv_table_records_rect t)|]. intros recs H. split; [exact (OutputProps.csv_table_records_rect_inv t recs H) | exact (OutputProps.csv_table_records_ok t recs H)]. Qed.
Check C06_csv_records_iff_rectangular : forall t,
  (rectangular t -> csv_table_records t = Ok (table_records t)) /\
  (forall recs, csv_table_records t = Ok recs -> rectangular t /\ recs = table_records t).
Print Assumptions C06_csv_records_iff_rectangular.

(* --csv-output-dir, started on any directory d0, after a successful run: the
   file of every security (whose name is not that of a report file) holds
   exactly table_records of ITS table - every cell of the render model,
   verbatim, in order, and nothing else; so do aggregate-gains.csv and the
   costs files for theirs; every file the run writes holds table_records of
   one of the run's tables; every other name is as it was in d0 *)
Theorem C06_csv_dir_is_render_model : forall d0 r,
  NoDup (map fst (ar_secs r)) -> ro_fail (csv_dir_output d0 r) = None ->
  let d := ro_state (csv_dir_output d0 r) in
  (forall s t, In (s, t) (ar_secs r) -> ~ In (file_name OTransactions s) (tail_files r) ->
     blookup (file_name OTransactions s) d = Some (EFile (table_records t))) /\
  (forall c, In c (tail_calls r) -> NoDup (tail_files r) ->
     blookup (call_file c) d = Some (EFile (table_records (call_table c)))) /\
  (forall fn, ~ In fn (write_log r) -> blookup fn d = blookup fn d0) /\
  (forall fn, In fn (write_log r) -> exists c, In c (calls r) /\ call_file c = fn /\
     blookup fn d = Some (EFile (table_records (call_table c)))).
Proof. exact OutputProps.csv_dir_is_render_model. Qed.
Check C06_csv_dir_is_render_model : forall d0 r,
  NoDup (map fst (ar_secs r)) -> ro_fail (csv_dir_output d0 r) = None ->
  let d := ro_state (csv_dir_output d0 r) in
  (forall s t, In (s, t) (ar_secs r) -> ~ In (file_name OTransactions s) (tail_files r) ->
     blookup (file_name OTransactions s) d = Some (EFile (table_records t))) /\
  (forall c, In c (tail_calls r) -> NoDup (tail_files r) ->
     blookup (call_file c) d = Some (EFile (table_records (call_table c)))) /\
  (forall fn, ~ In fn (write_log r) -> blookup fn d = blookup fn d0) /\
  (forall fn, In fn (write_log r) -> exists c, In c (calls r) /\ call_file c = fn /\
     blookup fn d = Some (EFile (table_records (call_table c)))).
Print Assumptions C06_csv_dir_is_render_model.

(* Text mode: the sections are those of the tables in the order of the prints
   (calls r: securities sorted by name, aggregate, costs), each with the title
   of its table, the table's errors, its cells as the block handed to `tabled`
   (upper-cased header, rows, blank record and footer) and its notes; standard
   output is their lines followed by the closing list *)
Theorem C06_text_sections_are_render_model : forall r,
  ro_fail (text_output r) = None ->
  ro_state (text_output r) = map section_of (calls r) /\
  ro_errsecs (text_output r) = errsecs_of r /\
  text_stdout r = flat_map section_items (map section_of (calls r)) ++ closing_items (errsecs_of r).
Proof. exact OutputProps.text_sections_are_render_model. Qed.
Check C06_text_sections_are_render_model : forall r,
  ro_fail (text_output r) = None ->
  ro_state (text_output r) = map section_of (calls r) /\
  ro_errsecs (text_output r) = errsecs_of r /\
  text_stdout r = flat_map section_items (map section_of (calls r)) ++ closing_items (errsecs_of r).
Print Assumptions C06_text_sections_are_render_model.

(* The files written are a function of the input alone.  Writing result r into
   a directory dA that already holds files (of an earlier, larger run) leaves,
   under every file name r writes, exactly what r writes into an empty
   directory - no record of the earlier content survives - and leaves every
   other file as it was *)
Theorem C06_output_function_of_input : forall dA r,
  ro_fail (csv_dir_output dA r) = None ->
  ro_fail (csv_dir_output [] r) = None /\
  (forall fn, In fn (write_log r) ->
     blookup fn (ro_state (csv_dir_output dA r)) = blookup fn (ro_state (csv_dir_output [] r))) /\
  (forall fn, ~ In fn (write_log r) ->
     blookup fn (ro_state (csv_dir_output dA r)) = blookup fn dA /\
     blookup fn (ro_state (csv_dir_output [] r)) = None).
Proof. exact OutputProps.csv_dir_overwrite. Qed.
Check C06_output_function_of_input : forall dA r,
  ro_fail (csv_dir_output dA r) = None ->
  ro_fail (csv_dir_output [] r) = None /\
  (forall fn, In fn (write_log r) ->
     blookup fn (ro_state (csv_dir_output dA r)) = blookup fn (ro_state (csv_dir_output [] r))) /\
  (forall fn, ~ In fn (write_log r) ->
     blookup fn (ro_state (csv_dir_output dA r)) = blookup fn dA /\
     blookup fn (ro_state (csv_dir_output [] r)) = None).
Print Assumptions C06_output_function_of_input.

(* ---- non-vacuity: a run of three tables, then a run of one of them with
   fewer rows into the same directory ---- *)
Definition o_tab (rows : list record) (footer notes errs : list text) : rtable :=
  {| rt_header := [lit [72]; lit [73]]; rt_rows := rows; rt_footer := footer; rt_notes := notes; rt_errors := errs |}.
Definition o_aa : bytes := [65; 65].
Definition o_bb : bytes := [66; 66].
Definition o_big : app_result :=
  {| ar_secs := [(o_bb, o_tab [[lit [49]; lit [50]]; [lit [51]; lit [52]]] [[]; lit [36; 57]] [] []);
                 (o_aa, o_tab [[lit [53]; lit [54]]; [lit [55]; lit [56]]; [lit [57]; lit [48]]] [] [lit [110]] [])];
     ar_agg := o_tab [[lit [51]; lit [52]]; [lit [53]; lit [54]]] [] [] []; ar_costs := None |}.
Definition o_small : app_result :=
  {| ar_secs := [(o_aa, o_tab [[lit [53]; lit [54]]] [] [] [])];
     ar_agg := o_tab [[lit [51]; lit [52]]] [] [] []; ar_costs := None |}.
Example C06_output_nonvacuous :
  let dA := ro_state (csv_dir_output [] o_big) in
  ro_fail (csv_dir_output [] o_big) = None /\ ro_fail (csv_dir_output dA o_small) = None /\
  map fst dA = [o_aa ++ s_dot_csv; o_bb ++ s_dot_csv; s_aggregate_gains_csv] /\
  blookup (o_aa ++ s_dot_csv) dA
    = Some (EFile [[lit [72]; lit [73]]; [lit [53]; lit [54]]; [lit [55]; lit [56]]; [lit [57]; lit [48]]; [lit [110]; []]]) /\
  blookup (o_aa ++ s_dot_csv) (ro_state (csv_dir_output dA o_small))
    = Some (EFile [[lit [72]; lit [73]]; [lit [53]; lit [54]]]) /\
  blookup (o_bb ++ s_dot_csv) (ro_state (csv_dir_output dA o_small)) = blookup (o_bb ++ s_dot_csv) dA /\
  blookup s_aggregate_gains_csv (ro_state (csv_dir_output dA o_small))
    = Some (EFile [[lit [72]; lit [73]]; [lit [51]; lit [52]]]) /\
  rectangular (o_tab [[lit [49]; lit [50]]] [[]; lit [36; 57]] [] []) /\
  csv_table_records (o_tab [[lit [49]]] [] [] []) = Rej (RejOther site_csv_unequal) /\
  map sc_title (ro_state (text_output o_big))
    = [[PLit s_transactions_for; PLit o_aa]; [PLit s_transactions_for; PLit o_bb]; lit s_aggregate_gains] /\
  ro_fail (text_output o_big) = None.
Proof.
  cbv zeta. repeat split; try (vm_compute; reflexivity).
  - repeat constructor.
  - right. reflexivity.
  - left. discriminate.
Qed.
