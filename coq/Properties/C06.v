(* C06 - Every total equals the sum of the rows it summarises; rounding is display-only. *)
From Coq Require Import List NArith ZArith QArith Qcanon Bool Permutation.
From ACB Require Import Base.Outcome Base.QcExtra Base.Arith Model.Tx Model.Gains Proofs.GainsProps.
Import ListNotations.

(* Per security (exact arithmetic): the table total is the sum of the capital
   gains of its rows, the figure of year y is the sum of the gains of the rows
   whose SETTLEMENT year is y, and the total is the sum of the yearly figures
   (over any duplicate-free list of years covering the rows). *)
Theorem C06_security_totals : forall rows g,
  security_gains exact gains0 rows = Ok g ->
  g_total g = sum_all rows /\
  (forall y, year_val y (g_years g) = sum_year y rows) /\
  (forall ys, NoDup ys -> (forall r, In r rows -> snd r <> None -> In (year_of_day (fst r)) ys) ->
              sum_years ys (fun y => year_val y (g_years g)) = g_total g).
Proof. exact GainsProps.security_totals. Qed.
Check C06_security_totals : forall rows g,
  security_gains exact gains0 rows = Ok g ->
  g_total g = sum_all rows /\
  (forall y, year_val y (g_years g) = sum_year y rows) /\
  (forall ys, NoDup ys -> (forall r, In r rows -> snd r <> None -> In (year_of_day (fst r)) ys) ->
              sum_years ys (fun y => year_val y (g_years g)) = g_total g).
Print Assumptions C06_security_totals.

(* Aggregate table: yearly figures and 'Since inception' are the sums over
   the (error-free) securities ... *)
Theorem C06_aggregate_totals : forall secs g,
  aggregate exact gains0 secs = Ok g ->
  Forall (fun s => NoDup (map fst (g_years s))) secs ->
  g_total g = sum_secs g_total secs /\
  forall y, year_val y (g_years g) = sum_secs (fun s => year_val y (g_years s)) secs.
Proof. exact GainsProps.aggregate_totals. Qed.
Check C06_aggregate_totals : forall secs g,
  aggregate exact gains0 secs = Ok g ->
  Forall (fun s => NoDup (map fst (g_years s))) secs ->
  g_total g = sum_secs g_total secs /\
  forall y, year_val y (g_years g) = sum_secs (fun s => year_val y (g_years s)) secs.
Print Assumptions C06_aggregate_totals.

(* ... whatever the iteration order of the security map. *)
Theorem C06_aggregate_order_independent : forall secs secs' g g',
  Permutation secs secs' ->
  Forall (fun s => NoDup (map fst (g_years s))) secs ->
  aggregate exact gains0 secs = Ok g -> aggregate exact gains0 secs' = Ok g' ->
  g_total g = g_total g' /\ forall y, year_val y (g_years g) = year_val y (g_years g').
Proof. exact GainsProps.aggregate_order_independent. Qed.
Check C06_aggregate_order_independent : forall secs secs' g g',
  Permutation secs secs' ->
  Forall (fun s => NoDup (map fst (g_years s))) secs ->
  aggregate exact gains0 secs = Ok g -> aggregate exact gains0 secs' = Ok g' ->
  g_total g = g_total g' /\ forall y, year_val y (g_years g) = year_val y (g_years g').
Print Assumptions C06_aggregate_order_independent.

(* The year used is the civil year of the settlement date: for every day from
   1900-01-01 to 2100-12-31 (complete sweep of the 73 414 days by vm_compute,
   lifted with all_days_spec) year_of_day d is the year whose 1 January is the
   latest one not after d. *)
Theorem C06_year_is_civil_year : forall d,
  (jan1 1900 <= d < jan1 2101)%Z ->
  (jan1 (year_of_day d) <= d < jan1 (year_of_day d + 1))%Z.
Proof. exact GainsProps.year_of_day_civil. Qed.
Check C06_year_is_civil_year : forall d,
  (jan1 1900 <= d < jan1 2101)%Z ->
  (jan1 (year_of_day d) <= d < jan1 (year_of_day d + 1))%Z.
Print Assumptions C06_year_is_civil_year.

Local Open Scope Z_scope.
Definition q (n : Z) (d : positive) := Qcfrac n d.
(* 2019-12-31 = day 737424, 2020-01-01 = day 737425 *)
Example C06_nonvacuous :
  year_of_day 737424 = 2019 /\ year_of_day 737425 = 2020 /\
  match security_gains exact gains0 [(737424, Some (q 5 2)); (737425, Some (q (-1) 3)); (737425, None)] with
  | Ok g => Qnum (this (g_total g)) = 13 /\ Qden (this (g_total g)) = 6%positive
  | _ => False
  end.
Proof. vm_compute. repeat split. Qed.
