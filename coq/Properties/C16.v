(* C16 - --symbol-base equals an opening purchase. *)
From Coq Require Import List NArith ZArith QArith Qcanon Bool Lia.
From ACB Require Import Base.Outcome Base.QcExtra Base.Arith Model.Tx Model.Ledger Model.Sfl
     Model.DeltaList Model.App Proofs.C16Opening.
Import ListNotations.

(* For every history (t :: txs) of a security, every share count n >= 0 and
   cost c >= 0: running with the opening position (n, c) yields exactly the
   rows (and outcome) of running without it after prepending a purchase by the
   default affiliate of n shares for the total cost c, dated more than 30 days
   before every sale.  Exact arithmetic; every figure of every row, generated
   adjustments and rejections included. *)
Theorem C16_opening_equals_purchase : forall sec day n c t txs,
  (0 <= n)%Qc -> (0 <= c)%Qc ->
  Forall (fun x => is_sell (t_act x) = true -> far (opening_buy sec day n c) x) (t :: txs) ->
  exists d,
    d_tx d = opening_buy sec day n c /\ d_post d = opening_status n c /\
    run exact None (opening_buy sec day n c :: t :: txs)
    = (d :: fst (run exact (Some (opening_status n c)) (t :: txs)),
       snd (run exact (Some (opening_status n c)) (t :: txs))).
Proof. exact C16Opening.opening_equals_purchase. Qed.
Check C16_opening_equals_purchase : forall sec day n c t txs,
  (0 <= n)%Qc -> (0 <= c)%Qc ->
  Forall (fun x => is_sell (t_act x) = true -> far (opening_buy sec day n c) x) (t :: txs) ->
  exists d,
    d_tx d = opening_buy sec day n c /\ d_post d = opening_status n c /\
    run exact None (opening_buy sec day n c :: t :: txs)
    = (d :: fst (run exact (Some (opening_status n c)) (t :: txs)),
       snd (run exact (Some (opening_status n c)) (t :: txs))).
Print Assumptions C16_opening_equals_purchase.

(* A row further than 30 days before every sale never influences the run
   (any arithmetic): the reason the date of the opening purchase is
   irrelevant beyond "more than 30 days before". *)
Theorem C16_far_row_irrelevant : forall (A : arith) old bef st aft,
  Forall (fun t => is_sell (t_act t) = true -> far old t) aft ->
  run_loop A (bef ++ [old]) st aft = run_loop A bef st aft.
Proof. exact C16Opening.run_loop_far. Qed.
Check C16_far_row_irrelevant : forall (A : arith) old bef st aft,
  Forall (fun t => is_sell (t_act t) = true -> far old t) aft ->
  run_loop A (bef ++ [old]) st aft = run_loop A bef st aft.
Print Assumptions C16_far_row_irrelevant.

(* Opening positions of other securities have no effect (any arithmetic). *)
Theorem C16_other_securities_irrelevant : forall (A : arith) inits1 inits2 rows,
  (forall s, In s (securities (sort_txs rows)) -> init_for inits1 s = init_for inits2 s) ->
  run_app A inits1 rows = run_app A inits2 rows.
Proof. exact C16Opening.other_openings_irrelevant. Qed.
Check C16_other_securities_irrelevant : forall (A : arith) inits1 inits2 rows,
  (forall s, In s (securities (sort_txs rows)) -> init_for inits1 s = init_for inits2 s) ->
  run_app A inits1 rows = run_app A inits2 rows.
Print Assumptions C16_other_securities_irrelevant.

Local Open Scope Z_scope.
Definition q (n : Z) (d : positive) := Qcfrac n d.
Definition mk sd a :=
  {| t_sec := 0; t_td := sd; t_sd := sd; t_act := a; t_af := default_aff; t_glob := false; t_ri := 0 |}.
Definition ex_txs : list tx := [
  mk 100 (Sell (q 4 1) (q 5 1) (q 0 1) (q 1 1) (q 1 1) None);
  mk 110 (Buy (q 3 1) (q 6 1) (q 0 1) (q 1 1) (q 1 1))
].
Example C16_nonvacuous :
  Forall (fun x => is_sell (t_act x) = true -> far (opening_buy 0 60 (q 10 1) (q 100 1)) x) ex_txs /\
  length (fst (run exact (Some (opening_status (q 10 1) (q 100 1))) ex_txs)) = 3%nat /\
  length (fst (run exact None (opening_buy 0 60 (q 10 1) (q 100 1) :: ex_txs))) = 4%nat.
Proof.
  split.
  - repeat constructor; unfold far; cbn; intros; try discriminate; unfold Model.Sfl.window_days; lia.
  - vm_compute. split; reflexivity.
Qed.

(* ==== At the level of the application (Model/App.v run_app: sort all rows,
   split by security, expand global splits over the holders, run the ledger
   per security with its opening position) ================================== *)
From ACB Require Import Proofs.EraseRi Proofs.SortLayout Proofs.Layout Proofs.C16App.

(* For every input [rows], opening positions [inits] giving security sec the
   position (n, c), and [inits'] = the same without sec: running the
   application on (purchase :: rows) with inits' yields the result of running
   it on rows with inits, where the report of sec gets the purchase's row d in
   front (d_post d = the opening position) and nothing else changes - every
   figure of every row of every security, generated adjustments, rejections.
   The purchase is a Buy by the default affiliate of n shares at total cost c
   dated more than 30 days before every row of sec.  Rows of sec may belong to
   other affiliates only and may contain global splits: the default affiliate
   is among the holders a global split is expanded over in both runs.  (When
   the near-split sanity check of replace_global_splits rejects the security,
   it does so in both runs and no row is shown in either.)  Exact arithmetic;
   the rows carry their read indices (the purchase has index 0; see
   C16_app_opening_numbered for indices assigned by position). *)
Theorem C16_app_opening_equals_purchase : forall sec day n c inits inits' rows,
  (0 <= n)%Qc -> (0 <= c)%Qc ->
  init_for inits sec = Some (opening_status n c) -> init_for inits' sec = None ->
  (forall s, s <> sec -> init_for inits' s = init_for inits s) ->
  In sec (securities (sort_txs rows)) ->
  Forall (fun x => t_sec x = sec -> far (opening_buy sec day n c) x) rows ->
  exists d res,
    d_tx d = opening_buy sec day n c /\ d_post d = opening_status n c /\
    run_app exact inits rows = Ok res /\
    run_app exact inits' (opening_buy sec day n c :: rows)
    = Ok (map (with_purchase sec d (global_split_check [] (txs_of_sec sec (sort_txs rows)))) res).
Proof. exact C16App.app_opening_equals_purchase. Qed.
Check C16_app_opening_equals_purchase : forall sec day n c inits inits' rows,
  (0 <= n)%Qc -> (0 <= c)%Qc ->
  init_for inits sec = Some (opening_status n c) -> init_for inits' sec = None ->
  (forall s, s <> sec -> init_for inits' s = init_for inits s) ->
  In sec (securities (sort_txs rows)) ->
  Forall (fun x => t_sec x = sec -> far (opening_buy sec day n c) x) rows ->
  exists d res,
    d_tx d = opening_buy sec day n c /\ d_post d = opening_status n c /\
    run_app exact inits rows = Ok res /\
    run_app exact inits' (opening_buy sec day n c :: rows)
    = Ok (map (with_purchase sec d (global_split_check [] (txs_of_sec sec (sort_txs rows)))) res).
Print Assumptions C16_app_opening_equals_purchase.

(* One security, global splits included, at the level of its sorted rows l
   (the statement the application theorem is built on). *)
Theorem C16_security_opening_equals_purchase : forall sec day n c l,
  (0 <= n)%Qc -> (0 <= c)%Qc -> l <> [] ->
  Forall (fun x => is_sell (t_act x) = true -> far (opening_buy sec day n c) x) l ->
  exists d, d_tx d = opening_buy sec day n c /\ d_post d = opening_status n c /\
    sec_result_of exact None (opening_buy sec day n c :: l)
    = if global_split_check [] l
      then (d :: fst (sec_result_of exact (Some (opening_status n c)) l),
            snd (sec_result_of exact (Some (opening_status n c)) l))
      else sec_result_of exact (Some (opening_status n c)) l.
Proof. exact C16App.sec_result_opening. Qed.
Check C16_security_opening_equals_purchase : forall sec day n c l,
  (0 <= n)%Qc -> (0 <= c)%Qc -> l <> [] ->
  Forall (fun x => is_sell (t_act x) = true -> far (opening_buy sec day n c) x) l ->
  exists d, d_tx d = opening_buy sec day n c /\ d_post d = opening_status n c /\
    sec_result_of exact None (opening_buy sec day n c :: l)
    = if global_split_check [] l
      then (d :: fst (sec_result_of exact (Some (opening_status n c)) l),
            snd (sec_result_of exact (Some (opening_status n c)) l))
      else sec_result_of exact (Some (opening_status n c)) l.
Print Assumptions C16_security_opening_equals_purchase.

(* Read indices assigned by position in the input ([number]): in the second
   run the purchase is row 0 and every other row's index is one higher; the
   report of the security is the same up to the read indices ([erase_result]),
   with the purchase's row in front. *)
Theorem C16_app_opening_numbered : forall sec day n c rows,
  (0 <= n)%Qc -> (0 <= c)%Qc ->
  Exists (fun x => t_sec x = sec) rows ->
  Forall (fun x => t_sec x = sec -> far (opening_buy sec day n c) x) rows ->
  let X := txs_of_sec sec (sort_txs (number rows)) in
  let R := erase_result (sec_result_of exact (Some (opening_status n c)) X) in
  exists d, d_tx d = opening_buy sec day n c /\ d_post d = opening_status n c /\
    erase_result (sec_result_of exact None
                    (txs_of_sec sec (sort_txs (number (opening_buy sec day n c :: rows)))))
    = if global_split_check [] X then (d :: fst R, snd R) else R.
Proof. exact C16App.sec_opening_numbered. Qed.
Check C16_app_opening_numbered : forall sec day n c rows,
  (0 <= n)%Qc -> (0 <= c)%Qc ->
  Exists (fun x => t_sec x = sec) rows ->
  Forall (fun x => t_sec x = sec -> far (opening_buy sec day n c) x) rows ->
  let X := txs_of_sec sec (sort_txs (number rows)) in
  let R := erase_result (sec_result_of exact (Some (opening_status n c)) X) in
  exists d, d_tx d = opening_buy sec day n c /\ d_post d = opening_status n c /\
    erase_result (sec_result_of exact None
                    (txs_of_sec sec (sort_txs (number (opening_buy sec day n c :: rows)))))
    = if global_split_check [] X then (d :: fst R, snd R) else R.
Print Assumptions C16_app_opening_numbered.

(* Non-vacuity: security 0 has rows of a second affiliate only and a global
   2-for-1 split; security 1 is a bystander.  With the opening position the
   split is expanded over {default, spouse} (5 rows: purchase, the two
   splits, the sale at a superficial loss and its generated adjustment); with
   the purchase the report has 6 rows, the last five being the same. *)
Definition spouse16 := {| af_id := 1003; af_reg := false; af_dflt := false |}.
Definition mka sec af glob sd ri a :=
  {| t_sec := sec; t_td := sd; t_sd := sd; t_act := a; t_af := af; t_glob := glob; t_ri := ri |}.
Definition ex_app_rows : list tx := [
  mka 0 spouse16 false 100 1 (Buy (q 20 1) (q 10 1) (q 0 1) (q 1 1) (q 1 1));
  mka 1 default_aff false 105 2 (Buy (q 5 1) (q 2 1) (q 0 1) (q 1 1) (q 1 1));
  mka 0 default_aff true 120 3 (Split (q 2 1) (q 1 1) false);
  mka 0 spouse16 false 130 4 (Sell (q 10 1) (q 4 1) (q 0 1) (q 1 1) (q 1 1) None)].
Definition ex_inits : list (N * status) := [(0%N, opening_status (q 10 1) (q 100 1))].
Example C16_app_nonvacuous :
  In 0%N (securities (sort_txs ex_app_rows)) /\
  Forall (fun x => t_sec x = 0%N -> far (opening_buy 0 60 (q 10 1) (q 100 1)) x) ex_app_rows /\
  global_split_check [] (txs_of_sec 0 (sort_txs ex_app_rows)) = true /\
  match run_app exact ex_inits ex_app_rows, run_app exact [] (opening_buy 0 60 (q 10 1) (q 100 1) :: ex_app_rows) with
  | Ok [(0%N, (dsA, None)); (1%N, rA)], Ok [(0%N, (d :: dsB, None)); (1%N, rB)] =>
      dsA = dsB /\ rA = rB /\ length dsA = 5%nat /\
      map (fun x => af_id (t_af (d_tx x))) dsA = [1003; 1000; 1003; 1003; 1003]%N /\
      map (fun x => s_sh (d_post x)) dsA = [q 20 1; q 20 1; q 40 1; q 30 1; q 30 1]
  | _, _ => False
  end.
Proof.
  split; [vm_compute; auto|]. split.
  - repeat constructor; unfold far; cbn; intros; try discriminate; unfold Model.Sfl.window_days; lia.
  - vm_compute. repeat split.
Qed.

(* ================================================================== *)
(* The text layer: "--symbol-base SYM:shares:acb"
   (src/app/input_parse.rs parse_initial_status, src/cmd.rs; model in
   Model/InitSpec.v, Model/InitSpecCli.v; text = lists of bytes). *)
From ACB Require Import Model.CsvFields Model.Bridge Model.InitSpec Model.InitSpecCli
     Proofs.InitSpecProps Proofs.InitSpecCliProps.

(* A specification is accepted, as (sym, n, c), exactly when it is
   a ':' b ':' d  with no further ':' , sym = a without the white space
   (Unicode White_Space) at its two ends and not empty, and b, d texts that
   Decimal::from_str reads as n, c, both >= 0.  The amounts are not trimmed. *)
Theorem C16_spec_accepted_iff_wellformed : forall s sym n c,
  parse_spec s = Ok (sym, n, c) <->
  exists a b d,
    s = a ++ colon :: b ++ colon :: d /\ ~ In colon a /\ ~ In colon b /\ ~ In colon d
    /\ trim a = sym /\ sym <> []
    /\ (parse_dec b = Ok n /\ dec_gez n = true) /\ (parse_dec d = Ok c /\ dec_gez c = true).
Proof. exact spec_accepted_iff_wellformed. Qed.
Check C16_spec_accepted_iff_wellformed : forall s sym n c,
  parse_spec s = Ok (sym, n, c) <->
  exists a b d,
    s = a ++ colon :: b ++ colon :: d /\ ~ In colon a /\ ~ In colon b /\ ~ In colon d
    /\ trim a = sym /\ sym <> []
    /\ (parse_dec b = Ok n /\ dec_gez n = true) /\ (parse_dec d = Ok c /\ dec_gez c = true).
Print Assumptions C16_spec_accepted_iff_wellformed.

(* The decimal texts of the usual shape - optional sign, digits w, optionally
   '.' and digits f, at least one digit, at most 28 fractional digits, value
   below 2^96 - are read as written: mantissa val (w ++ f), scale |f|. *)
Theorem C16_plain_decimal_text : forall sg w f,
  all_digits w -> all_digits f -> w ++ f <> [] -> (val (w ++ f) <= max_mant)%N -> (length f <= 28)%nat ->
  parse_dec (sign_bytes sg ++ chars w ++ 46%N :: chars f)
  = Ok (mk_dec (sign_neg sg && negb (val (w ++ f) =? 0)%N) (val (w ++ f)) (length f))
  /\ (f = [] -> parse_dec (sign_bytes sg ++ chars w)
                = Ok (mk_dec (sign_neg sg && negb (val w =? 0)%N) (val w) 0)).
Proof. exact plain_decimal_text. Qed.
Check C16_plain_decimal_text : forall sg w f,
  all_digits w -> all_digits f -> w ++ f <> [] -> (val (w ++ f) <= max_mant)%N -> (length f <= 28)%nat ->
  parse_dec (sign_bytes sg ++ chars w ++ 46%N :: chars f)
  = Ok (mk_dec (sign_neg sg && negb (val (w ++ f) =? 0)%N) (val (w ++ f)) (length f))
  /\ (f = [] -> parse_dec (sign_bytes sg ++ chars w)
                = Ok (mk_dec (sign_neg sg && negb (val w =? 0)%N) (val w) 0)).
Print Assumptions C16_plain_decimal_text.

(* Every rejection and its message class, in the order of the checks
   ([spec_rejected], Proofs/InitSpecProps.v: not exactly two ':' / empty
   symbol / shares unreadable or negative / cost unreadable or negative;
   [rej_unmodelled] = an amount with a '_' separator, outside the model). *)
Theorem C16_spec_rejection_message : forall s e, parse_spec s = Rej e <-> spec_rejected s e.
Proof. exact spec_rejected_iff. Qed.
Check C16_spec_rejection_message : forall s e, parse_spec s = Rej e <-> spec_rejected s e.
Print Assumptions C16_spec_rejection_message.

(* Round trip: a symbol without ':' and without white space at its ends, any
   two non-negative decimals (96-bit mantissa, scale up to 28), written
   SYM:shares:acb with Display - read back as exactly that symbol (no case
   folding) and exactly those decimals (same mantissa and scale: nothing is
   rounded). *)
Theorem C16_spec_roundtrip : forall sym n c,
  ~ In colon sym -> trim sym = sym -> sym <> [] ->
  d_neg n = false -> (d_mant n <= max_mant)%N -> (d_scale n <= 28)%nat ->
  d_neg c = false -> (d_mant c <= max_mant)%N -> (d_scale c <= 28)%nat ->
  parse_spec (sym ++ colon :: dec_to_string n ++ colon :: dec_to_string c) = Ok (sym, n, c).
Proof. exact spec_roundtrip_explicit. Qed.
Check C16_spec_roundtrip : forall sym n c,
  ~ In colon sym -> trim sym = sym -> sym <> [] ->
  d_neg n = false -> (d_mant n <= max_mant)%N -> (d_scale n <= 28)%nat ->
  d_neg c = false -> (d_mant c <= max_mant)%N -> (d_scale c <= 28)%nat ->
  parse_spec (sym ++ colon :: dec_to_string n ++ colon :: dec_to_string c) = Ok (sym, n, c).
Print Assumptions C16_spec_roundtrip.

(* The list: rejected exactly when some specification is malformed, with the
   code of the FIRST malformed one; accepted exactly when all are well formed;
   never a panic. *)
Theorem C16_malformed_rejected_first : forall specs,
  (forall e, parse_initial_status specs = Rej e <->
     exists pre s post, specs = pre ++ s :: post /\ Forall wellformed pre /\ spec_rejected s e)
  /\ ((exists l, parse_initial_status specs = Ok l) <-> Forall wellformed specs)
  /\ (forall p, parse_initial_status specs <> Panic p).
Proof. exact malformed_rejected_first. Qed.
Check C16_malformed_rejected_first : forall specs,
  (forall e, parse_initial_status specs = Rej e <->
     exists pre s post, specs = pre ++ s :: post /\ Forall wellformed pre /\ spec_rejected s e)
  /\ ((exists l, parse_initial_status specs = Ok l) <-> Forall wellformed specs)
  /\ (forall p, parse_initial_status specs <> Panic p).
Print Assumptions C16_malformed_rejected_first.

(* The map: one entry per symbol; the entry of k is the position of the LAST
   specification whose symbol is k (bytewise: "FOO" and "foo" are two keys);
   no entry exactly when no specification names k. *)
Theorem C16_last_spec_wins : forall specs l,
  parse_initial_status specs = Ok l ->
  NoDup (map fst l)
  /\ (forall k v, al_find k l = Some v <->
        exists pre s post, specs = pre ++ s :: post /\ wf_spec s k (fst v) (snd v)
          /\ Forall (fun x => forall n c, ~ wf_spec x k n c) post)
  /\ (forall k, al_find k l = None <-> Forall (fun x => forall n c, ~ wf_spec x k n c) specs).
Proof. exact last_spec_wins. Qed.
Check C16_last_spec_wins : forall specs l,
  parse_initial_status specs = Ok l ->
  NoDup (map fst l)
  /\ (forall k v, al_find k l = Some v <->
        exists pre s post, specs = pre ++ s :: post /\ wf_spec s k (fst v) (snd v)
          /\ Forall (fun x => forall n c, ~ wf_spec x k n c) post)
  /\ (forall k, al_find k l = None <-> Forall (fun x => forall n c, ~ wf_spec x k n c) specs).
Print Assumptions C16_last_spec_wins.

Theorem C16_two_specs : forall sym1 sym2 n1 c1 n2 c2,
  plain_symbol sym1 -> plain_symbol sym2 ->
  amount_value n1 -> amount_value c1 -> amount_value n2 -> amount_value c2 ->
  parse_initial_status [show_spec sym1 n1 c1; show_spec sym2 n2 c2]
  = Ok (if beqb sym1 sym2 then [(sym2, (n2, c2))] else [(sym1, (n1, c1)); (sym2, (n2, c2))]).
Proof. exact two_specs. Qed.
Check C16_two_specs : forall sym1 sym2 n1 c1 n2 c2,
  plain_symbol sym1 -> plain_symbol sym2 ->
  amount_value n1 -> amount_value c1 -> amount_value n2 -> amount_value c2 ->
  parse_initial_status [show_spec sym1 n1 c1; show_spec sym2 n2 c2]
  = Ok (if beqb sym1 sym2 then [(sym2, (n2, c2))] else [(sym1, (n1, c1)); (sym2, (n2, c2))]).
Print Assumptions C16_two_specs.

(* In front of the application model (cmd.rs): a malformed specification ends
   the run with its code whatever the files are - nothing of them is read;
   an accepted list hands over, per symbol, the opening position
   [opening_status n c] of the ledger theorems above with 0 <= n, 0 <= c. *)
Theorem C16_malformed_before_files : forall A tbl specs e,
  parse_initial_status specs = Rej e -> forall fs, cli_run A tbl specs fs = Rej e.
Proof. exact cli_malformed_before_files. Qed.
Check C16_malformed_before_files : forall A tbl specs e,
  parse_initial_status specs = Rej e -> forall fs, cli_run A tbl specs fs = Rej e.
Print Assumptions C16_malformed_before_files.

Theorem C16_accepted_positions : forall A tbl specs m,
  parse_initial_status specs = Ok m ->
  (forall fs, cli_run A tbl specs fs = read_and_run A tbl (spec_inits m) fs)
  /\ Forall (fun x => exists n c, snd x = opening_status (dec_q n) (dec_q c)
                                  /\ (0 <= dec_q n)%Qc /\ (0 <= dec_q c)%Qc
                                  /\ al_find (fst x) m = Some (n, c)) (spec_inits m).
Proof. exact cli_accepted_positions. Qed.
Check C16_accepted_positions : forall A tbl specs m,
  parse_initial_status specs = Ok m ->
  (forall fs, cli_run A tbl specs fs = read_and_run A tbl (spec_inits m) fs)
  /\ Forall (fun x => exists n c, snd x = opening_status (dec_q n) (dec_q c)
                                  /\ (0 <= dec_q n)%Qc /\ (0 <= dec_q c)%Qc
                                  /\ al_find (fst x) m = Some (n, c)) (spec_inits m).
Print Assumptions C16_accepted_positions.

(* Amounts of at most 28 bytes (every amount a person types): accepted by
   Decimal::from_str exactly when they are plain decimal texts - optional
   sign, digits, at most one '.', at least one digit - and then read as
   written.  (Longer texts can reach the overflow / rounding paths of the
   parser: [parse_dec] itself, C16_plain_decimal_text for the plain ones.) *)
From ACB Require Import Proofs.InitSpecShort.
Theorem C16_short_amount_iff : forall s d,
  (length s <= 28)%nat ->
  (parse_dec s = Ok d <->
   exists sg w f,
     all_digits w /\ all_digits f /\ w ++ f <> []
     /\ (s = sign_bytes sg ++ chars w ++ 46%N :: chars f \/ (f = [] /\ s = sign_bytes sg ++ chars w))
     /\ d = mk_dec (sign_neg sg && negb (val (w ++ f) =? 0)%N) (val (w ++ f)) (length f)).
Proof. exact short_amount_iff. Qed.
Check C16_short_amount_iff : forall s d,
  (length s <= 28)%nat ->
  (parse_dec s = Ok d <->
   exists sg w f,
     all_digits w /\ all_digits f /\ w ++ f <> []
     /\ (s = sign_bytes sg ++ chars w ++ 46%N :: chars f \/ (f = [] /\ s = sign_bytes sg ++ chars w))
     /\ d = mk_dec (sign_neg sg && negb (val (w ++ f) =? 0)%N) (val (w ++ f)) (length f)).
Print Assumptions C16_short_amount_iff.

(* Non-vacuity: what the code does with concrete texts. *)
Import String.StringSyntax.
Local Open Scope string_scope.
Definition dN (m : N) (s : nat) : dec := mk_dec false m s.
Definition nbsp : bytes := [194; 160]%N.
Example C16_spec_examples :
  parse_spec (B "FOO:0:0") = Ok (B "FOO", dN 0 0, dN 0 0)
  /\ parse_spec (B " FOO :1.5:0.005") = Ok (B "FOO", dN 15 1, dN 5 3)          (* cost not rounded *)
  /\ parse_spec (B "Brk.b:1:1") = Ok (B "Brk.b", dN 1 0, dN 1 0)                 (* no case folding *)
  /\ parse_spec (B "FOO:+1:1") = Ok (B "FOO", dN 1 0, dN 1 0)
  /\ parse_spec (B "FOO:1.:.50") = Ok (B "FOO", dN 1 0, dN 50 2)
  /\ parse_spec (B "FOO:-0:0.00") = Ok (B "FOO", dN 0 0, dN 0 2)
  /\ parse_spec (nbsp ++ [9%N] ++ B "FOO" ++ nbsp ++ B ":1:1")%list = Ok (B "FOO", dN 1 0, dN 1 0)
  /\ parse_spec (B "FOO:1:0.00000000000000000000000000015") = Ok (B "FOO", dN 1 0, dN 2 28)
  /\ parse_spec (B "FOO:1e3:1") = Rej rej_spec_shares
  /\ parse_spec (B "FOO: 1:1") = Rej rej_spec_shares                              (* amounts are not trimmed *)
  /\ parse_spec (B "FOO::") = Rej rej_spec_shares
  /\ parse_spec (B "FOO:-1:2") = Rej rej_spec_shares_neg
  /\ parse_spec (B "FOO:1:x") = Rej rej_spec_acb
  /\ parse_spec (B "FOO:1:-0.01") = Rej rej_spec_acb_neg
  /\ parse_spec (B "FOO:123456789012345678901234567890:1") = Rej rej_spec_shares  (* 30 digits *)
  /\ parse_spec (B ":1:2") = Rej rej_spec_symbol
  /\ parse_spec (B "  :1:2") = Rej rej_spec_symbol
  /\ parse_spec (B "") = Rej rej_spec_parts
  /\ parse_spec (B "FOO:1") = Rej rej_spec_parts
  /\ parse_spec (B "FOO:1:2:3") = Rej rej_spec_parts
  /\ parse_spec (B "FOO:1_000:1") = Rej rej_unmodelled.
Proof. vm_compute. repeat split. Qed.

Example C16_specs_examples :
  parse_initial_status [B "FOO:1:1"; B "foo:2:2"; B " FOO:3:3.333"]
  = Ok [(B "FOO", (dN 3 0, dN 3333 3)); (B "foo", (dN 2 0, dN 2 0))]
  /\ parse_initial_status [B "FOO:1:1"; B "BAR"; B "FOO:x:1"] = Rej rej_spec_parts
  /\ parse_initial_status [B "FOO:1:1"; B "FOO:x:1"; B "BAR"] = Rej rej_spec_shares
  /\ parse_initial_status [] = Ok []
  /\ plain_symbol (B "Brk.b") /\ amount_value (dN 5 3)
  /\ beqb (B "FOO") (B "foo") = false.
Proof.
  vm_compute. repeat split; try discriminate. intros [H|H]; [discriminate|].
  repeat (destruct H as [H|H]; [discriminate|]). exact H.
Qed.
