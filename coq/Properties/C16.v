(* C16 - --symbol-base equals an opening purchase. *)
From Coq Require Import List NArith ZArith QArith Qcanon Bool Lia.
From ACB Require Import Base.Outcome Base.QcExtra Base.Arith Model.Tx Model.Ledger Model.Sfl
     Model.DeltaList Model.App Proofs.C16Opening.
Import ListNotations.

(* For every history (t :: txs) of a security, every share count n >= 0 and
   cost c >= 0: running with the opening position (n, c) yields exactly the
   rows (and outcome) of running without it after prepending a purchase by the
   default affiliate of n shares for the total cost c, dated more than 30 days
   before every sale.  Exact arithmetic; every figure of every row, generated
   adjustments and rejections included. *)
Theorem C16_opening_equals_purchase : forall sec day n c t txs,
  (0 <= n)%Qc -> (0 <= c)%Qc ->
  Forall (fun x => is_sell (t_act x) = true -> far (opening_buy sec day n c) x) (t :: txs) ->
  exists d,
    d_tx d = opening_buy sec day n c /\ d_post d = opening_status n c /\
    run exact None (opening_buy sec day n c :: t :: txs)
    = (d :: fst (run exact (Some (opening_status n c)) (t :: txs)),
       snd (run exact (Some (opening_status n c)) (t :: txs))).
Proof. exact C16Opening.opening_equals_purchase. Qed.
Check C16_opening_equals_purchase : forall sec day n c t txs,
  (0 <= n)%Qc -> (0 <= c)%Qc ->
  Forall (fun x => is_sell (t_act x) = true -> far (opening_buy sec day n c) x) (t :: txs) ->
  exists d,
    d_tx d = opening_buy sec day n c /\ d_post d = opening_status n c /\
    run exact None (opening_buy sec day n c :: t :: txs)
    = (d :: fst (run exact (Some (opening_status n c)) (t :: txs)),
       snd (run exact (Some (opening_status n c)) (t :: txs))).
Print Assumptions C16_opening_equals_purchase.

(* A row further than 30 days before every sale never influences the run
   (any arithmetic): the reason the date of the opening purchase is
   irrelevant beyond "more than 30 days before". *)
Theorem C16_far_row_irrelevant : forall (A : arith) old bef st aft,
  Forall (fun t => is_sell (t_act t) = true -> far old t) aft ->
  run_loop A (bef ++ [old]) st aft = run_loop A bef st aft.
Proof. exact C16Opening.run_loop_far. Qed.
Check C16_far_row_irrelevant : forall (A : arith) old bef st aft,
  Forall (fun t => is_sell (t_act t) = true -> far old t) aft ->
  run_loop A (bef ++ [old]) st aft = run_loop A bef st aft.
Print Assumptions C16_far_row_irrelevant.

(* Opening positions of other securities have no effect (any arithmetic). *)
Theorem C16_other_securities_irrelevant : forall (A : arith) inits1 inits2 rows,
  (forall s, In s (securities (sort_txs rows)) -> init_for inits1 s = init_for inits2 s) ->
  run_app A inits1 rows = run_app A inits2 rows.
Proof. exact C16Opening.other_openings_irrelevant. Qed.
Check C16_other_securities_irrelevant : forall (A : arith) inits1 inits2 rows,
  (forall s, In s (securities (sort_txs rows)) -> init_for inits1 s = init_for inits2 s) ->
  run_app A inits1 rows = run_app A inits2 rows.
Print Assumptions C16_other_securities_irrelevant.

Local Open Scope Z_scope.
Definition q (n : Z) (d : positive) := Qcfrac n d.
Definition mk sd a :=
  {| t_sec := 0; t_td := sd; t_sd := sd; t_act := a; t_af := default_aff; t_glob := false; t_ri := 0 |}.
Definition ex_txs : list tx := [
  mk 100 (Sell (q 4 1) (q 5 1) (q 0 1) (q 1 1) (q 1 1) None);
  mk 110 (Buy (q 3 1) (q 6 1) (q 0 1) (q 1 1) (q 1 1))
].
Example C16_nonvacuous :
  Forall (fun x => is_sell (t_act x) = true -> far (opening_buy 0 60 (q 10 1) (q 100 1)) x) ex_txs /\
  length (fst (run exact (Some (opening_status (q 10 1) (q 100 1))) ex_txs)) = 3%nat /\
  length (fst (run exact None (opening_buy 0 60 (q 10 1) (q 100 1) :: ex_txs))) = 4%nat.
Proof.
  split.
  - repeat constructor; unfold far; cbn; intros; try discriminate; unfold Model.Sfl.window_days; lia.
  - vm_compute. split; reflexivity.
Qed.
