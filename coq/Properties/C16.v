(* C16 - --symbol-base equals an opening purchase. *)
From Coq Require Import List NArith ZArith QArith Qcanon Bool Lia.
From ACB Require Import Base.Outcome Base.QcExtra Base.Arith Model.Tx Model.Ledger Model.Sfl
     Model.DeltaList Model.App Proofs.C16Opening.
Import ListNotations.

(* For every history (t :: txs) of a security, every share count n >= 0 and
   cost c >= 0: running with the opening position (n, c) yields exactly the
   rows (and outcome) of running without it after prepending a purchase by the
   default affiliate of n shares for the total cost c, dated more than 30 days
   before every sale.  Exact arithmetic; every figure of every row, generated
   adjustments and rejections included. *)
Theorem C16_opening_equals_purchase : forall sec day n c t txs,
  (0 <= n)%Qc -> (0 <= c)%Qc ->
  Forall (fun x => is_sell (t_act x) = true -> far (opening_buy sec day n c) x) (t :: txs) ->
  exists d,
    d_tx d = opening_buy sec day n c /\ d_post d = opening_status n c /\
    run exact None (opening_buy sec day n c :: t :: txs)
    = (d :: fst (run exact (Some (opening_status n c)) (t :: txs)),
       snd (run exact (Some (opening_status n c)) (t :: txs))).
Proof. exact C16Opening.opening_equals_purchase. Qed.
Check C16_opening_equals_purchase : forall sec day n c t txs,
  (0 <= n)%Qc -> (0 <= c)%Qc ->
  Forall (fun x => is_sell (t_act x) = true -> far (opening_buy sec day n c) x) (t :: txs) ->
  exists d,
    d_tx d = opening_buy sec day n c /\ d_post d = opening_status n c /\
    run exact None (opening_buy sec day n c :: t :: txs)
    = (d :: fst (run exact (Some (opening_status n c)) (t :: txs)),
       snd (run exact (Some (opening_status n c)) (t :: txs))).
Print Assumptions C16_opening_equals_purchase.

(* A row further than 30 days before every sale never influences the run
   (any arithmetic): the reason the date of the opening purchase is
   irrelevant beyond "more than 30 days before". *)
Theorem C16_far_row_irrelevant : forall (A : arith) old bef st aft,
  Forall (fun t => is_sell (t_act t) = true -> far old t) aft ->
  run_loop A (bef ++ [old]) st aft = run_loop A bef st aft.
Proof. exact C16Opening.run_loop_far. Qed.
Check C16_far_row_irrelevant : forall (A : arith) old bef st aft,
  Forall (fun t => is_sell (t_act t) = true -> far old t) aft ->
  run_loop A (bef ++ [old]) st aft = run_loop A bef st aft.
Print Assumptions C16_far_row_irrelevant.

(* Opening positions of other securities have no effect (any arithmetic). *)
Theorem C16_other_securities_irrelevant : forall (A : arith) inits1 inits2 rows,
  (forall s, In s (securities (sort_txs rows)) -> init_for inits1 s = init_for inits2 s) ->
  run_app A inits1 rows = run_app A inits2 rows.
Proof. exact C16Opening.other_openings_irrelevant. Qed.
Check C16_other_securities_irrelevant : forall (A : arith) inits1 inits2 rows,
  (forall s, In s (securities (sort_txs rows)) -> init_for inits1 s = init_for inits2 s) ->
  run_app A inits1 rows = run_app A inits2 rows.
Print Assumptions C16_other_securities_irrelevant.

Local Open Scope Z_scope.
Definition q (n : Z) (d : positive) := Qcfrac n d.
Definition mk sd a :=
  {| t_sec := 0; t_td := sd; t_sd := sd; t_act := a; t_af := default_aff; t_glob := false; t_ri := 0 |}.
Definition ex_txs : list tx := [
  mk 100 (Sell (q 4 1) (q 5 1) (q 0 1) (q 1 1) (q 1 1) None);
  mk 110 (Buy (q 3 1) (q 6 1) (q 0 1) (q 1 1) (q 1 1))
].
Example C16_nonvacuous :
  Forall (fun x => is_sell (t_act x) = true -> far (opening_buy 0 60 (q 10 1) (q 100 1)) x) ex_txs /\
  length (fst (run exact (Some (opening_status (q 10 1) (q 100 1))) ex_txs)) = 3%nat /\
  length (fst (run exact None (opening_buy 0 60 (q 10 1) (q 100 1) :: ex_txs))) = 4%nat.
Proof.
  split.
  - repeat constructor; unfold far; cbn; intros; try discriminate; unfold Model.Sfl.window_days; lia.
  - vm_compute. split; reflexivity.
Qed.

(* ==== At the level of the application (Model/App.v run_app: sort all rows,
   split by security, expand global splits over the holders, run the ledger
   per security with its opening position) ================================== *)
From ACB Require Import Proofs.EraseRi Proofs.SortLayout Proofs.Layout Proofs.C16App.

(* For every input [rows], opening positions [inits] giving security sec the
   position (n, c), and [inits'] = the same without sec: running the
   application on (purchase :: rows) with inits' yields the result of running
   it on rows with inits, where the report of sec gets the purchase's row d in
   front (d_post d = the opening position) and nothing else changes - every
   figure of every row of every security, generated adjustments, rejections.
   The purchase is a Buy by the default affiliate of n shares at total cost c
   dated more than 30 days before every row of sec.  Rows of sec may belong to
   other affiliates only and may contain global splits: the default affiliate
   is among the holders a global split is expanded over in both runs.  (When
   the near-split sanity check of replace_global_splits rejects the security,
   it does so in both runs and no row is shown in either.)  Exact arithmetic;
   the rows carry their read indices (the purchase has index 0; see
   C16_app_opening_numbered for indices assigned by position). *)
Theorem C16_app_opening_equals_purchase : forall sec day n c inits inits' rows,
  (0 <= n)%Qc -> (0 <= c)%Qc ->
  init_for inits sec = Some (opening_status n c) -> init_for inits' sec = None ->
  (forall s, s <> sec -> init_for inits' s = init_for inits s) ->
  In sec (securities (sort_txs rows)) ->
  Forall (fun x => t_sec x = sec -> far (opening_buy sec day n c) x) rows ->
  exists d res,
    d_tx d = opening_buy sec day n c /\ d_post d = opening_status n c /\
    run_app exact inits rows = Ok res /\
    run_app exact inits' (opening_buy sec day n c :: rows)
    = Ok (map (with_purchase sec d (global_split_check [] (txs_of_sec sec (sort_txs rows)))) res).
Proof. exact C16App.app_opening_equals_purchase. Qed.
Check C16_app_opening_equals_purchase : forall sec day n c inits inits' rows,
  (0 <= n)%Qc -> (0 <= c)%Qc ->
  init_for inits sec = Some (opening_status n c) -> init_for inits' sec = None ->
  (forall s, s <> sec -> init_for inits' s = init_for inits s) ->
  In sec (securities (sort_txs rows)) ->
  Forall (fun x => t_sec x = sec -> far (opening_buy sec day n c) x) rows ->
  exists d res,
    d_tx d = opening_buy sec day n c /\ d_post d = opening_status n c /\
    run_app exact inits rows = Ok res /\
    run_app exact inits' (opening_buy sec day n c :: rows)
    = Ok (map (with_purchase sec d (global_split_check [] (txs_of_sec sec (sort_txs rows)))) res).
Print Assumptions C16_app_opening_equals_purchase.

(* One security, global splits included, at the level of its sorted rows l
   (the statement the application theorem is built on). *)
Theorem C16_security_opening_equals_purchase : forall sec day n c l,
  (0 <= n)%Qc -> (0 <= c)%Qc -> l <> [] ->
  Forall (fun x => is_sell (t_act x) = true -> far (opening_buy sec day n c) x) l ->
  exists d, d_tx d = opening_buy sec day n c /\ d_post d = opening_status n c /\
    sec_result_of exact None (opening_buy sec day n c :: l)
    = if global_split_check [] l
      then (d :: fst (sec_result_of exact (Some (opening_status n c)) l),
            snd (sec_result_of exact (Some (opening_status n c)) l))
      else sec_result_of exact (Some (opening_status n c)) l.
Proof. exact C16App.sec_result_opening. Qed.
Check C16_security_opening_equals_purchase : forall sec day n c l,
  (0 <= n)%Qc -> (0 <= c)%Qc -> l <> [] ->
  Forall (fun x => is_sell (t_act x) = true -> far (opening_buy sec day n c) x) l ->
  exists d, d_tx d = opening_buy sec day n c /\ d_post d = opening_status n c /\
    sec_result_of exact None (opening_buy sec day n c :: l)
    = if global_split_check [] l
      then (d :: fst (sec_result_of exact (Some (opening_status n c)) l),
            snd (sec_result_of exact (Some (opening_status n c)) l))
      else sec_result_of exact (Some (opening_status n c)) l.
Print Assumptions C16_security_opening_equals_purchase.

(* Read indices assigned by position in the input ([number]): in the second
   run the purchase is row 0 and every other row's index is one higher; the
   report of the security is the same up to the read indices ([erase_result]),
   with the purchase's row in front. *)
Theorem C16_app_opening_numbered : forall sec day n c rows,
  (0 <= n)%Qc -> (0 <= c)%Qc ->
  Exists (fun x => t_sec x = sec) rows ->
  Forall (fun x => t_sec x = sec -> far (opening_buy sec day n c) x) rows ->
  let X := txs_of_sec sec (sort_txs (number rows)) in
  let R := erase_result (sec_result_of exact (Some (opening_status n c)) X) in
  exists d, d_tx d = opening_buy sec day n c /\ d_post d = opening_status n c /\
    erase_result (sec_result_of exact None
                    (txs_of_sec sec (sort_txs (number (opening_buy sec day n c :: rows)))))
    = if global_split_check [] X then (d :: fst R, snd R) else R.
Proof. exact C16App.sec_opening_numbered. Qed.
Check C16_app_opening_numbered : forall sec day n c rows,
  (0 <= n)%Qc -> (0 <= c)%Qc ->
  Exists (fun x => t_sec x = sec) rows ->
  Forall (fun x => t_sec x = sec -> far (opening_buy sec day n c) x) rows ->
  let X := txs_of_sec sec (sort_txs (number rows)) in
  let R := erase_result (sec_result_of exact (Some (opening_status n c)) X) in
  exists d, d_tx d = opening_buy sec day n c /\ d_post d = opening_status n c /\
    erase_result (sec_result_of exact None
                    (txs_of_sec sec (sort_txs (number (opening_buy sec day n c :: rows)))))
    = if global_split_check [] X then (d :: fst R, snd R) else R.
Print Assumptions C16_app_opening_numbered.

(* Non-vacuity: security 0 has rows of a second affiliate only and a global
   2-for-1 split; security 1 is a bystander.  With the opening position the
   split is expanded over {default, spouse} (5 rows: purchase, the two
   splits, the sale at a superficial loss and its generated adjustment); with
   the purchase the report has 6 rows, the last five being the same. *)
Definition spouse16 := {| af_id := 1003; af_reg := false; af_dflt := false |}.
Definition mka sec af glob sd ri a :=
  {| t_sec := sec; t_td := sd; t_sd := sd; t_act := a; t_af := af; t_glob := glob; t_ri := ri |}.
Definition ex_app_rows : list tx := [
  mka 0 spouse16 false 100 1 (Buy (q 20 1) (q 10 1) (q 0 1) (q 1 1) (q 1 1));
  mka 1 default_aff false 105 2 (Buy (q 5 1) (q 2 1) (q 0 1) (q 1 1) (q 1 1));
  mka 0 default_aff true 120 3 (Split (q 2 1) (q 1 1) false);
  mka 0 spouse16 false 130 4 (Sell (q 10 1) (q 4 1) (q 0 1) (q 1 1) (q 1 1) None)].
Definition ex_inits : list (N * status) := [(0%N, opening_status (q 10 1) (q 100 1))].
Example C16_app_nonvacuous :
  In 0%N (securities (sort_txs ex_app_rows)) /\
  Forall (fun x => t_sec x = 0%N -> far (opening_buy 0 60 (q 10 1) (q 100 1)) x) ex_app_rows /\
  global_split_check [] (txs_of_sec 0 (sort_txs ex_app_rows)) = true /\
  match run_app exact ex_inits ex_app_rows, run_app exact [] (opening_buy 0 60 (q 10 1) (q 100 1) :: ex_app_rows) with
  | Ok [(0%N, (dsA, None)); (1%N, rA)], Ok [(0%N, (d :: dsB, None)); (1%N, rB)] =>
      dsA = dsB /\ rA = rB /\ length dsA = 5%nat /\
      map (fun x => af_id (t_af (d_tx x))) dsA = [1003; 1000; 1003; 1003; 1003]%N /\
      map (fun x => s_sh (d_post x)) dsA = [q 20 1; q 20 1; q 40 1; q 30 1; q 30 1]
  | _, _ => False
  end.
Proof.
  split; [vm_compute; auto|]. split.
  - repeat constructor; unfold far; cbn; intros; try discriminate; unfold Model.Sfl.window_days; lia.
  - vm_compute. repeat split.
Qed.
