(* C12 - USD rows use the Bank of Canada rate of the trade date or the last
   one before it.  Obligations of the property; proofs live in
   Proofs/RatesProps.v and Proofs/CacheProps.v.

   [pub : calendar] is ANY publication calendar (a function from days to the
   rate published that day, if any): weekends, holidays, closures of 7, 8 or
   more days and year ends are instances.  [e] is the environment of a run:
   its today and what the Bank of Canada returns per year. *)
From Coq Require Import List NArith ZArith QArith Qcanon Bool.
From ACB Require Import Base.Outcome Base.QcExtra Base.Fit Base.Arith
     Model.Rates Model.RatesCache Spec.RateRule Proofs.RatesProps Proofs.CacheProps.
Import ListNotations.
Local Open Scope Z_scope.

(* The look-up of the code (get_effective_usd_cad_rate of a fresh RateLoader,
   any force flag, empty cache: year maps are built from the remote data by
   fill_in_unknown_day_rates) IS the declarative rule, for all trade dates and
   all calendars: it answers with the rate r of day x exactly when x is the
   latest day in [d-7, d] with a published rate and d itself has one or lies
   before today; otherwise it stops with the error the rule names. *)
Theorem C12_rule : forall (pub : calendar) (e : env),
  (forall y, parse_all (e_remote e y) = Ok (pubrates pub y)) ->
  (forall x, pub x <> None -> x <= e_today e) ->
  (forall x, pub x <> Some 0%Qc) ->
  forall d : Z,
  exists s' a,
    effective true e empty_st d = Ok (s', a) /\
    match a with
    | inr (x, r) => rule_ok pub (e_today e) d x r
    | inl LNotYet => rule_not_yet pub (e_today e) d
    | inl LNone7 => rule_none7 pub (e_today e) d
    | inl _ => False
    end.
Proof. exact CacheProps.fresh_lookup_rule. Qed.
Check C12_rule : forall (pub : calendar) (e : env),
  (forall y, parse_all (e_remote e y) = Ok (pubrates pub y)) ->
  (forall x, pub x <> None -> x <= e_today e) ->
  (forall x, pub x <> Some 0%Qc) ->
  forall d : Z,
  exists s' a,
    effective true e empty_st d = Ok (s', a) /\
    match a with
    | inr (x, r) => rule_ok pub (e_today e) d x r
    | inl LNotYet => rule_not_yet pub (e_today e) d
    | inl LNone7 => rule_none7 pub (e_today e) d
    | inl _ => False
    end.
Print Assumptions C12_rule.

(* never the rate of a later day, never one more than seven days old, never
   the zero placeholder, always a rate that was published for that day *)
Theorem C12_never_future_zero_or_old : forall (pub : calendar) (e : env),
  (forall y, parse_all (e_remote e y) = Ok (pubrates pub y)) ->
  (forall x, pub x <> None -> x <= e_today e) ->
  (forall x, pub x <> Some 0%Qc) ->
  forall d s' x r,
    effective true e empty_st d = Ok (s', inr (x, r)) ->
    x <= d /\ d - 7 <= x /\ r <> 0%Qc /\ pub x = Some r.
Proof. exact CacheProps.fresh_never. Qed.
Check C12_never_future_zero_or_old : forall (pub : calendar) (e : env),
  (forall y, parse_all (e_remote e y) = Ok (pubrates pub y)) ->
  (forall x, pub x <> None -> x <= e_today e) ->
  (forall x, pub x <> Some 0%Qc) ->
  forall d s' x r,
    effective true e empty_st d = Ok (s', inr (x, r)) ->
    x <= d /\ d - 7 <= x /\ r <> 0%Qc /\ pub x = Some r.
Print Assumptions C12_never_future_zero_or_old.

(* the run stops with an error exactly when the rule has no rate to offer
   (including a trade dated today or later with no rate yet) *)
Theorem C12_error_iff_no_rate : forall (pub : calendar) (e : env),
  (forall y, parse_all (e_remote e y) = Ok (pubrates pub y)) ->
  (forall x, pub x <> None -> x <= e_today e) ->
  (forall x, pub x <> Some 0%Qc) ->
  forall d s' a,
    effective true e empty_st d = Ok (s', a) ->
    ((exists err, a = inl err) <-> ~ exists x r, rule_ok pub (e_today e) d x r).
Proof. exact CacheProps.fresh_error_iff. Qed.
Check C12_error_iff_no_rate : forall (pub : calendar) (e : env),
  (forall y, parse_all (e_remote e y) = Ok (pubrates pub y)) ->
  (forall x, pub x <> None -> x <= e_today e) ->
  (forall x, pub x <> Some 0%Qc) ->
  forall d s' a,
    effective true e empty_st d = Ok (s', a) ->
    ((exists err, a = inl err) <-> ~ exists x r, rule_ok pub (e_today e) d x r).
Print Assumptions C12_error_iff_no_rate.

(* the rule determines the answer: at most one (day, rate) satisfies it *)
Theorem C12_rule_deterministic : forall pub today d x1 r1 x2 r2,
  rule_ok pub today d x1 r1 -> rule_ok pub today d x2 r2 -> x1 = x2 /\ r1 = r2.
Proof. exact RatesProps.rule_ok_unique. Qed.
Check C12_rule_deterministic : forall pub today d x1 r1 x2 r2,
  rule_ok pub today d x1 r1 -> rule_ok pub today d x2 r2 -> x1 = x2 /\ r1 = r2.
Print Assumptions C12_rule_deterministic.

(* daily (FXCADUSD) observations are inverted with rust_decimal division,
   noon (IEXE0101) observations are used as published (and take precedence) *)
Theorem C12_daily_inverted_noon_as_published : forall d r x dl,
  (a_div dec 1%Qc r = Ok x ->
   parse_obs {| o_date := Some d; o_noon := JAbsent; o_daily := JGood r |} = Ok (Some (d, x))) /\
  parse_obs {| o_date := Some d; o_noon := JGood r; o_daily := dl |} = Ok (Some (d, r)).
Proof. exact RatesProps.daily_noon. Qed.
Check C12_daily_inverted_noon_as_published : forall d r x dl,
  (a_div dec 1%Qc r = Ok x ->
   parse_obs {| o_date := Some d; o_noon := JAbsent; o_daily := JGood r |} = Ok (Some (d, x))) /\
  parse_obs {| o_date := Some d; o_noon := JGood r; o_daily := dl |} = Ok (Some (d, r)).
Print Assumptions C12_daily_inverted_noon_as_published.

(* the hypothesis of C12_rule about the remote, discharged for what the Bank
   of Canada serves: a list of observations each carrying the noon or the
   daily series parses to the list of their rates (daily ones inverted) *)
Theorem C12_observations_parse : forall l : list raw_obs,
  parse_all (map obs_of_raw l) = rates_of_raw l.
Proof. exact RatesProps.parse_all_raw. Qed.
Check C12_observations_parse : forall l : list raw_obs,
  parse_all (map obs_of_raw l) = rates_of_raw l.
Print Assumptions C12_observations_parse.

(* the hypothesis "a published rate is not the placeholder 0" of C12_rule,
   discharged for inverted observations: for every raw FXCADUSD value
   0 < v <= 10^28 the rounded quotient 1/v is not zero *)
Theorem C12_inverted_rate_nonzero : forall v x : Qc,
  (0 < v)%Qc -> (v <= Qcfrac 10000000000000000000000000000 1)%Qc ->
  a_div dec 1%Qc v = Ok x -> x <> 0%Qc.
Proof. exact RatesProps.inverted_nonzero. Qed.
Check C12_inverted_rate_nonzero : forall v x : Qc,
  (0 < v)%Qc -> (v <= Qcfrac 10000000000000000000000000000 1)%Qc ->
  a_div dec 1%Qc v = Ok x -> x <> 0%Qc.
Print Assumptions C12_inverted_rate_nonzero.

(* Decision rules, for every row of every accepted file (application path:
   load_tx_rates then Tx::try_from): a USD amount without an explicit rate is
   converted with the rule's rate of the row's TRADE date (transaction and
   commission currency alike); an explicit rate always wins; CAD only ever
   yields 1; no currency and no rate means 1 (commission: the transaction's
   rate). *)
Theorem C12_rows_decision_rules : forall (pub : calendar) (e : env),
  (forall y, parse_all (e_remote e y) = Ok (pubrates pub y)) ->
  (forall x, pub x <> None -> x <= e_today e) ->
  (forall x, pub x <> Some 0%Qc) ->
  forall rs l,
    app_rows true e rs = Ok (inr l) ->
    forall i r tx cm, nth_error rs i = Some r -> nth_error l i = Some (tx, cm) ->
      (r_cur r = Some USD -> r_fx r = None -> exists x, rule_ok pub (e_today e) (r_td r) x tx) /\
      (r_ccur r = Some USD -> r_cfx r = None -> exists x, rule_ok pub (e_today e) (r_td r) x cm) /\
      (forall q, r_fx r = Some q -> tx = q) /\
      (forall q, r_cfx r = Some q -> cm = q) /\
      (r_cur r = Some CAD -> tx = 1%Qc) /\ (r_ccur r = Some CAD -> cm = 1%Qc) /\
      (r_cur r = None -> r_fx r = None -> tx = 1%Qc) /\
      (r_ccur r = None -> r_cfx r = None -> cm = tx).
Proof. exact CacheProps.fresh_rows. Qed.
Check C12_rows_decision_rules : forall (pub : calendar) (e : env),
  (forall y, parse_all (e_remote e y) = Ok (pubrates pub y)) ->
  (forall x, pub x <> None -> x <= e_today e) ->
  (forall x, pub x <> Some 0%Qc) ->
  forall rs l,
    app_rows true e rs = Ok (inr l) ->
    forall i r tx cm, nth_error rs i = Some r -> nth_error l i = Some (tx, cm) ->
      (r_cur r = Some USD -> r_fx r = None -> exists x, rule_ok pub (e_today e) (r_td r) x tx) /\
      (r_ccur r = Some USD -> r_cfx r = None -> exists x, rule_ok pub (e_today e) (r_td r) x cm) /\
      (forall q, r_fx r = Some q -> tx = q) /\
      (forall q, r_cfx r = Some q -> cm = q) /\
      (r_cur r = Some CAD -> tx = 1%Qc) /\ (r_ccur r = Some CAD -> cm = 1%Qc) /\
      (r_cur r = None -> r_fx r = None -> tx = 1%Qc) /\
      (r_ccur r = None -> r_cfx r = None -> cm = tx).
Print Assumptions C12_rows_decision_rules.

(* the same rules as implications on a single (currency, rate) pair:
   explicit rate: nothing is loaded; CAD: nothing is loaded, rate 1, any other
   explicit rate rejected; another currency without a rate: rejected *)
Theorem C12_pair_decisions : forall (c : option currency) (q : Qc) (n : N),
  load_decide c (Some q) = LKeep /\
  load_decide (Some CAD) None = LKeep /\ load_decide None None = LKeep /\
  load_decide (Some USD) None = LLoadUsd /\
  load_decide (Some (OtherCur n)) None = LErr ENoAuto /\
  valid_rate (Some CAD) None = inr (Some (CAD, 1%Qc)) /\
  (q <> 1%Qc -> exists err, valid_rate (Some CAD) (Some q) = inl err) /\
  valid_rate (Some (OtherCur n)) None = inl ECurrWithoutFx /\
  ((0 < q)%Qc -> valid_rate (Some USD) (Some q) = inr (Some (USD, q))).
Proof. exact RatesProps.pair_decisions. Qed.
Check C12_pair_decisions : forall (c : option currency) (q : Qc) (n : N),
  load_decide c (Some q) = LKeep /\
  load_decide (Some CAD) None = LKeep /\ load_decide None None = LKeep /\
  load_decide (Some USD) None = LLoadUsd /\
  load_decide (Some (OtherCur n)) None = LErr ENoAuto /\
  valid_rate (Some CAD) None = inr (Some (CAD, 1%Qc)) /\
  (q <> 1%Qc -> exists err, valid_rate (Some CAD) (Some q) = inl err) /\
  valid_rate (Some (OtherCur n)) None = inl ECurrWithoutFx /\
  ((0 < q)%Qc -> valid_rate (Some USD) (Some q) = inr (Some (USD, q))).
Print Assumptions C12_pair_decisions.

(* Non-vacuity: the calendar of January 2022 used in C13 (weekdays 3..19
   January) with today = 20 January satisfies the hypotheses; the look-up of
   Saturday 15 January answers with Friday's rate, the look-up of 2 January
   (nothing within 7 days back to 26 December) and of today stop. *)
Example C12_nonvacuous :
  let pub := restrict ex_truth 19012 in
  let e := ex_env 19012 in
  (forall y, parse_all (e_remote e y) = Ok (pubrates pub y)) /\
  (forall x, pub x <> None -> x <= e_today e) /\
  (forall x, pub x <> Some 0%Qc) /\
  (exists s, effective true e empty_st 19007 = Ok (s, inr (19006, Qcfrac 31006 10000))) /\
  (exists s, effective true e empty_st 18994 = Ok (s, inl LNone7)) /\
  (exists s, effective true e empty_st 19012 = Ok (s, inl LNotYet)).
Proof. exact CacheProps.c12_example. Qed.

(* ======================================================================
   "... otherwise an error": the remote fails (Model/RatesFail.v,
   Proofs/RatesFailProps.v).  A request fails when the HttpRequester returns
   Err ([RqHttp], error class [FHttp]) or when the body is rejected as a whole
   by parse_rates_json ([RqDoc], [FDoc]; C12_malformed_document_is_error says
   which bodies those are). *)
From ACB Require Import Model.CrashFs Model.RatesFail Proofs.RatesFailProps.

(* For EVERY history and EVERY script of request / cache read / cache write
   outcomes the history itself never fails, and run by run, look-up by look-up
   ([history_ok], [lookup_ok]): either all requests made during the look-up
   succeeded and the answer is the reference answer (= the rule, C12_rule), or
   the LAST request of the look-up failed and the answer is that request's
   error (wrapped in the look-back error when it happened there); the years
   requested successfully in a run are pairwise different. *)
Theorem C12_remote_failure_is_error :
  forall (truth : calendar) runs params t0 a0 s0,
    runsF_ok truth t0 a0 runs params ->
    CacheRows truth t0 a0 (s_cache (f_s s0)) ->
    exists s' outs,
      historyF s0 runs = Ok (s', outs) /\
      history_ok runs (ref_answers truth (plain_runs runs) params) outs.
Proof. exact RatesFailProps.history_general. Qed.
Check C12_remote_failure_is_error :
  forall (truth : calendar) runs params t0 a0 s0,
    runsF_ok truth t0 a0 runs params ->
    CacheRows truth t0 a0 (s_cache (f_s s0)) ->
    exists s' outs,
      historyF s0 runs = Ok (s', outs) /\
      history_ok runs (ref_answers truth (plain_runs runs) params) outs.
Print Assumptions C12_remote_failure_is_error.

(* what that judgement means for one answer: it is the reference answer or a
   remote error; it is a remote error EXACTLY when a request made during the
   look-up failed; an answer that is a rate is the reference's rate (never a
   stale or zero rate because of a failure) *)
Theorem C12_remote_failure_answers : forall e refa a new,
  lookup_ok e refa a new ->
  (a = lift_ans refa \/ exists err, a = inl err /\ remote_err err) /\
  ((exists err, a = inl err /\ remote_err err) <-> (exists y, In (y, false) new)) /\
  (forall x, a = inr x -> refa = inr x /\ all_ok new).
Proof. exact RatesFailProps.lookup_ok_facts. Qed.
Check C12_remote_failure_answers : forall e refa a new,
  lookup_ok e refa a new ->
  (a = lift_ans refa \/ exists err, a = inl err /\ remote_err err) /\
  ((exists err, a = inl err /\ remote_err err) <-> (exists y, In (y, false) new)) /\
  (forall x, a = inr x -> refa = inr x /\ all_ok new).
Print Assumptions C12_remote_failure_answers.

(* The failure is NOT remembered.  One get_exact_usd_cad_rate step from any
   reachable loader state: either a request failed -- then the step returns
   that error and the loader state (year maps, fresh years, cache) is exactly
   what it was, only the request is logged, so the next look-up that needs the
   year asks the remote again -- or the step answers like the reference and
   made at most one, successful, request. *)
Theorem C12_remote_failure_not_cached :
  forall (truth : calendar) today avail e s d,
    runF_ok truth today avail e -> InvF truth today avail s ->
    exists s' r,
      exactF e s d = Ok (s', r) /\ InvF truth today avail s' /\
      ((exists err, r = inl err /\ failed_step e (year_of d) s s' err) \/
       (r = lift_ans (exact_ref (rem truth avail) today d) /\ quiet_or_dl (year_of d) s s')).
Proof. exact RatesFailProps.exact_stepF. Qed.
Check C12_remote_failure_not_cached :
  forall (truth : calendar) today avail e s d,
    runF_ok truth today avail e -> InvF truth today avail s ->
    exists s' r,
      exactF e s d = Ok (s', r) /\ InvF truth today avail s' /\
      ((exists err, r = inl err /\ failed_step e (year_of d) s s' err) \/
       (r = lift_ans (exact_ref (rem truth avail) today d) /\ quiet_or_dl (year_of d) s s')).
Print Assumptions C12_remote_failure_not_cached.

(* Non-vacuity: on 20 January 2022, 5 January is asked three times: the first
   request fails in the requester, the second look-up asks AGAIN and gets a
   body that is no rates document, the third is served; then the look-back of
   1 January reaches into 2021, whose request fails, and the same look-up
   repeated asks again and answers (nothing within 7 days). *)
Example C12_remote_failure_nonvacuous :
  runsF_ok ex_truth 0 0 exF_runs3 [(19012, 19012)] /\
  exists s outs,
    historyF (fstate_of empty_st) exF_runs3 = Ok (s, outs) /\
    map fo_answers outs =
      [[(inl FHttp, [(2022, false)]);
        (inl FDoc, [(2022, false)]);
        (inr (18997, Qcfrac 30997 10000), [(2022, true)]);
        (inl (FLookback FHttp), [(2021, false)]);
        (inl FNone7, [(2021, true)])]].
Proof. exact RatesFailProps.remote_failure_example. Qed.

(* ======================================================================
   The remote document layer (Model/RatesJson.v, Proofs/RatesJsonProps.v):
   parse_rates_json after json::parse, over an abstract JSON value [jv]
   (number tokens as text: the json crate's u64-mantissa / i16-exponent
   representation and its Display are modelled; the text -> tree parsing of
   objects, arrays and strings is a stated hypothesis). *)
From ACB Require Import Model.RatesJson Proofs.CrashProps Proofs.RatesJsonProps.

(* "Daily (2017+) observations FXCADUSD are inverted, noon (<=2016, IEXE0101)
   used as published": for EVERY document in the Bank of Canada layout
   ([boc_doc]: any members before "observations", then one object per
   observation with "d": "<yyyy-mm-dd>" and "<series>": {"v": "<decimal>"},
   values positive with at most 28 fractional digits and a 96-bit mantissa,
   years 0..9999) the members the loop runs over are the observations, their
   per-observation views are those C12_observations_parse speaks about -- so
   the hypothesis of C12_rule, "what the remote returns parses to the
   per-series observation list", holds with [e_remote y := map obs_of_jv
   (members ..)] of such a document -- and the parsed (date, rate) list is
   exactly the observations in document order: as published for the noon
   series, [a_div dec 1 v] (rust_decimal division = fit) for the daily one. *)
Theorem C12_document_to_observations : forall pre daily l,
  Forall wf_boc l ->
  doc_observations (boc_doc pre daily l) = Some (map (boc_obs daily) l) /\
  map obs_of_jv (map (boc_obs daily) l) = map obs_of_raw (map (fun x => (fst x, daily, dec_value (snd x))) l) /\
  parse_doc (boc_doc pre daily l) = Some (rates_of_raw (map (fun x => (fst x, daily, dec_value (snd x))) l)) /\
  (daily = false ->
   parse_doc (boc_doc pre daily l) = Some (Ok (map (fun x => (fst x, dec_value (snd x))) l))) /\
  (daily = true -> forall rs,
   parse_doc (boc_doc pre daily l) = Some (Ok rs) ->
   Forall2 (fun x r => fst r = fst x /\ a_div dec 1%Qc (dec_value (snd x)) = Ok (snd r)) l rs).
Proof.
  intros pre daily l H. split; [ | split; [ | split; [ | split ] ] ].
  - unfold boc_doc, doc_observations. rewrite RatesJsonProps.obj_get_app_last. reflexivity.
  - rewrite !map_map. induction H as [| x t Hx Ht IH]; [reflexivity | ].
    cbn [map]. rewrite IH, (RatesJsonProps.obs_of_boc daily x Hx). reflexivity.
  - exact (RatesJsonProps.document_to_observations pre daily l H).
  - intros ->. rewrite (RatesJsonProps.document_to_observations pre false l H).
    rewrite RatesJsonProps.rates_of_raw_noon. reflexivity.
  - intros -> rs E. rewrite (RatesJsonProps.document_to_observations pre true l H) in E.
    inversion E as [E']. exact (RatesJsonProps.rates_of_raw_daily l rs E').
Qed.
Check C12_document_to_observations : forall pre daily l,
  Forall wf_boc l ->
  doc_observations (boc_doc pre daily l) = Some (map (boc_obs daily) l) /\
  map obs_of_jv (map (boc_obs daily) l) = map obs_of_raw (map (fun x => (fst x, daily, dec_value (snd x))) l) /\
  parse_doc (boc_doc pre daily l) = Some (rates_of_raw (map (fun x => (fst x, daily, dec_value (snd x))) l)) /\
  (daily = false ->
   parse_doc (boc_doc pre daily l) = Some (Ok (map (fun x => (fst x, dec_value (snd x))) l))) /\
  (daily = true -> forall rs,
   parse_doc (boc_doc pre daily l) = Some (Ok rs) ->
   Forall2 (fun x r => fst r = fst x /\ a_div dec 1%Qc (dec_value (snd x)) = Ok (snd r)) l rs).
Print Assumptions C12_document_to_observations.

(* Which documents are rejected as a whole (the remote error [RqDoc] of
   C12_remote_failure_is_error): exactly those whose root is not an object or
   has no "observations" member -- anything else, including an "observations"
   that is not an array, is accepted (possibly with no rates).  And no
   accepted rate comes from a zero or negative value: every (date, rate) of an
   accepted document is a strictly positive noon value as published, or the
   rust_decimal quotient 1/q of a strictly positive daily value q (which is
   not zero for q <= 10^28, C12_inverted_rate_nonzero). *)
Theorem C12_malformed_document_is_error :
  (forall root,
     parse_doc root = None <->
     (forall o, root <> JObj o) \/ (exists o, root = JObj o /\ obj_get K_OBSERVATIONS o = None)) /\
  (forall root rs d r,
     parse_doc root = Some (Ok rs) -> In (d, r) rs ->
     exists q, (0 < q)%Qc /\ (r = q \/ a_div dec 1%Qc q = Ok r)).
Proof. split; [exact RatesJsonProps.doc_rejected_iff | exact RatesJsonProps.accepted_rates_positive]. Qed.
Check C12_malformed_document_is_error :
  (forall root,
     parse_doc root = None <->
     (forall o, root <> JObj o) \/ (exists o, root = JObj o /\ obj_get K_OBSERVATIONS o = None)) /\
  (forall root rs d r,
     parse_doc root = Some (Ok rs) -> In (d, r) rs ->
     exists q, (0 < q)%Qc /\ (r = q \/ a_div dec 1%Qc q = Ok r)).
Print Assumptions C12_malformed_document_is_error.

(* The malformed shapes inside an accepted document are SKIPPED (the code
   reports them as non-fatal errors), never turned into a rate: a member that
   is not an object; no "d", a "d" that is not a string or not a valid date;
   a series member that is not an object, has no "v", or whose "v" is null / a
   boolean / an array / an object / not a decimal text / zero / negative --
   and an unusable noon member makes the observation be skipped even when
   the daily member is fine. *)
Theorem C12_malformed_observations_skipped :
  (forall v, (forall o, v <> JObj o) -> parse_obs (obs_of_jv v) = Ok None) /\
  (forall o, obj_get K_D o = None -> parse_obs (obs_of_jv (JObj o)) = Ok None) /\
  (forall o x, obj_get K_D o = Some x -> (forall s, x <> JStr s) -> parse_obs (obs_of_jv (JObj o)) = Ok None) /\
  (forall o s, obj_get K_D o = Some (JStr s) -> parse_date s = None -> parse_obs (obs_of_jv (JObj o)) = Ok None) /\
  (forall o, rate_value K_NOON o = JBad -> parse_obs (obs_of_jv (JObj o)) = Ok None) /\
  (forall o, rate_value K_NOON o = JAbsent -> rate_value K_DAILY o <> JBad ->
             (exists q, rate_value K_DAILY o = JGood q) \/ parse_obs (obs_of_jv (JObj o)) = Ok None) /\
  (forall key o x, obj_get key o = Some x -> (forall c, x <> JObj c) -> rate_value key o = JBad) /\
  (forall key o c, obj_get key o = Some (JObj c) -> obj_get K_V c = None -> rate_value key o = JBad) /\
  (forall key o c x, obj_get key o = Some (JObj c) -> obj_get K_V c = Some x ->
                     to_decimal x = None -> rate_value key o = JBad) /\
  (forall key o c x q, obj_get key o = Some (JObj c) -> obj_get K_V c = Some x ->
                       to_decimal x = Some q -> (q <= 0)%Qc -> rate_value key o = JBad) /\
  to_decimal JNull = None /\ (forall b, to_decimal (JBool b) = None) /\
  (forall l, to_decimal (JArr l) = None) /\ (forall o, to_decimal (JObj o) = None).
Proof. exact RatesJsonProps.skipped_shapes. Qed.
Check C12_malformed_observations_skipped :
  (forall v, (forall o, v <> JObj o) -> parse_obs (obs_of_jv v) = Ok None) /\
  (forall o, obj_get K_D o = None -> parse_obs (obs_of_jv (JObj o)) = Ok None) /\
  (forall o x, obj_get K_D o = Some x -> (forall s, x <> JStr s) -> parse_obs (obs_of_jv (JObj o)) = Ok None) /\
  (forall o s, obj_get K_D o = Some (JStr s) -> parse_date s = None -> parse_obs (obs_of_jv (JObj o)) = Ok None) /\
  (forall o, rate_value K_NOON o = JBad -> parse_obs (obs_of_jv (JObj o)) = Ok None) /\
  (forall o, rate_value K_NOON o = JAbsent -> rate_value K_DAILY o <> JBad ->
             (exists q, rate_value K_DAILY o = JGood q) \/ parse_obs (obs_of_jv (JObj o)) = Ok None) /\
  (forall key o x, obj_get key o = Some x -> (forall c, x <> JObj c) -> rate_value key o = JBad) /\
  (forall key o c, obj_get key o = Some (JObj c) -> obj_get K_V c = None -> rate_value key o = JBad) /\
  (forall key o c x, obj_get key o = Some (JObj c) -> obj_get K_V c = Some x ->
                     to_decimal x = None -> rate_value key o = JBad) /\
  (forall key o c x q, obj_get key o = Some (JObj c) -> obj_get K_V c = Some x ->
                       to_decimal x = Some q -> (q <= 0)%Qc -> rate_value key o = JBad) /\
  to_decimal JNull = None /\ (forall b, to_decimal (JBool b) = None) /\
  (forall l, to_decimal (JArr l) = None) /\ (forall o, to_decimal (JObj o) = None).
Print Assumptions C12_malformed_observations_skipped.

(* Non-vacuity: a daily document of two observations (with a "terms" member
   before the list) parses to the two inverted rates, a noon document to its
   value as published; an array root and a root without "observations" are
   rejected; an "observations" object yields no rates; of two "observations"
   members the last counts.  Numbers: 0.7, 7e-1, 1, 12.5E1 reach Decimal
   through their text; a 28-digit fraction given as a NUMBER keeps 19 digits
   in the u64 mantissa and is printed in `e` notation, which Decimal::from_str
   rejects, as it does 1e-18; 0, -1.5 and "0.00" are not positive. *)
Example C12_json_nonvacuous :
  (Forall wf_boc [(18997, (7812, 4%nat)); (18998, (8, 1%nat))] /\
   parse_doc ex_daily_doc = Some (Ok [(18997, Qcfrac 12800819252432155657962109575 10000000000000000000000000000);
                                      (18998, Qcfrac 12500000000000000000000000000 10000000000000000000000000000)]) /\
   parse_doc ex_noon_doc = Some (Ok [(17164, Qcfrac 13427 10000)]) /\
   parse_doc (JArr [ex_noon_doc]) = None /\
   parse_doc (JObj ex_pre) = None /\
   parse_doc (JObj [(K_OBSERVATIONS, JObj ex_pre)]) = Some (Ok []) /\
   parse_doc (JObj [(K_OBSERVATIONS, JArr [JNull]); (K_OBSERVATIONS, JArr [boc_obs false (17164, (13427, 4%nat))])])
     = Some (Ok [(17164, Qcfrac 13427 10000)])) /\
  (to_decimal (tok [48; 46; 55]%N) = Some (Qcfrac 7 10) /\
   to_decimal (tok [55; 101; 45; 49]%N) = Some (Qcfrac 7 10) /\
   to_decimal (tok [49; 101; 45; 49; 56]%N) = None /\
   to_positive_decimal (tok [48]%N) = None /\
   to_positive_decimal (tok [45; 49; 46; 53]%N) = None /\
   to_positive_decimal (JStr [48; 46; 48; 48]%N) = None).
Proof.
  split; [exact RatesJsonProps.document_example | ].
  pose proof RatesJsonProps.number_examples as H. repeat split; apply H.
Qed.
