(* C01 - Cost-base ledger follows the average-cost rules exactly.
   Obligations of the property; proofs live in Proofs/. *)
From Coq Require Import List NArith ZArith QArith Qcanon Bool.
From ACB Require Import Base.Outcome Base.QcExtra Base.Arith Model.Tx Model.Ledger Model.Sfl
     Model.DeltaList Spec.AvgCost Proofs.C01Refine Proofs.FitProps Base.Fit.
Import ListNotations.

(* Full strength, exact half of the property: for EVERY history (any length,
   any number of affiliates, registered or not, any rates, any same-day order,
   with or without an opening position), whatever its outcome (accepted,
   rejected at some row), the share balance, total cost base and capital gain
   of every emitted row are those of the average-cost rules applied in exact
   arithmetic to the effective rows (input rows plus generated adjustments),
   with the denied amount of each sale as reported on its row. *)
Theorem C01_exact_refines_spec : forall init txs ds o,
  run exact init txs = (ds, o) ->
  Forall (fun t => valid_tx t = true) txs ->
  map obs_of ds = spec_rows (spec_init init) (effective ds).
Proof. exact C01Refine.run_exact_refines_spec_valid. Qed.
Check C01_exact_refines_spec : forall init txs ds o,
  run exact init txs = (ds, o) ->
  Forall (fun t => valid_tx t = true) txs ->
  map obs_of ds = spec_rows (spec_init init) (effective ds).
Print Assumptions C01_exact_refines_spec.

(* The algebraic core: removing cost in proportion to the shares sold is the
   same as keeping the per-share cost on the remaining shares. *)
Theorem C01_sale_cost_identity : forall b s a : Qc,
  b <> 0%Qc -> ((b - s) * (a / b) = a - a * s / b)%Qc.
Proof. exact C01Refine.sale_cost_identity. Qed.
Check C01_sale_cost_identity : forall b s a : Qc,
  b <> 0%Qc -> ((b - s) * (a / b) = a - a * s / b)%Qc.
Print Assumptions C01_sale_cost_identity.

(* Rounding half of the property, per operation.  The code's arithmetic
   (rust_decimal, modelled bit-exactly by [fit], re-validated against the real
   crate on every run) returns, for every + - * /, a decimal with s' <= 28
   places whose mantissa fits 96 bits and which lies within half a unit of
   its last place of the exact result (so within 5e-29 for results below 7.9,
   within 5e-17 for results below 7.9e12); it never changes the weak sign; and
   it is exact whenever the exact result is itself such a decimal.  The
   accumulation of these errors over a history (C01_dec_close of DESIGN.md) is
   NOT proved: it is measured on every run (evidence: max_abs_deviation). *)
Theorem C01_rounding_error_per_operation : forall q r : Qc,
  fit q = Some r ->
  exists s', (s' <= 28)%nat /\
    (Qabs.Qabs (this r - this q) <= 1 # (2 * p10 s'))%Q /\
    exists m, (Z.abs m <= max_mant)%Z /\ (this r == m # p10 s')%Q.
Proof. exact FitProps.fit_error. Qed.
Check C01_rounding_error_per_operation : forall q r : Qc,
  fit q = Some r ->
  exists s', (s' <= 28)%nat /\
    (Qabs.Qabs (this r - this q) <= 1 # (2 * p10 s'))%Q /\
    exists m, (Z.abs m <= max_mant)%Z /\ (this r == m # p10 s')%Q.
Print Assumptions C01_rounding_error_per_operation.

Theorem C01_rounding_exact_on_decimals : forall (q : Qc) m s,
  (s <= 28)%nat -> (Z.abs m <= max_mant)%Z -> (this q == m # p10 s)%Q -> fit q = Some q.
Proof. exact FitProps.fit_exact. Qed.
Check C01_rounding_exact_on_decimals : forall (q : Qc) m s,
  (s <= 28)%nat -> (Z.abs m <= max_mant)%Z -> (this q == m # p10 s)%Q -> fit q = Some q.
Print Assumptions C01_rounding_exact_on_decimals.

Theorem C01_rounding_keeps_sign : forall q r : Qc,
  fit q = Some r -> ((0 <= q)%Qc -> (0 <= r)%Qc) /\ ((q <= 0)%Qc -> (r <= 0)%Qc).
Proof. exact FitProps.fit_sign. Qed.
Check C01_rounding_keeps_sign : forall q r : Qc,
  fit q = Some r -> ((0 <= q)%Qc -> (0 <= r)%Qc) /\ ((q <= 0)%Qc -> (r <= 0)%Qc).
Print Assumptions C01_rounding_keeps_sign.

(* Non-vacuity: a 8-row history with three affiliates (one registered), a
   USD purchase, a split, a return of capital after the split and a fully
   superficial loss with a non-terminating denied amount (-139/75) is accepted
   and yields 9 rows (one generated adjustment). *)
Local Open Scope Z_scope.
Definition q (n : Z) (d : positive) := Qcfrac n d.
Definition spouse := {| af_id := 1003; af_reg := false; af_dflt := false |}.
Definition regd := {| af_id := 1001; af_reg := true; af_dflt := true |}.
Definition mk sd a af :=
  {| t_sec := 0; t_td := sd - 2; t_sd := sd; t_act := a; t_af := af; t_glob := false; t_ri := 0 |}.
Definition ex_txs : list tx := [
  mk 100 (Buy (q 10 1) (q 3 2) (q 1 1) (q 13 10) (q 13 10)) default_aff;
  mk 101 (Buy (q 3 1) (q 2 1) (q 0 1) (q 1 1) (q 1 1)) spouse;
  mk 110 (Split (q 3 1) (q 1 1) false) default_aff;
  mk 120 (Roc (q 1 10) (q 1 1)) default_aff;
  mk 130 (Buy (q 5 1) (q 1 1) (q 0 1) (q 1 1) (q 1 1)) regd;
  mk 140 (Sell (q 7 1) (q 2 5) (q 1 2) (q 1 1) (q 1 1) None) default_aff;
  mk 150 (Buy (q 4 1) (q 1 2) (q 0 1) (q 1 1) (q 1 1)) spouse;
  mk 160 (Sell (q 2 1) (q 3 1) (q 0 1) (q 1 1) (q 1 1) None) regd
].
Example C01_nonvacuous :
  forallb valid_tx ex_txs = true /\
  snd (run exact None ex_txs) = None /\
  length (fst (run exact None ex_txs)) = 9%nat /\
  map denied_of (fst (run exact None ex_txs))
  = [0; 0; 0; 0; 0; q (-139) 75; 0; 0; 0]%Qc.
Proof. vm_compute. repeat split. Qed.

(* The rounding clause of the property ("any deviation from the exact result
   ... at most 1e-9") is REFUTED for the faithful model under rust_decimal
   rounding once amounts reach about 1e16 and more: 28 significant digits lose
   up to ~1e-28 x M on an amount of size M.  Two accepted rows with in-range
   cells (|x| < 1e12, at most 10 decimals), gain under rounding vs exact gain
   differ by 1/7000000 > 1e-9.  Replayed on the real code on every run and
   listed as the known finding "large-magnitude"; outside that class (all
   exact figures of the security below 1e16) the check enforces the 1e-9 bound
   on every generated history (measured, not proved: the error of ONE operation
   is bounded by C01_rounding_error_per_operation). *)
Definition w_big : list tx := [
  mk 100 (Buy (q 700000000000 1) (q 100000000000 1) (q 1 1) (q 1 1) (q 1 1)) default_aff;
  mk 200 (Sell (q 100000000000 1) (q 200000000000 1) (q 0 1) (q 1 1) (q 1 1) None) default_aff].
Definition gain_of (A : arith) (l : list tx) (k : nat) : option Qc :=
  match nth_error (fst (run A None l)) k with Some d => d_gain d | None => None end.
Theorem C01_dec_close_refuted :
  forallb valid_tx w_big = true /\
  snd (run dec None w_big) = None /\ snd (run exact None w_big) = None /\
  exists gd ge, gain_of dec w_big 1 = Some gd /\ gain_of exact w_big 1 = Some ge /\
                (q 1 1000000000 < gd - ge)%Qc.
Proof.
  split; [vm_compute; reflexivity|]. split; [vm_compute; reflexivity|]. split; [vm_compute; reflexivity|].
  exists (q 9999999999999999999999857143 1000000), (q 69999999999999999999999 7).
  split; [vm_compute; reflexivity|]. split; [vm_compute; reflexivity|]. vm_compute. reflexivity.
Qed.
Check C01_dec_close_refuted :
  forallb valid_tx w_big = true /\
  snd (run dec None w_big) = None /\ snd (run exact None w_big) = None /\
  exists gd ge, gain_of dec w_big 1 = Some gd /\ gain_of exact w_big 1 = Some ge /\
                (q 1 1000000000 < gd - ge)%Qc.
Print Assumptions C01_dec_close_refuted.

(* ======================================================================
   When does rounding NOT matter?  (Proofs/DecTransfer.v)

   Transfer principle.  [arith_le A B]: every operation that succeeds in A
   returns the same value in B; [op_only A]: the operators of A never reject
   and panic only with PanicOverflow / PanicDivZero.  Then EVERY function of
   the ledger model - and so the whole run - returns in B what it returns in
   A (every row, every rejection, every panic of a constrained-decimal
   constructor, assertion or missing entry: those depend only on the values),
   unless A's run ended with a failure of one of A's own operators
   ([opstopb o = true]); and even then the rows A emitted are a prefix of
   the rows of B. *)
From ACB Require Import Model.App Proofs.DecTransfer Proofs.DecCorollaries.
Local Close Scope Z_scope.

Theorem C01_transfer_principle : forall A B init txs ds o,
  arith_le A B -> op_only A ->
  run A init txs = (ds, o) -> opstopb o = false -> run B init txs = (ds, o).
Proof. exact DecTransfer.transfer_principle. Qed.
Check C01_transfer_principle : forall A B init txs ds o,
  arith_le A B -> op_only A ->
  run A init txs = (ds, o) -> opstopb o = false -> run B init txs = (ds, o).
Print Assumptions C01_transfer_principle.

Theorem C01_transfer_prefix : forall A B init txs ds o,
  arith_le A B -> op_only A ->
  run A init txs = (ds, o) -> exists tl o', run B init txs = (ds ++ tl, o').
Proof. exact DecTransfer.transfer_prefix. Qed.
Check C01_transfer_prefix : forall A B init txs ds o,
  arith_le A B -> op_only A ->
  run A init txs = (ds, o) -> exists tl o', run B init txs = (ds ++ tl, o').
Print Assumptions C01_transfer_prefix.

(* the same for the application pipeline (sorting, per-security split,
   global-split expansion: Model/App.v), which is what the correspondence
   check runs *)
Theorem C01_transfer_principle_app : forall A B inits rows l,
  arith_le A B -> op_only A ->
  run_app A inits rows = Ok l -> forallb sec_ok l = true -> run_app B inits rows = Ok l.
Proof. exact DecTransfer.transfer_principle_app. Qed.
Check C01_transfer_principle_app : forall A B inits rows l,
  arith_le A B -> op_only A ->
  run_app A inits rows = Ok l -> forallb sec_ok l = true -> run_app B inits rows = Ok l.
Print Assumptions C01_transfer_principle_app.

(* [rep]: exact arithmetic that refuses (PanicOverflow) every result that
   rust_decimal would have to round.  It refines both arithmetics, and one of
   its operations succeeds exactly on the decimals with at most 28 places and
   a 96-bit mantissa. *)
Theorem C01_rep_refines_exact_and_dec : arith_le rep exact /\ arith_le rep dec /\ op_only rep.
Proof. exact DecTransfer.rep_refines_both. Qed.
Check C01_rep_refines_exact_and_dec : arith_le rep exact /\ arith_le rep dec /\ op_only rep.
Print Assumptions C01_rep_refines_exact_and_dec.

Theorem C01_rep_succeeds_iff_representable : forall x : Qc,
  rep_res x = Ok x <->
  exists m s, (s <= 28)%nat /\ (Z.abs m <= max_mant)%Z /\ (this x == m # p10 s)%Q.
Proof. exact DecTransfer.rep_res_iff. Qed.
Check C01_rep_succeeds_iff_representable : forall x : Qc,
  rep_res x = Ok x <->
  exists m s, (s <= 28)%nat /\ (Z.abs m <= max_mant)%Z /\ (this x == m # p10 s)%Q.
Print Assumptions C01_rep_succeeds_iff_representable.

(* On every history all of whose exact intermediate values are 28-place /
   96-bit decimals ([run rep] does not stop on an operator failure) the
   ROUNDED ledger IS the EXACT ledger: every row, every rejection, every site
   panic.  All exact-arithmetic theorems apply verbatim to the real
   arithmetic there. *)
Theorem C01_dec_equals_exact_when_representable : forall init txs ds o,
  run rep init txs = (ds, o) -> opstopb o = false ->
  run dec init txs = (ds, o) /\ run exact init txs = (ds, o).
Proof. exact DecTransfer.dec_equals_exact_when_representable. Qed.
Check C01_dec_equals_exact_when_representable : forall init txs ds o,
  run rep init txs = (ds, o) -> opstopb o = false ->
  run dec init txs = (ds, o) /\ run exact init txs = (ds, o).
Print Assumptions C01_dec_equals_exact_when_representable.

Theorem C01_app_dec_equals_exact_when_representable : forall inits rows l,
  run_app rep inits rows = Ok l -> forallb sec_ok l = true ->
  run_app dec inits rows = Ok l /\ run_app exact inits rows = Ok l.
Proof. exact DecTransfer.app_dec_equals_exact_when_representable. Qed.
Check C01_app_dec_equals_exact_when_representable : forall inits rows l,
  run_app rep inits rows = Ok l -> forallb sec_ok l = true ->
  run_app dec inits rows = Ok l /\ run_app exact inits rows = Ok l.
Print Assumptions C01_app_dec_equals_exact_when_representable.

(* in any case the rows emitted before the first non-representable value are
   rows of both ledgers *)
Theorem C01_rep_rows_are_common_prefix : forall init txs ds o,
  run rep init txs = (ds, o) ->
  exists tld od tle oe, run dec init txs = (ds ++ tld, od) /\ run exact init txs = (ds ++ tle, oe).
Proof. exact DecTransfer.rep_rows_are_common_prefix. Qed.
Check C01_rep_rows_are_common_prefix : forall init txs ds o,
  run rep init txs = (ds, o) ->
  exists tld od tle oe, run dec init txs = (ds ++ tld, od) /\ run exact init txs = (ds ++ tle, oe).
Print Assumptions C01_rep_rows_are_common_prefix.

(* C01 itself for the rounded arithmetic, on such histories *)
Theorem C01_dec_refines_spec_when_representable : forall init txs ds o,
  run rep init txs = (ds, o) -> opstopb o = false ->
  Forall (fun t => valid_tx t = true) txs ->
  run dec init txs = (ds, o) /\
  map obs_of ds = spec_rows (spec_init init) (effective ds).
Proof. exact DecCorollaries.dec_refines_spec_when_representable. Qed.
Check C01_dec_refines_spec_when_representable : forall init txs ds o,
  run rep init txs = (ds, o) -> opstopb o = false ->
  Forall (fun t => valid_tx t = true) txs ->
  run dec init txs = (ds, o) /\
  map obs_of ds = spec_rows (spec_init init) (effective ds).
Print Assumptions C01_dec_refines_spec_when_representable.

(* Non-vacuity: seven rows, two affiliates, a USD purchase, a sale at a loss
   of 5 of 10 shares followed within 30 days by a 5-for-2 split (finite factor
   2.5) and a repurchase of 4 (1.6 shares before the split): 32% of the loss
   (-2.608) is superficial and denied, one adjustment row is generated, then a
   second affiliate, a return of capital and a sale with a gain.  [run rep]
   accepts all of it, so the rounded and the exact ledger coincide (8 rows). *)
Local Open Scope Z_scope.
Definition ex_rep : list tx := [
  mk 100 (Buy (q 10 1) (q 3 2) (q 1 1) (q 13 10) (q 13 10)) default_aff;
  mk 140 (Sell (q 5 1) (q 1 2) (q 1 4) (q 1 1) (q 1 1) None) default_aff;
  mk 145 (Split (q 5 1) (q 2 1) false) default_aff;
  mk 150 (Buy (q 4 1) (q 1 2) (q 0 1) (q 1 1) (q 1 1)) default_aff;
  mk 300 (Buy (q 6 1) (q 2 1) (q 0 1) (q 1 1) (q 1 1)) spouse;
  mk 310 (Roc (q 1 10) (q 1 1)) default_aff;
  mk 400 (Sell (q 3 1) (q 3 1) (q 0 1) (q 1 1) (q 1 1) None) spouse
].
Example C01_rep_nonvacuous :
  forallb valid_tx ex_rep = true /\
  opstopb (snd (run rep None ex_rep)) = false /\ snd (run rep None ex_rep) = None /\
  length (fst (run rep None ex_rep)) = 8%nat /\
  map (fun d => this (denied_of d)) (fst (run rep None ex_rep))
  = [0; (-326) # 125; 0; 0; 0; 0; 0; 0]%Q /\
  run dec None ex_rep = run rep None ex_rep /\ run exact None ex_rep = run rep None ex_rep.
Proof.
  assert (Ho : opstopb (snd (run rep None ex_rep)) = false) by (vm_compute; reflexivity).
  destruct (C01_dec_equals_exact_when_representable None ex_rep _ _
              (surjective_pairing (run rep None ex_rep)) Ho) as [Hd He].
  rewrite Hd, He, <- surjective_pairing. vm_compute. repeat split.
Qed.

(* ... and a history it refuses: 3 shares bought for 10 in all, one sold -
   the per-share cost 10/3 is not a decimal; there the two ledgers do differ
   (cost base 6.6666666666666666666666666666 against 20/3) - after the first
   row, which they share by C01_rep_rows_are_common_prefix. *)
Definition ex_thirds : list tx := [
  mk 100 (Buy (q 3 1) (q 3 1) (q 1 1) (q 1 1) (q 1 1)) default_aff;
  mk 200 (Sell (q 1 1) (q 5 1) (q 0 1) (q 1 1) (q 1 1) None) default_aff ].
Example C01_rep_refuses_thirds :
  snd (run rep None ex_thirds) = Some (SPanic PanicOverflow) /\
  length (fst (run rep None ex_thirds)) = 1%nat /\
  run dec None ex_thirds <> run exact None ex_thirds.
Proof.
  split; [vm_compute; reflexivity|]. split; [vm_compute; reflexivity|].
  intros H. apply (f_equal (fun r => map (fun d => s_acb (d_post d)) (fst r))) in H.
  vm_compute in H. discriminate H.
Qed.
