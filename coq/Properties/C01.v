(* C01 - Cost-base ledger follows the average-cost rules exactly.
   Obligations of the property; proofs live in Proofs/. *)
From Coq Require Import List NArith ZArith QArith Qcanon Bool.
From ACB Require Import Base.Outcome Base.QcExtra Base.Arith Model.Tx Model.Ledger Model.Sfl
     Model.DeltaList Spec.AvgCost Proofs.C01Refine Proofs.FitProps Base.Fit.
Import ListNotations.

(* Full strength, exact half of the property: for EVERY history (any length,
   any number of affiliates, registered or not, any rates, any same-day order,
   with or without an opening position), whatever its outcome (accepted,
   rejected at some row), the share balance, total cost base and capital gain
   of every emitted row are those of the average-cost rules applied in exact
   arithmetic to the effective rows (input rows plus generated adjustments),
   with the denied amount of each sale as reported on its row. *)
Theorem C01_exact_refines_spec : forall init txs ds o,
  run exact init txs = (ds, o) ->
  Forall (fun t => valid_tx t = true) txs ->
  map obs_of ds = spec_rows (spec_init init) (effective ds).
Proof. exact C01Refine.run_exact_refines_spec_valid. Qed.
Check C01_exact_refines_spec : forall init txs ds o,
  run exact init txs = (ds, o) ->
  Forall (fun t => valid_tx t = true) txs ->
  map obs_of ds = spec_rows (spec_init init) (effective ds).
Print Assumptions C01_exact_refines_spec.

(* The algebraic core: removing cost in proportion to the shares sold is the
   same as keeping the per-share cost on the remaining shares. *)
Theorem C01_sale_cost_identity : forall b s a : Qc,
  b <> 0%Qc -> ((b - s) * (a / b) = a - a * s / b)%Qc.
Proof. exact C01Refine.sale_cost_identity. Qed.
Check C01_sale_cost_identity : forall b s a : Qc,
  b <> 0%Qc -> ((b - s) * (a / b) = a - a * s / b)%Qc.
Print Assumptions C01_sale_cost_identity.

(* Rounding half of the property, per operation.  The code's arithmetic
   (rust_decimal, modelled bit-exactly by [fit], re-validated against the real
   crate on every run) returns, for every + - * /, a decimal with s' <= 28
   places whose mantissa fits 96 bits and which lies within half a unit of
   its last place of the exact result (so within 5e-29 for results below 7.9,
   within 5e-17 for results below 7.9e12); it never changes the weak sign; and
   it is exact whenever the exact result is itself such a decimal.  The
   accumulation of these errors over a history (C01_dec_close of DESIGN.md) is
   NOT proved: it is measured on every run (evidence: max_abs_deviation). *)
Theorem C01_rounding_error_per_operation : forall q r : Qc,
  fit q = Some r ->
  exists s', (s' <= 28)%nat /\
    (Qabs.Qabs (this r - this q) <= 1 # (2 * p10 s'))%Q /\
    exists m, (Z.abs m <= max_mant)%Z /\ (this r == m # p10 s')%Q.
Proof. exact FitProps.fit_error. Qed.
Check C01_rounding_error_per_operation : forall q r : Qc,
  fit q = Some r ->
  exists s', (s' <= 28)%nat /\
    (Qabs.Qabs (this r - this q) <= 1 # (2 * p10 s'))%Q /\
    exists m, (Z.abs m <= max_mant)%Z /\ (this r == m # p10 s')%Q.
Print Assumptions C01_rounding_error_per_operation.

Theorem C01_rounding_exact_on_decimals : forall (q : Qc) m s,
  (s <= 28)%nat -> (Z.abs m <= max_mant)%Z -> (this q == m # p10 s)%Q -> fit q = Some q.
Proof. exact FitProps.fit_exact. Qed.
Check C01_rounding_exact_on_decimals : forall (q : Qc) m s,
  (s <= 28)%nat -> (Z.abs m <= max_mant)%Z -> (this q == m # p10 s)%Q -> fit q = Some q.
Print Assumptions C01_rounding_exact_on_decimals.

Theorem C01_rounding_keeps_sign : forall q r : Qc,
  fit q = Some r -> ((0 <= q)%Qc -> (0 <= r)%Qc) /\ ((q <= 0)%Qc -> (r <= 0)%Qc).
Proof. exact FitProps.fit_sign. Qed.
Check C01_rounding_keeps_sign : forall q r : Qc,
  fit q = Some r -> ((0 <= q)%Qc -> (0 <= r)%Qc) /\ ((q <= 0)%Qc -> (r <= 0)%Qc).
Print Assumptions C01_rounding_keeps_sign.

(* Non-vacuity: a 8-row history with three affiliates (one registered), a
   USD purchase, a split, a return of capital after the split and a fully
   superficial loss with a non-terminating denied amount (-139/75) is accepted
   and yields 9 rows (one generated adjustment). *)
Local Open Scope Z_scope.
Definition q (n : Z) (d : positive) := Qcfrac n d.
Definition spouse := {| af_id := 1003; af_reg := false; af_dflt := false |}.
Definition regd := {| af_id := 1001; af_reg := true; af_dflt := true |}.
Definition mk sd a af :=
  {| t_sec := 0; t_td := sd - 2; t_sd := sd; t_act := a; t_af := af; t_glob := false; t_ri := 0 |}.
Definition ex_txs : list tx := [
  mk 100 (Buy (q 10 1) (q 3 2) (q 1 1) (q 13 10) (q 13 10)) default_aff;
  mk 101 (Buy (q 3 1) (q 2 1) (q 0 1) (q 1 1) (q 1 1)) spouse;
  mk 110 (Split (q 3 1) (q 1 1) false) default_aff;
  mk 120 (Roc (q 1 10) (q 1 1)) default_aff;
  mk 130 (Buy (q 5 1) (q 1 1) (q 0 1) (q 1 1) (q 1 1)) regd;
  mk 140 (Sell (q 7 1) (q 2 5) (q 1 2) (q 1 1) (q 1 1) None) default_aff;
  mk 150 (Buy (q 4 1) (q 1 2) (q 0 1) (q 1 1) (q 1 1)) spouse;
  mk 160 (Sell (q 2 1) (q 3 1) (q 0 1) (q 1 1) (q 1 1) None) regd
].
Example C01_nonvacuous :
  forallb valid_tx ex_txs = true /\
  snd (run exact None ex_txs) = None /\
  length (fst (run exact None ex_txs)) = 9%nat /\
  map denied_of (fst (run exact None ex_txs))
  = [0; 0; 0; 0; 0; q (-139) 75; 0; 0; 0]%Qc.
Proof. vm_compute. repeat split. Qed.

(* The rounding clause of the property ("any deviation from the exact result
   ... at most 1e-9") is REFUTED for the faithful model under rust_decimal
   rounding once amounts reach about 1e16 and more: 28 significant digits lose
   up to ~1e-28 x M on an amount of size M.  Two accepted rows with in-range
   cells (|x| < 1e12, at most 10 decimals), gain under rounding vs exact gain
   differ by 1/7000000 > 1e-9.  Replayed on the real code on every run and
   listed as the known finding "large-magnitude"; outside that class (all
   exact figures of the security below 1e16) the check enforces the 1e-9 bound
   on every generated history (measured, not proved: the error of ONE operation
   is bounded by C01_rounding_error_per_operation). *)
Definition w_big : list tx := [
  mk 100 (Buy (q 700000000000 1) (q 100000000000 1) (q 1 1) (q 1 1) (q 1 1)) default_aff;
  mk 200 (Sell (q 100000000000 1) (q 200000000000 1) (q 0 1) (q 1 1) (q 1 1) None) default_aff].
Definition gain_of (A : arith) (l : list tx) (k : nat) : option Qc :=
  match nth_error (fst (run A None l)) k with Some d => d_gain d | None => None end.
Theorem C01_dec_close_refuted :
  forallb valid_tx w_big = true /\
  snd (run dec None w_big) = None /\ snd (run exact None w_big) = None /\
  exists gd ge, gain_of dec w_big 1 = Some gd /\ gain_of exact w_big 1 = Some ge /\
                (q 1 1000000000 < gd - ge)%Qc.
Proof.
  split; [vm_compute; reflexivity|]. split; [vm_compute; reflexivity|]. split; [vm_compute; reflexivity|].
  exists (q 9999999999999999999999857143 1000000), (q 69999999999999999999999 7).
  split; [vm_compute; reflexivity|]. split; [vm_compute; reflexivity|]. vm_compute. reflexivity.
Qed.
Check C01_dec_close_refuted :
  forallb valid_tx w_big = true /\
  snd (run dec None w_big) = None /\ snd (run exact None w_big) = None /\
  exists gd ge, gain_of dec w_big 1 = Some gd /\ gain_of exact w_big 1 = Some ge /\
                (q 1 1000000000 < gd - ge)%Qc.
Print Assumptions C01_dec_close_refuted.

(* ======================================================================
   When does rounding NOT matter?  (Proofs/DecTransfer.v)

   Transfer principle.  [arith_le A B]: every operation that succeeds in A
   returns the same value in B; [op_only A]: the operators of A never reject
   and panic only with PanicOverflow / PanicDivZero.  Then EVERY function of
   the ledger model - and so the whole run - returns in B what it returns in
   A (every row, every rejection, every panic of a constrained-decimal
   constructor, assertion or missing entry: those depend only on the values),
   unless A's run ended with a failure of one of A's own operators
   ([opstopb o = true]); and even then the rows A emitted are a prefix of
   the rows of B. *)
From ACB Require Import Model.App Proofs.DecTransfer Proofs.DecCorollaries.
Local Close Scope Z_scope.

Theorem C01_transfer_principle : forall A B init txs ds o,
  arith_le A B -> op_only A ->
  run A init txs = (ds, o) -> opstopb o = false -> run B init txs = (ds, o).
Proof. exact DecTransfer.transfer_principle. Qed.
Check C01_transfer_principle : forall A B init txs ds o,
  arith_le A B -> op_only A ->
  run A init txs = (ds, o) -> opstopb o = false -> run B init txs = (ds, o).
Print Assumptions C01_transfer_principle.

Theorem C01_transfer_prefix : forall A B init txs ds o,
  arith_le A B -> op_only A ->
  run A init txs = (ds, o) -> exists tl o', run B init txs = (ds ++ tl, o').
Proof. exact DecTransfer.transfer_prefix. Qed.
Check C01_transfer_prefix : forall A B init txs ds o,
  arith_le A B -> op_only A ->
  run A init txs = (ds, o) -> exists tl o', run B init txs = (ds ++ tl, o').
Print Assumptions C01_transfer_prefix.

(* the same for the application pipeline (sorting, per-security split,
   global-split expansion: Model/App.v), which is what the correspondence
   check runs *)
Theorem C01_transfer_principle_app : forall A B inits rows l,
  arith_le A B -> op_only A ->
  run_app A inits rows = Ok l -> forallb sec_ok l = true -> run_app B inits rows = Ok l.
Proof. exact DecTransfer.transfer_principle_app. Qed.
Check C01_transfer_principle_app : forall A B inits rows l,
  arith_le A B -> op_only A ->
  run_app A inits rows = Ok l -> forallb sec_ok l = true -> run_app B inits rows = Ok l.
Print Assumptions C01_transfer_principle_app.

(* [rep]: exact arithmetic that refuses (PanicOverflow) every result that
   rust_decimal would have to round.  It refines both arithmetics, and one of
   its operations succeeds exactly on the decimals with at most 28 places and
   a 96-bit mantissa. *)
Theorem C01_rep_refines_exact_and_dec : arith_le rep exact /\ arith_le rep dec /\ op_only rep.
Proof. exact DecTransfer.rep_refines_both. Qed.
Check C01_rep_refines_exact_and_dec : arith_le rep exact /\ arith_le rep dec /\ op_only rep.
Print Assumptions C01_rep_refines_exact_and_dec.

Theorem C01_rep_succeeds_iff_representable : forall x : Qc,
  rep_res x = Ok x <->
  exists m s, (s <= 28)%nat /\ (Z.abs m <= max_mant)%Z /\ (this x == m # p10 s)%Q.
Proof. exact DecTransfer.rep_res_iff. Qed.
Check C01_rep_succeeds_iff_representable : forall x : Qc,
  rep_res x = Ok x <->
  exists m s, (s <= 28)%nat /\ (Z.abs m <= max_mant)%Z /\ (this x == m # p10 s)%Q.
Print Assumptions C01_rep_succeeds_iff_representable.

(* On every history all of whose exact intermediate values are 28-place /
   96-bit decimals ([run rep] does not stop on an operator failure) the
   ROUNDED ledger IS the EXACT ledger: every row, every rejection, every site
   panic.  All exact-arithmetic theorems apply verbatim to the real
   arithmetic there. *)
Theorem C01_dec_equals_exact_when_representable : forall init txs ds o,
  run rep init txs = (ds, o) -> opstopb o = false ->
  run dec init txs = (ds, o) /\ run exact init txs = (ds, o).
Proof. exact DecTransfer.dec_equals_exact_when_representable. Qed.
Check C01_dec_equals_exact_when_representable : forall init txs ds o,
  run rep init txs = (ds, o) -> opstopb o = false ->
  run dec init txs = (ds, o) /\ run exact init txs = (ds, o).
Print Assumptions C01_dec_equals_exact_when_representable.

Theorem C01_app_dec_equals_exact_when_representable : forall inits rows l,
  run_app rep inits rows = Ok l -> forallb sec_ok l = true ->
  run_app dec inits rows = Ok l /\ run_app exact inits rows = Ok l.
Proof. exact DecTransfer.app_dec_equals_exact_when_representable. Qed.
Check C01_app_dec_equals_exact_when_representable : forall inits rows l,
  run_app rep inits rows = Ok l -> forallb sec_ok l = true ->
  run_app dec inits rows = Ok l /\ run_app exact inits rows = Ok l.
Print Assumptions C01_app_dec_equals_exact_when_representable.

(* in any case the rows emitted before the first non-representable value are
   rows of both ledgers *)
Theorem C01_rep_rows_are_common_prefix : forall init txs ds o,
  run rep init txs = (ds, o) ->
  exists tld od tle oe, run dec init txs = (ds ++ tld, od) /\ run exact init txs = (ds ++ tle, oe).
Proof. exact DecTransfer.rep_rows_are_common_prefix. Qed.
Check C01_rep_rows_are_common_prefix : forall init txs ds o,
  run rep init txs = (ds, o) ->
  exists tld od tle oe, run dec init txs = (ds ++ tld, od) /\ run exact init txs = (ds ++ tle, oe).
Print Assumptions C01_rep_rows_are_common_prefix.

(* C01 itself for the rounded arithmetic, on such histories *)
Theorem C01_dec_refines_spec_when_representable : forall init txs ds o,
  run rep init txs = (ds, o) -> opstopb o = false ->
  Forall (fun t => valid_tx t = true) txs ->
  run dec init txs = (ds, o) /\
  map obs_of ds = spec_rows (spec_init init) (effective ds).
Proof. exact DecCorollaries.dec_refines_spec_when_representable. Qed.
Check C01_dec_refines_spec_when_representable : forall init txs ds o,
  run rep init txs = (ds, o) -> opstopb o = false ->
  Forall (fun t => valid_tx t = true) txs ->
  run dec init txs = (ds, o) /\
  map obs_of ds = spec_rows (spec_init init) (effective ds).
Print Assumptions C01_dec_refines_spec_when_representable.

(* Non-vacuity: seven rows, two affiliates, a USD purchase, a sale at a loss
   of 5 of 10 shares followed within 30 days by a 5-for-2 split (finite factor
   2.5) and a repurchase of 4 (1.6 shares before the split): 32% of the loss
   (-2.608) is superficial and denied, one adjustment row is generated, then a
   second affiliate, a return of capital and a sale with a gain.  [run rep]
   accepts all of it, so the rounded and the exact ledger coincide (8 rows). *)
Local Open Scope Z_scope.
Definition ex_rep : list tx := [
  mk 100 (Buy (q 10 1) (q 3 2) (q 1 1) (q 13 10) (q 13 10)) default_aff;
  mk 140 (Sell (q 5 1) (q 1 2) (q 1 4) (q 1 1) (q 1 1) None) default_aff;
  mk 145 (Split (q 5 1) (q 2 1) false) default_aff;
  mk 150 (Buy (q 4 1) (q 1 2) (q 0 1) (q 1 1) (q 1 1)) default_aff;
  mk 300 (Buy (q 6 1) (q 2 1) (q 0 1) (q 1 1) (q 1 1)) spouse;
  mk 310 (Roc (q 1 10) (q 1 1)) default_aff;
  mk 400 (Sell (q 3 1) (q 3 1) (q 0 1) (q 1 1) (q 1 1) None) spouse
].
Example C01_rep_nonvacuous :
  forallb valid_tx ex_rep = true /\
  opstopb (snd (run rep None ex_rep)) = false /\ snd (run rep None ex_rep) = None /\
  length (fst (run rep None ex_rep)) = 8%nat /\
  map (fun d => this (denied_of d)) (fst (run rep None ex_rep))
  = [0; (-326) # 125; 0; 0; 0; 0; 0; 0]%Q /\
  run dec None ex_rep = run rep None ex_rep /\ run exact None ex_rep = run rep None ex_rep.
Proof.
  assert (Ho : opstopb (snd (run rep None ex_rep)) = false) by (vm_compute; reflexivity).
  destruct (C01_dec_equals_exact_when_representable None ex_rep _ _
              (surjective_pairing (run rep None ex_rep)) Ho) as [Hd He].
  rewrite Hd, He, <- surjective_pairing. vm_compute. repeat split.
Qed.

(* ... and a history it refuses: 3 shares bought for 10 in all, one sold -
   the per-share cost 10/3 is not a decimal; there the two ledgers do differ
   (cost base 6.6666666666666666666666666666 against 20/3) - after the first
   row, which they share by C01_rep_rows_are_common_prefix. *)
Definition ex_thirds : list tx := [
  mk 100 (Buy (q 3 1) (q 3 1) (q 1 1) (q 1 1) (q 1 1)) default_aff;
  mk 200 (Sell (q 1 1) (q 5 1) (q 0 1) (q 1 1) (q 1 1) None) default_aff ].
Example C01_rep_refuses_thirds :
  snd (run rep None ex_thirds) = Some (SPanic PanicOverflow) /\
  length (fst (run rep None ex_thirds)) = 1%nat /\
  run dec None ex_thirds <> run exact None ex_thirds.
Proof.
  split; [vm_compute; reflexivity|]. split; [vm_compute; reflexivity|].
  intros H. apply (f_equal (fun r => map (fun d => s_acb (d_post d)) (fst r))) in H.
  vm_compute in H. discriminate H.
Qed.

(* ======================================================================
   One row WITH rounding (Proofs/DecRowError.v).
   [T j] = 10^j, [u j] = 1/(2 * 10^(28-j)): half a unit of the last place
   rust_decimal keeps for a result of magnitude at most 10^j. *)
From ACB Require Import Proofs.DecRowError.
Local Close Scope Z_scope.
Local Open Scope Qc_scope.

(* one operation, in terms of the magnitude of its exact result *)
Theorem C01_rounding_error_by_magnitude : forall (x r : Qc) (j : nat),
  (j <= 28)%nat -> fit x = Some r -> - T j <= x -> x <= T j ->
  x - u j <= r /\ r <= x + u j.
Proof. exact DecRowError.fit_within. Qed.
Check C01_rounding_error_by_magnitude : forall (x r : Qc) (j : nat),
  (j <= 28)%nat -> fit x = Some r -> - T j <= x -> x <= T j ->
  x - u j <= r /\ r <= x + u j.
Print Assumptions C01_rounding_error_by_magnitude.

(* The cost base after a Buy row, from a rounded and an exact pre-state whose
   cost bases differ by at most eps: shares, price and commission at most
   10^k, both exchange rates at most 10, the cost base so far at most
   10^(2k+1).  Each of the five operations of the arm (price x shares, x rate,
   commission x rate, their sum, the sum with the old cost base) adds at most
   half a unit of its last place: the new cost bases differ by at most
   eps + 10 u(2k) + 4 u(2k+2) = eps + 2.05 * 10^-(26-2k)
   (k = 6: quantities up to a million, error growth 2.05e-14 per row). *)
Theorem C01_buy_row_error : forall (k : nat) (eps : Qc) t pre_d pre_e sh aps com rate crate od oe dd de,
  (2 * k + 2 <= 28)%nat ->
  t_act t = Buy sh aps com rate crate -> valid_tx t = true ->
  s_acb pre_d = Some od -> s_acb pre_e = Some oe ->
  oe - eps <= od -> od <= oe + eps ->
  sh <= T k -> aps <= T k -> com <= T k -> rate <= T 1 -> crate <= T 1 ->
  0 <= od -> od <= T (2 * k + 1) ->
  delta_nonsell dec t pre_d = Ok dd -> delta_nonsell exact t pre_e = Ok de ->
  exists nd ne,
    s_acb (d_post dd) = Some nd /\ s_acb (d_post de) = Some ne /\
    ne = oe + (aps * sh * rate + com * crate) /\
    ne - (eps + u (2 * k) * T 1 + (1 + 1 + 1 + 1) * u (2 * k + 2)) <= nd /\
    nd <= ne + (eps + u (2 * k) * T 1 + (1 + 1 + 1 + 1) * u (2 * k + 2)).
Proof. exact DecRowError.buy_row_error_pow10. Qed.
Check C01_buy_row_error : forall (k : nat) (eps : Qc) t pre_d pre_e sh aps com rate crate od oe dd de,
  (2 * k + 2 <= 28)%nat ->
  t_act t = Buy sh aps com rate crate -> valid_tx t = true ->
  s_acb pre_d = Some od -> s_acb pre_e = Some oe ->
  oe - eps <= od -> od <= oe + eps ->
  sh <= T k -> aps <= T k -> com <= T k -> rate <= T 1 -> crate <= T 1 ->
  0 <= od -> od <= T (2 * k + 1) ->
  delta_nonsell dec t pre_d = Ok dd -> delta_nonsell exact t pre_e = Ok de ->
  exists nd ne,
    s_acb (d_post dd) = Some nd /\ s_acb (d_post de) = Some ne /\
    ne = oe + (aps * sh * rate + com * crate) /\
    ne - (eps + u (2 * k) * T 1 + (1 + 1 + 1 + 1) * u (2 * k + 2)) <= nd /\
    nd <= ne + (eps + u (2 * k) * T 1 + (1 + 1 + 1 + 1) * u (2 * k + 2)).
Print Assumptions C01_buy_row_error.

(* the general form: separate bounds for the product price x shares (10^j1),
   the rate (R), the commission in CAD (C), the old cost base (O), all values
   of the arm below 10^J *)
Theorem C01_buy_row_error_general : forall (j1 J : nat) (R C O eps : Qc) t pre_d pre_e sh aps com rate crate od oe dd de,
  (j1 <= 28)%nat -> (J <= 28)%nat ->
  t_act t = Buy sh aps com rate crate -> valid_tx t = true ->
  s_acb pre_d = Some od -> s_acb pre_e = Some oe ->
  oe - eps <= od -> od <= oe + eps ->
  aps * sh <= T j1 -> rate <= R -> com * crate <= C -> 0 <= od -> od <= O ->
  O + (T j1 + 1) * R + C + (1 + 1 + 1) <= T J ->
  delta_nonsell dec t pre_d = Ok dd -> delta_nonsell exact t pre_e = Ok de ->
  exists nd ne,
    s_acb (d_post dd) = Some nd /\ s_acb (d_post de) = Some ne /\
    ne = oe + (aps * sh * rate + com * crate) /\
    ne - (eps + u j1 * R + (1 + 1 + 1 + 1) * u J) <= nd /\
    nd <= ne + (eps + u j1 * R + (1 + 1 + 1 + 1) * u J).
Proof. exact DecRowError.buy_row_error. Qed.
Check C01_buy_row_error_general : forall (j1 J : nat) (R C O eps : Qc) t pre_d pre_e sh aps com rate crate od oe dd de,
  (j1 <= 28)%nat -> (J <= 28)%nat ->
  t_act t = Buy sh aps com rate crate -> valid_tx t = true ->
  s_acb pre_d = Some od -> s_acb pre_e = Some oe ->
  oe - eps <= od -> od <= oe + eps ->
  aps * sh <= T j1 -> rate <= R -> com * crate <= C -> 0 <= od -> od <= O ->
  O + (T j1 + 1) * R + C + (1 + 1 + 1) <= T J ->
  delta_nonsell dec t pre_d = Ok dd -> delta_nonsell exact t pre_e = Ok de ->
  exists nd ne,
    s_acb (d_post dd) = Some nd /\ s_acb (d_post de) = Some ne /\
    ne = oe + (aps * sh * rate + com * crate) /\
    ne - (eps + u j1 * R + (1 + 1 + 1 + 1) * u J) <= nd /\
    nd <= ne + (eps + u j1 * R + (1 + 1 + 1 + 1) * u J).
Print Assumptions C01_buy_row_error_general.

(* Non-vacuity (k = 2): 3.5 shares at 7.77 USD (rate 1.3456) plus 9.99
   commission, bought from a cost base of 10/3 (exact) resp.
   3.3333333333333333333333333333 (rounded; eps = 10^-28): every hypothesis
   holds, both arms succeed, and the two new cost bases do differ. *)
Local Open Scope Z_scope.
Definition bre_t : tx := mk 100 (Buy (q 35 10) (q 777 100) (q 999 100) (q 13456 10000) (q 13456 10000)) default_aff.
Definition bre_pre (acb : Qc) : status := {| s_sh := q 2 1; s_all := q 2 1; s_acb := Some acb |}.
Definition bre_od : Qc := q 33333333333333333333333333333 10000000000000000000000000000.
Definition bre_oe : Qc := q 10 3.
Definition bre_eps : Qc := q 1 10000000000000000000000000000.
Local Close Scope Z_scope.
Example C01_buy_row_error_nonvacuous :
  valid_tx bre_t = true /\
  (bre_oe - bre_eps <= bre_od /\ bre_od <= bre_oe + bre_eps) /\
  (q 35 10 <= T 2 /\ q 777 100 <= T 2 /\ q 999 100 <= T 2 /\ q 13456 10000 <= T 1) /\
  (0 <= bre_od /\ bre_od <= T (2 * 2 + 1)) /\
  is_ok (delta_nonsell dec bre_t (bre_pre bre_od)) = true /\
  is_ok (delta_nonsell exact bre_t (bre_pre bre_oe)) = true /\
  match delta_nonsell dec bre_t (bre_pre bre_od), delta_nonsell exact bre_t (bre_pre bre_oe) with
  | Ok dd, Ok de => match s_acb (d_post dd), s_acb (d_post de) with
                    | Some nd, Some ne => this nd <> this ne
                    | _, _ => False
                    end
  | _, _ => False
  end.
Proof.
  split; [vm_compute; reflexivity|].
  split; [split; vm_compute; discriminate|].
  split; [repeat split; vm_compute; discriminate|].
  split; [split; vm_compute; discriminate|].
  split; [vm_compute; reflexivity|]. split; [vm_compute; reflexivity|].
  vm_compute. discriminate.
Qed.

(* Packaging of "all exact-arithmetic theorems apply verbatim": any statement
   P proved for all runs of the exact ledger holds for the run of the ROUNDED
   ledger on every history the representable arithmetic accepts. *)
Theorem C01_exact_theorems_transfer :
  forall P : option status -> list tx -> list delta -> option stop -> Prop,
  (forall init txs ds o, run exact init txs = (ds, o) -> P init txs ds o) ->
  forall init txs ds o,
    run rep init txs = (ds, o) -> opstopb o = false ->
    run dec init txs = (ds, o) /\ P init txs ds o.
Proof. exact DecTransfer.exact_theorems_transfer. Qed.
Check C01_exact_theorems_transfer :
  forall P : option status -> list tx -> list delta -> option stop -> Prop,
  (forall init txs ds o, run exact init txs = (ds, o) -> P init txs ds o) ->
  forall init txs ds o,
    run rep init txs = (ds, o) -> opstopb o = false ->
    run dec init txs = (ds, o) /\ P init txs ds o.
Print Assumptions C01_exact_theorems_transfer.

(* ------------------------------------------------------------------------
   Rounding half of C01, continued (branch ext/dec2): the other arms of one
   row, and the accumulation over a history without superficial losses
   (Proofs/DecSellError.v, DecSellRow.v, DecAccumulate.v). *)
From ACB Require Import Proofs.DecSellError Proofs.DecSellRow Proofs.DecAccumulate.

(* The Sell arm below the superficial-loss computation ([sell_core]: the
   remaining shares, the ROUNDED per-share cost = cost base / shares, the new
   cost base = remaining shares x per-share cost, proceeds, commission, cost of
   the shares sold = per-share cost x sold, gain), from a rounded and an exact
   pre-state with the same share balance whose cost bases differ by at most
   eps: shares held and sold, price, commission at most 10^k, rates at most
   10, the per-share cost at most 10^(k+1), and the remaining share count not
   rounded.  The incoming eps is passed on with the factor remaining / held
   (resp. sold / held) <= 1; the roundings of the arm add
     new cost base: 10^k u(k+1) + u(2k+2)            = 0.55 * 10^-(26-2k)
     gain:          10 u(2k) + 10^k u(k+1) + 5 u(2k+2) = 2.6 * 10^-(26-2k). *)
Theorem C01_sell_row_error : forall (k : nat) (eps : Qc) pre_d pre_e sh aps com rate crate od oe cd ce,
  (2 * k + 2 <= 28)%nat ->
  0 < sh -> 0 <= aps -> 0 <= com -> 0 < rate -> 0 < crate ->
  s_sh pre_d = s_sh pre_e -> s_acb pre_d = Some od -> s_acb pre_e = Some oe ->
  0 <= eps -> oe - eps <= od -> od <= oe + eps ->
  sh <= T k -> aps <= T k -> com <= T k -> rate <= T 1 -> crate <= T 1 -> s_sh pre_d <= T k ->
  0 <= od -> od <= T (k + 1) * s_sh pre_d ->
  sell_core dec pre_d sh aps com rate crate = Ok cd ->
  sell_core exact pre_e sh aps com rate crate = Ok ce ->
  sc_sh cd = sc_sh ce ->
  exists nd ne gd ge,
    sc_acb cd = Some nd /\ sc_acb ce = Some ne /\ sc_gain cd = Some gd /\ sc_gain ce = Some ge /\
    ne = (s_sh pre_e - sh) * (oe / s_sh pre_e) /\
    ge = aps * sh * rate - com * crate - oe / s_sh pre_e * sh /\
    (ne - (eps + T k * u (k + 1) + u (2 * k + 2)) <= nd /\ nd <= ne + (eps + T k * u (k + 1) + u (2 * k + 2))) /\
    (ge - (eps + u (2 * k) * T 1 + T k * u (k + 1) + (1 + 1 + 1 + 1 + 1) * u (2 * k + 2)) <= gd /\
     gd <= ge + (eps + u (2 * k) * T 1 + T k * u (k + 1) + (1 + 1 + 1 + 1 + 1) * u (2 * k + 2))) /\
    0 <= nd.
Proof. exact DecSellRow.sell_row_error_pow10. Qed.
Check C01_sell_row_error : forall (k : nat) (eps : Qc) pre_d pre_e sh aps com rate crate od oe cd ce,
  (2 * k + 2 <= 28)%nat ->
  0 < sh -> 0 <= aps -> 0 <= com -> 0 < rate -> 0 < crate ->
  s_sh pre_d = s_sh pre_e -> s_acb pre_d = Some od -> s_acb pre_e = Some oe ->
  0 <= eps -> oe - eps <= od -> od <= oe + eps ->
  sh <= T k -> aps <= T k -> com <= T k -> rate <= T 1 -> crate <= T 1 -> s_sh pre_d <= T k ->
  0 <= od -> od <= T (k + 1) * s_sh pre_d ->
  sell_core dec pre_d sh aps com rate crate = Ok cd ->
  sell_core exact pre_e sh aps com rate crate = Ok ce ->
  sc_sh cd = sc_sh ce ->
  exists nd ne gd ge,
    sc_acb cd = Some nd /\ sc_acb ce = Some ne /\ sc_gain cd = Some gd /\ sc_gain ce = Some ge /\
    ne = (s_sh pre_e - sh) * (oe / s_sh pre_e) /\
    ge = aps * sh * rate - com * crate - oe / s_sh pre_e * sh /\
    (ne - (eps + T k * u (k + 1) + u (2 * k + 2)) <= nd /\ nd <= ne + (eps + T k * u (k + 1) + u (2 * k + 2))) /\
    (ge - (eps + u (2 * k) * T 1 + T k * u (k + 1) + (1 + 1 + 1 + 1 + 1) * u (2 * k + 2)) <= gd /\
     gd <= ge + (eps + u (2 * k) * T 1 + T k * u (k + 1) + (1 + 1 + 1 + 1 + 1) * u (2 * k + 2))) /\
    0 <= nd.
Print Assumptions C01_sell_row_error.

(* general form: price x sold <= 10^j1, rate <= R, commission in CAD <= C,
   shares held <= N, per-share cost <= 10^jp, all values of the arm < 10^J *)
Theorem C01_sell_row_error_general : forall (j1 jp J : nat) (R C N eps : Qc) pre_d pre_e sh aps com rate crate od oe cd ce,
  (j1 <= 28)%nat -> (jp <= 28)%nat -> (J <= 28)%nat ->
  0 < sh -> 0 <= aps -> 0 <= com -> 0 < rate -> 0 < crate ->
  s_sh pre_d = s_sh pre_e -> s_acb pre_d = Some od -> s_acb pre_e = Some oe ->
  0 <= eps -> oe - eps <= od -> od <= oe + eps ->
  aps * sh <= T j1 -> rate <= R -> com * crate <= C -> s_sh pre_d <= N ->
  0 <= od -> od <= T jp * s_sh pre_d ->
  (T j1 + 1) * R + C + N * (T jp + 1) + (1 + 1 + 1) <= T J ->
  sell_core dec pre_d sh aps com rate crate = Ok cd ->
  sell_core exact pre_e sh aps com rate crate = Ok ce ->
  sc_sh cd = sc_sh ce ->
  exists nd ne gd ge,
    sc_acb cd = Some nd /\ sc_acb ce = Some ne /\ sc_gain cd = Some gd /\ sc_gain ce = Some ge /\
    ne = (s_sh pre_e - sh) * (oe / s_sh pre_e) /\
    ge = aps * sh * rate - com * crate - oe / s_sh pre_e * sh /\
    (ne - (eps + N * u jp + u J) <= nd /\ nd <= ne + (eps + N * u jp + u J)) /\
    (ge - (eps + u j1 * R + N * u jp + (1 + 1 + 1 + 1 + 1) * u J) <= gd /\
     gd <= ge + (eps + u j1 * R + N * u jp + (1 + 1 + 1 + 1 + 1) * u J)) /\
    0 <= nd.
Proof. exact DecSellRow.sell_row_error. Qed.
Check C01_sell_row_error_general : forall (j1 jp J : nat) (R C N eps : Qc) pre_d pre_e sh aps com rate crate od oe cd ce,
  (j1 <= 28)%nat -> (jp <= 28)%nat -> (J <= 28)%nat ->
  0 < sh -> 0 <= aps -> 0 <= com -> 0 < rate -> 0 < crate ->
  s_sh pre_d = s_sh pre_e -> s_acb pre_d = Some od -> s_acb pre_e = Some oe ->
  0 <= eps -> oe - eps <= od -> od <= oe + eps ->
  aps * sh <= T j1 -> rate <= R -> com * crate <= C -> s_sh pre_d <= N ->
  0 <= od -> od <= T jp * s_sh pre_d ->
  (T j1 + 1) * R + C + N * (T jp + 1) + (1 + 1 + 1) <= T J ->
  sell_core dec pre_d sh aps com rate crate = Ok cd ->
  sell_core exact pre_e sh aps com rate crate = Ok ce ->
  sc_sh cd = sc_sh ce ->
  exists nd ne gd ge,
    sc_acb cd = Some nd /\ sc_acb ce = Some ne /\ sc_gain cd = Some gd /\ sc_gain ce = Some ge /\
    ne = (s_sh pre_e - sh) * (oe / s_sh pre_e) /\
    ge = aps * sh * rate - com * crate - oe / s_sh pre_e * sh /\
    (ne - (eps + N * u jp + u J) <= nd /\ nd <= ne + (eps + N * u jp + u J)) /\
    (ge - (eps + u j1 * R + N * u jp + (1 + 1 + 1 + 1 + 1) * u J) <= gd /\
     gd <= ge + (eps + u j1 * R + N * u jp + (1 + 1 + 1 + 1 + 1) * u J)) /\
    0 <= nd.
Print Assumptions C01_sell_row_error_general.

(* Non-vacuity (k = 1): 1 of 3 shares sold at 5 with 0.5 commission from a cost
   base of 10/3 (exact) resp. 3.3333333333333333333333333333 (rounded): the
   hypotheses hold, both arms succeed with 2 shares left, and both the new
   cost bases and the gains differ. *)
Definition sre_pre (acb : Qc) : status := {| s_sh := q 3 1; s_all := q 3 1; s_acb := Some acb |}.
Example C01_sell_row_error_nonvacuous :
  (bre_oe - bre_eps <= bre_od /\ bre_od <= bre_oe + bre_eps) /\
  (q 3 1 <= T 1 /\ q 5 1 <= T 1 /\ q 1 2 <= T 1 /\ q 1 1 <= T 1) /\
  (0 <= bre_od /\ bre_od <= T (1 + 1) * q 3 1) /\
  match sell_core dec (sre_pre bre_od) (q 1 1) (q 5 1) (q 1 2) (q 1 1) (q 1 1),
        sell_core exact (sre_pre bre_oe) (q 1 1) (q 5 1) (q 1 2) (q 1 1) (q 1 1) with
  | Ok cd, Ok ce =>
      this (sc_sh cd) = this (sc_sh ce) /\
      match sc_acb cd, sc_acb ce, sc_gain cd, sc_gain ce with
      | Some nd, Some ne, Some gd, Some ge => this nd <> this ne /\ this gd <> this ge
      | _, _, _, _ => False
      end
  | _, _ => False
  end.
Proof.
  split; [split; vm_compute; discriminate|].
  split; [repeat split; vm_compute; discriminate|].
  split; [split; vm_compute; discriminate|].
  vm_compute. split; [reflexivity|]. split; discriminate.
Qed.

(* The return-of-capital arm: amount per share x shares held (10^k each),
   x rate (<= 10), subtracted from the cost base (<= 10^(2k+1)):
   eps + 10 u(2k) + 2 u(2k+2) = eps + 1.05 * 10^-(26-2k). *)
Theorem C01_roc_row_error : forall (k : nat) (eps : Qc) t pre_d pre_e aps rate od oe dd de,
  (2 * k + 2 <= 28)%nat ->
  t_act t = Roc aps rate -> valid_tx t = true ->
  s_sh pre_d = s_sh pre_e -> s_acb pre_d = Some od -> s_acb pre_e = Some oe ->
  oe - eps <= od -> od <= oe + eps ->
  0 <= s_sh pre_d -> s_sh pre_d <= T k -> aps <= T k -> rate <= T 1 -> 0 <= od -> od <= T (2 * k + 1) ->
  delta_nonsell dec t pre_d = Ok dd -> delta_nonsell exact t pre_e = Ok de ->
  exists nd ne,
    s_acb (d_post dd) = Some nd /\ s_acb (d_post de) = Some ne /\
    ne = oe - aps * s_sh pre_e * rate /\
    ne - (eps + u (2 * k) * T 1 + (1 + 1) * u (2 * k + 2)) <= nd /\
    nd <= ne + (eps + u (2 * k) * T 1 + (1 + 1) * u (2 * k + 2)) /\
    s_sh (d_post dd) = s_sh pre_d /\ s_sh (d_post de) = s_sh pre_e /\
    s_all (d_post dd) = s_all pre_d /\ s_all (d_post de) = s_all pre_e /\
    d_gain dd = None /\ d_gain de = None /\ 0 <= nd.
Proof. exact DecSellRow.roc_row_error_pow10. Qed.
Check C01_roc_row_error : forall (k : nat) (eps : Qc) t pre_d pre_e aps rate od oe dd de,
  (2 * k + 2 <= 28)%nat ->
  t_act t = Roc aps rate -> valid_tx t = true ->
  s_sh pre_d = s_sh pre_e -> s_acb pre_d = Some od -> s_acb pre_e = Some oe ->
  oe - eps <= od -> od <= oe + eps ->
  0 <= s_sh pre_d -> s_sh pre_d <= T k -> aps <= T k -> rate <= T 1 -> 0 <= od -> od <= T (2 * k + 1) ->
  delta_nonsell dec t pre_d = Ok dd -> delta_nonsell exact t pre_e = Ok de ->
  exists nd ne,
    s_acb (d_post dd) = Some nd /\ s_acb (d_post de) = Some ne /\
    ne = oe - aps * s_sh pre_e * rate /\
    ne - (eps + u (2 * k) * T 1 + (1 + 1) * u (2 * k + 2)) <= nd /\
    nd <= ne + (eps + u (2 * k) * T 1 + (1 + 1) * u (2 * k + 2)) /\
    s_sh (d_post dd) = s_sh pre_d /\ s_sh (d_post de) = s_sh pre_e /\
    s_all (d_post dd) = s_all pre_d /\ s_all (d_post de) = s_all pre_e /\
    d_gain dd = None /\ d_gain de = None /\ 0 <= nd.
Print Assumptions C01_roc_row_error.

Local Open Scope Z_scope.
Definition rre_t : tx := mk 100 (Roc (q 3333 10000) (q 13456 10000)) default_aff.
Local Close Scope Z_scope.
Example C01_roc_row_error_nonvacuous :
  valid_tx rre_t = true /\
  (q 3 1 <= T 1 /\ q 3333 10000 <= T 1 /\ q 13456 10000 <= T 1 /\ bre_od <= T (2 * 1 + 1)) /\
  match delta_nonsell dec rre_t (sre_pre bre_od), delta_nonsell exact rre_t (sre_pre bre_oe) with
  | Ok dd, Ok de => match s_acb (d_post dd), s_acb (d_post de) with
                    | Some nd, Some ne => this nd <> this ne
                    | _, _ => False
                    end
  | _, _ => False
  end.
Proof.
  split; [vm_compute; reflexivity|].
  split; [repeat split; vm_compute; discriminate|].
  vm_compute. discriminate.
Qed.

(* The Split arm: the cost base is carried over unchanged under ANY
   arithmetic (so an incoming eps stays eps); the rounded share balance
   (balance x post, / pre, two roundings) is within u(j1) + u(j2) of
   balance x post / pre when pre >= 1. *)
Theorem C01_split_row_cost_unchanged : forall (A : arith) t pre post pre_ io d,
  t_act t = Split post pre_ io -> delta_nonsell A t pre = Ok d ->
  s_acb (d_post d) = s_acb pre /\ d_gain d = None.
Proof. exact DecSellRow.split_row_cost. Qed.
Check C01_split_row_cost_unchanged : forall (A : arith) t pre post pre_ io d,
  t_act t = Split post pre_ io -> delta_nonsell A t pre = Ok d ->
  s_acb (d_post d) = s_acb pre /\ d_gain d = None.
Print Assumptions C01_split_row_cost_unchanged.

Theorem C01_split_row_shares_error : forall (j1 j2 : nat) t pre post pre_ io d,
  (j1 <= 28)%nat -> (j2 <= 28)%nat ->
  t_act t = Split post pre_ io -> valid_tx t = true -> 1 <= pre_ ->
  0 <= s_sh pre -> s_sh pre * post <= T j1 -> T j1 + 1 <= T j2 ->
  delta_nonsell dec t pre = Ok d ->
  s_sh pre * post / pre_ - (u j1 + u j2) <= s_sh (d_post d) /\
  s_sh (d_post d) <= s_sh pre * post / pre_ + (u j1 + u j2).
Proof. exact DecSellRow.split_row_shares. Qed.
Check C01_split_row_shares_error : forall (j1 j2 : nat) t pre post pre_ io d,
  (j1 <= 28)%nat -> (j2 <= 28)%nat ->
  t_act t = Split post pre_ io -> valid_tx t = true -> 1 <= pre_ ->
  0 <= s_sh pre -> s_sh pre * post <= T j1 -> T j1 + 1 <= T j2 ->
  delta_nonsell dec t pre = Ok d ->
  s_sh pre * post / pre_ - (u j1 + u j2) <= s_sh (d_post d) /\
  s_sh (d_post d) <= s_sh pre * post / pre_ + (u j1 + u j2).
Print Assumptions C01_split_row_shares_error.

Local Open Scope Z_scope.
Definition sps_t : tx := mk 100 (Split (q 1 1) (q 3 1) false) default_aff.
Definition sps_pre : status := {| s_sh := q 10 1; s_all := q 10 1; s_acb := Some (q 7 1) |}.
Local Close Scope Z_scope.
Example C01_split_row_nonvacuous :
  valid_tx sps_t = true /\ (s_sh sps_pre * q 1 1 <= T 1 /\ T 1 + 1 <= T 2) /\
  match delta_nonsell dec sps_t sps_pre with
  | Ok d => this (s_sh (d_post d)) <> this (s_sh sps_pre * q 1 1 / q 3 1) /\ s_acb (d_post d) = Some (q 7 1)
  | _ => False
  end.
Proof.
  split; [vm_compute; reflexivity|]. split; [split; vm_compute; discriminate|].
  vm_compute. split; [discriminate | reflexivity].
Qed.

(* ACCUMULATION over a history.  [in_class k dsd dse] (executable, over the
   rows of the rounded run [dsd] and of the exact run [dse], pairwise on their
   common prefix): neither row reports a superficial loss; the share balances
   after the row agree (no share count was rounded, e.g. by a non-terminating
   split); the affiliate has a cost base (not registered) with
   0 <= cost base <= 10^(2k+1); the row is a Buy / Sell / RoC / Split with
   shares, price, commission <= 10^k and rates <= 10, for Sell and RoC the
   shares held <= 10^k, for Sell the (rounded) cost base <= 10^(k+1) per share
   held.  Any number of affiliates, any length; the two runs may stop at
   different rows (accept / reject decisions can differ by rounding): the
   statement is about the rows both report.

   For every such history the figures of row i (counting from 0) of the
   rounded ledger lie within (i+1) * cR k of the exact ledger's:
   share balances equal, total cost base and capital gain within
     (i+1) * (10 u(2k) + 10^k u(k+1) + 5 u(2k+2)) = (i+1) * 2.6 * 10^-(26-2k).
   The error adds up and is not amplified because each row map is
   1-Lipschitz in the cost base (Buy, RoC: translation; Split: identity;
   Sell: multiplication by remaining/held <= 1, gain: by sold/held <= 1).

   In numbers ([cR_6], [cR_9]):
     k = 4 (quantities below 10^4, values below 10^10): 2.6e-18 per row;
     k = 6 (below a million, values below 10^14):        2.6e-14 per row, so
           below 1e-9 (the tolerance TOL of lib/props/c01.py) for the first
           38461 rows: C01_rounding_error_bound;
     k = 9 (below a billion, values below 10^20):        2.6e-8 per row - the
           guarantee at that magnitude is 2.6e-4 after 10000 rows, NOT 1e-9
           (rust_decimal keeps 28 digits: at 10^20 only 8 places are left). *)
Theorem C01_rounding_error_accumulates : forall (k : nat) init txs dsd od dse oe,
  (2 * k + 2 <= 28)%nat ->
  Forall (fun t => valid_tx t = true) txs ->
  run dec init txs = (dsd, od) -> run exact init txs = (dse, oe) ->
  in_class k dsd dse = true ->
  forall i dd de, nth_error dsd i = Some dd -> nth_error dse i = Some de ->
    fig_close (QcZ (Z.of_nat (S i)) * cR k) dd de.
Proof. exact DecAccumulate.run_error_accumulates. Qed.
Check C01_rounding_error_accumulates : forall (k : nat) init txs dsd od dse oe,
  (2 * k + 2 <= 28)%nat ->
  Forall (fun t => valid_tx t = true) txs ->
  run dec init txs = (dsd, od) -> run exact init txs = (dse, oe) ->
  in_class k dsd dse = true ->
  forall i dd de, nth_error dsd i = Some dd -> nth_error dse i = Some de ->
    fig_close (QcZ (Z.of_nat (S i)) * cR k) dd de.
Print Assumptions C01_rounding_error_accumulates.

(* what [fig_close] says, spelled out *)
Theorem C01_fig_close_means : forall e dd de,
  fig_close e dd de <->
  (s_sh (d_post dd) = s_sh (d_post de) /\ s_all (d_post dd) = s_all (d_post de) /\
   match s_acb (d_post dd), s_acb (d_post de) with
   | Some x, Some y => y - e <= x /\ x <= y + e | None, None => True | _, _ => False end) /\
  match d_gain dd, d_gain de with
  | Some x, Some y => y - e <= x /\ x <= y + e | None, None => True | _, _ => False end.
Proof. intros e dd de. reflexivity. Qed.
Check C01_fig_close_means : forall e dd de,
  fig_close e dd de <->
  (s_sh (d_post dd) = s_sh (d_post de) /\ s_all (d_post dd) = s_all (d_post de) /\
   match s_acb (d_post dd), s_acb (d_post de) with
   | Some x, Some y => y - e <= x /\ x <= y + e | None, None => True | _, _ => False end) /\
  match d_gain dd, d_gain de with
  | Some x, Some y => y - e <= x /\ x <= y + e | None, None => True | _, _ => False end.
Print Assumptions C01_fig_close_means.

(* the per-row constant in closed form, for two magnitudes *)
Theorem C01_row_constant : cR 6 = Qcfrac 13 500000000000000 /\ cR 9 = Qcfrac 13 500000000.
Proof. exact (conj DecAccumulate.cR_6 DecAccumulate.cR_9). Qed.
Check C01_row_constant : cR 6 = Qcfrac 13 500000000000000 /\ cR 9 = Qcfrac 13 500000000.
Print Assumptions C01_row_constant.

(* THE INSTANCE: quantities below a million, rates at most 10, the first 38461
   reported rows: "up to decimal rounding" = within 1e-9, as the check measures
   it (TOL in lib/props/c01.py); 38461 * 2.6e-14 = 9.99986e-10. *)
Theorem C01_rounding_error_bound : forall init txs dsd od dse oe,
  Forall (fun t => valid_tx t = true) txs ->
  run dec init txs = (dsd, od) -> run exact init txs = (dse, oe) ->
  in_class 6 dsd dse = true ->
  forall i dd de, (Z.of_nat i < 38461)%Z -> nth_error dsd i = Some dd -> nth_error dse i = Some de ->
    fig_close (Qcfrac 1 1000000000) dd de.
Proof. exact DecAccumulate.run_error_bound_million. Qed.
Check C01_rounding_error_bound : forall init txs dsd od dse oe,
  Forall (fun t => valid_tx t = true) txs ->
  run dec init txs = (dsd, od) -> run exact init txs = (dse, oe) ->
  in_class 6 dsd dse = true ->
  forall i dd de, (Z.of_nat i < 38461)%Z -> nth_error dsd i = Some dd -> nth_error dse i = Some de ->
    fig_close (Qcfrac 1 1000000000) dd de.
Print Assumptions C01_rounding_error_bound.

(* The full rounding half of the property (NOT proved): the same bound for
   every history, including superficial losses (ratio division, denied
   amount, the buyers' portions) and rounded share balances. *)
Definition C01_rounding_error_full : Prop := forall init txs dsd od dse oe,
  Forall (fun t => valid_tx t = true) txs ->
  run dec init txs = (dsd, od) -> run exact init txs = (dse, oe) ->
  (forall d, In d dsd -> forall x, In x [s_sh (d_pre d); s_sh (d_post d)] -> x <= T 6) ->
  forall i dd de, (Z.of_nat i < 38461)%Z -> nth_error dsd i = Some dd -> nth_error dse i = Some de ->
    fig_close (Qcfrac 1 1000000000) dd de.

(* Non-vacuity (k = 1): six rows of one affiliate - buy 3 at 3 plus 1
   commission (cost base 10), sell 1 at 5 (per-share cost 10/3: rounds),
   buy 2 at 1, return of capital 0.1 per share, sell 2 at 4, 2-for-1 split.
   Both ledgers accept all six rows, the pair is in the class with k = 1, the
   reported figures DIFFER from the second row on, and (the theorem, evaluated)
   the last row's cost bases are within 6 * cR 1. *)
Local Open Scope Z_scope.
Definition ex_acc : list tx := [
  mk 100 (Buy (q 3 1) (q 3 1) (q 1 1) (q 1 1) (q 1 1)) default_aff;
  mk 200 (Sell (q 1 1) (q 5 1) (q 0 1) (q 1 1) (q 1 1) None) default_aff;
  mk 300 (Buy (q 2 1) (q 1 1) (q 0 1) (q 1 1) (q 1 1)) default_aff;
  mk 400 (Roc (q 1 10) (q 1 1)) default_aff;
  mk 500 (Sell (q 2 1) (q 4 1) (q 1 2) (q 1 1) (q 1 1) None) default_aff;
  mk 600 (Split (q 2 1) (q 1 1) false) default_aff ].
Local Close Scope Z_scope.
Example C01_rounding_error_accumulates_nonvacuous :
  Forall (fun t => valid_tx t = true) ex_acc /\
  match run dec None ex_acc, run exact None ex_acc with
  | (dsd, None), (dse, None) =>
      length dsd = 6%nat /\ length dse = 6%nat /\ in_class 1 dsd dse = true /\
      match nth_error dsd 1, nth_error dse 1, nth_error dsd 5, nth_error dse 5 with
      | Some d1, Some e1, Some d5, Some e5 =>
          match s_acb (d_post d1), s_acb (d_post e1), s_acb (d_post d5), s_acb (d_post e5) with
          | Some a1, Some b1, Some a5, Some b5 =>
              this a1 <> this b1 /\ this a5 <> this b5 /\
              b5 - QcZ 6 * cR 1 <= a5 /\ a5 <= b5 + QcZ 6 * cR 1
          | _, _, _, _ => False
          end
      | _, _, _, _ => False
      end
  | _, _ => False
  end.
Proof.
  split; [repeat constructor|].
  vm_compute. repeat split; discriminate.
Qed.
