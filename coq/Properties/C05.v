(* C05 - Every input ends in a report or a diagnostic, never a panic.
   PARTIAL.  The model makes every panicking site of the modelled bookkeeping
   core explicit (Base/Outcome.v Site); the correspondence check shows that
   the model under rust_decimal rounding predicts every panic of the real core
   on generated in-range inputs.  Proved: under exact arithmetic the ONLY
   panic of the bookkeeping core, for any history of rows that parse, is the
   effective-cent one (C05_exact_panics_only_at_effective_cent) - so every
   other panic of the real code is an effect of rust_decimal rounding or
   overflow; and which sites can not be reached under any arithmetic.
   The property itself is REFUTED for the faithful model (three classes of
   in-range inputs panic, see the witnesses below and known-findings.json);
   "whatever the bytes" for the third-party layers is fuzzing, not proof. *)
From Coq Require Import List NArith ZArith QArith Qcanon Bool.
From ACB Require Import Base.Outcome Base.QcExtra Base.Fit Base.Arith Model.Tx Model.Ledger Model.Sfl
     Model.DeltaList Proofs.C04Inv Proofs.C05Sites Proofs.C04Reject Proofs.C05NoPanic.
Import ListNotations.

(* Under exact arithmetic neither assert_eq! of set_latest_post_status can
   fire for a row produced by delta_for_tx: when the code panics there
   (portfolio_status.rs:100) it is purely a rounding effect. *)
Theorem C05_set_latest_asserts_hold_exact : forall bef t aft st d inj,
  delta_for_tx exact bef t aft st = Ok (d, inj) -> st_ok st ->
  exists st', set_latest exact st (t_af t) (d_post d) = Ok st'.
Proof. exact C05Sites.set_latest_asserts_hold_exact. Qed.
Check C05_set_latest_asserts_hold_exact : forall bef t aft st d inj,
  delta_for_tx exact bef t aft st = Ok (d, inj) -> st_ok st ->
  exists st', set_latest exact st (t_af t) (d_post d) = Ok st'.
Print Assumptions C05_set_latest_asserts_hold_exact.

(* For exact arithmetic AND for rust_decimal rounding (any arithmetic whose
   operators fail only by overflow / division by zero): the assertion "loss
   was superficial, but no buying affiliates" (superficial_loss.rs:374) and the
   unwrap of a missing end-of-period entry (superficial_loss.rs:392) are
   unreachable. *)
Theorem C05_sfl_ratio_sites_unreachable : forall (A : arith) bef t sold aft st info p,
  arith_sane A ->
  sfl_info A bef t sold aft st = Ok info ->
  sfl_ratio A sold info = Panic p ->
  p <> PanicAssert Site.no_buyers /\ p <> PanicMissing Site.eop_missing.
Proof. exact C05Sites.sfl_ratio_sites_unreachable. Qed.
Check C05_sfl_ratio_sites_unreachable : forall (A : arith) bef t sold aft st info p,
  arith_sane A ->
  sfl_info A bef t sold aft st = Ok info ->
  sfl_ratio A sold info = Panic p ->
  p <> PanicAssert Site.no_buyers /\ p <> PanicMissing Site.eop_missing.
Print Assumptions C05_sfl_ratio_sites_unreachable.

Theorem C05_arithmetics_sane : arith_sane exact /\ arith_sane dec.
Proof. split; [exact C05Sites.exact_sane | exact C05Sites.dec_sane]. Qed.
Check C05_arithmetics_sane : arith_sane exact /\ arith_sane dec.
Print Assumptions C05_arithmetics_sane.


(* Whole runs, exact arithmetic, every history: on rows that parse (positive /
   non-negative quantities as Tx::try_from guarantees: valid_tx; the
   registered flag of an affiliate a function of its id: row_ok'), whatever
   the length, the affiliates, the order or the opening position, the ledger
   can panic at ONE site only: c_maybe_round_to_effective_cent's unwrap
   (math.rs:93; first witness of C05_refuted).  All 25 other panic sites of the
   modelled core (constrained-decimal constructors, assert_eq!, unwraps of
   missing map entries, division by zero) are unreachable without rounding. *)
Theorem C05_exact_panics_only_at_effective_cent : forall regof, regof default_id = false ->
  forall init txs ds p,
  run exact init txs = (ds, Some (SPanic p)) ->
  init_ok2 init -> Forall (row_ok' regof) txs -> Forall vtx txs ->
  p = PanicConstraint Site.eff_cent.
Proof. exact C05NoPanic.run_panic_only_eff_cent. Qed.
Check C05_exact_panics_only_at_effective_cent : forall regof, regof default_id = false ->
  forall init txs ds p,
  run exact init txs = (ds, Some (SPanic p)) ->
  init_ok2 init -> Forall (row_ok' regof) txs -> Forall vtx txs ->
  p = PanicConstraint Site.eff_cent.
Print Assumptions C05_exact_panics_only_at_effective_cent.

(* ---- refutation: in-range inputs on which the faithful model panics ---- *)
Local Open Scope Z_scope.
Definition q (n : Z) (d : positive) := Qcfrac n d.
Definition mk sd a :=
  {| t_sec := 0; t_td := sd; t_sd := sd; t_act := a; t_af := default_aff; t_glob := false; t_ri := 0 |}.
Definition in_range (x : Qc) : bool :=
  Qcltb (Qcabs x) (q 1000000000000 1) && Pos.eqb (Z.to_pos (Z.gcd (Zpos (Qden (this x))) 10000000000)) (Qden (this x)).
Definition action_in_range (a : action) : bool :=
  match a with
  | Buy sh aps com r cr | Sell sh aps com r cr _ => in_range sh && in_range aps && in_range com && in_range r && in_range cr
  | Roc aps r => in_range aps && in_range r
  | Sfla sh aps => in_range sh && in_range aps
  | Split p q_ _ => in_range p && in_range q_
  end.

(* (1) a tiny superficial loss rounds to 0.00 cents: math.rs:93, also under exact arithmetic *)
Definition w_eff : list tx := [
  mk 100 (Buy (q 2 1) (q 10000000001 10000000000) (q 0 1) (q 1 1) (q 1 1));
  mk 110 (Sell (q 1 2) (q 1 1) (q 0 1) (q 1 1) (q 1 1) None)].
(* (2) shares x price x rate above 7.9e28: rust_decimal overflow *)
Definition w_over : list tx := [
  mk 100 (Buy (q 99999999999 1) (q 99999999999 1) (q 0 1) (q 99999999 1) (q 99999999 1))].
(* (3) a 1.0-for-3.0 split of 853.2706 shares: set_latest_post_status assertion under rounding only *)
Definition w_split : list tx := [
  mk 100 (Buy (q 8532706 10000) (q 244231 100) (q 0 1) (q 11251 10000) (q 11251 10000));
  mk 160 (Split (q 1 1) (q 3 1) false)].

Theorem C05_refuted :
  forallb (fun t => valid_tx t && action_in_range (t_act t)) (w_eff ++ w_over ++ w_split) = true /\
  snd (run dec None w_eff) = Some (SPanic (PanicConstraint Site.eff_cent)) /\
  snd (run exact None w_eff) = Some (SPanic (PanicConstraint Site.eff_cent)) /\
  snd (run dec None w_over) = Some (SPanic PanicOverflow) /\
  snd (run exact None w_over) = None /\
  snd (run dec None w_split) = Some (SPanic (PanicAssert Site.set_latest_all)) /\
  snd (run exact None w_split) = None.
Proof. vm_compute. repeat split. Qed.
Check C05_refuted :
  forallb (fun t => valid_tx t && action_in_range (t_act t)) (w_eff ++ w_over ++ w_split) = true /\
  snd (run dec None w_eff) = Some (SPanic (PanicConstraint Site.eff_cent)) /\
  snd (run exact None w_eff) = Some (SPanic (PanicConstraint Site.eff_cent)) /\
  snd (run dec None w_over) = Some (SPanic PanicOverflow) /\
  snd (run exact None w_over) = None /\
  snd (run dec None w_split) = Some (SPanic (PanicAssert Site.set_latest_all)) /\
  snd (run exact None w_split) = None.
Print Assumptions C05_refuted.

(* non-vacuity of C05_exact_panics_only_at_effective_cent: the first witness
   meets its hypotheses and does panic (there) *)
Example C05_exact_hypotheses_hold :
  init_ok2 None /\ Forall (row_ok' (fun _ => false)) w_eff /\ Forall vtx w_eff /\
  snd (run exact None w_eff) = Some (SPanic (PanicConstraint Site.eff_cent)).
Proof.
  split; [intros i E; discriminate E|]. split; [repeat constructor|].
  split; [repeat constructor | vm_compute; reflexivity].
Qed.
