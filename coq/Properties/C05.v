(* C05 - Every input ends in a report or a diagnostic, never a panic.
   PARTIAL.  The model makes every panicking site of the modelled bookkeeping
   core explicit (Base/Outcome.v Site); the correspondence check shows that
   the model under rust_decimal rounding predicts every panic of the real core
   on generated in-range inputs.  Proved: under exact arithmetic the
   bookkeeping core does NOT panic, for any history of rows that parse
   (C05_exact_never_panics) - so every panic of the real code is an effect of
   rust_decimal rounding or overflow; and which sites can not be reached under
   any arithmetic.  The effective-cent panic (a tiny denied loss rounding to
   0.00 and being unwrapped as a NegDecimal, math.rs:93) was a fourth class
   until the fix "treat a superficial loss that rounds to zero effective cents
   as no superficial loss": the site can no longer fail, in any arithmetic
   (C05_effective_cent_site_cannot_panic), and the old witness is accepted
   (C05_effective_cent_witness_accepted).
   The all-affiliate assert_eq! of set_latest_post_status (a 28th-digit
   rounding residue after a split with a non-terminating factor,
   portfolio_status.rs) was a class too until the fix "compute the
   all-affiliate share balance with one expression everywhere": the assertion
   now compares two evaluations of ONE expression on the same inputs, in any
   arithmetic (C05_status_assertion_cannot_fail), and the old witness is
   accepted (C05_split_residue_witness_accepted).
   The property itself is REFUTED for the faithful model (two classes of
   in-range inputs panic, see the witnesses below and known-findings.json);
   "whatever the bytes" for the third-party layers is fuzzing, not proof. *)
From Coq Require Import List NArith ZArith QArith Qcanon Bool.
From ACB Require Import Base.Outcome Base.QcExtra Base.Fit Base.Arith Model.Tx Model.Ledger Model.Sfl
     Model.DeltaList Proofs.C04Inv Proofs.C05Sites Proofs.C04Reject Proofs.C05NoPanic Proofs.C05Dec Proofs.FitProps Proofs.EffCent Proofs.AllAfter Proofs.C05Assert.
Import ListNotations.

(* Under exact arithmetic neither assert_eq! of set_latest_post_status can
   fire for a row produced by delta_for_tx: when the code panics there
   (portfolio_status.rs:100) it is purely a rounding effect. *)
Theorem C05_set_latest_asserts_hold_exact : forall bef t aft st d inj,
  delta_for_tx exact bef t aft st = Ok (d, inj) -> st_ok st ->
  exists st', set_latest exact st (t_af t) (d_post d) = Ok st'.
Proof. exact C05Sites.set_latest_asserts_hold_exact. Qed.
Check C05_set_latest_asserts_hold_exact : forall bef t aft st d inj,
  delta_for_tx exact bef t aft st = Ok (d, inj) -> st_ok st ->
  exists st', set_latest exact st (t_af t) (d_post d) = Ok st'.
Print Assumptions C05_set_latest_asserts_hold_exact.

(* For exact arithmetic AND for rust_decimal rounding (any arithmetic whose
   operators fail only by overflow / division by zero): the assertion "loss
   was superficial, but no buying affiliates" (superficial_loss.rs:374) and the
   unwrap of a missing end-of-period entry (superficial_loss.rs:392) are
   unreachable. *)
Theorem C05_sfl_ratio_sites_unreachable : forall (A : arith) bef t sold aft st info p,
  arith_sane A ->
  sfl_info A bef t sold aft st = Ok info ->
  sfl_ratio A sold info = Panic p ->
  p <> PanicAssert Site.no_buyers /\ p <> PanicMissing Site.eop_missing.
Proof. exact C05Sites.sfl_ratio_sites_unreachable. Qed.
Check C05_sfl_ratio_sites_unreachable : forall (A : arith) bef t sold aft st info p,
  arith_sane A ->
  sfl_info A bef t sold aft st = Ok info ->
  sfl_ratio A sold info = Panic p ->
  p <> PanicAssert Site.no_buyers /\ p <> PanicMissing Site.eop_missing.
Print Assumptions C05_sfl_ratio_sites_unreachable.

Theorem C05_arithmetics_sane : arith_sane exact /\ arith_sane dec.
Proof. split; [exact C05Sites.exact_sane | exact C05Sites.dec_sane]. Qed.
Check C05_arithmetics_sane : arith_sane exact /\ arith_sane dec.
Print Assumptions C05_arithmetics_sane.


(* Whole runs, exact arithmetic, every history: on rows that parse (positive /
   non-negative quantities as Tx::try_from guarantees: valid_tx; the
   registered flag of an affiliate a function of its id: row_ok'), whatever
   the length, the affiliates, the order or the opening position, the ledger
   can not panic.  All 26 panic sites of the modelled core
   (constrained-decimal constructors, assert_eq!, unwraps of missing map
   entries, division by zero) are unreachable without rounding.  (Before the
   fix of the effective-cent panic this read "can panic at ONE site only:
   c_maybe_round_to_effective_cent's unwrap".) *)
Theorem C05_exact_never_panics : forall regof, regof default_id = false ->
  forall init txs ds p,
  run exact init txs = (ds, Some (SPanic p)) ->
  init_ok2 init -> Forall (row_ok' regof) txs -> Forall vtx txs ->
  False.
Proof. exact C05NoPanic.run_exact_never_panics. Qed.
Check C05_exact_never_panics : forall regof, regof default_id = false ->
  forall init txs ds p,
  run exact init txs = (ds, Some (SPanic p)) ->
  init_ok2 init -> Forall (row_ok' regof) txs -> Forall vtx txs ->
  False.
Print Assumptions C05_exact_never_panics.

(* The effective-cent site after the fix: maybe_round_to_effective_cent of a
   non-positive value (the loss times the ratio is negative) is non-positive
   in EVERY arithmetic - it returns its argument or the argument rounded to
   the cent, half away from zero - so LessEqualZeroDecimal::try_from(..)
   .unwrap() succeeds. *)
Theorem C05_effective_cent_site_cannot_panic : forall (A : arith) d c,
  (d <= 0)%Qc -> eff_cent A d = Ok c -> lez_unwrap Site.eff_cent c = Ok c /\ (c <= 0)%Qc.
Proof. intros A d c Hd H. split; [exact (EffCent.eff_cent_site_ok A d c Hd H) | exact (EffCent.eff_cent_nonpos A d c Hd H)]. Qed.
Check C05_effective_cent_site_cannot_panic : forall (A : arith) d c,
  (d <= 0)%Qc -> eff_cent A d = Ok c -> lez_unwrap Site.eff_cent c = Ok c /\ (c <= 0)%Qc.
Print Assumptions C05_effective_cent_site_cannot_panic.

(* ... and whole runs: no run, in any sign-preserving arithmetic (exact and
   rust_decimal rounding included), ends in a panic of that site *)
Theorem C05_no_run_panics_at_effective_cent : forall (A : arith), C05Dec.sign_arith A ->
  forall init txs ds p,
  run A init txs = (ds, Some (SPanic p)) -> init_ok2 init -> Forall vtx txs ->
  p <> PanicConstraint Site.eff_cent.
Proof.
  intros A HA init txs ds p H Hi HV.
  destruct (C05Dec.run_panic_classes_any_init A HA init txs ds p H Hi HV) as [Hp|(-> & _)];
    [exact (C05Dec.pclass_not_eff_cent p Hp) | discriminate].
Qed.
Check C05_no_run_panics_at_effective_cent : forall (A : arith), C05Dec.sign_arith A ->
  forall init txs ds p,
  run A init txs = (ds, Some (SPanic p)) -> init_ok2 init -> Forall vtx txs ->
  p <> PanicConstraint Site.eff_cent.
Print Assumptions C05_no_run_panics_at_effective_cent.

(* ---- refutation: in-range inputs on which the faithful model panics ---- *)
Local Open Scope Z_scope.
Definition q (n : Z) (d : positive) := Qcfrac n d.
Definition mk sd a :=
  {| t_sec := 0; t_td := sd; t_sd := sd; t_act := a; t_af := default_aff; t_glob := false; t_ri := 0 |}.
Definition in_range (x : Qc) : bool :=
  Qcltb (Qcabs x) (q 1000000000000 1) && Pos.eqb (Z.to_pos (Z.gcd (Zpos (Qden (this x))) 10000000000)) (Qden (this x)).
Definition action_in_range (a : action) : bool :=
  match a with
  | Buy sh aps com r cr | Sell sh aps com r cr _ => in_range sh && in_range aps && in_range com && in_range r && in_range cr
  | Roc aps r => in_range aps && in_range r
  | Sfla sh aps => in_range sh && in_range aps
  | Split p q_ _ => in_range p && in_range q_
  end.

(* (1) a tiny superficial loss rounds to 0.00 cents: panicked at math.rs:93 (also
   under exact arithmetic) until the fix; now a regression case, see
   C05_effective_cent_witness_accepted *)
Definition w_eff : list tx := [
  mk 100 (Buy (q 2 1) (q 10000000001 10000000000) (q 0 1) (q 1 1) (q 1 1));
  mk 110 (Sell (q 1 2) (q 1 1) (q 0 1) (q 1 1) (q 1 1) None)].
(* (2) shares x price x rate above 7.9e28: rust_decimal overflow *)
Definition w_over : list tx := [
  mk 100 (Buy (q 99999999999 1) (q 99999999999 1) (q 0 1) (q 99999999 1) (q 99999999 1))].
(* (3) a 1.0-for-3.0 split of 853.2706 shares: panicked at the set_latest_post_status
   assertion under rounding (portfolio_status.rs) until the fix; now a regression
   case, see C05_split_residue_witness_accepted *)
Definition w_split : list tx := [
  mk 100 (Buy (q 8532706 10000) (q 244231 100) (q 0 1) (q 11251 10000) (q 11251 10000));
  mk 160 (Split (q 1 1) (q 3 1) false)].

Theorem C05_refuted :
  forallb (fun t => valid_tx t && action_in_range (t_act t)) w_over = true /\
  snd (run dec None w_over) = Some (SPanic PanicOverflow) /\
  snd (run exact None w_over) = None.
Proof. vm_compute. repeat split. Qed.
Check C05_refuted :
  forallb (fun t => valid_tx t && action_in_range (t_act t)) w_over = true /\
  snd (run dec None w_over) = Some (SPanic PanicOverflow) /\
  snd (run exact None w_over) = None.
Print Assumptions C05_refuted.

(* The old effective-cent witness is now accepted, under exact arithmetic and
   under rounding: two rows are reported, the sale carries no superficial
   loss, no adjustment row is generated, the whole loss
   (-0.00000000005) is the capital gain. *)
Definition obs_eff (A : arith) :=
  (snd (run A None w_eff),
   map (fun d => (is_none (d_sfl d), option_map (fun g => (Qnum (this g), Qden (this g))) (d_gain d)))
       (fst (run A None w_eff))).
Theorem C05_effective_cent_witness_accepted :
  forallb (fun t => valid_tx t && action_in_range (t_act t)) w_eff = true /\
  obs_eff exact = (None, [(true, None); (true, Some (-1, 20000000000%positive))]) /\
  obs_eff dec = (None, [(true, None); (true, Some (-1, 20000000000%positive))]).
Proof. vm_compute. repeat split. Qed.
Check C05_effective_cent_witness_accepted :
  forallb (fun t => valid_tx t && action_in_range (t_act t)) w_eff = true /\
  obs_eff exact = (None, [(true, None); (true, Some (-1, 20000000000%positive))]) /\
  obs_eff dec = (None, [(true, None); (true, Some (-1, 20000000000%positive))]).
Print Assumptions C05_effective_cent_witness_accepted.

(* non-vacuity of C05_exact_never_panics and of
   C05_effective_cent_site_cannot_panic: the old witness meets the hypotheses
   (and is accepted); the value its sale sends through the site is
   -0.00000000005 (the loss times the ratio 1), which the effective-cent step
   turns into 0 - accepted by the LessEqualZeroDecimal conversion, refused by the
   NegDecimal one of the unrepaired code *)
Example C05_exact_hypotheses_hold :
  init_ok2 None /\ Forall (row_ok' (fun _ => false)) w_eff /\ Forall vtx w_eff /\
  snd (run exact None w_eff) = None /\
  match eff_cent dec (q (-1) 20000000000) with Ok c => Qceqb c 0 | _ => false end = true /\
  match eff_cent exact (q (-1) 20000000000) with Ok c => Qceqb c 0 | _ => false end = true /\
  is_ok (lez_unwrap Site.eff_cent 0%Qc) = true /\
  neg_unwrap Site.eff_cent 0%Qc = Panic (PanicConstraint Site.eff_cent).
Proof.
  split; [intros i E; discriminate E|]. split; [repeat constructor|].
  split; [repeat constructor | vm_compute; repeat split].
Qed.


(* ---- UNDER ROUNDING: the complete list of panic classes of the ledger ----
   For rust_decimal rounding (and any arithmetic whose operators fail only by
   overflow and keep a non-negative result non-negative: [sign_arith]), every
   history of rows that parse (positive / non-negative quantities: vtx), any
   length, affiliates, order, opening position (a decimal value: init_fits): a
   panic of the bookkeeping core is an operator overflow, or a strictly
   positive / negative constrained quantity that ROUNDED TO ZERO at one of
   eight sites (PosDecimal * PosDecimal, PosDecimal / PosDecimal, the
   NegDecimal products and quotient, the two ratio conversions,
   SflaTxSpecifics::total_amount).  All other 19 panic sites of the modelled
   core (GreaterEqualZero constructors - the Buy arm's all-affiliate balance
   included -, division by zero, BOTH assertions of set_latest_post_status,
   the registered / cost-base assertions, missing map entries, no-buyers
   assertion, the effective-cent conversion, ...) are unreachable under
   rounding too.  (Before the fix "compute the all-affiliate share balance
   with one expression everywhere" the all-affiliate assert_eq! of
   set_latest_post_status was a third class: rounding residue.)  No hypothesis
   about affiliates' flags is needed: the sanity check of the row itself
   establishes what the assertions test. *)
Theorem C05_rounded_panic_classes : forall init txs ds p,
  run dec init txs = (ds, Some (SPanic p)) ->
  init_ok2 init -> C05Dec.init_fits dec init -> Forall vtx txs ->
  p = PanicOverflow \/
  exists s, In s [Site.pos_mul; Site.pos_div; Site.neg_mul; Site.neg_div; Site.neg_mul_pos;
                  Site.ratio_to_pos; Site.af_ratio_pos; Site.sfla_total] /\ p = PanicConstraint s.
Proof. exact (C05Dec.run_panic_classes dec C05Dec.dec_sign). Qed.
Check C05_rounded_panic_classes : forall init txs ds p,
  run dec init txs = (ds, Some (SPanic p)) ->
  init_ok2 init -> C05Dec.init_fits dec init -> Forall vtx txs ->
  p = PanicOverflow \/
  exists s, In s [Site.pos_mul; Site.pos_div; Site.neg_mul; Site.neg_div; Site.neg_mul_pos;
                  Site.ratio_to_pos; Site.af_ratio_pos; Site.sfla_total] /\ p = PanicConstraint s.
Print Assumptions C05_rounded_panic_classes.

(* the same list for every arithmetic of that kind (exact included) *)
Theorem C05_sign_arith_panic_classes : forall (A : arith), C05Dec.sign_arith A ->
  forall init txs ds p,
  run A init txs = (ds, Some (SPanic p)) -> init_ok2 init -> C05Dec.init_fits A init -> Forall vtx txs ->
  C05Dec.pclass p.
Proof. exact C05Dec.run_panic_classes. Qed.
Check C05_sign_arith_panic_classes : forall (A : arith), C05Dec.sign_arith A ->
  forall init txs ds p,
  run A init txs = (ds, Some (SPanic p)) -> init_ok2 init -> C05Dec.init_fits A init -> Forall vtx txs ->
  C05Dec.pclass p.
Print Assumptions C05_sign_arith_panic_classes.

(* [init_fits]: set_latest_post_status evaluates its expression on the opening
   position too - (0 - 0) + balance - and compares the result with the balance.
   No opening position, exact arithmetic, or (rust_decimal) an opening balance
   that is a decimal value - what the code can hold at all - satisfy it. *)
Theorem C05_opening_position_fits :
  (forall A, C05Dec.init_fits A None) /\ (forall init, C05Dec.init_fits exact init) /\
  (forall init, (forall i, init = Some i -> fit (s_sh i) = Some (s_sh i)) -> C05Dec.init_fits dec init).
Proof. exact (conj C05Dec.init_fits_none (conj C05Dec.init_fits_exact C05Dec.init_fits_dec)). Qed.
Check C05_opening_position_fits :
  (forall A, C05Dec.init_fits A None) /\ (forall init, C05Dec.init_fits exact init) /\
  (forall init, (forall i, init = Some i -> fit (s_sh i) = Some (s_sh i)) -> C05Dec.init_fits dec init).
Print Assumptions C05_opening_position_fits.

(* ---- the status-tracker assertion after the fix ----
   For ANY arithmetic (no hypothesis on the operators): the all-affiliate
   balance that delta_for_tx wrote into the post status IS the value of the
   expression set_latest_post_status evaluates - [all_after] on the tracker's
   latest all-affiliate balance, the affiliate's last share balance (the two
   fields of the pre status, in every call path: first row of an affiliate,
   registered affiliates, rows generated for a superficial loss) and the new
   share balance.  The assertion compares a value with itself; the only panic
   set_latest_post_status can still raise after a row of delta_for_tx is its
   OTHER assertion (registered flag against cost base). *)
Theorem C05_status_assertion_cannot_fail : forall (A : arith) bef t aft st d inj,
  delta_for_tx A bef t aft st = Ok (d, inj) ->
  all_after A (ps_all st) (C05Sites.last_sh st (t_af t)) (s_sh (d_post d)) = Ok (s_all (d_post d)) /\
  forall p, set_latest A st (t_af t) (d_post d) = Panic p -> p = PanicAssert Site.set_latest_acb.
Proof.
  intros A bef t aft st d inj H. split; [exact (C05Assert.delta_all_after A _ _ _ _ _ _ H)|].
  intros p. exact (C05Assert.status_assertion_cannot_fail A _ _ _ _ _ _ p H).
Qed.
Check C05_status_assertion_cannot_fail : forall (A : arith) bef t aft st d inj,
  delta_for_tx A bef t aft st = Ok (d, inj) ->
  all_after A (ps_all st) (C05Sites.last_sh st (t_af t)) (s_sh (d_post d)) = Ok (s_all (d_post d)) /\
  forall p, set_latest A st (t_af t) (d_post d) = Panic p -> p = PanicAssert Site.set_latest_acb.
Print Assumptions C05_status_assertion_cannot_fail.

(* ... and whole runs: no run, in any sign-preserving arithmetic (exact and
   rust_decimal rounding included), ends in a panic of either assertion of
   set_latest_post_status or of the Buy arm's conversion of the all-affiliate
   balance (the unwrap the fix introduced: the sanity check of the row has
   verified that the other affiliates' shares are not negative) *)
Theorem C05_no_run_panics_at_status_assertion : forall (A : arith), C05Dec.sign_arith A ->
  forall init txs ds p,
  run A init txs = (ds, Some (SPanic p)) -> init_ok2 init -> C05Dec.init_fits A init -> Forall vtx txs ->
  p <> PanicAssert Site.set_latest_all /\ p <> PanicAssert Site.set_latest_acb /\
  p <> PanicConstraint Site.buy_all.
Proof.
  intros A HA init txs ds p H Hi Hf HV.
  pose proof (C05Dec.run_panic_classes A HA init txs ds p H Hi Hf HV) as Hp.
  split; [exact (C05Dec.pclass_not_set_latest_all p Hp)|].
  split; [|exact (C05Dec.pclass_not_buy_all p Hp)].
  destruct Hp as [->|(s & _ & ->)]; discriminate.
Qed.
Check C05_no_run_panics_at_status_assertion : forall (A : arith), C05Dec.sign_arith A ->
  forall init txs ds p,
  run A init txs = (ds, Some (SPanic p)) -> init_ok2 init -> C05Dec.init_fits A init -> Forall vtx txs ->
  p <> PanicAssert Site.set_latest_all /\ p <> PanicAssert Site.set_latest_acb /\
  p <> PanicConstraint Site.buy_all.
Print Assumptions C05_no_run_panics_at_status_assertion.

(* The old witness of the class (1.0-for-3.0 split of 853.2706 shares) and the
   smallest history of the defect (10 shares, 4-for-3 split, buy 1: the
   expected balance was 14.333333333333333333333333337) are accepted under
   rounding: every row is reported, and the all-affiliate balance EQUALS the
   single affiliate's balance on every row (no residue). *)
Definition w_43 : list tx := [
  mk 100 (Buy (q 10 1) (q 1 1) (q 0 1) (q 1 1) (q 1 1));
  mk 160 (Split (q 4 1) (q 3 1) false);
  mk 170 (Buy (q 1 1) (q 1 1) (q 0 1) (q 1 1) (q 1 1))].
Definition obs_bal (A : arith) (w : list tx) :=
  (snd (run A None w),
   map (fun d => let s := d_post d in
                 ((Qnum (this (s_sh s)), Qden (this (s_sh s))), (Qnum (this (s_all s)), Qden (this (s_all s)))))
       (fst (run A None w))).
Theorem C05_split_residue_witness_accepted :
  forallb (fun t => valid_tx t && action_in_range (t_act t)) (w_split ++ w_43) = true /\
  obs_bal dec w_split =
    (None, [((4266353, 5000%positive), (4266353, 5000%positive));
            ((28442353333333333333333333333, 100000000000000000000000000%positive),
             (28442353333333333333333333333, 100000000000000000000000000%positive))]) /\
  obs_bal dec w_43 =
    (None, [((10, 1%positive), (10, 1%positive));
            ((13333333333333333333333333333, 1000000000000000000000000000%positive),
             (13333333333333333333333333333, 1000000000000000000000000000%positive));
            ((14333333333333333333333333333, 1000000000000000000000000000%positive),
             (14333333333333333333333333333, 1000000000000000000000000000%positive))]) /\
  snd (run exact None w_split) = None /\ snd (run exact None w_43) = None.
Proof. vm_compute. repeat split. Qed.
Check C05_split_residue_witness_accepted :
  forallb (fun t => valid_tx t && action_in_range (t_act t)) (w_split ++ w_43) = true /\
  obs_bal dec w_split =
    (None, [((4266353, 5000%positive), (4266353, 5000%positive));
            ((28442353333333333333333333333, 100000000000000000000000000%positive),
             (28442353333333333333333333333, 100000000000000000000000000%positive))]) /\
  obs_bal dec w_43 =
    (None, [((10, 1%positive), (10, 1%positive));
            ((13333333333333333333333333333, 1000000000000000000000000000%positive),
             (13333333333333333333333333333, 1000000000000000000000000000%positive));
            ((14333333333333333333333333333, 1000000000000000000000000000%positive),
             (14333333333333333333333333333, 1000000000000000000000000000%positive))]) /\
  snd (run exact None w_split) = None /\ snd (run exact None w_43) = None.
Print Assumptions C05_split_residue_witness_accepted.

(* non-vacuity of C05_status_assertion_cannot_fail: the split row of the old
   witness is a row of delta_for_tx under rounding (28 significant digits), and
   the tracker accepts it *)
Example C05_status_assertion_nonvacuous :
  match run_loop dec [] {| ps_map := []; ps_all := 0; ps_latest := default_aff |} [hd (mk 0 (Roc 0 0)) w_split] with
  | ([d], None) =>
      match delta_for_tx dec [hd (mk 0 (Roc 0 0)) w_split] (nth 1 w_split (mk 0 (Roc 0 0))) []
              {| ps_map := [(af_id default_aff, d_post d)]; ps_all := s_all (d_post d); ps_latest := default_aff |} with
      | Ok (d2, _) =>
          is_ok (set_latest dec {| ps_map := [(af_id default_aff, d_post d)]; ps_all := s_all (d_post d);
                                   ps_latest := default_aff |} default_aff (d_post d2))
      | _ => false
      end
  | _ => false
  end = true.
Proof. vm_compute. reflexivity. Qed.

(* what a failure at such a site means: the exact product of two positive
   quantities is positive, its rust_decimal rounding is exactly 0 *)
Theorem C05_strict_site_failure_is_underflow : forall a b p,
  (0 < a)%Qc -> (0 < b)%Qc -> pos_mul dec a b = Panic p ->
  p = PanicOverflow \/ (p = PanicConstraint Site.pos_mul /\ fit (a * b)%Qc = Some 0%Qc).
Proof. exact C05Dec.dec_pos_mul_underflow. Qed.
Check C05_strict_site_failure_is_underflow : forall a b p,
  (0 < a)%Qc -> (0 < b)%Qc -> pos_mul dec a b = Panic p ->
  p = PanicOverflow \/ (p = PanicConstraint Site.pos_mul /\ fit (a * b)%Qc = Some 0%Qc).
Print Assumptions C05_strict_site_failure_is_underflow.

(* (4) the other remaining class of C05's refutation, found while proving the list above:
   a co-holder with 1e-10 shares next to a holder of 9e11 shares buys inside
   the window of a loss of 1e-7: its portion of the denied loss, 1e-7 x 1.1e-22,
   rounds to zero in 28 digits and is unwrapped as a PosDecimal
   (decimal.rs PosDecimal * PosDecimal).  All values are in the stated range. *)
Definition aff_b := {| af_id := 1003; af_reg := false; af_dflt := false |}.
Definition mk_af af sd a :=
  {| t_sec := 0; t_td := sd; t_sd := sd; t_act := a; t_af := af; t_glob := false; t_ri := 0 |}.
Definition w_under : list tx := [
  mk_af default_aff 100 (Buy (q 900000000000 1) (q 1 1) (q 0 1) (q 1 1) (q 1 1));
  mk_af aff_b 101 (Buy (q 1 10000000000) (q 1 1) (q 0 1) (q 1 1) (q 1 1));
  mk_af default_aff 108 (Sell (q 1 1) (q 9999999 10000000) (q 0 1) (q 1 1) (q 1 1) None)].

Theorem C05_refuted_underflow :
  forallb (fun t => valid_tx t && action_in_range (t_act t)) w_under = true /\
  snd (run dec None w_under) = Some (SPanic (PanicConstraint Site.pos_mul)) /\
  snd (run exact None w_under) = None.
Proof. vm_compute. repeat split. Qed.
Check C05_refuted_underflow :
  forallb (fun t => valid_tx t && action_in_range (t_act t)) w_under = true /\
  snd (run dec None w_under) = Some (SPanic (PanicConstraint Site.pos_mul)) /\
  snd (run exact None w_under) = None.
Print Assumptions C05_refuted_underflow.

(* non-vacuity of C05_rounded_panic_classes: the two witnesses meet its
   hypotheses, panic under rounding, and fall in the two classes *)
Example C05_rounded_hypotheses_hold :
  init_ok2 None /\ C05Dec.init_fits dec None /\ Forall vtx (w_over ++ w_under) /\
  snd (run dec None w_over) = Some (SPanic PanicOverflow) /\
  snd (run dec None w_under) = Some (SPanic (PanicConstraint Site.pos_mul)).
Proof.
  split; [intros i E; discriminate E|]. split; [intros i E; discriminate E|]. split; [repeat constructor|].
  vm_compute. repeat split.
Qed.


(* ---- what the overflow class is: an exact intermediate value beyond the
   96-bit integer range.  A rust_decimal operation (fit) succeeds whenever the
   exact result has magnitude at most 2^96 - 1 (some scale, at worst 0, fits),
   and when it fails the exact result has magnitude at least 2^96 - 1/2.  So
   class (2) of C05's refutation is "some exact sum/product/quotient of the
   run reaches 7.9e28" and nothing else. *)
Theorem C05_no_overflow_below_2_96 : forall q : Qc,
  (Z.abs (Qnum (this q)) <= max_mant * Zpos (Qden (this q)))%Z -> exists r, fit q = Some r.
Proof. exact FitProps.fit_total_in_range. Qed.
Check C05_no_overflow_below_2_96 : forall q : Qc,
  (Z.abs (Qnum (this q)) <= max_mant * Zpos (Qden (this q)))%Z -> exists r, fit q = Some r.
Print Assumptions C05_no_overflow_below_2_96.

Theorem C05_overflow_means_magnitude : forall q : Qc,
  fit q = None ->
  (2 * max_mant * Zpos (Qden (this q)) + Zpos (Qden (this q)) <= 2 * Z.abs (Qnum (this q)))%Z.
Proof. exact FitProps.fit_none_magnitude. Qed.
Check C05_overflow_means_magnitude : forall q : Qc,
  fit q = None ->
  (2 * max_mant * Zpos (Qden (this q)) + Zpos (Qden (this q)) <= 2 * Z.abs (Qnum (this q)))%Z.
Print Assumptions C05_overflow_means_magnitude.

(* ---- the Questrade converter's FXT pairing (fix b2d4739) ----
   Found by the structured fuzz of C05 at the thorough tier: a pair of FXT rows
   whose foreign-currency row has a net amount of 0 made rust_decimal panic with
   'Division by zero' (FxTracker::add_fxt_row divides the CAD amount by it).
   After the repair the pair is a row error like the other inconsistencies of a
   pair, and in exact arithmetic the pairing function has no panic at all. *)
From ACB Require Import Model.QText Model.Questrade Model.FxTracker Proofs.FxtNoPanic.

Theorem C05_fxt_pairing_never_panics_exact : forall adj fr,
  exists r, add_fxt_row exact adj fr = Ok r.
Proof. exact FxtNoPanic.add_fxt_row_total. Qed.
Check C05_fxt_pairing_never_panics_exact : forall adj fr,
  exists r, add_fxt_row exact adj fr = Ok r.
Print Assumptions C05_fxt_pairing_never_panics_exact.

Example C05_fxt_zero_amount_is_an_error :
  add_fxt_row exact (Some zero_pair_cad) zero_pair_usd = Ok (None, [], Some QErr.fxt_zero_amount) /\
  add_fxt_row dec (Some zero_pair_cad) zero_pair_usd = Ok (None, [], Some QErr.fxt_zero_amount).
Proof. exact FxtNoPanic.zero_pair_is_an_error. Qed.

(* ---- the whole Questrade converter (tx-export-convert) ----
   excel.rs (header map, SheetReader::get / get_str / get_dec), questrade.rs
   (sheet_to_txs), fx_tracker.rs (add_fxt_row, add_implicit_fxt, fx_tx) and the
   pipeline of tx_export_convert_impl.rs (account check / filters / rate /
   sort), as modelled in Model/Questrade.v: in exact arithmetic the run of the
   converter on ANY decoded sheet - any cells, any header layout (missing,
   repeated, blank, non-text header cells), both header policies, any options -
   ends with a result (CSV rows + row errors, "Sheet was empty", or the
   several-accounts message); it never panics and never stops otherwise.
   [wide_enough]: every row is at least as wide as the header row; an
   office::Range has this by construction (its rows are the chunks(width) of
   one vector), and without it the model does panic at the row index of
   excel.rs:39 (QtNoPanic.ragged_row_panics_in_model) - no decoded sheet does.
   Under rust_decimal the statement is limited by class decimal-overflow and by
   nothing else: C05_questrade_converter_dec_only_overflow.
   Outside the model: xlsx decoding, f64 -> Decimal, Error cells - and a
   Range of width 0: the model's sheet [] stands for a Range without rows
   ("Sheet was empty"), but the Range that the office crate returns for a
   worksheet without <dimension> and without cells is Range::default() of
   size (0, 0), and on it the real sheet_to_txs panics in `sheet.rows()`
   (chunks(0), "chunk size must be non-zero"): a genuine panic of the real
   binary found while checking this theorem's input class against the code,
   reported in design.d/qtnopanic.md (not expressible in the model as it is). *)
From ACB Require Import Proofs.QuestradeProps Proofs.QtNoPanic.

Theorem C05_questrade_converter_never_panics_exact : forall pol o sh,
  wide_enough sh -> exists r, run exact pol o sh = Ok r.
Proof. exact QtNoPanic.run_total. Qed.
Check C05_questrade_converter_never_panics_exact : forall pol o sh,
  wide_enough sh -> exists r, run exact pol o sh = Ok r.
Print Assumptions C05_questrade_converter_never_panics_exact.

(* the same for the rectangular sheets of C18, in the form of the task *)
Theorem C05_questrade_converter_never_panics_exact_rect : forall o hdr rows,
  Forall (fun r => length r = length hdr) rows ->
  match run exact HeaderEnumerated o (hdr :: rows) with Panic _ => False | _ => True end.
Proof.
  intros o hdr rows H. apply QtNoPanic.run_exact_no_panic. apply QtNoPanic.rectangular_wide. exact H.
Qed.
Check C05_questrade_converter_never_panics_exact_rect : forall o hdr rows,
  Forall (fun r => length r = length hdr) rows ->
  match run exact HeaderEnumerated o (hdr :: rows) with Panic _ => False | _ => True end.
Print Assumptions C05_questrade_converter_never_panics_exact_rect.

(* rust_decimal arithmetic: the converter's only panic is an operator overflow
   (the products price * shares and cad * usd, the difference - commission, the
   quotient cad / usd): class decimal-overflow of C05 *)
Theorem C05_questrade_converter_dec_only_overflow : forall pol o sh,
  wide_enough sh ->
  match run dec pol o sh with Ok _ => True | Rej _ => False | Panic p => p = PanicOverflow end.
Proof. exact QtNoPanic.run_dec_only_overflow. Qed.
Check C05_questrade_converter_dec_only_overflow : forall pol o sh,
  wide_enough sh ->
  match run dec pol o sh with Ok _ => True | Rej _ => False | Panic p => p = PanicOverflow end.
Print Assumptions C05_questrade_converter_dec_only_overflow.

(* Non-vacuity: the example export of C18 (USD buy, CAD sell, a paired
   CAD/USD conversion, a USD dividend, a deposit) followed by a BUY whose
   Quantity cell is a boolean and by a row with an unknown action: the sheet is
   rectangular, the run yields 5 rows (from sheet rows 2, 5, 2, 3, 6) and the
   two row errors, the same under rust_decimal. *)
Example C05_questrade_converter_nonvacuous :
  Forall (fun r => length r = length ex_header) (ex_rows ++ damaged_rows) /\
  wide_enough np_sheet /\
  length (out_rows (run exact HeaderEnumerated no_opts np_sheet)) = 5%nat /\
  out_errs (run exact HeaderEnumerated no_opts np_sheet)
  = [(8, QErr.bool_value Col.qty); (9, QErr.unrecognized_action)]%N /\
  map b_row (out_rows (run exact HeaderEnumerated no_opts np_sheet)) = [2; 5; 2; 3; 6]%N /\
  run dec HeaderEnumerated no_opts np_sheet = run exact HeaderEnumerated no_opts np_sheet.
Proof. exact QtNoPanic.np_sheet_facts. Qed.
