(* C10 - A summary CSV reproduces the history it replaces.  (in progress) *)
From ACB Require Import Model.Summary.
