(* C10 - A summary CSV reproduces the history it replaces.
   Model: Model/Summary.v on top of the bookkeeping model
   (Model/{Tx,Ledger,Sfl,DeltaList,App}.v).  Proofs: Proofs/SummaryProps.v. *)
From Coq Require Import List NArith ZArith QArith Qcanon Bool.
From ACB Require Import Base.Outcome Base.QcExtra Base.Arith Model.Tx Model.Ledger Model.Sfl
     Model.DeltaList Model.App Model.Summary Model.SummaryObs Proofs.SummaryProps.
From Coq Require Import Sorted.
From ACB Require Import Proofs.C15Full Proofs.SortLayout Proofs.C10Scan Proofs.C10Sim Proofs.C10Roundtrip
     Proofs.C10Ranges Proofs.C10Cut Proofs.C10Window Proofs.C10Classes Proofs.C10Holdings Proofs.C10Entry Proofs.C10Examples Proofs.C10Annual Proofs.C04Inv.
From ACB Require Import Model.SummaryApp Proofs.C10Calendar Proofs.C10AnnualRun Proofs.C10AnnualEntry Proofs.C10AnnualEx.
Import ListNotations.

(* ------------------------------------------------------------------ the full statement
   For every accepted history of a security, every date and both modes:
   summary ++ (rows settling after the date) is accepted and reports every
   later row (action, affiliate, date, share balance, cost base, capital gain,
   superficial loss) as the full history does - exact arithmetic. *)
Definition C10_full : Prop := forall latest annual rows,
  history_ok exact rows = true -> roundtrip_ok exact latest annual rows = true.

(* It does not hold of the code: three executable classes of (history, date,
   mode), each with a kernel-checked witness that the check replays on the
   implementation on every run (known findings).  The witnesses fail under
   exact arithmetic and under rust_decimal rounding alike. *)
Theorem C10_roundtrip_refuted :
  exists latest annual rows, history_ok exact rows = true /\ roundtrip_ok exact latest annual rows = false.
Proof. exists wit1_date, false, wit1. split; apply wit1_fails. Qed.
Check C10_roundtrip_refuted :
  exists latest annual rows, history_ok exact rows = true /\ roundtrip_ok exact latest annual rows = false.
Print Assumptions C10_roundtrip_refuted.

(* K_summary_buy_in_window: a loss sale that is not superficial in the full
   history settles within 30 days after a generated summary purchase *)
Theorem C10_K_summary_buy_in_window_witness :
  history_ok exact wit1 = true /\ roundtrip_ok exact wit1_date false wit1 = false
  /\ roundtrip_ok dec wit1_date false wit1 = false
  /\ K_summary_buy_in_window exact wit1_date false wit1 = true.
Proof. exact wit1_fails. Qed.
Check C10_K_summary_buy_in_window_witness :
  history_ok exact wit1 = true /\ roundtrip_ok exact wit1_date false wit1 = false
  /\ roundtrip_ok dec wit1_date false wit1 = false
  /\ K_summary_buy_in_window exact wit1_date false wit1 = true.
Print Assumptions C10_K_summary_buy_in_window_witness.

(* K_annual_sell_in_window: annual mode, an acquisition settles within 30 days
   after a generated 1-January sale that realises a loss *)
Theorem C10_K_annual_sell_in_window_witness :
  history_ok exact wit2 = true /\ roundtrip_ok exact wit2_date true wit2 = false
  /\ roundtrip_ok dec wit2_date true wit2 = false
  /\ K_annual_sell_in_window exact wit2_date true wit2 = true
  /\ K_summary_buy_in_window exact wit2_date true wit2 = false.
Proof. exact wit2_fails. Qed.
Check C10_K_annual_sell_in_window_witness :
  history_ok exact wit2 = true /\ roundtrip_ok exact wit2_date true wit2 = false
  /\ roundtrip_ok dec wit2_date true wit2 = false
  /\ K_annual_sell_in_window exact wit2_date true wit2 = true
  /\ K_summary_buy_in_window exact wit2_date true wit2 = false.
Print Assumptions C10_K_annual_sell_in_window_witness.

(* K_zero_balance_acb: a summarised affiliate holds no shares but a cost base
   (an adjustment for shares it acquires after the date): no row is generated
   for it and the adjustment is lost *)
Theorem C10_K_zero_balance_acb_witness :
  history_ok exact wit3 = true /\ roundtrip_ok exact wit3_date false wit3 = false
  /\ roundtrip_ok dec wit3_date false wit3 = false
  /\ K_zero_balance_acb exact wit3_date wit3 = true
  /\ K_summary_buy_in_window exact wit3_date false wit3 = false.
Proof. exact wit3_fails. Qed.
Check C10_K_zero_balance_acb_witness :
  history_ok exact wit3 = true /\ roundtrip_ok exact wit3_date false wit3 = false
  /\ roundtrip_ok dec wit3_date false wit3 = false
  /\ K_zero_balance_acb exact wit3_date wit3 = true
  /\ K_summary_buy_in_window exact wit3_date false wit3 = false.
Print Assumptions C10_K_zero_balance_acb_witness.

(* The positive statement outside the classes.  NOT proved (it needs the
   window scans of every later loss sale to see the same acquisitions and the
   same end-of-window holdings in both runs); it is searched for
   counterexamples by the check on every run.  What is proved is below. *)
Definition C10_outside_known_full : Prop := forall latest annual rows,
  history_ok exact rows = true ->
  K_summary_buy_in_window exact latest annual rows = false ->
  K_annual_sell_in_window exact latest annual rows = false ->
  K_zero_balance_acb exact latest rows = false ->
  roundtrip_ok exact latest annual rows = true.

(* ------------------------------------------------------------------ what is proved (partial)
   (1) the row generated for an affiliate holding (shares > 0, cost base) is
   the purchase of those shares at cost base / shares, and
   (2) running the generated purchases alone - any number of affiliates, in
   any order, registered or not - rebuilds exactly each affiliate's shares and
   cost base (exact arithmetic): the state at the cut. *)
Theorem C10_summary_row : forall af d,
  holding_ok af (d_post d) ->
  simple_summary exact af d = Ok [summary_buy (d_tx d) (d_sd d) af (d_post d)].
Proof. exact simple_summary_exact. Qed.
Check C10_summary_row : forall af d,
  holding_ok af (d_post d) ->
  simple_summary exact af d = Ok [summary_buy (d_tx d) (d_sd d) af (d_post d)].
Print Assumptions C10_summary_row.

Theorem C10_state_at_cut : forall like (hs : list hold_row),
  hs <> [] ->
  NoDup (map (fun h : hold_row => af_id (fst (fst h))) hs) ->
  Forall (fun h : hold_row => holding_ok (fst (fst h)) (snd (fst h))) hs ->
  exists ds,
    run exact None (map (hold_tx like) hs) = (ds, None)
    /\ map (fun d => (s_sh (d_post d), s_acb (d_post d))) ds
       = map (fun h : hold_row => (s_sh (snd (fst h)), s_acb (snd (fst h)))) hs.
Proof. exact state_at_cut. Qed.
Check C10_state_at_cut : forall like (hs : list hold_row),
  hs <> [] ->
  NoDup (map (fun h : hold_row => af_id (fst (fst h))) hs) ->
  Forall (fun h : hold_row => holding_ok (fst (fst h)) (snd (fst h))) hs ->
  exists ds,
    run exact None (map (hold_tx like) hs) = (ds, None)
    /\ map (fun d => (s_sh (d_post d), s_acb (d_post d))) ds
       = map (fun h : hold_row => (s_sh (snd (fst h)), s_acb (snd (fst h)))) hs.
Print Assumptions C10_state_at_cut.

(* (3) Later rows are reproduced from equivalent states: if the full history
   processes the later rows from a ledger state s1 without error and none of
   the reported rows went through the superficial-loss rule (no later sale at
   a loss), then from ANY state s2 that agrees with s1 on every affiliate's
   shares and cost base and on the total holding - whatever rows came before -
   exactly the same rows are reported.  (What is missing for the full
   statement outside the classes: later sales at a loss, i.e. that their
   30-day window scans see the same acquisitions and end-of-window holdings.) *)
Theorem C10_later_rows_reproduced : forall rows bef1 bef2 s1 s2 ds,
  st_equiv s1 s2 ->
  run_loop exact bef1 s1 rows = (ds, None) -> Forall quiet_delta ds ->
  run_loop exact bef2 s2 rows = (ds, None).
Proof. exact later_rows_reproduced. Qed.
Check C10_later_rows_reproduced : forall rows bef1 bef2 s1 s2 ds,
  st_equiv s1 s2 ->
  run_loop exact bef1 s1 rows = (ds, None) -> Forall quiet_delta ds ->
  run_loop exact bef2 s2 rows = (ds, None).
Print Assumptions C10_later_rows_reproduced.

(* (4) = (2) + (3): the round trip for the simple mode when the whole prefix is
   summarisable and no later row goes through the superficial-loss rule.
   [s1]/[bef1]: ledger state and rows of the full history at the cut; [hs]:
   the holdings the summary purchases are generated from (every affiliate
   holding shares; all others hold nothing and have no cost base - the
   complement of K_zero_balance_acb).  Then summary ++ later rows is accepted
   and reports the later rows EXACTLY as the full history does, after rows
   rebuilding the holdings. *)
Theorem C10_roundtrip_partial : forall like (hs : list hold_row) later bef1 s1 ds,
  hs <> [] ->
  NoDup (map (fun h : hold_row => af_id (fst (fst h))) hs) ->
  Forall (fun h : hold_row => holding_ok (fst (fst h)) (snd (fst h))) hs ->
  ps_all s1 = total_held hs ->
  (forall af, core_of s1 af = match find_hold hs af with
                              | Some h => (s_sh (snd (fst h)), s_acb (snd (fst h)))
                              | None => (0%Qc, if af_reg af then None else Some 0%Qc)
                              end) ->
  run_loop exact bef1 s1 later = (ds, None) -> Forall quiet_delta ds ->
  exists dss,
    run exact None (map (hold_tx like) hs ++ later) = (dss ++ ds, None)
    /\ map (fun d => (s_sh (d_post d), s_acb (d_post d))) dss
       = map (fun h : hold_row => (s_sh (snd (fst h)), s_acb (snd (fst h)))) hs.
Proof. exact simple_roundtrip_quiet. Qed.
Check C10_roundtrip_partial : forall like (hs : list hold_row) later bef1 s1 ds,
  hs <> [] ->
  NoDup (map (fun h : hold_row => af_id (fst (fst h))) hs) ->
  Forall (fun h : hold_row => holding_ok (fst (fst h)) (snd (fst h))) hs ->
  ps_all s1 = total_held hs ->
  (forall af, core_of s1 af = match find_hold hs af with
                              | Some h => (s_sh (snd (fst h)), s_acb (snd (fst h)))
                              | None => (0%Qc, if af_reg af then None else Some 0%Qc)
                              end) ->
  run_loop exact bef1 s1 later = (ds, None) -> Forall quiet_delta ds ->
  exists dss,
    run exact None (map (hold_tx like) hs ++ later) = (dss ++ ds, None)
    /\ map (fun d => (s_sh (d_post d), s_acb (d_post d))) dss
       = map (fun h : hold_row => (s_sh (snd (fst h)), s_acb (snd (fst h)))) hs.
Print Assumptions C10_roundtrip_partial.

(* ------------------------------------------------------------------ C10_annual_gains
   Annual mode: a generated 1-share sale at (per-share cost + gain) with
   commission [loss] out of a holding whose cost base is per-share cost x
   shares realises exactly gain - loss (the year's net capital gain) and
   leaves the per-share cost unchanged, so the base purchase of
   (shares + number of years) at the per-share cost ends at the holding at the
   cut.  (Before the superficial-loss rule is applied to the generated sale:
   that application is class K_annual_sell_in_window.) *)
Theorem C10_annual_gains : forall (pre : status) (aps gain loss : Qc),
  (1 <= s_sh pre)%Qc -> (1 <= s_all pre)%Qc -> s_acb pre = Some (aps * s_sh pre)%Qc ->
  (0 <= aps)%Qc -> (0 <= gain)%Qc -> (0 <= loss)%Qc ->
  sell_core exact pre 1 (aps + gain) loss 1 1
  = Ok {| sc_sh := (s_sh pre - 1)%Qc; sc_all := (s_all pre - 1)%Qc;
          sc_acb := Some ((s_sh pre - 1) * aps)%Qc; sc_gain := Some (gain - loss)%Qc |}.
Proof. exact annual_sale_identity. Qed.
Check C10_annual_gains : forall (pre : status) (aps gain loss : Qc),
  (1 <= s_sh pre)%Qc -> (1 <= s_all pre)%Qc -> s_acb pre = Some (aps * s_sh pre)%Qc ->
  (0 <= aps)%Qc -> (0 <= gain)%Qc -> (0 <= loss)%Qc ->
  sell_core exact pre 1 (aps + gain) loss 1 1
  = Ok {| sc_sh := (s_sh pre - 1)%Qc; sc_all := (s_all pre - 1)%Qc;
          sc_acb := Some ((s_sh pre - 1) * aps)%Qc; sc_gain := Some (gain - loss)%Qc |}.
Print Assumptions C10_annual_gains.

(* ------------------------------------------------------------------ non-vacuity *)
(* outside the classes the round trip does hold on a neighbouring history (the
   loss sale 31 days after the generated purchase), and three affiliates (one
   registered) with fractional holdings satisfy the hypotheses of
   C10_state_at_cut *)
Definition ex_reg : aff := {| af_id := 1001; af_reg := true; af_dflt := true |}.
Definition ex_hs : list hold_row := [
  (default_aff, {| s_sh := wq 73 10; s_all := wq 0 1; s_acb := Some (wq 1001 8) |}, 737060%Z);
  (ex_reg, {| s_sh := wq 5 1; s_all := wq 0 1; s_acb := None |}, 737100%Z);
  (spouse_aff, {| s_sh := wq 1 3; s_all := wq 0 1; s_acb := Some (wq 0 1) |}, 737050%Z)].
Example C10_nonvacuous :
  (history_ok exact wit1_far = true /\ roundtrip_ok exact wit1_date false wit1_far = true
   /\ roundtrip_ok dec wit1_date false wit1_far = true
   /\ K_summary_buy_in_window exact wit1_date false wit1_far = false
   /\ K_zero_balance_acb exact wit1_date wit1_far = false)
  /\ (map (fun d => (s_sh (d_post d), s_acb (d_post d)))
          (fst (run exact None (map (hold_tx (wrow 0 0 (wbuy 1 1) default_aff)) ex_hs)))
      = [(wq 73 10, Some (wq 1001 8)); (wq 5 1, None); (wq 1 3, Some (wq 0 1))]
      /\ snd (run exact None (map (hold_tx (wrow 0 0 (wbuy 1 1) default_aff)) ex_hs)) = None).
Proof. split; [exact wit1_far_ok|]. vm_compute. split; reflexivity. Qed.

(* the hypotheses of C10_later_rows_reproduced are satisfiable: a purchase and
   a sale at a gain from two states that differ in what they remember (one
   knows the holder through an earlier row with another total) *)
Definition ex_s1 : pstate :=
  {| ps_map := [(default_id, {| s_sh := wq 10 1; s_all := wq 10 1; s_acb := Some (wq 100 1) |})];
     ps_all := wq 10 1; ps_latest := default_aff |}.
Definition ex_s2 : pstate :=
  {| ps_map := [(1003%N, {| s_sh := wq 0 1; s_all := wq 7 1; s_acb := Some (wq 0 1) |});
                (default_id, {| s_sh := wq 10 1; s_all := wq 3 1; s_acb := Some (wq 100 1) |})];
     ps_all := wq 10 1; ps_latest := spouse_aff |}.
Definition ex_later : list tx := [wrow 5 100 (wbuy 2 11) spouse_aff; wrow 6 101 (wsell 3 12) default_aff].
Example C10_later_rows_nonvacuous :
  snd (run_loop exact [] ex_s1 ex_later) = None
  /\ length (fst (run_loop exact [] ex_s1 ex_later)) = 2%nat
  /\ run_loop exact [wrow 0 1 (wbuy 1 1) default_aff] ex_s2 ex_later = run_loop exact [] ex_s1 ex_later.
Proof. vm_compute. repeat split. Qed.

(* and of C10_roundtrip_partial: the holdings [default: 10 shares, $100] match
   the state ex_s1; the two later rows follow the generated purchase *)
Definition ex_hs1 : list hold_row :=
  [(default_aff, {| s_sh := wq 10 1; s_all := wq 10 1; s_acb := Some (wq 100 1) |}, 50%Z)].
Example C10_roundtrip_partial_nonvacuous :
  ps_all ex_s1 = total_held ex_hs1
  /\ core_of ex_s1 default_aff = (wq 10 1, Some (wq 100 1))
  /\ core_of ex_s1 spouse_aff = (wq 0 1, Some (wq 0 1))
  /\ snd (run_loop exact [] ex_s1 ex_later) = None
  /\ run exact None (map (hold_tx (wrow 0 0 (wbuy 1 1) default_aff)) ex_hs1 ++ ex_later)
     = (fst (run exact None (map (hold_tx (wrow 0 0 (wbuy 1 1) default_aff)) ex_hs1))
          ++ fst (run_loop exact [] ex_s1 ex_later), None).
Proof. vm_compute. repeat split. Qed.

(* ==================================================================== extension: kept rows and later sales at a loss
   (Proofs/C10Scan.v, C10Sim.v, C10Roundtrip.v, C10Ranges.v, C10Cut.v, C10Window.v; design.d/C10-roundtrip.md) *)

(* ------------------------------------------------------------------ C10_outside_known_full is FALSE as worded
   A fourth class, K_idle_split_expansion: a later split entered for all
   affiliates is expanded, in the full history, also over an affiliate that
   sold everything before the date; the re-run has no row of that affiliate
   and reports one expansion row less (0 shares before and after).  The strict
   row-by-row comparison of [roundtrip_ok] fails outside the three classes;
   with those idle rows left out of the comparison ([roundtrip_obs_ok], which
   is how the check compares) the witness round-trips.  Exact and dec. *)
Theorem C10_outside_known_full_refuted : ~ C10_outside_known_full.
Proof.
  intros H. specialize (H wit4_date false wit4).
  destruct wit4_fails as (H1 & H2 & _ & H4 & H5 & H6 & _).
  rewrite (H H1 H4 H5 H6) in H2. discriminate H2.
Qed.
Check C10_outside_known_full_refuted : ~ C10_outside_known_full.
Print Assumptions C10_outside_known_full_refuted.

Theorem C10_K_idle_split_expansion_witness :
  history_ok exact wit4 = true /\ roundtrip_ok exact wit4_date false wit4 = false
  /\ roundtrip_ok dec wit4_date false wit4 = false
  /\ K_summary_buy_in_window exact wit4_date false wit4 = false
  /\ K_annual_sell_in_window exact wit4_date false wit4 = false
  /\ K_zero_balance_acb exact wit4_date wit4 = false
  /\ K_idle_split_expansion exact wit4_date wit4 = true
  /\ roundtrip_obs_ok exact wit4_date false wit4 = true
  /\ roundtrip_obs_ok dec wit4_date false wit4 = true.
Proof. exact wit4_fails. Qed.
Check C10_K_idle_split_expansion_witness :
  history_ok exact wit4 = true /\ roundtrip_ok exact wit4_date false wit4 = false
  /\ roundtrip_ok dec wit4_date false wit4 = false
  /\ K_summary_buy_in_window exact wit4_date false wit4 = false
  /\ K_annual_sell_in_window exact wit4_date false wit4 = false
  /\ K_zero_balance_acb exact wit4_date wit4 = false
  /\ K_idle_split_expansion exact wit4_date wit4 = true
  /\ roundtrip_obs_ok exact wit4_date false wit4 = true
  /\ roundtrip_obs_ok dec wit4_date false wit4 = true.
Print Assumptions C10_K_idle_split_expansion_witness.

(* the positive statement, outside the four classes (idle expansion rows not
   compared): still a Definition; what is proved of it is below *)
Definition C10_outside_known2_full : Prop := forall latest annual rows,
  history_ok exact rows = true ->
  K_summary_buy_in_window exact latest annual rows = false ->
  K_annual_sell_in_window exact latest annual rows = false ->
  K_zero_balance_acb exact latest rows = false ->
  roundtrip_obs_ok exact latest annual rows = true.

(* ------------------------------------------------------------------ (5) what summary_ranges computes
   On a delta list sorted by settlement date the three index ranges cut the
   list in summarised / re-emitted / later rows; there is a date c1 between
   the summarised and the other rows such that EVERY superficial loss among
   the re-emitted and later rows (not only the first one, which is all the
   code looks at after the date) has c1 before its 30-day window. *)
Theorem C10_summary_ranges_cut : forall latest ds rg,
  d_sorted ds -> summary_ranges latest ds = Some rg ->
  exists dsP dsK dsT c1,
    ds = dsP ++ dsK ++ dsT /\ length dsP = first_unsum rg /\ length (dsP ++ dsK) = S (rg_latest rg)
    /\ dsP ++ dsK <> [] /\ (c1 <= latest)%Z
    /\ Forall (fun d => (d_sd d <= c1)%Z) dsP
    /\ Forall (fun d => (c1 < d_sd d)%Z /\ (d_sd d <= latest)%Z) dsK
    /\ Forall (fun d => (latest < d_sd d)%Z) dsT
    /\ (forall s, In s (dsK ++ dsT) -> is_sfl_delta s = true -> (c1 < d_sd s - window_days)%Z).
Proof. exact summary_ranges_cut. Qed.
Check C10_summary_ranges_cut : forall latest ds rg,
  d_sorted ds -> summary_ranges latest ds = Some rg ->
  exists dsP dsK dsT c1,
    ds = dsP ++ dsK ++ dsT /\ length dsP = first_unsum rg /\ length (dsP ++ dsK) = S (rg_latest rg)
    /\ dsP ++ dsK <> [] /\ (c1 <= latest)%Z
    /\ Forall (fun d => (d_sd d <= c1)%Z) dsP
    /\ Forall (fun d => (c1 < d_sd d)%Z /\ (d_sd d <= latest)%Z) dsK
    /\ Forall (fun d => (latest < d_sd d)%Z) dsT
    /\ (forall s, In s (dsK ++ dsT) -> is_sfl_delta s = true -> (c1 < d_sd s - window_days)%Z).
Print Assumptions C10_summary_ranges_cut.

(* ------------------------------------------------------------------ (6) later rows INCLUDING sales at a loss
   Generalises C10_later_rows_reproduced.  Two runs of the same rows T from
   states that agree on every holding and on the totals ([srel]); behind T
   stand D1 ++ B1 in the full history and D2 ++ B2 in the re-run, D2 being D1
   with sales re-specified.  If every reported row with a superficial loss has
   B1 and B2 before its window, every other sale at a loss has B2 before its
   window ([wcond]), and no row carries a zero superficial-loss cell, the
   re-run reports EXACTLY the same rows - generated adjustments included.
   Since the fix "treat a superficial loss that rounds to zero effective cents
   as no superficial loss" a sale may carry no superficial loss although the
   scans of the full history found one (the denied amount rounded to zero);
   the re-run, seeing at most the same acquisitions, denies at most as much
   and rounds to zero as well (Proofs/C10Zero.v) - for that step the state of
   the full history is well formed ([st_ok], as every state of an accepted run
   is) and every sale sells a positive number of shares ([sell_pos], what
   Tx::try_from guarantees): two hypotheses the statement did not have
   before. *)
Theorem C10_later_loss_rows_reproduced : forall B1 B2 regof T D1 D2 st1 st2 dsT,
  Forall2 row_sim D2 D1 -> srel regof st1 st2 -> Forall spec_nz T ->
  st_ok st1 -> Forall sell_pos T ->
  run_loop exact (D1 ++ B1) st1 T = (dsT, None) -> Forall (wcond B1 B2) dsT ->
  Forall (gooddelta regof) dsT ->
  run_loop exact (D2 ++ B2) st2 T = (dsT, None).
Proof. exact later_sim. Qed.
Check C10_later_loss_rows_reproduced : forall B1 B2 regof T D1 D2 st1 st2 dsT,
  Forall2 row_sim D2 D1 -> srel regof st1 st2 -> Forall spec_nz T ->
  st_ok st1 -> Forall sell_pos T ->
  run_loop exact (D1 ++ B1) st1 T = (dsT, None) -> Forall (wcond B1 B2) dsT ->
  Forall (gooddelta regof) dsT ->
  run_loop exact (D2 ++ B2) st2 T = (dsT, None).
Print Assumptions C10_later_loss_rows_reproduced.

(* ------------------------------------------------------------------ (7) a re-emitted sale
   The sale is written back with the superficial loss the full history
   computed (or was given; a forced value stays forced).  In the re-run, when
   the scans see the same rows, the supplied value IS the computed one: the
   0.001 check passes, the same amount is denied, the same balances, cost base
   and capital gain are reported, and no adjustment rows are generated. *)
Theorem C10_kept_sale_reproduced :
  forall regof bef2 bef1 t1 aft2 aft1 st2 st1 d inj info sh aps com rate crate spec1,
  srel regof st1 st2 -> goodaf regof (t_af t1) ->
  t_act t1 = Sell sh aps com rate crate spec1 -> (0 < sh)%Qc ->
  delta_for_tx exact bef1 t1 aft1 st1 = Ok (d, inj) -> d_sfl d = Some info ->
  FwdEq (t_sd t1) aft2 aft1 -> BwdEq (t_sd t1) bef2 bef1 ->
  exists info',
    delta_for_tx exact bef2 (respec t1 (Some (sf_amount info, force_of spec1))) aft2 st2
    = Ok ({| d_tx := respec t1 (Some (sf_amount info, force_of spec1)); d_pre := d_pre d; d_post := d_post d;
             d_gain := d_gain d; d_sfl := Some info' |}, [])
    /\ sf_amount info' = sf_amount info.
Proof. exact delta_for_tx_kept. Qed.
Check C10_kept_sale_reproduced :
  forall regof bef2 bef1 t1 aft2 aft1 st2 st1 d inj info sh aps com rate crate spec1,
  srel regof st1 st2 -> goodaf regof (t_af t1) ->
  t_act t1 = Sell sh aps com rate crate spec1 -> (0 < sh)%Qc ->
  delta_for_tx exact bef1 t1 aft1 st1 = Ok (d, inj) -> d_sfl d = Some info ->
  FwdEq (t_sd t1) aft2 aft1 -> BwdEq (t_sd t1) bef2 bef1 ->
  exists info',
    delta_for_tx exact bef2 (respec t1 (Some (sf_amount info, force_of spec1))) aft2 st2
    = Ok ({| d_tx := respec t1 (Some (sf_amount info, force_of spec1)); d_pre := d_pre d; d_post := d_post d;
             d_gain := d_gain d; d_sfl := Some info' |}, [])
    /\ sf_amount info' = sf_amount info.
Print Assumptions C10_kept_sale_reproduced.

(* ------------------------------------------------------------------ (8) the round trip of the ledger loop
   simple mode; ANY cut (rows re-emitted or not); later sales at a loss.
   The full history, rows sorted by date, is run in three parts P, K, T whose
   deltas are the three parts that summary_ranges computes for the date; [hs]:
   the holdings at the end of P (an entry per affiliate holding shares; all
   others hold nothing and have no cost base - the complement of
   K_zero_balance_acb), each dated at a row of P, as make_simple_summary_txs
   dates them.  Outside K_summary_buy_in_window (its condition, spelled out),
   when every supplied superficial-loss cell is non-zero and sales sell a
   positive number of shares:
   (generated purchases ++ re-emitted rows ++ later rows) is ACCEPTED, the
   re-emitted rows report the same balances, cost bases and gains, and the
   later rows are reported EXACTLY as the full history reports them. *)
Theorem C10_roundtrip_simple_partial :
  forall regof like (hs : list hold_row) latest rg P K T dsP B1 st1 dsK bK stK dsT K',
  sd_sorted (P ++ K ++ T) ->
  run_part exact [] st0 P (K ++ T) = (dsP, B1, st1, None) ->
  run_part exact B1 st1 K T = (dsK, bK, stK, None) ->
  run_loop exact bK stK T = (dsT, None) ->
  summary_ranges latest (dsP ++ dsK ++ dsT) = Some rg ->
  length dsP = first_unsum rg -> length (dsP ++ dsK) = S (rg_latest rg) ->
  NoDup (map (fun h : hold_row => af_id (fst (fst h))) hs) ->
  Forall (fun h : hold_row => holding_ok (fst (fst h)) (snd (fst h))) hs ->
  ps_all st1 = total_held hs ->
  (forall af, goodaf regof af -> obs st1 af = held_obs hs af (0%Qc, if af_reg af then None else Some 0%Qc)) ->
  Forall (gooddelta regof) (dsK ++ dsT) ->
  Forall (fun h : hold_row => exists d, In d dsP /\ snd h = d_sd d) hs ->
  (forall h d, In h hs -> In d (dsK ++ dsT) -> plain_loss_sell d = true -> within_after (snd h) (d_sd d) = false) ->
  keep_all dsK = Ok K' ->
  Forall spec_nz (K ++ T) -> Forall sell_pos (K ++ T) ->
  exists dsG dsK',
    run exact None (map (hold_tx like) hs ++ K' ++ T) = (dsG ++ dsK' ++ dsT, None)
    /\ map (fun d => (s_sh (d_post d), s_acb (d_post d))) dsG
       = map (fun h : hold_row => (s_sh (snd (fst h)), s_acb (snd (fst h)))) hs
    /\ map d_post dsK' = map d_post dsK /\ map d_gain dsK' = map d_gain dsK
    /\ Forall (fun d => exists g, In g (map (hold_tx like) hs ++ K') /\ d_sd d = t_sd g) (dsG ++ dsK').
Proof. exact roundtrip_ranges. Qed.
Check C10_roundtrip_simple_partial :
  forall regof like (hs : list hold_row) latest rg P K T dsP B1 st1 dsK bK stK dsT K',
  sd_sorted (P ++ K ++ T) ->
  run_part exact [] st0 P (K ++ T) = (dsP, B1, st1, None) ->
  run_part exact B1 st1 K T = (dsK, bK, stK, None) ->
  run_loop exact bK stK T = (dsT, None) ->
  summary_ranges latest (dsP ++ dsK ++ dsT) = Some rg ->
  length dsP = first_unsum rg -> length (dsP ++ dsK) = S (rg_latest rg) ->
  NoDup (map (fun h : hold_row => af_id (fst (fst h))) hs) ->
  Forall (fun h : hold_row => holding_ok (fst (fst h)) (snd (fst h))) hs ->
  ps_all st1 = total_held hs ->
  (forall af, goodaf regof af -> obs st1 af = held_obs hs af (0%Qc, if af_reg af then None else Some 0%Qc)) ->
  Forall (gooddelta regof) (dsK ++ dsT) ->
  Forall (fun h : hold_row => exists d, In d dsP /\ snd h = d_sd d) hs ->
  (forall h d, In h hs -> In d (dsK ++ dsT) -> plain_loss_sell d = true -> within_after (snd h) (d_sd d) = false) ->
  keep_all dsK = Ok K' ->
  Forall spec_nz (K ++ T) -> Forall sell_pos (K ++ T) ->
  exists dsG dsK',
    run exact None (map (hold_tx like) hs ++ K' ++ T) = (dsG ++ dsK' ++ dsT, None)
    /\ map (fun d => (s_sh (d_post d), s_acb (d_post d))) dsG
       = map (fun h : hold_row => (s_sh (snd (fst h)), s_acb (snd (fst h)))) hs
    /\ map d_post dsK' = map d_post dsK /\ map d_gain dsK' = map d_gain dsK
    /\ Forall (fun d => exists g, In g (map (hold_tx like) hs ++ K') /\ d_sd d = t_sd g) (dsG ++ dsK').
Print Assumptions C10_roundtrip_simple_partial.

(* the full statement of the simple mode at the level of the model's entry
   points (rows numbered in input order, one security): NOT proved; see
   design.d/C10-roundtrip.md for exactly what separates it from
   C10_roundtrip_simple_partial *)
Definition C10_roundtrip_simple_full : Prop := forall latest rows0,
  let rows := number_from 0 rows0 in
  history_ok exact rows = true ->
  forallb valid_tx rows = true ->
  K_summary_buy_in_window exact latest false rows = false ->
  K_zero_balance_acb exact latest rows = false ->
  roundtrip_obs_ok exact latest false rows = true.

(* ------------------------------------------------------------------ non-vacuity
   a history with a re-emitted superficial sale (and its adjustment row), a
   later superficial sale whose window reaches back over the re-emitted rows,
   and a later plain loss satisfies every hypothesis of
   C10_roundtrip_simple_partial; the model's own [roundtrip_ok] holds on it *)
Example C10_roundtrip_simple_partial_nonvacuous :
  sd_sorted (rt_P ++ rt_K ++ rt_T)
  /\ run_part exact [] st0 rt_P (rt_K ++ rt_T) = (rt_dsP, rt_B1, rt_st1, None)
  /\ run_part exact rt_B1 rt_st1 rt_K rt_T = (rt_dsK, rt_bK, rt_stK, None)
  /\ run_loop exact rt_bK rt_stK rt_T = (rt_dsT, None)
  /\ summary_ranges rt_date (rt_dsP ++ rt_dsK ++ rt_dsT) = Some rt_rg
  /\ length rt_dsP = first_unsum rt_rg /\ length (rt_dsP ++ rt_dsK) = S (rg_latest rt_rg)
  /\ NoDup (map (fun h : hold_row => af_id (fst (fst h))) rt_hs)
  /\ Forall (fun h : hold_row => holding_ok (fst (fst h)) (snd (fst h))) rt_hs
  /\ ps_all rt_st1 = total_held rt_hs
  /\ (forall af, goodaf (fun _ => false) af ->
                 obs rt_st1 af = held_obs rt_hs af (Q2Qc 0, if af_reg af then None else Some (Q2Qc 0)))
  /\ Forall (gooddelta (fun _ => false)) (rt_dsK ++ rt_dsT)
  /\ Forall (fun h : hold_row => exists d, In d rt_dsP /\ snd h = d_sd d) rt_hs
  /\ (forall h d, In h rt_hs -> In d (rt_dsK ++ rt_dsT) -> plain_loss_sell d = true -> within_after (snd h) (d_sd d) = false)
  /\ keep_all rt_dsK = Ok rt_K'
  /\ Forall spec_nz (rt_K ++ rt_T) /\ Forall sell_pos (rt_K ++ rt_T)
  /\ map (fun d => (d_sd d, is_sfl_delta d, plain_loss_sell d)) (rt_dsK ++ rt_dsT)
     = [(737100, false, false); (737110, true, false); (737110, false, false);
        (737125, true, false); (737125, false, false); (737135, false, false); (737300, false, true)]%Z
  /\ map (fun t => act_tag (t_act t)) rt_K' = [0; 1; 3]%N
  /\ roundtrip_ok exact rt_date false (rt_P ++ rt_K ++ rt_T) = true
  /\ K_summary_buy_in_window exact rt_date false (rt_P ++ rt_K ++ rt_T) = false.
Proof. exact rt_hypotheses. Qed.

(* the hypotheses of C10_later_loss_rows_reproduced and C10_kept_sale_reproduced
   are those of the rows of this history (instances used inside the proof of
   C10_roundtrip_simple_partial); a direct instance: the later rows of the
   history from the state of the full history and from the state after the
   summary report the same rows, a superficial loss and a plain loss included *)
Example C10_later_loss_rows_nonvacuous :
  exists dsG dsK',
    run exact None (map (hold_tx rt_like) rt_hs ++ rt_K' ++ rt_T) = (dsG ++ dsK' ++ rt_dsT, None)
    /\ existsb is_sfl_delta rt_dsT = true /\ existsb plain_loss_sell rt_dsT = true
    /\ existsb is_sfl_delta rt_dsK = true.
Proof.
  destruct rt_hypotheses as (H1 & H2 & H3 & H4 & H5 & H6 & H7 & H8 & H9 & H10 & H11 & H11' & H12 & H13 & H14 & H15 & H16 & _).
  destruct (C10_roundtrip_simple_partial (fun _ => false) rt_like rt_hs rt_date rt_rg rt_P rt_K rt_T rt_dsP rt_B1 rt_st1 rt_dsK rt_bK rt_stK
              rt_dsT rt_K' H1 H2 H3 H4 H5 H6 H7 H8 H9 H10 H11 H11' H12 H13 H14 H15 H16) as (dsG & dsK' & E & _).
  exists dsG, dsK'. split; [exact E|]. vm_compute. repeat split.
Qed.

(* ==================================================================== extension 2: the model's entry points
   (Proofs/C10Holdings.v, C10Entry.v, C10Examples.v; design.d/C10-roundtrip.md) *)

(* ------------------------------------------------------------------ (9) the holdings at the cut
   After the summarised rows the ledger remembers, of every (well-formed)
   affiliate, the post status of its last reported row; the purchases that
   last_idxs / sort_afis / per_affiliate generate are built from exactly those
   rows; affiliates without a purchase hold nothing and - outside
   K_zero_balance_acb - have no cost base. *)
Theorem C10_holdings_at_cut : forall regof dsP rest dflt st1,
  (forall af, obs st1 af = obs_after (af_id af) (obs st0 af) dsP) ->
  Forall C04Inv.row_ok dsP -> Forall (gooddelta regof) dsP ->
  (forall x, In x (afs_of dsP) -> let post := d_post (nth (snd x) (dsP ++ rest) dflt) in
       s_sh post = 0%Qc -> forall c, s_acb post = Some c -> c = 0%Qc) ->
  let hs := hs_of (dsP ++ rest) dflt (afs_of dsP) in
  NoDup (map (fun h : hold_row => af_id (fst (fst h))) hs)
  /\ Forall (fun h : hold_row => holding_ok (fst (fst h)) (snd (fst h))) hs
  /\ Forall (fun h : hold_row => exists d, In d dsP /\ snd h = d_sd d) hs
  /\ (forall x, In x (afs_of dsP) -> let d := nth (snd x) (dsP ++ rest) dflt in
        In d dsP /\ ((0 < s_sh (d_post d))%Qc -> holding_ok (fst x) (d_post d)))
  /\ (forall af, goodaf regof af -> obs st1 af = held_obs hs af (0%Qc, if af_reg af then None else Some 0%Qc)).
Proof. exact holdings_at_cut. Qed.
Check C10_holdings_at_cut : forall regof dsP rest dflt st1,
  (forall af, obs st1 af = obs_after (af_id af) (obs st0 af) dsP) ->
  Forall C04Inv.row_ok dsP -> Forall (gooddelta regof) dsP ->
  (forall x, In x (afs_of dsP) -> let post := d_post (nth (snd x) (dsP ++ rest) dflt) in
       s_sh post = 0%Qc -> forall c, s_acb post = Some c -> c = 0%Qc) ->
  let hs := hs_of (dsP ++ rest) dflt (afs_of dsP) in
  NoDup (map (fun h : hold_row => af_id (fst (fst h))) hs)
  /\ Forall (fun h : hold_row => holding_ok (fst (fst h)) (snd (fst h))) hs
  /\ Forall (fun h : hold_row => exists d, In d dsP /\ snd h = d_sd d) hs
  /\ (forall x, In x (afs_of dsP) -> let d := nth (snd x) (dsP ++ rest) dflt in
        In d dsP /\ ((0 < s_sh (d_post d))%Qc -> holding_ok (fst x) (d_post d)))
  /\ (forall af, goodaf regof af -> obs st1 af = held_obs hs af (0%Qc, if af_reg af then None else Some 0%Qc)).
Print Assumptions C10_holdings_at_cut.

(* ------------------------------------------------------------------ (10) C10_roundtrip_simple_single_security
   THE ROUND TRIP AT THE MODEL'S ENTRY POINTS, simple mode, any date.
   rows = the input rows numbered in input order (as the program numbers them);
   every row: not entered for all affiliates, of one security [sec], with an
   affiliate whose registered flag is a function of its id ([rowQ]); rows
   well-formed (valid_tx: what Tx::try_from guarantees); no sale carries a zero
   superficial-loss cell (a hypothesis of the proof; until the fix of the
   effective-cent panic it was NEEDED, see C10_zero_sfl_cell_witness - the
   former witnesses pass now and no history is known on which it is); the summary
   is not changed by the CSV layer (through_csv: it is changed only when every
   summary row is of the default affiliate and a re-emitted row is a split).
   Then, from history_ok, outside K_summary_buy_in_window and
   K_zero_balance_acb: make_summary succeeds, (summary ++ rows after the date)
   is accepted and reports every later row as the full history does - strict
   comparison and observational comparison alike. *)
Theorem C10_roundtrip_simple_single_security : forall regof sec latest rows0,
  let rows := number_from 0 rows0 in
  Forall (rowQ regof sec) rows0 -> forallb valid_tx rows0 = true -> K_zero_sfl_cell rows0 = false ->
  history_ok exact rows = true ->
  K_summary_buy_in_window exact latest false rows = false ->
  K_zero_balance_acb exact latest rows = false ->
  (forall sums, make_summary exact latest (fst (sec_run exact rows)) false = Ok sums -> through_csv sums = sums) ->
  roundtrip_ok exact latest false rows = true /\ roundtrip_obs_ok exact latest false rows = true.
Proof. exact roundtrip_single_security_exec. Qed.
Check C10_roundtrip_simple_single_security : forall regof sec latest rows0,
  let rows := number_from 0 rows0 in
  Forall (rowQ regof sec) rows0 -> forallb valid_tx rows0 = true -> K_zero_sfl_cell rows0 = false ->
  history_ok exact rows = true ->
  K_summary_buy_in_window exact latest false rows = false ->
  K_zero_balance_acb exact latest rows = false ->
  (forall sums, make_summary exact latest (fst (sec_run exact rows)) false = Ok sums -> through_csv sums = sums) ->
  roundtrip_ok exact latest false rows = true /\ roundtrip_obs_ok exact latest false rows = true.
Print Assumptions C10_roundtrip_simple_single_security.

(* ------------------------------------------------------------------ the former fifth class K_zero_sfl_cell
   A sale whose superficial-loss cell is a forced zero is not superficial
   whatever the rows around it; the full history computes its value from an
   acquisition of an affiliate that holds nothing at the date (no summary
   row), the re-run from what is left - here a tiny later purchase - gets a
   loss that rounds to 0.00 and, until the fix "treat a superficial loss that
   rounds to zero effective cents as no superficial loss", PANICKED
   (util/math.rs:93, the panic of finding C05 eff-cent-zero, masked in the
   full history).  With the repaired code (and model) the history PASSES the
   round trip, exact and dec; a regression case of the check
   (design.d/effcent.md). *)
Example C10_zero_sfl_cell_witness :
  history_ok exact wit5 = true /\ history_ok dec wit5 = true
  /\ roundtrip_ok exact wit5_date false wit5 = true /\ roundtrip_obs_ok exact wit5_date false wit5 = true
  /\ roundtrip_obs_ok dec wit5_date false wit5 = true
  /\ K_summary_buy_in_window exact wit5_date false wit5 = false
  /\ K_zero_balance_acb exact wit5_date wit5 = false
  /\ K_idle_split_expansion exact wit5_date wit5 = false
  /\ K_zero_sfl_cell wit5 = true
  /\ Forall (rowQ no_reg 0) wit5 /\ forallb valid_tx wit5 = true.
Proof. exact wit5_passes. Qed.
Check C10_zero_sfl_cell_witness :
  history_ok exact wit5 = true /\ history_ok dec wit5 = true
  /\ roundtrip_ok exact wit5_date false wit5 = true /\ roundtrip_obs_ok exact wit5_date false wit5 = true
  /\ roundtrip_obs_ok dec wit5_date false wit5 = true
  /\ K_summary_buy_in_window exact wit5_date false wit5 = false
  /\ K_zero_balance_acb exact wit5_date wit5 = false
  /\ K_idle_split_expansion exact wit5_date wit5 = false
  /\ K_zero_sfl_cell wit5 = true
  /\ Forall (rowQ no_reg 0) wit5 /\ forallb valid_tx wit5 = true.
Print Assumptions C10_zero_sfl_cell_witness.

(* C10_outside_known2_full was refuted by that witness
   (C10_outside_known2_full_refuted, removed with the fix: the witness passes);
   it is an open Definition again.  The statement with the cell hypothesis: *)

Definition C10_outside_known3_full : Prop := forall latest annual rows0,
  let rows := number_from 0 rows0 in
  history_ok exact rows = true -> forallb valid_tx rows = true ->
  K_summary_buy_in_window exact latest annual rows = false ->
  K_annual_sell_in_window exact latest annual rows = false ->
  K_zero_balance_acb exact latest rows = false ->
  K_zero_sfl_cell rows = false ->
  roundtrip_obs_ok exact latest annual rows = true.

(* ------------------------------------------------------------------ non-vacuity of (10)
   the history of C10_roundtrip_simple_partial_nonvacuous (re-emitted rows, a
   later superficial loss, a later plain loss: 4 later rows compared), and a
   history in which an affiliate sold everything before the date *)
Example C10_roundtrip_simple_single_security_nonvacuous :
  (number_from 0 rt_rows = rt_rows
   /\ Forall (rowQ no_reg 0) rt_rows /\ forallb valid_tx rt_rows = true /\ K_zero_sfl_cell rt_rows = false
   /\ history_ok exact rt_rows = true
   /\ K_summary_buy_in_window exact rt_date false rt_rows = false
   /\ K_zero_balance_acb exact rt_date rt_rows = false
   /\ (forall sums, make_summary exact rt_date (fst (sec_run exact rt_rows)) false = Ok sums -> through_csv sums = sums)
   /\ length (later_deltas rt_date (fst (sec_run exact rt_rows))) = 4%nat)
  /\ (number_from 0 idle_rows = idle_rows
      /\ Forall (rowQ no_reg 0) idle_rows /\ forallb valid_tx idle_rows = true /\ K_zero_sfl_cell idle_rows = false
      /\ history_ok exact idle_rows = true
      /\ K_summary_buy_in_window exact idle_date false idle_rows = false
      /\ K_zero_balance_acb exact idle_date idle_rows = false
      /\ (forall sums, make_summary exact idle_date (fst (sec_run exact idle_rows)) false = Ok sums -> through_csv sums = sums)
      /\ existsb is_sfl_delta (later_deltas idle_date (fst (sec_run exact idle_rows))) = true).
Proof. split; [exact rt_entry_hypotheses | exact idle_entry_hypotheses]. Qed.

(* ==================================================================== extension 3: the annual mode
   (Proofs/C10Annual.v; design.d/C10-roundtrip.md) *)

(* ------------------------------------------------------------------ (11) the generated rows of the annual mode
   [hs]: per affiliate, the shares at the cut [ah_sh], the per-share cost
   [ah_aps] (None: registered) and the number of shares of the base purchase
   [ah_n] = shares + number of its generated sales; [sells]: the generated
   1-share sales (affiliate, date = 1 January of the year, per-share cost, gain
   and loss of the year), sorted by date, sales of different dates more than
   30 days apart, at most one per affiliate and date, all later than the base
   purchases by more than 30 days; a sale realising a loss has no row of [X]
   (what follows the summary) within 30 days after it.  Run from nothing, the
   base purchases followed by the sales are ACCEPTED, every sale realises
   EXACTLY gain - loss (the net gain of the affiliate in that year) without
   superficial loss, and the ledger ends with every affiliate's shares and
   cost base at the cut: (ah_sh, per-share cost x ah_sh), total = sum of shares. *)
Theorem C10_annual_rebuild : forall like d0 (hs : list ahold) (sells : list asell) X,
  NoDup (map (fun h => af_id (ah_af h)) hs) -> Forall ah_ok hs ->
  (forall h, In h hs -> ah_n h = (ah_sh h + qn (cnt (af_id (ah_af h)) sells))%Qc) ->
  Forall (sell_ok hs X) sells ->
  StronglySorted (fun a b => in_gap (as_date a) b) sells -> NoDup (map akey sells) ->
  Forall (fun s => (d0 < as_date s - window_days)%Z) sells ->
  exists dsB dsS stG,
    run_part exact [] st0 (map (abuy_tx like d0) hs ++ map (asell_tx like) sells) X
    = (dsB ++ dsS, rev (map (asell_tx like) sells) ++ rev (map (abuy_tx like d0) hs), stG, None)
    /\ ps_all stG = tot_sh hs /\ lp stG = ps_all stG
    /\ (forall af, obs stG af = obs_hs hs af ah_sh (obs st0 af))
    /\ Forall (fun d => d_gain d = None) dsB
    /\ map d_gain dsS = map (fun s => Some (as_gain s - as_loss s)%Qc) sells
    /\ Forall (fun d => d_sfl d = None) dsS.
Proof. exact annual_rebuild. Qed.
Check C10_annual_rebuild : forall like d0 (hs : list ahold) (sells : list asell) X,
  NoDup (map (fun h => af_id (ah_af h)) hs) -> Forall ah_ok hs ->
  (forall h, In h hs -> ah_n h = (ah_sh h + qn (cnt (af_id (ah_af h)) sells))%Qc) ->
  Forall (sell_ok hs X) sells ->
  StronglySorted (fun a b => in_gap (as_date a) b) sells -> NoDup (map akey sells) ->
  Forall (fun s => (d0 < as_date s - window_days)%Z) sells ->
  exists dsB dsS stG,
    run_part exact [] st0 (map (abuy_tx like d0) hs ++ map (asell_tx like) sells) X
    = (dsB ++ dsS, rev (map (asell_tx like) sells) ++ rev (map (abuy_tx like d0) hs), stG, None)
    /\ ps_all stG = tot_sh hs /\ lp stG = ps_all stG
    /\ (forall af, obs stG af = obs_hs hs af ah_sh (obs st0 af))
    /\ Forall (fun d => d_gain d = None) dsB
    /\ map d_gain dsS = map (fun s => Some (as_gain s - as_loss s)%Qc) sells
    /\ Forall (fun d => d_sfl d = None) dsS.
Print Assumptions C10_annual_rebuild.

(* ------------------------------------------------------------------ (12) C10_roundtrip_annual_partial
   annual mode, wholly summarisable prefix: [B1]/[st1] rows and ledger state of
   the full history at the cut, holding what [hs] says; [T] the later rows.
   Outside the annual class in its strong form (sell_ok: no LATER ROW AT ALL
   within 30 days after a generated loss sale - K_annual_sell_in_window only
   excludes acquisitions; the rest needs the look-ahead of the generated sale
   over real later sales to be accepted) and with the window conditions of
   C10_later_loss_rows_reproduced (superficial losses after the date have the
   summarised rows before their window - what summary_ranges guarantees for a
   wholly summarisable prefix - and the base purchases, dated 1 January of the
   year before the first, lie before the window of every later sale at a loss;
   the generated SALES may lie inside it: the backward scan ignores sales):
   generated rows ++ later rows is ACCEPTED, the generated sales realise the
   yearly net gains, and the later rows are reported EXACTLY. *)
Theorem C10_roundtrip_annual_partial :
  forall regof like d0 (hs : list ahold) (sells : list asell) T B1 st1 dsT,
  NoDup (map (fun h => af_id (ah_af h)) hs) -> Forall ah_ok hs ->
  (forall h, In h hs -> ah_n h = (ah_sh h + qn (cnt (af_id (ah_af h)) sells))%Qc) ->
  Forall (sell_ok hs T) sells ->
  StronglySorted (fun a b => in_gap (as_date a) b) sells -> NoDup (map akey sells) ->
  Forall (fun s => (d0 < as_date s - window_days)%Z) sells ->
  ps_all st1 = tot_sh hs -> lp st1 = ps_all st1 ->
  (forall af, goodaf regof af -> obs st1 af = obs_hs hs af ah_sh (0%Qc, if af_reg af then None else Some 0%Qc)) ->
  run_loop exact B1 st1 T = (dsT, None) -> Forall spec_nz T -> st_ok st1 -> Forall sell_pos T ->
  Forall (gooddelta regof) dsT ->
  Forall (fun d => (d_sfl d <> None -> inert exact (d_sd d - window_days) B1)
                   /\ ((d_sfl d <> None \/ loss_row d) -> (d0 < d_sd d - window_days)%Z)) dsT ->
  exists dsB dsS,
    run exact None (map (abuy_tx like d0) hs ++ map (asell_tx like) sells ++ T) = (dsB ++ dsS ++ dsT, None)
    /\ Forall (fun d => d_gain d = None) dsB
    /\ map d_gain dsS = map (fun s => Some (as_gain s - as_loss s)%Qc) sells
    /\ Forall (fun d => d_sfl d = None) dsS.
Proof. exact roundtrip_annual_run. Qed.
Check C10_roundtrip_annual_partial :
  forall regof like d0 (hs : list ahold) (sells : list asell) T B1 st1 dsT,
  NoDup (map (fun h => af_id (ah_af h)) hs) -> Forall ah_ok hs ->
  (forall h, In h hs -> ah_n h = (ah_sh h + qn (cnt (af_id (ah_af h)) sells))%Qc) ->
  Forall (sell_ok hs T) sells ->
  StronglySorted (fun a b => in_gap (as_date a) b) sells -> NoDup (map akey sells) ->
  Forall (fun s => (d0 < as_date s - window_days)%Z) sells ->
  ps_all st1 = tot_sh hs -> lp st1 = ps_all st1 ->
  (forall af, goodaf regof af -> obs st1 af = obs_hs hs af ah_sh (0%Qc, if af_reg af then None else Some 0%Qc)) ->
  run_loop exact B1 st1 T = (dsT, None) -> Forall spec_nz T -> st_ok st1 -> Forall sell_pos T ->
  Forall (gooddelta regof) dsT ->
  Forall (fun d => (d_sfl d <> None -> inert exact (d_sd d - window_days) B1)
                   /\ ((d_sfl d <> None \/ loss_row d) -> (d0 < d_sd d - window_days)%Z)) dsT ->
  exists dsB dsS,
    run exact None (map (abuy_tx like d0) hs ++ map (asell_tx like) sells ++ T) = (dsB ++ dsS ++ dsT, None)
    /\ Forall (fun d => d_gain d = None) dsB
    /\ map d_gain dsS = map (fun s => Some (as_gain s - as_loss s)%Qc) sells
    /\ Forall (fun d => d_sfl d = None) dsS.
Print Assumptions C10_roundtrip_annual_partial.

(* non-vacuity: two affiliates, two gain years (one of them a loss year for one
   affiliate), a later superficial loss.  The rows that make_summary generates
   in annual mode ARE the abstract rows (first conjunct, numbers compared by
   value), every hypothesis holds, and the model's own round trip is true. *)
Example C10_roundtrip_annual_partial_nonvacuous :
  match make_summary exact an_date (fst (sec_run exact an_rows)) true with
  | Ok sums => txs_eqb sums (map (abuy_tx an_like an_d0) an_hs ++ map (asell_tx an_like) an_sells)
  | _ => false
  end = true
  /\ NoDup (map (fun h => af_id (ah_af h)) an_hs) /\ Forall ah_ok an_hs
  /\ (forall h, In h an_hs -> ah_n h = (ah_sh h + qn (cnt (af_id (ah_af h)) an_sells))%Qc)
  /\ Forall (sell_ok an_hs an_T) an_sells
  /\ StronglySorted (fun a b => in_gap (as_date a) b) an_sells /\ NoDup (map akey an_sells)
  /\ Forall (fun s => (an_d0 < as_date s - window_days)%Z) an_sells
  /\ snd an_runP = None
  /\ ps_all an_st1 = tot_sh an_hs /\ lp an_st1 = ps_all an_st1
  /\ (forall af, goodaf no_reg0 af ->
        obs an_st1 af = obs_hs an_hs af ah_sh (Q2Qc 0, if af_reg af then None else Some (Q2Qc 0)))
  /\ run_loop exact an_B1 an_st1 an_T = (an_dsT, None) /\ Forall spec_nz an_T
  /\ st_ok an_st1 /\ Forall sell_pos an_T /\ Forall (gooddelta no_reg0) an_dsT
  /\ Forall (fun d => (d_sfl d <> None -> inert exact (d_sd d - window_days) an_B1)
                     /\ ((d_sfl d <> None \/ loss_row d) -> (an_d0 < d_sd d - window_days)%Z)) an_dsT
  /\ existsb is_sfl_delta an_dsT = true
  /\ roundtrip_ok exact an_date true an_rows = true
  /\ K_annual_sell_in_window exact an_date true an_rows = false.
Proof. exact an_hypotheses. Qed.

(* ------------------------------------------------------------------ K_zero_sfl_cell with in-range quantities
   the history of C10_zero_sfl_cell_witness with at most 10 decimal places:
   a loss of $0.50 on one share (cell 0!), 0.0000000001 shares bought five days
   later; it panicked on the unrepaired code (util/math.rs:93) and passes now *)
Example C10_zero_sfl_cell_witness_in_range :
  history_ok exact wit6 = true /\ history_ok dec wit6 = true
  /\ roundtrip_obs_ok exact wit5_date false wit6 = true /\ roundtrip_obs_ok dec wit5_date false wit6 = true
  /\ K_summary_buy_in_window exact wit5_date false wit6 = false
  /\ K_zero_balance_acb exact wit5_date wit6 = false
  /\ K_idle_split_expansion exact wit5_date wit6 = false
  /\ K_zero_sfl_cell wit6 = true
  /\ Forall (rowQ no_reg 0) wit6 /\ forallb valid_tx wit6 = true.
Proof. exact wit6_passes. Qed.
Check C10_zero_sfl_cell_witness_in_range :
  history_ok exact wit6 = true /\ history_ok dec wit6 = true
  /\ roundtrip_obs_ok exact wit5_date false wit6 = true /\ roundtrip_obs_ok dec wit5_date false wit6 = true
  /\ K_summary_buy_in_window exact wit5_date false wit6 = false
  /\ K_zero_balance_acb exact wit5_date wit6 = false
  /\ K_idle_split_expansion exact wit5_date wit6 = false
  /\ K_zero_sfl_cell wit6 = true
  /\ Forall (rowQ no_reg 0) wit6 /\ forallb valid_tx wit6 = true.
Print Assumptions C10_zero_sfl_cell_witness_in_range.

(* ------------------------------------------------------------------ (13) the rows of make_annual_gains_summary_txs
   for an affiliate that is not registered: the base purchase (abuy_tx) of
   (shares + number of gain years) at the per-share cost on 1 January of the
   year before the first, and one sale (asell_tx) per gain year, with the gain
   as price premium or the loss as commission - the rows that
   C10_annual_rebuild is about. *)
Theorem C10_annual_summary_rows : forall af fy ds d ys0 c,
  af_reg af = false -> yearly_gains exact af ds [] = Ok ys0 ->
  s_acb (d_post d) = Some c -> (0 <= c)%Qc -> (0 <= s_sh (d_post d))%Qc ->
  let ys := sort_years ys0 in
  let aps := if Qcltb 0 (s_sh (d_post d)) then (c / s_sh (d_post d))%Qc else 0%Qc in
  let h := {| ah_af := af; ah_sh := s_sh (d_post d); ah_aps := Some aps;
              ah_n := (s_sh (d_post d) + qn (length ys))%Qc |} in
  annual_summary exact af fy ds d
  = Ok ((if Qcltb 0 (ah_n h) then [abuy_tx (d_tx d) (jan1 (fy - 1)) h] else [])
        ++ map (fun yg => asell_tx (d_tx d) (ysell af aps yg)) ys).
Proof. exact annual_summary_rows. Qed.
Check C10_annual_summary_rows : forall af fy ds d ys0 c,
  af_reg af = false -> yearly_gains exact af ds [] = Ok ys0 ->
  s_acb (d_post d) = Some c -> (0 <= c)%Qc -> (0 <= s_sh (d_post d))%Qc ->
  let ys := sort_years ys0 in
  let aps := if Qcltb 0 (s_sh (d_post d)) then (c / s_sh (d_post d))%Qc else 0%Qc in
  let h := {| ah_af := af; ah_sh := s_sh (d_post d); ah_aps := Some aps;
              ah_n := (s_sh (d_post d) + qn (length ys))%Qc |} in
  annual_summary exact af fy ds d
  = Ok ((if Qcltb 0 (ah_n h) then [abuy_tx (d_tx d) (jan1 (fy - 1)) h] else [])
        ++ map (fun yg => asell_tx (d_tx d) (ysell af aps yg)) ys).
Print Assumptions C10_annual_summary_rows.

(* ==================================================================== extension 4: the annual mode at the entry points
   (Proofs/C10Calendar.v, C10AnnualRun.v, C10AnnualRows.v, C10AnnualEntry.v, C10AnnualEx.v; design.d/C10-roundtrip.md) *)

(* ------------------------------------------------------------------ (14) the calendar, all years and all days
   1 January of the year of a day is not later than the day, 1 January of the
   next year is; consecutive 1 Januaries are at least 365 days apart.  For
   every integer (both Hinnant functions are periodic in the 400-year era;
   one era is swept by computation). *)
Theorem C10_calendar : forall d y,
  (jan1 (Gains.year_of_day d) <= d < jan1 (Gains.year_of_day d + 1))%Z /\ (jan1 y + 365 <= jan1 (y + 1))%Z.
Proof. intros d y. split; [apply year_civil | apply jan1_next]. Qed.
Check C10_calendar : forall d y,
  (jan1 (Gains.year_of_day d) <= d < jan1 (Gains.year_of_day d + 1))%Z /\ (jan1 y + 365 <= jan1 (y + 1))%Z.
Print Assumptions C10_calendar.

(* ------------------------------------------------------------------ (15) C10_roundtrip_annual_kept
   C10_roundtrip_annual_partial WITH re-emitted rows: [K] the rows the full
   history processes between the summarised prefix and the later rows [T],
   [K'] their re-emission (keep_all).  The generated sales are transparent for
   every backward scan and the base purchases lie before every window, so the
   re-emitted rows report the same balances, cost bases and gains and the
   later rows are reported EXACTLY. *)
Theorem C10_roundtrip_annual_kept :
  forall regof like d0 (hs : list ahold) (sells : list asell) K T B1 st1 dsK bK stK dsT K',
  NoDup (map (fun h => af_id (ah_af h)) hs) -> Forall ah_ok hs ->
  (forall h, In h hs -> ah_n h = (ah_sh h + qn (cnt (af_id (ah_af h)) sells))%Qc) ->
  Forall (sell_ok hs (K' ++ T)) sells ->
  StronglySorted (fun a b => in_gap (as_date a) b) sells -> NoDup (map akey sells) ->
  Forall (fun s => (d0 < as_date s - window_days)%Z) sells ->
  ps_all st1 = tot_sh hs -> lp st1 = ps_all st1 ->
  (forall af, goodaf regof af -> obs st1 af = obs_hs hs af ah_sh (0%Qc, if af_reg af then None else Some 0%Qc)) ->
  run_part exact B1 st1 K T = (dsK, bK, stK, None) ->
  run_loop exact bK stK T = (dsT, None) ->
  keep_all dsK = Ok K' ->
  Forall spec_nz (K ++ T) -> st_ok st1 -> Forall sell_pos (K ++ T) ->
  Forall (gooddelta regof) (dsK ++ dsT) ->
  Forall (fun d => (d_sfl d <> None -> inert exact (d_sd d - window_days) B1)
                   /\ (d0 < d_sd d - window_days)%Z) (dsK ++ dsT) ->
  exists dsB dsS dsK',
    run exact None (map (abuy_tx like d0) hs ++ map (asell_tx like) sells ++ K' ++ T) = (dsB ++ dsS ++ dsK' ++ dsT, None)
    /\ Forall (fun d => d_gain d = None) dsB
    /\ map d_gain dsS = map (fun s => Some (as_gain s - as_loss s)%Qc) sells
    /\ Forall (fun d => d_sfl d = None) dsS
    /\ map d_post dsK' = map d_post dsK /\ map d_gain dsK' = map d_gain dsK
    /\ Forall (fun d => exists g, In g (map (abuy_tx like d0) hs ++ map (asell_tx like) sells ++ K') /\ d_sd d = t_sd g)
              (dsB ++ dsS ++ dsK').
Proof. exact roundtrip_annual_kept. Qed.
Check C10_roundtrip_annual_kept :
  forall regof like d0 (hs : list ahold) (sells : list asell) K T B1 st1 dsK bK stK dsT K',
  NoDup (map (fun h => af_id (ah_af h)) hs) -> Forall ah_ok hs ->
  (forall h, In h hs -> ah_n h = (ah_sh h + qn (cnt (af_id (ah_af h)) sells))%Qc) ->
  Forall (sell_ok hs (K' ++ T)) sells ->
  StronglySorted (fun a b => in_gap (as_date a) b) sells -> NoDup (map akey sells) ->
  Forall (fun s => (d0 < as_date s - window_days)%Z) sells ->
  ps_all st1 = tot_sh hs -> lp st1 = ps_all st1 ->
  (forall af, goodaf regof af -> obs st1 af = obs_hs hs af ah_sh (0%Qc, if af_reg af then None else Some 0%Qc)) ->
  run_part exact B1 st1 K T = (dsK, bK, stK, None) ->
  run_loop exact bK stK T = (dsT, None) ->
  keep_all dsK = Ok K' ->
  Forall spec_nz (K ++ T) -> st_ok st1 -> Forall sell_pos (K ++ T) ->
  Forall (gooddelta regof) (dsK ++ dsT) ->
  Forall (fun d => (d_sfl d <> None -> inert exact (d_sd d - window_days) B1)
                   /\ (d0 < d_sd d - window_days)%Z) (dsK ++ dsT) ->
  exists dsB dsS dsK',
    run exact None (map (abuy_tx like d0) hs ++ map (asell_tx like) sells ++ K' ++ T) = (dsB ++ dsS ++ dsK' ++ dsT, None)
    /\ Forall (fun d => d_gain d = None) dsB
    /\ map d_gain dsS = map (fun s => Some (as_gain s - as_loss s)%Qc) sells
    /\ Forall (fun d => d_sfl d = None) dsS
    /\ map d_post dsK' = map d_post dsK /\ map d_gain dsK' = map d_gain dsK
    /\ Forall (fun d => exists g, In g (map (abuy_tx like d0) hs ++ map (asell_tx like) sells ++ K') /\ d_sd d = t_sd g)
              (dsB ++ dsS ++ dsK').
Print Assumptions C10_roundtrip_annual_kept.

(* ------------------------------------------------------------------ (16) C10_roundtrip_annual_single_security_partial
   THE ROUND TRIP AT THE MODEL'S ENTRY POINTS, ANNUAL mode, any date (re-emitted
   rows included), one security, no rows entered for all affiliates; same side
   conditions as (10).  From history_ok, outside K_zero_balance_acb and outside
   K_annual_row_in_window: make_summary succeeds, (summary ++ rows after the
   date) is accepted and reports every later row as the full history does,
   strictly and observationally.  K_summary_buy_in_window is NOT needed: the
   base purchases are dated 1 January of the year before the first row, at
   least 365 days before every row (C10_calendar).
   PARTIAL in exactly one respect: the class is K_annual_row_in_window (ANY
   re-emitted or later row within 30 days after a generated loss sale) instead
   of K_annual_sell_in_window (an ACQUISITION ...); the first contains the
   second (C10_annual_classes).  Between them: a later SALE or SPLIT within 30
   days after a generated 1-January loss sale; the forward scan of the
   generated sale then runs over real rows and must be shown not to reject
   (RejAheadAllNegative / RejAheadAfNegative) - true because the re-run holds
   at least the real shares, but it needs the look-ahead invariant of
   Proofs/C04Ahead.v for the re-run state.  The full statement is the
   Definition below. *)
Theorem C10_roundtrip_annual_single_security_partial : forall regof sec latest rows0,
  let rows := number_from 0 rows0 in
  Forall (rowQ regof sec) rows0 -> forallb valid_tx rows0 = true -> K_zero_sfl_cell rows0 = false ->
  history_ok exact rows = true ->
  K_annual_row_in_window exact latest true rows = false ->
  K_zero_balance_acb exact latest rows = false ->
  (forall sums, make_summary exact latest (fst (sec_run exact rows)) true = Ok sums -> through_csv sums = sums) ->
  roundtrip_ok exact latest true rows = true /\ roundtrip_obs_ok exact latest true rows = true.
Proof. exact roundtrip_annual_single_security_exec. Qed.
Check C10_roundtrip_annual_single_security_partial : forall regof sec latest rows0,
  let rows := number_from 0 rows0 in
  Forall (rowQ regof sec) rows0 -> forallb valid_tx rows0 = true -> K_zero_sfl_cell rows0 = false ->
  history_ok exact rows = true ->
  K_annual_row_in_window exact latest true rows = false ->
  K_zero_balance_acb exact latest rows = false ->
  (forall sums, make_summary exact latest (fst (sec_run exact rows)) true = Ok sums -> through_csv sums = sums) ->
  roundtrip_ok exact latest true rows = true /\ roundtrip_obs_ok exact latest true rows = true.
Print Assumptions C10_roundtrip_annual_single_security_partial.

Definition C10_roundtrip_annual_single_security_full : Prop := forall regof sec latest rows0,
  let rows := number_from 0 rows0 in
  Forall (rowQ regof sec) rows0 -> forallb valid_tx rows0 = true -> K_zero_sfl_cell rows0 = false ->
  history_ok exact rows = true ->
  K_annual_sell_in_window exact latest true rows = false ->
  K_zero_balance_acb exact latest rows = false ->
  (forall sums, make_summary exact latest (fst (sec_run exact rows)) true = Ok sums -> through_csv sums = sums) ->
  roundtrip_ok exact latest true rows = true /\ roundtrip_obs_ok exact latest true rows = true.

Theorem C10_annual_classes : forall A latest annual rows,
  K_annual_sell_in_window A latest annual rows = true -> K_annual_row_in_window A latest annual rows = true.
Proof. exact K2s_contains_K2. Qed.
Check C10_annual_classes : forall A latest annual rows,
  K_annual_sell_in_window A latest annual rows = true -> K_annual_row_in_window A latest annual rows = true.
Print Assumptions C10_annual_classes.

(* non-vacuity of (16): the history of C10_roundtrip_annual_partial_nonvacuous
   (two affiliates, a loss year, a later superficial loss) and the same
   history with a purchase that is RE-EMITTED (5 generated rows, 1 re-emitted
   row, 3 later rows of which one is a superficial loss) *)
Example C10_roundtrip_annual_single_security_nonvacuous :
  (number_from 0 an_rows = an_rows
   /\ Forall (rowQ no_reg 0) an_rows /\ forallb valid_tx an_rows = true /\ K_zero_sfl_cell an_rows = false
   /\ history_ok exact an_rows = true
   /\ K_annual_row_in_window exact an_date true an_rows = false
   /\ K_zero_balance_acb exact an_date an_rows = false
   /\ (forall sums, make_summary exact an_date (fst (sec_run exact an_rows)) true = Ok sums -> through_csv sums = sums)
   /\ existsb is_sfl_delta (later_deltas an_date (fst (sec_run exact an_rows))) = true)
  /\ (number_from 0 an2_rows = an2_rows
      /\ Forall (rowQ no_reg 0) an2_rows /\ forallb valid_tx an2_rows = true /\ K_zero_sfl_cell an2_rows = false
      /\ history_ok exact an2_rows = true
      /\ K_annual_row_in_window exact an2_date true an2_rows = false
      /\ K_zero_balance_acb exact an2_date an2_rows = false
      /\ (forall sums, make_summary exact an2_date (fst (sec_run exact an2_rows)) true = Ok sums -> through_csv sums = sums)
      /\ match make_summary_parts exact an2_date (fst (sec_run exact an2_rows)) true with
         | Ok (gen, kept) => (length gen, map (fun t => act_tag (t_act t)) kept)
         | _ => (O, [])
         end = (5%nat, [0%N])
      /\ map (fun d => (d_sd d, is_sfl_delta d)) (later_deltas an2_date (fst (sec_run exact an2_rows)))
         = [(737680, true); (737680, false); (737700, false)]%Z).
Proof. split; [exact an_entry_hypotheses | exact an2_entry_hypotheses]. Qed.

(* ==================================================================== extension 5: several securities
   (Proofs/C10Erase.v, Proofs/C10App.v, Proofs/C10AppEx.v; design.d/C10-roundtrip.md "Extension 5") *)
From ACB Require Import Proofs.EraseRi Proofs.Layout Proofs.C10Erase Proofs.C10App Proofs.C10AppEx.

(* ------------------------------------------------------------------ (17) the summary does not read the read indices
   make_summary of a delta list whose rows have their read indices erased is
   the summary with the read indices erased (the generated rows carry index 0,
   the re-emitted rows copy the index of their row): any arithmetic, both
   modes, failures included.  And every row of a summary carries the security
   of the deltas it was made from. *)
Theorem C10_summary_ignores_read_indices : forall A latest ds annual,
  make_summary A latest (map erase_d ds) annual = map_res (map erase) (make_summary A latest ds annual).
Proof. exact make_summary_erase. Qed.
Check C10_summary_ignores_read_indices : forall A latest ds annual,
  make_summary A latest (map erase_d ds) annual = map_res (map erase) (make_summary A latest ds annual).
Print Assumptions C10_summary_ignores_read_indices.

Theorem C10_summary_security : forall A s latest ds annual sums,
  Forall (fun d => t_sec (d_tx d) = s) ds ->
  make_summary A latest ds annual = Ok sums -> Forall (fun t => t_sec t = s) sums.
Proof. exact make_summary_sec. Qed.
Check C10_summary_security : forall A s latest ds annual sums,
  Forall (fun d => t_sec (d_tx d) = s) ds ->
  make_summary A latest ds annual = Ok sums -> Forall (fun t => t_sec t = s) sums.
Print Assumptions C10_summary_security.

(* ------------------------------------------------------------------ (18) step (b): the application decomposes per security
   run_app reports, for every security of the input in increasing number,
   the run of that security's rows; when every per-security summary is
   produced, the summary of the application (all_summaries = summary.rs
   make_aggregate_summary_txs) is their concatenation in that order.  The
   re-run of (rows [sums] ++ rows after the date), renumbered by position in
   the concatenated input, computes for security [s] - up to read indices -
   what (rows of [s] among [sums]) ++ (later rows of [s]), numbered within the
   security, give.  Any arithmetic, both modes. *)
Theorem C10_app_summary_decomposes : forall A latest annual rows,
  let R := fun s => sec_result_of A None (txs_of_sec s (sort_txs rows)) in
  let SL := securities (sort_txs rows) in
  run_app A [] rows = Ok (map (fun s => (s, R s)) SL)
  /\ ((forall s, In s SL -> exists x, make_summary A latest (fst (R s)) annual = Ok x) ->
      all_summaries A latest annual (map (fun s => (s, R s)) SL) = Ok (flat_map (sum_of A R latest annual) SL)
      /\ forall s, In s SL ->
           make_summary A latest (fst (R s)) annual = Ok (sum_of A R latest annual s)
           /\ (Forall (fun d => t_sec (d_tx d) = s) (fst (R s)) ->
               Forall (fun t => t_sec t = s) (sum_of A R latest annual s))).
Proof. exact app_summary_decomposes. Qed.
Check C10_app_summary_decomposes : forall A latest annual rows,
  let R := fun s => sec_result_of A None (txs_of_sec s (sort_txs rows)) in
  let SL := securities (sort_txs rows) in
  run_app A [] rows = Ok (map (fun s => (s, R s)) SL)
  /\ ((forall s, In s SL -> exists x, make_summary A latest (fst (R s)) annual = Ok x) ->
      all_summaries A latest annual (map (fun s => (s, R s)) SL) = Ok (flat_map (sum_of A R latest annual) SL)
      /\ forall s, In s SL ->
           make_summary A latest (fst (R s)) annual = Ok (sum_of A R latest annual s)
           /\ (Forall (fun d => t_sec (d_tx d) = s) (fst (R s)) ->
               Forall (fun t => t_sec t = s) (sum_of A R latest annual s))).
Print Assumptions C10_app_summary_decomposes.

Theorem C10_app_rerun_per_security : forall A s latest sums rows0,
  erase_result (sec_result_of A None
                  (txs_of_sec s (sort_txs (number (sums ++ rows_after latest (number rows0))))))
  = erase_result (sec_run A (number (txs_of_sec s sums ++ rows_after latest (number (txs_of_sec s rows0))))).
Proof. exact app_rerun_per_security. Qed.
Check C10_app_rerun_per_security : forall A s latest sums rows0,
  erase_result (sec_result_of A None
                  (txs_of_sec s (sort_txs (number (sums ++ rows_after latest (number rows0))))))
  = erase_result (sec_run A (number (txs_of_sec s sums ++ rows_after latest (number (txs_of_sec s rows0))))).
Print Assumptions C10_app_rerun_per_security.

(* ------------------------------------------------------------------ (19) C10_roundtrip_simple_app
   THE ROUND TRIP OF THE APPLICATION, several securities, simple mode, any date.
   rows0 = the input rows of ALL securities in input order; the program numbers
   them by position (number_from 0 rows0).  For every security s of the input,
   the rows of s (txs_of_sec s rows0, numbered within the security) satisfy the
   hypotheses of (10) C10_roundtrip_simple_single_security.  Then every security
   of the history is accepted; the summaries of all securities are produced
   (all_summaries: per security, in increasing security number); their
   concatenation ++ the rows after the date, renumbered by position, is accepted
   for every security (and has no other security); and every security reports
   every later row as the full history does - strict comparison (obs = false)
   and observational comparison (obs = true) alike (Model/SummaryApp.v
   app_roundtrip).  The CSV layer (through_csv) is the identity on the
   concatenation because it is on every security's summary. *)
Theorem C10_roundtrip_simple_app : forall regof latest rows0,
  Forall (fun s =>
            let rs0 := txs_of_sec s rows0 in
            Forall (rowQ regof s) rs0 /\ forallb valid_tx rs0 = true /\ K_zero_sfl_cell rs0 = false
            /\ history_ok exact (Summary.number_from 0 rs0) = true
            /\ K_summary_buy_in_window exact latest false (Summary.number_from 0 rs0) = false
            /\ K_zero_balance_acb exact latest (Summary.number_from 0 rs0) = false
            /\ (forall sums, make_summary exact latest (fst (sec_run exact (Summary.number_from 0 rs0))) false = Ok sums ->
                             through_csv sums = sums))
         (securities rows0) ->
  app_history_ok exact (Summary.number_from 0 rows0) = true
  /\ app_roundtrip exact false latest false (Summary.number_from 0 rows0) = true
  /\ app_roundtrip exact true latest false (Summary.number_from 0 rows0) = true.
Proof. exact roundtrip_simple_app. Qed.
Check C10_roundtrip_simple_app : forall regof latest rows0,
  Forall (fun s =>
            let rs0 := txs_of_sec s rows0 in
            Forall (rowQ regof s) rs0 /\ forallb valid_tx rs0 = true /\ K_zero_sfl_cell rs0 = false
            /\ history_ok exact (Summary.number_from 0 rs0) = true
            /\ K_summary_buy_in_window exact latest false (Summary.number_from 0 rs0) = false
            /\ K_zero_balance_acb exact latest (Summary.number_from 0 rs0) = false
            /\ (forall sums, make_summary exact latest (fst (sec_run exact (Summary.number_from 0 rs0))) false = Ok sums ->
                             through_csv sums = sums))
         (securities rows0) ->
  app_history_ok exact (Summary.number_from 0 rows0) = true
  /\ app_roundtrip exact false latest false (Summary.number_from 0 rows0) = true
  /\ app_roundtrip exact true latest false (Summary.number_from 0 rows0) = true.
Print Assumptions C10_roundtrip_simple_app.

(* ------------------------------------------------------------------ (20) the same in the annual mode
   per security the hypotheses of (16) C10_roundtrip_annual_single_security_partial
   (class K_annual_row_in_window, hence _partial: see C10_roundtrip_annual_app_full). *)
Theorem C10_roundtrip_annual_app_partial : forall regof latest rows0,
  Forall (fun s =>
            let rs0 := txs_of_sec s rows0 in
            Forall (rowQ regof s) rs0 /\ forallb valid_tx rs0 = true /\ K_zero_sfl_cell rs0 = false
            /\ history_ok exact (Summary.number_from 0 rs0) = true
            /\ K_annual_row_in_window exact latest true (Summary.number_from 0 rs0) = false
            /\ K_zero_balance_acb exact latest (Summary.number_from 0 rs0) = false
            /\ (forall sums, make_summary exact latest (fst (sec_run exact (Summary.number_from 0 rs0))) true = Ok sums ->
                             through_csv sums = sums))
         (securities rows0) ->
  app_history_ok exact (Summary.number_from 0 rows0) = true
  /\ app_roundtrip exact false latest true (Summary.number_from 0 rows0) = true
  /\ app_roundtrip exact true latest true (Summary.number_from 0 rows0) = true.
Proof. exact roundtrip_annual_app. Qed.
Check C10_roundtrip_annual_app_partial : forall regof latest rows0,
  Forall (fun s =>
            let rs0 := txs_of_sec s rows0 in
            Forall (rowQ regof s) rs0 /\ forallb valid_tx rs0 = true /\ K_zero_sfl_cell rs0 = false
            /\ history_ok exact (Summary.number_from 0 rs0) = true
            /\ K_annual_row_in_window exact latest true (Summary.number_from 0 rs0) = false
            /\ K_zero_balance_acb exact latest (Summary.number_from 0 rs0) = false
            /\ (forall sums, make_summary exact latest (fst (sec_run exact (Summary.number_from 0 rs0))) true = Ok sums ->
                             through_csv sums = sums))
         (securities rows0) ->
  app_history_ok exact (Summary.number_from 0 rows0) = true
  /\ app_roundtrip exact false latest true (Summary.number_from 0 rows0) = true
  /\ app_roundtrip exact true latest true (Summary.number_from 0 rows0) = true.
Print Assumptions C10_roundtrip_annual_app_partial.

(* open: the annual statement with the weaker class K_annual_sell_in_window per
   security (missing: exactly what separates C10_roundtrip_annual_single_security_full
   from (16) - the look-ahead of a generated loss sale over later sales / splits;
   the several-securities layer above is already generic in the mode), and both
   modes with rows entered for all affiliates (t_glob = true is excluded by rowQ;
   missing: the idle-expansion simulation and through_csv turning re-emitted splits
   of EVERY security global when no summary row names a non-default affiliate). *)
Definition C10_roundtrip_annual_app_full : Prop := forall regof latest rows0,
  Forall (fun s =>
            let rs0 := txs_of_sec s rows0 in
            Forall (rowQ regof s) rs0 /\ forallb valid_tx rs0 = true /\ K_zero_sfl_cell rs0 = false
            /\ history_ok exact (Summary.number_from 0 rs0) = true
            /\ K_annual_sell_in_window exact latest true (Summary.number_from 0 rs0) = false
            /\ K_zero_balance_acb exact latest (Summary.number_from 0 rs0) = false
            /\ (forall sums, make_summary exact latest (fst (sec_run exact (Summary.number_from 0 rs0))) true = Ok sums ->
                             through_csv sums = sums))
         (securities rows0) ->
  app_history_ok exact (Summary.number_from 0 rows0) = true
  /\ app_roundtrip exact false latest true (Summary.number_from 0 rows0) = true
  /\ app_roundtrip exact true latest true (Summary.number_from 0 rows0) = true.

(* non-vacuity of (19) and (20): a history of TWO securities (3 and 7), rows of
   the two interleaved and not in date order, two affiliates each; the
   hypotheses hold for both securities in both modes; the summary has rows of
   both securities (simple: 4 purchases; annual: 4 base purchases and 2
   1-January sales) and each security reports 3 later rows of which one is a
   superficial loss *)
Example C10_roundtrip_app_nonvacuous :
  securities app2_rows0 = [3; 7]%N
  /\ Forall (sec_hyps no_reg false app2_date app2_rows0) (securities app2_rows0)
  /\ Forall (sec_hyps no_reg true app2_date app2_rows0) (securities app2_rows0)
  /\ app_summary_shape false
     = [(737005, (3, 1000, 0)%N); (737050, (3, 1003, 0)%N); (737000, (7, 1000, 0)%N); (737020, (7, 1003, 0)%N)]%Z
  /\ app_summary_shape true
     = [(736330, (3, 1000, 0)%N); (736330, (3, 1003, 0)%N); (736695, (3, 1003, 1)%N);
        (736330, (7, 1000, 0)%N); (736330, (7, 1003, 0)%N); (736695, (7, 1003, 1)%N)]%Z
  /\ app_later_shape = [(3%N, [(737150, true); (737150, false); (737160, false)]);
                        (7%N, [(737200, true); (737200, false); (737210, false)])]%Z.
Proof. exact app2_hypotheses. Qed.
