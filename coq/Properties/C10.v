(* C10 - A summary CSV reproduces the history it replaces.
   Model: Model/Summary.v on top of the bookkeeping model
   (Model/{Tx,Ledger,Sfl,DeltaList,App}.v).  Proofs: Proofs/SummaryProps.v. *)
From Coq Require Import List NArith ZArith QArith Qcanon Bool.
From ACB Require Import Base.Outcome Base.QcExtra Base.Arith Model.Tx Model.Ledger Model.Sfl
     Model.DeltaList Model.App Model.Summary Proofs.SummaryProps.
Import ListNotations.

(* ------------------------------------------------------------------ the full statement
   For every accepted history of a security, every date and both modes:
   summary ++ (rows settling after the date) is accepted and reports every
   later row (action, affiliate, date, share balance, cost base, capital gain,
   superficial loss) as the full history does - exact arithmetic. *)
Definition C10_full : Prop := forall latest annual rows,
  history_ok exact rows = true -> roundtrip_ok exact latest annual rows = true.

(* It does not hold of the code: three executable classes of (history, date,
   mode), each with a kernel-checked witness that the check replays on the
   implementation on every run (known findings).  The witnesses fail under
   exact arithmetic and under rust_decimal rounding alike. *)
Theorem C10_roundtrip_refuted :
  exists latest annual rows, history_ok exact rows = true /\ roundtrip_ok exact latest annual rows = false.
Proof. exists wit1_date, false, wit1. split; apply wit1_fails. Qed.
Check C10_roundtrip_refuted :
  exists latest annual rows, history_ok exact rows = true /\ roundtrip_ok exact latest annual rows = false.
Print Assumptions C10_roundtrip_refuted.

(* K_summary_buy_in_window: a loss sale that is not superficial in the full
   history settles within 30 days after a generated summary purchase *)
Theorem C10_K_summary_buy_in_window_witness :
  history_ok exact wit1 = true /\ roundtrip_ok exact wit1_date false wit1 = false
  /\ roundtrip_ok dec wit1_date false wit1 = false
  /\ K_summary_buy_in_window exact wit1_date false wit1 = true.
Proof. exact wit1_fails. Qed.
Check C10_K_summary_buy_in_window_witness :
  history_ok exact wit1 = true /\ roundtrip_ok exact wit1_date false wit1 = false
  /\ roundtrip_ok dec wit1_date false wit1 = false
  /\ K_summary_buy_in_window exact wit1_date false wit1 = true.
Print Assumptions C10_K_summary_buy_in_window_witness.

(* K_annual_sell_in_window: annual mode, an acquisition settles within 30 days
   after a generated 1-January sale that realises a loss *)
Theorem C10_K_annual_sell_in_window_witness :
  history_ok exact wit2 = true /\ roundtrip_ok exact wit2_date true wit2 = false
  /\ roundtrip_ok dec wit2_date true wit2 = false
  /\ K_annual_sell_in_window exact wit2_date true wit2 = true
  /\ K_summary_buy_in_window exact wit2_date true wit2 = false.
Proof. exact wit2_fails. Qed.
Check C10_K_annual_sell_in_window_witness :
  history_ok exact wit2 = true /\ roundtrip_ok exact wit2_date true wit2 = false
  /\ roundtrip_ok dec wit2_date true wit2 = false
  /\ K_annual_sell_in_window exact wit2_date true wit2 = true
  /\ K_summary_buy_in_window exact wit2_date true wit2 = false.
Print Assumptions C10_K_annual_sell_in_window_witness.

(* K_zero_balance_acb: a summarised affiliate holds no shares but a cost base
   (an adjustment for shares it acquires after the date): no row is generated
   for it and the adjustment is lost *)
Theorem C10_K_zero_balance_acb_witness :
  history_ok exact wit3 = true /\ roundtrip_ok exact wit3_date false wit3 = false
  /\ roundtrip_ok dec wit3_date false wit3 = false
  /\ K_zero_balance_acb exact wit3_date wit3 = true
  /\ K_summary_buy_in_window exact wit3_date false wit3 = false.
Proof. exact wit3_fails. Qed.
Check C10_K_zero_balance_acb_witness :
  history_ok exact wit3 = true /\ roundtrip_ok exact wit3_date false wit3 = false
  /\ roundtrip_ok dec wit3_date false wit3 = false
  /\ K_zero_balance_acb exact wit3_date wit3 = true
  /\ K_summary_buy_in_window exact wit3_date false wit3 = false.
Print Assumptions C10_K_zero_balance_acb_witness.

(* The positive statement outside the classes.  NOT proved (it needs the
   window scans of every later loss sale to see the same acquisitions and the
   same end-of-window holdings in both runs); it is searched for
   counterexamples by the check on every run.  What is proved is below. *)
Definition C10_outside_known_full : Prop := forall latest annual rows,
  history_ok exact rows = true ->
  K_summary_buy_in_window exact latest annual rows = false ->
  K_annual_sell_in_window exact latest annual rows = false ->
  K_zero_balance_acb exact latest rows = false ->
  roundtrip_ok exact latest annual rows = true.

(* ------------------------------------------------------------------ what is proved (partial)
   (1) the row generated for an affiliate holding (shares > 0, cost base) is
   the purchase of those shares at cost base / shares, and
   (2) running the generated purchases alone - any number of affiliates, in
   any order, registered or not - rebuilds exactly each affiliate's shares and
   cost base (exact arithmetic): the state at the cut. *)
Theorem C10_summary_row : forall af d,
  holding_ok af (d_post d) ->
  simple_summary exact af d = Ok [summary_buy (d_tx d) (d_sd d) af (d_post d)].
Proof. exact simple_summary_exact. Qed.
Check C10_summary_row : forall af d,
  holding_ok af (d_post d) ->
  simple_summary exact af d = Ok [summary_buy (d_tx d) (d_sd d) af (d_post d)].
Print Assumptions C10_summary_row.

Theorem C10_state_at_cut : forall like (hs : list hold_row),
  hs <> [] ->
  NoDup (map (fun h : hold_row => af_id (fst (fst h))) hs) ->
  Forall (fun h : hold_row => holding_ok (fst (fst h)) (snd (fst h))) hs ->
  exists ds,
    run exact None (map (hold_tx like) hs) = (ds, None)
    /\ map (fun d => (s_sh (d_post d), s_acb (d_post d))) ds
       = map (fun h : hold_row => (s_sh (snd (fst h)), s_acb (snd (fst h)))) hs.
Proof. exact state_at_cut. Qed.
Check C10_state_at_cut : forall like (hs : list hold_row),
  hs <> [] ->
  NoDup (map (fun h : hold_row => af_id (fst (fst h))) hs) ->
  Forall (fun h : hold_row => holding_ok (fst (fst h)) (snd (fst h))) hs ->
  exists ds,
    run exact None (map (hold_tx like) hs) = (ds, None)
    /\ map (fun d => (s_sh (d_post d), s_acb (d_post d))) ds
       = map (fun h : hold_row => (s_sh (snd (fst h)), s_acb (snd (fst h)))) hs.
Print Assumptions C10_state_at_cut.

(* (3) Later rows are reproduced from equivalent states: if the full history
   processes the later rows from a ledger state s1 without error and none of
   the reported rows went through the superficial-loss rule (no later sale at
   a loss), then from ANY state s2 that agrees with s1 on every affiliate's
   shares and cost base and on the total holding - whatever rows came before -
   exactly the same rows are reported.  (What is missing for the full
   statement outside the classes: later sales at a loss, i.e. that their
   30-day window scans see the same acquisitions and end-of-window holdings.) *)
Theorem C10_later_rows_reproduced : forall rows bef1 bef2 s1 s2 ds,
  st_equiv s1 s2 ->
  run_loop exact bef1 s1 rows = (ds, None) -> Forall quiet_delta ds ->
  run_loop exact bef2 s2 rows = (ds, None).
Proof. exact later_rows_reproduced. Qed.
Check C10_later_rows_reproduced : forall rows bef1 bef2 s1 s2 ds,
  st_equiv s1 s2 ->
  run_loop exact bef1 s1 rows = (ds, None) -> Forall quiet_delta ds ->
  run_loop exact bef2 s2 rows = (ds, None).
Print Assumptions C10_later_rows_reproduced.

(* (4) = (2) + (3): the round trip for the simple mode when the whole prefix is
   summarisable and no later row goes through the superficial-loss rule.
   [s1]/[bef1]: ledger state and rows of the full history at the cut; [hs]:
   the holdings the summary purchases are generated from (every affiliate
   holding shares; all others hold nothing and have no cost base - the
   complement of K_zero_balance_acb).  Then summary ++ later rows is accepted
   and reports the later rows EXACTLY as the full history does, after rows
   rebuilding the holdings. *)
Theorem C10_roundtrip_partial : forall like (hs : list hold_row) later bef1 s1 ds,
  hs <> [] ->
  NoDup (map (fun h : hold_row => af_id (fst (fst h))) hs) ->
  Forall (fun h : hold_row => holding_ok (fst (fst h)) (snd (fst h))) hs ->
  ps_all s1 = total_held hs ->
  (forall af, core_of s1 af = match find_hold hs af with
                              | Some h => (s_sh (snd (fst h)), s_acb (snd (fst h)))
                              | None => (0%Qc, if af_reg af then None else Some 0%Qc)
                              end) ->
  run_loop exact bef1 s1 later = (ds, None) -> Forall quiet_delta ds ->
  exists dss,
    run exact None (map (hold_tx like) hs ++ later) = (dss ++ ds, None)
    /\ map (fun d => (s_sh (d_post d), s_acb (d_post d))) dss
       = map (fun h : hold_row => (s_sh (snd (fst h)), s_acb (snd (fst h)))) hs.
Proof. exact simple_roundtrip_quiet. Qed.
Check C10_roundtrip_partial : forall like (hs : list hold_row) later bef1 s1 ds,
  hs <> [] ->
  NoDup (map (fun h : hold_row => af_id (fst (fst h))) hs) ->
  Forall (fun h : hold_row => holding_ok (fst (fst h)) (snd (fst h))) hs ->
  ps_all s1 = total_held hs ->
  (forall af, core_of s1 af = match find_hold hs af with
                              | Some h => (s_sh (snd (fst h)), s_acb (snd (fst h)))
                              | None => (0%Qc, if af_reg af then None else Some 0%Qc)
                              end) ->
  run_loop exact bef1 s1 later = (ds, None) -> Forall quiet_delta ds ->
  exists dss,
    run exact None (map (hold_tx like) hs ++ later) = (dss ++ ds, None)
    /\ map (fun d => (s_sh (d_post d), s_acb (d_post d))) dss
       = map (fun h : hold_row => (s_sh (snd (fst h)), s_acb (snd (fst h)))) hs.
Print Assumptions C10_roundtrip_partial.

(* ------------------------------------------------------------------ C10_annual_gains
   Annual mode: a generated 1-share sale at (per-share cost + gain) with
   commission [loss] out of a holding whose cost base is per-share cost x
   shares realises exactly gain - loss (the year's net capital gain) and
   leaves the per-share cost unchanged, so the base purchase of
   (shares + number of years) at the per-share cost ends at the holding at the
   cut.  (Before the superficial-loss rule is applied to the generated sale:
   that application is class K_annual_sell_in_window.) *)
Theorem C10_annual_gains : forall (pre : status) (aps gain loss : Qc),
  (1 <= s_sh pre)%Qc -> (1 <= s_all pre)%Qc -> s_acb pre = Some (aps * s_sh pre)%Qc ->
  (0 <= aps)%Qc -> (0 <= gain)%Qc -> (0 <= loss)%Qc ->
  sell_core exact pre 1 (aps + gain) loss 1 1
  = Ok {| sc_sh := (s_sh pre - 1)%Qc; sc_all := (s_all pre - 1)%Qc;
          sc_acb := Some ((s_sh pre - 1) * aps)%Qc; sc_gain := Some (gain - loss)%Qc |}.
Proof. exact annual_sale_identity. Qed.
Check C10_annual_gains : forall (pre : status) (aps gain loss : Qc),
  (1 <= s_sh pre)%Qc -> (1 <= s_all pre)%Qc -> s_acb pre = Some (aps * s_sh pre)%Qc ->
  (0 <= aps)%Qc -> (0 <= gain)%Qc -> (0 <= loss)%Qc ->
  sell_core exact pre 1 (aps + gain) loss 1 1
  = Ok {| sc_sh := (s_sh pre - 1)%Qc; sc_all := (s_all pre - 1)%Qc;
          sc_acb := Some ((s_sh pre - 1) * aps)%Qc; sc_gain := Some (gain - loss)%Qc |}.
Print Assumptions C10_annual_gains.

(* ------------------------------------------------------------------ non-vacuity *)
(* outside the classes the round trip does hold on a neighbouring history (the
   loss sale 31 days after the generated purchase), and three affiliates (one
   registered) with fractional holdings satisfy the hypotheses of
   C10_state_at_cut *)
Definition ex_reg : aff := {| af_id := 1001; af_reg := true; af_dflt := true |}.
Definition ex_hs : list hold_row := [
  (default_aff, {| s_sh := wq 73 10; s_all := wq 0 1; s_acb := Some (wq 1001 8) |}, 737060%Z);
  (ex_reg, {| s_sh := wq 5 1; s_all := wq 0 1; s_acb := None |}, 737100%Z);
  (spouse_aff, {| s_sh := wq 1 3; s_all := wq 0 1; s_acb := Some (wq 0 1) |}, 737050%Z)].
Example C10_nonvacuous :
  (history_ok exact wit1_far = true /\ roundtrip_ok exact wit1_date false wit1_far = true
   /\ roundtrip_ok dec wit1_date false wit1_far = true
   /\ K_summary_buy_in_window exact wit1_date false wit1_far = false
   /\ K_zero_balance_acb exact wit1_date wit1_far = false)
  /\ (map (fun d => (s_sh (d_post d), s_acb (d_post d)))
          (fst (run exact None (map (hold_tx (wrow 0 0 (wbuy 1 1) default_aff)) ex_hs)))
      = [(wq 73 10, Some (wq 1001 8)); (wq 5 1, None); (wq 1 3, Some (wq 0 1))]
      /\ snd (run exact None (map (hold_tx (wrow 0 0 (wbuy 1 1) default_aff)) ex_hs)) = None).
Proof. split; [exact wit1_far_ok|]. vm_compute. split; reflexivity. Qed.

(* the hypotheses of C10_later_rows_reproduced are satisfiable: a purchase and
   a sale at a gain from two states that differ in what they remember (one
   knows the holder through an earlier row with another total) *)
Definition ex_s1 : pstate :=
  {| ps_map := [(default_id, {| s_sh := wq 10 1; s_all := wq 10 1; s_acb := Some (wq 100 1) |})];
     ps_all := wq 10 1; ps_latest := default_aff |}.
Definition ex_s2 : pstate :=
  {| ps_map := [(1003%N, {| s_sh := wq 0 1; s_all := wq 7 1; s_acb := Some (wq 0 1) |});
                (default_id, {| s_sh := wq 10 1; s_all := wq 3 1; s_acb := Some (wq 100 1) |})];
     ps_all := wq 10 1; ps_latest := spouse_aff |}.
Definition ex_later : list tx := [wrow 5 100 (wbuy 2 11) spouse_aff; wrow 6 101 (wsell 3 12) default_aff].
Example C10_later_rows_nonvacuous :
  snd (run_loop exact [] ex_s1 ex_later) = None
  /\ length (fst (run_loop exact [] ex_s1 ex_later)) = 2%nat
  /\ run_loop exact [wrow 0 1 (wbuy 1 1) default_aff] ex_s2 ex_later = run_loop exact [] ex_s1 ex_later.
Proof. vm_compute. repeat split. Qed.

(* and of C10_roundtrip_partial: the holdings [default: 10 shares, $100] match
   the state ex_s1; the two later rows follow the generated purchase *)
Definition ex_hs1 : list hold_row :=
  [(default_aff, {| s_sh := wq 10 1; s_all := wq 10 1; s_acb := Some (wq 100 1) |}, 50%Z)].
Example C10_roundtrip_partial_nonvacuous :
  ps_all ex_s1 = total_held ex_hs1
  /\ core_of ex_s1 default_aff = (wq 10 1, Some (wq 100 1))
  /\ core_of ex_s1 spouse_aff = (wq 0 1, Some (wq 0 1))
  /\ snd (run_loop exact [] ex_s1 ex_later) = None
  /\ run exact None (map (hold_tx (wrow 0 0 (wbuy 1 1) default_aff)) ex_hs1 ++ ex_later)
     = (fst (run exact None (map (hold_tx (wrow 0 0 (wbuy 1 1) default_aff)) ex_hs1))
          ++ fst (run_loop exact [] ex_s1 ex_later), None).
Proof. vm_compute. repeat split. Qed.
