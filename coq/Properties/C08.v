(* C08 - Securities are computed independently; one security's error stays local. *)
From Coq Require Import List NArith ZArith QArith Qcanon Bool.
From ACB Require Import Base.Outcome Base.QcExtra Base.Arith Model.Tx Model.Ledger Model.Sfl
     Model.DeltaList Model.App Proofs.EraseRi Proofs.SortLayout Proofs.Layout.
Import ListNotations.

(* The application result is, per security, a function of that security's
   rows (as sorted) and its opening position only - never of another
   security's rows or outcome; a failure (rejection or even a panic of the
   model) of one security is that security's entry.  Any arithmetic. *)
Theorem C08_per_security : forall (A : arith) inits rows,
  run_app A inits rows
  = Ok (map (fun s => (s, sec_result_of A (init_for inits s) (txs_of_sec s (sort_txs rows))))
            (securities (sort_txs rows))).
Proof. exact Layout.run_app_per_security. Qed.
Check C08_per_security : forall (A : arith) inits rows,
  run_app A inits rows
  = Ok (map (fun s => (s, sec_result_of A (init_for inits s) (txs_of_sec s (sort_txs rows))))
            (securities (sort_txs rows))).
Print Assumptions C08_per_security.

(* For ANY interleaving i of an input a with rows b of other securities
   (valid or not, failing or not), the report of a security s of a is the
   same (up to the read indices, which are positions in the concatenated
   input).  Read indices are assigned by position (number). *)
Theorem C08_independent : forall (A : arith) init s a b i,
  interleave a b i ->
  Forall (fun y => N.eqb (t_sec y) s = false) b ->
  erase_result (sec_result_of A init (txs_of_sec s (sort_txs (number i))))
  = erase_result (sec_result_of A init (txs_of_sec s (sort_txs (number a)))).
Proof. exact Layout.independent_of_other_securities. Qed.
Check C08_independent : forall (A : arith) init s a b i,
  interleave a b i ->
  Forall (fun y => N.eqb (t_sec y) s = false) b ->
  erase_result (sec_result_of A init (txs_of_sec s (sort_txs (number i))))
  = erase_result (sec_result_of A init (txs_of_sec s (sort_txs (number a)))).
Print Assumptions C08_independent.

Local Open Scope Z_scope.
Definition q (n : Z) (d : positive) := Qcfrac n d.
Definition mk sec sd a :=
  {| t_sec := sec; t_td := sd; t_sd := sd; t_act := a; t_af := default_aff; t_glob := false; t_ri := 0 |}.
Definition rows_a : list tx := [mk 0 10 (Buy (q 5 1) (q 2 1) (q 0 1) (q 1 1) (q 1 1));
                                mk 0 20 (Sell (q 2 1) (q 3 1) (q 0 1) (q 1 1) (q 1 1) None)].
Definition rows_b : list tx := [mk 1 15 (Sell (q 9 1) (q 3 1) (q 0 1) (q 1 1) (q 1 1) None)].
Definition rows_i : list tx := [nth 0 rows_a (mk 0 0 (Roc (q 0 1) (q 1 1))); nth 0 rows_b (mk 0 0 (Roc (q 0 1) (q 1 1)));
                                nth 1 rows_a (mk 0 0 (Roc (q 0 1) (q 1 1)))].
Example C08_nonvacuous :
  interleave rows_a rows_b rows_i /\
  match run_app exact [] (number rows_i) with
  | Ok [(0%N, (ds0, None)); (1%N, ([], Some (SRej RejOversale)))] => length ds0 = 2%nat
  | _ => False
  end.
Proof. split; [repeat constructor | vm_compute; reflexivity]. Qed.

(* ======================================================================
   The rest of C08: rendered tables, aggregate gains, errors stay local.
   Model: Model/Render.v (render_results / render_app: the whole composition
   ledger result -> per-security gains -> aggregate -> tables) and
   Model/AppRender.v (its per-security components).  Proofs: Proofs/C08Table.v,
   Proofs/C08Agg.v. *)
From ACB Require Import Model.CsvFields Model.Gains Model.Render Model.AppRender
     Proofs.GainsProps Proofs.RenderProps Proofs.C08Table Proofs.C08Agg.

(* The report of a run, security by security: the entry of security s in the
   report (run_acb_app_to_render_model's security_tables) exists exactly for
   the securities that have a row; it carries the error of s's OWN ledger
   outcome and the table rendered from s's OWN outcome ([own_table]: its deltas
   - all of them, or those before its error - with its own gains, or the empty
   gains record when it failed).  Any arithmetic, both print modes. *)
Theorem C08_report_entry : forall (A : arith) full cur inits rows rep s,
  render_app A full cur inits rows = Ok rep ->
  (In s (securities (sort_txs rows)) ->
     exists t, table_of s rep = Some (snd (outcome_of A inits rows s), t) /\
               own_table A full cur (outcome_of A inits rows s) = Ok t) /\
  (~ In s (securities (sort_txs rows)) -> table_of s rep = None).
Proof. exact C08Agg.report_entry. Qed.
Check C08_report_entry : forall (A : arith) full cur inits rows rep s,
  render_app A full cur inits rows = Ok rep ->
  (In s (securities (sort_txs rows)) ->
     exists t, table_of s rep = Some (snd (outcome_of A inits rows s), t) /\
               own_table A full cur (outcome_of A inits rows s) = Ok t) /\
  (~ In s (securities (sort_txs rows)) -> table_of s rep = None).
Print Assumptions C08_report_entry.

(* Read indices (positions in the concatenated input) do not appear in a table
   except as the token of the memo cell - the last column, whose text is the
   row's own memo: rendering deltas with erased read indices gives the same
   table with that token blanked.  [cur] (the currency codes of a row) must be
   the row's own, not a matter of its position. *)
Theorem C08_read_index_only_in_memo : forall (A : arith) full cur,
  (forall t, cur (erase t) = cur t) ->
  forall ds g,
  render_table A full cur (map erase_d ds) g = Render.map_res blank_memo (render_table A full cur ds g).
Proof. exact C08Table.render_table_erase. Qed.
Check C08_read_index_only_in_memo : forall (A : arith) full cur,
  (forall t, cur (erase t) = cur t) ->
  forall ds g,
  render_table A full cur (map erase_d ds) g = Render.map_res blank_memo (render_table A full cur ds g).
Print Assumptions C08_read_index_only_in_memo.

(* The rendered table of security s (rows, footer labels and figures, both
   notes; [full] = either print mode), its error slot and its own gains are the
   same in the run on ANY interleaving i of a with rows b of other securities
   as in the run on a alone - whatever b contains (invalid rows, over-sales,
   panics of the model).  Any arithmetic. *)
Theorem C08_table_independent : forall (A : arith) full cur,
  (forall t, cur (erase t) = cur t) ->
  forall init s a b i,
  interleave a b i ->
  Forall (fun y => N.eqb (t_sec y) s = false) b ->
  let ri := sec_result_of A init (txs_of_sec s (sort_txs (number i))) in
  let ra := sec_result_of A init (txs_of_sec s (sort_txs (number a))) in
  snd ri = snd ra /\ own_errors ri = own_errors ra /\
  own_gains A ri = own_gains A ra /\
  footer_gains A ri = footer_gains A ra /\
  Render.map_res blank_memo (own_table A full cur ri) = Render.map_res blank_memo (own_table A full cur ra).
Proof. exact C08Table.table_independent. Qed.
Check C08_table_independent : forall (A : arith) full cur,
  (forall t, cur (erase t) = cur t) ->
  forall init s a b i,
  interleave a b i ->
  Forall (fun y => N.eqb (t_sec y) s = false) b ->
  let ri := sec_result_of A init (txs_of_sec s (sort_txs (number i))) in
  let ra := sec_result_of A init (txs_of_sec s (sort_txs (number a))) in
  snd ri = snd ra /\ own_errors ri = own_errors ra /\
  own_gains A ri = own_gains A ra /\
  footer_gains A ri = footer_gains A ra /\
  Render.map_res blank_memo (own_table A full cur ri) = Render.map_res blank_memo (own_table A full cur ra).
Print Assumptions C08_table_independent.

(* What the code does with a failing security: it has no entry in
   security_gains, so neither the rows computed before its error nor anything
   else of it reaches the aggregate - the aggregate of the run IS the aggregate
   of the run without that security's rows (same additions in the same order:
   ANY arithmetic, rust_decimal rounding included). *)
Theorem C08_aggregate_ignores_failed : forall (A : arith) inits i t e,
  snd (outcome_of A inits (number i) t) = Some e ->
  app_aggregate A (results A inits i) = app_aggregate A (results A inits (without t i)).
Proof. exact C08Agg.aggregate_ignores_failed. Qed.
Check C08_aggregate_ignores_failed : forall (A : arith) inits i t e,
  snd (outcome_of A inits (number i) t) = Some e ->
  app_aggregate A (results A inits i) = app_aggregate A (results A inits (without t i)).
Print Assumptions C08_aggregate_ignores_failed.

(* A bookkeeping error is the failing security's only.  If security t fails
   (rejection or panic outcome of its ledger), then for every other security s:
   its outcome (up to read indices), error slot, own totals and rendered table
   are those of the run WITHOUT t's rows; the other securities reported are the
   same; the aggregate is that of the run without t's rows; t itself has no
   totals (empty footer record) and carries exactly its own error. *)
Theorem C08_error_is_local : forall (A : arith) full cur,
  (forall t, cur (erase t) = cur t) ->
  forall inits i t e,
  snd (outcome_of A inits (number i) t) = Some e ->
  (forall s, s <> t ->
     let ri := outcome_of A inits (number i) s in
     let r' := outcome_of A inits (number (without t i)) s in
     erase_result ri = erase_result r' /\
     snd ri = snd r' /\ own_errors ri = own_errors r' /\
     own_gains A ri = own_gains A r' /\ footer_gains A ri = footer_gains A r' /\
     Render.map_res blank_memo (own_table A full cur ri) = Render.map_res blank_memo (own_table A full cur r')) /\
  (forall s, s <> t -> (In s (securities (sort_txs (number i)))
                        <-> In s (securities (sort_txs (number (without t i)))))) /\
  ~ In t (securities (sort_txs (number (without t i)))) /\
  app_aggregate A (results A inits i) = app_aggregate A (results A inits (without t i)) /\
  own_gains A (outcome_of A inits (number i) t) = Ok None /\
  footer_gains A (outcome_of A inits (number i) t) = Ok gains0 /\
  own_errors (outcome_of A inits (number i) t) = [e].
Proof. exact C08Agg.error_is_local. Qed.
Check C08_error_is_local : forall (A : arith) full cur,
  (forall t, cur (erase t) = cur t) ->
  forall inits i t e,
  snd (outcome_of A inits (number i) t) = Some e ->
  (forall s, s <> t ->
     let ri := outcome_of A inits (number i) s in
     let r' := outcome_of A inits (number (without t i)) s in
     erase_result ri = erase_result r' /\
     snd ri = snd r' /\ own_errors ri = own_errors r' /\
     own_gains A ri = own_gains A r' /\ footer_gains A ri = footer_gains A r' /\
     Render.map_res blank_memo (own_table A full cur ri) = Render.map_res blank_memo (own_table A full cur r')) /\
  (forall s, s <> t -> (In s (securities (sort_txs (number i)))
                        <-> In s (securities (sort_txs (number (without t i)))))) /\
  ~ In t (securities (sort_txs (number (without t i)))) /\
  app_aggregate A (results A inits i) = app_aggregate A (results A inits (without t i)) /\
  own_gains A (outcome_of A inits (number i) t) = Ok None /\
  footer_gains A (outcome_of A inits (number i) t) = Ok gains0 /\
  own_errors (outcome_of A inits (number i) t) = [e].
Print Assumptions C08_error_is_local.

(* ... and on the reports themselves (when both runs produce one): every other
   security's entry - error slot and table - is unchanged, the aggregate table
   is identical, and t's entry shows t's error over a footer with the single
   line "Total" (no years). *)
Theorem C08_report_error_is_local : forall (A : arith) full cur,
  (forall t, cur (erase t) = cur t) ->
  forall inits i t e rep rep',
  snd (outcome_of A inits (number i) t) = Some e ->
  render_app A full cur inits (number i) = Ok rep ->
  render_app A full cur inits (number (without t i)) = Ok rep' ->
  (forall s, s <> t -> option_map blank_entry (table_of s rep) = option_map blank_entry (table_of s rep')) /\
  rp_aggregate rep = rp_aggregate rep' /\
  table_of t rep' = None /\
  (In t (map t_sec i) ->
     exists tb, table_of t rep = Some (Some e, tb) /\ tb_labels tb = [LTotal] /\ length (tb_values tb) = 1%nat).
Proof. exact C08Agg.report_error_is_local. Qed.
Check C08_report_error_is_local : forall (A : arith) full cur,
  (forall t, cur (erase t) = cur t) ->
  forall inits i t e rep rep',
  snd (outcome_of A inits (number i) t) = Some e ->
  render_app A full cur inits (number i) = Ok rep ->
  render_app A full cur inits (number (without t i)) = Ok rep' ->
  (forall s, s <> t -> option_map blank_entry (table_of s rep) = option_map blank_entry (table_of s rep')) /\
  rp_aggregate rep = rp_aggregate rep' /\
  table_of t rep' = None /\
  (In t (map t_sec i) ->
     exists tb, table_of t rep = Some (Some e, tb) /\ tb_labels tb = [LTotal] /\ length (tb_values tb) = 1%nat).
Print Assumptions C08_report_error_is_local.

(* The one outcome that is NOT local: a panic of one security's ledger is the
   abort of the process - there is no report for anybody (that valid inputs do
   not panic is C05). *)
Theorem C08_panic_aborts_report : forall (A : arith) full cur secs s ds p,
  In (s, (ds, Some (SPanic p))) secs -> exists p', render_results A full cur secs = Panic p'.
Proof. exact C08Agg.panic_aborts_report. Qed.
Check C08_panic_aborts_report : forall (A : arith) full cur secs s ds p,
  In (s, (ds, Some (SPanic p))) secs -> exists p', render_results A full cur secs = Panic p'.
Print Assumptions C08_panic_aborts_report.

(* Exact arithmetic: the aggregate gains of the run on an interleaving of a and
   b (disjoint securities) are those of the run on a plus those of the run on b
   - the total, every year's figure, and the set of years shown.  The aggregate
   of b counts the securities of b that process without error and nothing of
   the failing ones (C08_aggregate_ignores_failed, C08_aggregate_is_sum_of_tables).
   All three aggregates exist.  (Under rust_decimal rounding sums of 28-digit
   figures depend on the order of the additions - C09_sum_dec_unsorted_refuted -
   so the statement is for exact arithmetic; the order the code uses is fixed,
   C09_gains_sorted_perm.) *)
Theorem C08_aggregate_additive : forall inits a b i,
  interleave a b i ->
  (forall x y, In x a -> In y b -> t_sec x <> t_sec y) ->
  exists gi ga gb,
    app_aggregate exact (results exact inits i) = Ok gi /\
    app_aggregate exact (results exact inits a) = Ok ga /\
    app_aggregate exact (results exact inits b) = Ok gb /\
    (g_total gi = g_total ga + g_total gb)%Qc /\
    (forall y, (year_val y (g_years gi) = year_val y (g_years ga) + year_val y (g_years gb))%Qc) /\
    (forall y, In y (years_sorted gi) <-> In y (years_sorted ga) \/ In y (years_sorted gb)).
Proof. exact C08Agg.aggregate_additive. Qed.
Check C08_aggregate_additive : forall inits a b i,
  interleave a b i ->
  (forall x y, In x a -> In y b -> t_sec x <> t_sec y) ->
  exists gi ga gb,
    app_aggregate exact (results exact inits i) = Ok gi /\
    app_aggregate exact (results exact inits a) = Ok ga /\
    app_aggregate exact (results exact inits b) = Ok gb /\
    (g_total gi = g_total ga + g_total gb)%Qc /\
    (forall y, (year_val y (g_years gi) = year_val y (g_years ga) + year_val y (g_years gb))%Qc) /\
    (forall y, In y (years_sorted gi) <-> In y (years_sorted ga) \/ In y (years_sorted gb)).
Print Assumptions C08_aggregate_additive.

(* Exact arithmetic, the rendered report: there is a list gl of gains records,
   one per security, such that every table's footer shows exactly its record
   (labels Total + its years ascending, figures its total and yearly totals), a
   failed security's record is the empty one, and the aggregate table shows
   (years ascending, then "Since inception") the SUMS over gl: total, each
   year's figure, and exactly the years some table shows. *)
Theorem C08_aggregate_is_sum_of_tables : forall full cur secs rep,
  render_results exact full cur secs = Ok rep ->
  exists (gl : list gains) agg,
    Forall2 (fun g (y : N * option stop * table) => footer_shows full g (snd y)) gl (rp_tables rep) /\
    Forall2 (fun g (x : sec_result) => snd (snd x) <> None -> g = gains0) gl secs /\
    aggregate_shows full agg (rp_aggregate rep) /\
    g_total agg = sum_secs g_total gl /\
    (forall y, year_val y (g_years agg) = sum_secs (fun g => year_val y (g_years g)) gl) /\
    (forall y, In y (years_sorted agg) <-> exists g, In g gl /\ In y (years_sorted g)).
Proof. exact C08Agg.aggregate_is_sum_of_tables. Qed.
Check C08_aggregate_is_sum_of_tables : forall full cur secs rep,
  render_results exact full cur secs = Ok rep ->
  exists (gl : list gains) agg,
    Forall2 (fun g (y : N * option stop * table) => footer_shows full g (snd y)) gl (rp_tables rep) /\
    Forall2 (fun g (x : sec_result) => snd (snd x) <> None -> g = gains0) gl secs /\
    aggregate_shows full agg (rp_aggregate rep) /\
    g_total agg = sum_secs g_total gl /\
    (forall y, year_val y (g_years agg) = sum_secs (fun g => year_val y (g_years g)) gl) /\
    (forall y, In y (years_sorted agg) <-> exists g, In g gl /\ In y (years_sorted g)).
Print Assumptions C08_aggregate_is_sum_of_tables.

(* ---- non-vacuity: three securities, two years, one over-sale ----
   a: security 0: buy 10 at 2 (2019), sell 4 at 5 (2019: gain 12), sell 4 at 3 (2020: gain 4)
   b: security 1: buy 5 at 1, sell 2 at 4 (2019: gain 6), then sells 9 holding 3 -> rejected:
                  its two computed rows are shown, its gain of 6 counts nowhere;
      security 2: buy 3 at 10, sell 3 at 11 (2020: gain 3)
   i: an interleaving.  Aggregates: a = 12 / 4 / 16, b = - / 3 / 3, i = 12 / 7 / 19. *)
Definition c08_cur (t : tx) : bytes * bytes := (s_cad, s_cad).
Definition buy (sec : N) (day n p : Z) := mk sec day (Buy (q n 1) (q p 1) (q 0 1) (q 1 1) (q 1 1)).
Definition sell (sec : N) (day n p : Z) := mk sec day (Sell (q n 1) (q p 1) (q 0 1) (q 1 1) (q 1 1) None).
Definition ex_a : list tx := [buy 0 737100 10 2; sell 0 737200 4 5; sell 0 737500 4 3].
Definition ex_b : list tx := [buy 1 737110 5 1; sell 1 737210 2 4; buy 2 737120 3 10; sell 1 737510 9 4; sell 2 737520 3 11].
Definition ex_i : list tx :=
  [buy 1 737110 5 1; buy 0 737100 10 2; sell 1 737210 2 4; sell 0 737200 4 5; buy 2 737120 3 10;
   sell 1 737510 9 4; sell 0 737500 4 3; sell 2 737520 3 11].
Definition agg_texts (r : report) : list (label * amount) := map (fun x => (fst x, pm_amt (snd x))) (rp_aggregate r).
Definition footer_texts (s : N) (r : report) : option (option stop * nat * list label * list amount) :=
  match table_of s r with
  | Some (o, tb) => Some (o, length (tb_rows tb), tb_labels tb, map pm_amt (tb_values tb))
  | None => None
  end.
Definition t1200 : bytes := [49; 50; 46; 48; 48]%N.
Definition t1600 : bytes := [49; 54; 46; 48; 48]%N.
Definition t1900 : bytes := [49; 57; 46; 48; 48]%N.
Definition t400 : bytes := [52; 46; 48; 48]%N.
Definition t300 : bytes := [51; 46; 48; 48]%N.
Definition t700 : bytes := [55; 46; 48; 48]%N.
Definition t000 : bytes := [48; 46; 48; 48]%N.
Example C08_report_nonvacuous :
  interleave ex_a ex_b ex_i /\
  (forall x y, In x ex_a -> In y ex_b -> t_sec x <> t_sec y) /\
  (forall t, c08_cur (erase t) = c08_cur t) /\
  snd (outcome_of exact [] (number ex_i) 1) = Some (SRej RejOversale) /\
  without 1 ex_i = [buy 0 737100 10 2; sell 0 737200 4 5; buy 2 737120 3 10; sell 0 737500 4 3; sell 2 737520 3 11] /\
  match render_app exact false c08_cur [] (number ex_i), render_app exact false c08_cur [] (number ex_a),
        render_app exact false c08_cur [] (number ex_b), render_app exact false c08_cur [] (number (without 1 ex_i)) with
  | Ok ri, Ok ra, Ok rb, Ok rw =>
      agg_texts ri = [(LYear 2019, AText t1200); (LYear 2020, AText t700); (LSince, AText t1900)] /\
      agg_texts ra = [(LYear 2019, AText t1200); (LYear 2020, AText t400); (LSince, AText t1600)] /\
      agg_texts rb = [(LYear 2020, AText t300); (LSince, AText t300)] /\
      agg_texts rw = agg_texts ri /\
      footer_texts 0 ri = Some (None, 3%nat, [LTotal; LYear 2019; LYear 2020], [AText t1600; AText t1200; AText t400]) /\
      footer_texts 0 ra = footer_texts 0 ri /\
      footer_texts 1 ri = Some (Some (SRej RejOversale), 2%nat, [LTotal], [AText t000]) /\
      footer_texts 1 rb = footer_texts 1 ri /\
      footer_texts 1 rw = None /\
      footer_texts 2 ri = Some (None, 2%nat, [LTotal; LYear 2020], [AText t300; AText t300]) /\
      footer_texts 2 rb = footer_texts 2 ri /\
      option_map blank_entry (table_of 0 ri) = option_map blank_entry (table_of 0 ra) /\
      option_map blank_entry (table_of 2 ri) = option_map blank_entry (table_of 2 rb) /\
      table_of 0 ri <> table_of 0 ra
  | _, _, _, _ => False
  end.
Proof.
  split; [repeat constructor|].
  split; [intros x y Hx Hy E; destruct Hx as [<-|[<-|[<-|[]]]]; destruct Hy as [<-|[<-|[<-|[<-|[<-|[]]]]]]; discriminate E|].
  split; [reflexivity|].
  vm_compute. repeat split. discriminate.
Qed.

(* Under rust_decimal rounding the additivity of the aggregate is NOT a theorem:
   with own totals of 28 digits the aggregate of three securities differs (in
   the last digit) from the sum of the aggregate of the first and the aggregate
   of the other two.  No input a user could have; the statement above is
   therefore for exact arithmetic, and what holds for rust_decimal rounding is
   C08_aggregate_ignores_failed. *)
Theorem C08_aggregate_additive_dec_refuted :
  exists la lb gi ga gb,
    aggregate Arith.dec gains0 (la ++ lb) = Ok gi /\ aggregate Arith.dec gains0 la = Ok ga /\
    aggregate Arith.dec gains0 lb = Ok gb /\
    g_total gi <> (g_total ga + g_total gb)%Qc /\ a_add Arith.dec (g_total ga) (g_total gb) <> Ok (g_total gi).
Proof. exact C08Agg.aggregate_additive_dec_refuted. Qed.
Check C08_aggregate_additive_dec_refuted :
  exists la lb gi ga gb,
    aggregate Arith.dec gains0 (la ++ lb) = Ok gi /\ aggregate Arith.dec gains0 la = Ok ga /\
    aggregate Arith.dec gains0 lb = Ok gb /\
    g_total gi <> (g_total ga + g_total gb)%Qc /\ a_add Arith.dec (g_total ga) (g_total gb) <> Ok (g_total gi).
Print Assumptions C08_aggregate_additive_dec_refuted.
