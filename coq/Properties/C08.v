(* C08 - Securities are computed independently; one security's error stays local. *)
From Coq Require Import List NArith ZArith QArith Qcanon Bool.
From ACB Require Import Base.Outcome Base.QcExtra Base.Arith Model.Tx Model.Ledger Model.Sfl
     Model.DeltaList Model.App Proofs.EraseRi Proofs.SortLayout Proofs.Layout.
Import ListNotations.

(* The application result is, per security, a function of that security's
   rows (as sorted) and its opening position only - never of another
   security's rows or outcome; a failure (rejection or even a panic of the
   model) of one security is that security's entry.  Any arithmetic. *)
Theorem C08_per_security : forall (A : arith) inits rows,
  run_app A inits rows
  = Ok (map (fun s => (s, sec_result_of A (init_for inits s) (txs_of_sec s (sort_txs rows))))
            (securities (sort_txs rows))).
Proof. exact Layout.run_app_per_security. Qed.
Check C08_per_security : forall (A : arith) inits rows,
  run_app A inits rows
  = Ok (map (fun s => (s, sec_result_of A (init_for inits s) (txs_of_sec s (sort_txs rows))))
            (securities (sort_txs rows))).
Print Assumptions C08_per_security.

(* For ANY interleaving i of an input a with rows b of other securities
   (valid or not, failing or not), the report of a security s of a is the
   same (up to the read indices, which are positions in the concatenated
   input).  Read indices are assigned by position (number). *)
Theorem C08_independent : forall (A : arith) init s a b i,
  interleave a b i ->
  Forall (fun y => N.eqb (t_sec y) s = false) b ->
  erase_result (sec_result_of A init (txs_of_sec s (sort_txs (number i))))
  = erase_result (sec_result_of A init (txs_of_sec s (sort_txs (number a)))).
Proof. exact Layout.independent_of_other_securities. Qed.
Check C08_independent : forall (A : arith) init s a b i,
  interleave a b i ->
  Forall (fun y => N.eqb (t_sec y) s = false) b ->
  erase_result (sec_result_of A init (txs_of_sec s (sort_txs (number i))))
  = erase_result (sec_result_of A init (txs_of_sec s (sort_txs (number a)))).
Print Assumptions C08_independent.

Local Open Scope Z_scope.
Definition q (n : Z) (d : positive) := Qcfrac n d.
Definition mk sec sd a :=
  {| t_sec := sec; t_td := sd; t_sd := sd; t_act := a; t_af := default_aff; t_glob := false; t_ri := 0 |}.
Definition rows_a : list tx := [mk 0 10 (Buy (q 5 1) (q 2 1) (q 0 1) (q 1 1) (q 1 1));
                                mk 0 20 (Sell (q 2 1) (q 3 1) (q 0 1) (q 1 1) (q 1 1) None)].
Definition rows_b : list tx := [mk 1 15 (Sell (q 9 1) (q 3 1) (q 0 1) (q 1 1) (q 1 1) None)].
Definition rows_i : list tx := [nth 0 rows_a (mk 0 0 (Roc (q 0 1) (q 1 1))); nth 0 rows_b (mk 0 0 (Roc (q 0 1) (q 1 1)));
                                nth 1 rows_a (mk 0 0 (Roc (q 0 1) (q 1 1)))].
Example C08_nonvacuous :
  interleave rows_a rows_b rows_i /\
  match run_app exact [] (number rows_i) with
  | Ok [(0%N, (ds0, None)); (1%N, ([], Some (SRej RejOversale)))] => length ds0 = 2%nat
  | _ => False
  end.
Proof. split; [repeat constructor | vm_compute; reflexivity]. Qed.
